// Unit `svlogic`: DPI svLogicVecVal and VCD/FST dump encodings of simulator values (crates/analyzer/src/value.rs), property C36.
// The tables below are written out from IEEE 1800-2023 Annex H.10.1.2 / the VCD/FST character set, independently of the code;
// every harness states the per-bit fact with a SYMBOLIC bit index (= for all bits) and runs natively for counterexample replay.
pub mod spec {
    use crate::value::{Value, ValueU64};

    /// a 4-state logic value
    #[derive(Clone, Copy, PartialEq, Eq, Debug)]
    pub enum L4 { Zero, One, Z, X }

    /// IEEE 1800 Annex H (svLogicVecVal): meaning of one (aval, bval) bit pair.
    ///   aval bval
    ///    0    0    -> 0
    ///    1    0    -> 1
    ///    0    1    -> Z
    ///    1    1    -> X
    pub fn annex_h(aval_bit: bool, bval_bit: bool) -> L4 {
        match (aval_bit, bval_bit) {
            (false, false) => L4::Zero,
            (true, false) => L4::One,
            (false, true) => L4::Z,
            (true, true) => L4::X,
        }
    }
    /// Internal encoding of a 4-state bit in ValueU64 / ValueBigUint: (payload, mask_xz) = 0:(0,0) 1:(1,0) X:(0,1) Z:(1,1)
    pub fn internal(payload_bit: bool, mask_xz_bit: bool) -> L4 {
        match (payload_bit, mask_xz_bit) {
            (false, false) => L4::Zero,
            (true, false) => L4::One,
            (false, true) => L4::X,
            (true, true) => L4::Z,
        }
    }
    /// VCD scalar value of a 4-state bit
    pub fn vcd_of(v: L4) -> vcd::Value {
        match v { L4::Zero => vcd::Value::V0, L4::One => vcd::Value::V1, L4::X => vcd::Value::X, L4::Z => vcd::Value::Z }
    }
    /// FST / VCD character of a 4-state bit
    pub fn char_of(v: L4) -> u8 {
        match v { L4::Zero => b'0', L4::One => b'1', L4::X => b'x', L4::Z => b'z' }
    }

    pub fn bit64(x: u64, k: usize) -> bool { k < 64 && (x >> k) & 1 == 1 }
    pub fn bit32(x: u32, k: usize) -> bool { k < 32 && (x >> k) & 1 == 1 }
    pub fn rmask(w: usize) -> u64 { if w >= 64 { !0u64 } else { !(!0u64 << w) } }
    /// bit k of a <=64-bit value
    pub fn vb(v: &ValueU64, k: usize) -> L4 { internal(bit64(v.payload, k), bit64(v.mask_xz, k)) }

    /// representation invariant of a sized <=64-bit value: 1 <= width <= 64, nothing stored above the width
    pub fn wf_sized(v: &ValueU64) -> bool {
        let w = v.width as usize;
        w >= 1 && w <= 64 && v.payload & !rmask(w) == 0 && v.mask_xz & !rmask(w) == 0
    }
    pub fn any_wf_sized() -> ValueU64 {
        let v = ValueU64 { payload: kani::any(), mask_xz: kani::any(), width: kani::any(), signed: kani::any() };
        kani::assume(wf_sized(&v));
        v
    }
    /// Contract of Value::to_vcd_value on sized <=64-bit values. Harness `vcd_value_bit` proves the real function equal to this for
    /// every wf value and every i; `fst_bits` then uses it in place of the real function (assume-guarantee), checking the precondition.
    pub fn to_vcd_value_contract(v: &Value, i: u64) -> vcd::Value {
        let x = u(v);
        assert!(wf_sized(x), "to_vcd_value contract used outside its precondition");
        vcd_of(if i < x.width as u64 { vb(x, i as usize) } else { L4::Zero })
    }
    /// Model of Vec::with_capacity for to_fst_bits (n <= 64 asserted): a vector whose capacity is the constant 64 >= n. std documents
    /// "at least the specified capacity"; the capacity is not observable in the returned bytes. With a constant capacity CBMC can
    /// discard the reallocation path of every push.
    pub fn vec_with_capacity_64<T>(n: usize) -> Vec<T> {
        assert!(n <= 64, "capacity model used outside its range");
        let mut v = Vec::new();
        v.reserve_exact(64);
        v
    }
    pub fn u(v: &Value) -> &ValueU64 {
        match v { Value::U64(x) => x, _ => panic!("a <=64-bit value must stay in the <=64-bit representation") }
    }
}

pub mod harness {
    use super::spec::*;
    use crate::value::vp_inner::{iter_at, iter_pos, iter_value};
    use crate::value::{SvLogicVecVal, Value, ValueU64};

    // ---------------- DPI decode: &[svLogicVecVal] -> Value, len 1 and 2 (everything that lands in the <=64-bit representation)
    #[vp_small(4)]
    pub fn decode_len1() {
        let s = [SvLogicVecVal { aval: kani::any(), bval: kani::any() }];
        let j: usize = kani::any();
        kani::assume(j < 32);
        let v = Value::from(&s[..]);
        let r = u(&v);
        assert!(r.width == 32 && !r.signed);
        assert!(r.payload >> 32 == 0 && r.mask_xz >> 32 == 0);
        assert!(vb(r, j) == annex_h(bit32(s[0].aval, j), bit32(s[0].bval, j)));
    }
    #[vp_small(4)]
    pub fn decode_len2() {
        let s = [SvLogicVecVal { aval: kani::any(), bval: kani::any() }, SvLogicVecVal { aval: kani::any(), bval: kani::any() }];
        let k: usize = kani::any();
        let j: usize = kani::any();
        kani::assume(k < 2 && j < 32);
        let v = Value::from(&s[..]);
        let r = u(&v);
        assert!(r.width == 64 && !r.signed);
        // word k of the array carries bits 32k .. 32k+31 (Annex H: least significant word first)
        assert!(vb(r, 32 * k + j) == annex_h(bit32(s[k].aval, j), bit32(s[k].bval, j)));
    }

    // ---------------- DPI encode: Value -> Vec<svLogicVecVal>, every well-formed value of width 1..=64
    #[vp_small(4)]
    pub fn encode_bits() {
        let x = any_wf_sized();
        let w = x.width as usize;
        let e: Vec<SvLogicVecVal> = (&Value::U64(x.clone())).into();
        assert!(e.len() == (w + 31) / 32);
        let k: usize = kani::any();
        let j: usize = kani::any();
        kani::assume(k < e.len() && j < 32);
        let i = 32 * k + j;
        let got = annex_h(bit32(e[k].aval, j), bit32(e[k].bval, j));
        // bits of the value carry its 4-state value; padding bits above the width are 0 (aval 0, bval 0)
        assert!(got == if i < w { vb(&x, i) } else { L4::Zero });
    }

    // ---------------- round trips
    #[vp_small(4)]
    pub fn roundtrip_decode_encode() {
        // encode(decode(s)) == s for every array of 1 and of 2 words
        let s1 = [SvLogicVecVal { aval: kani::any(), bval: kani::any() }];
        let e1: Vec<SvLogicVecVal> = (&Value::from(&s1[..])).into();
        assert!(e1.len() == 1 && e1[0] == s1[0]);
        let s2 = [SvLogicVecVal { aval: kani::any(), bval: kani::any() }, SvLogicVecVal { aval: kani::any(), bval: kani::any() }];
        let e2: Vec<SvLogicVecVal> = (&Value::from(&s2[..])).into();
        assert!(e2.len() == 2 && e2[0] == s2[0] && e2[1] == s2[1]);
    }
    #[vp_small(4)]
    pub fn roundtrip_encode_decode() {
        // decode(encode(v)) == v up to zero padding to a multiple of 32 bits (and the sign flag, which svLogicVecVal does not carry)
        let x = any_wf_sized();
        let w = x.width as usize;
        let e: Vec<SvLogicVecVal> = (&Value::U64(x.clone())).into();
        let d = Value::from(&e[..]);
        let r = u(&d);
        assert!(r.width as usize == 32 * ((w + 31) / 32) && !r.signed);
        assert!(r.payload == x.payload && r.mask_xz == x.mask_xz);
    }

    // ---------------- VCD / FST dumps
    #[vp_vcd(4)]
    pub fn vcd_value_bit() {
        let x = any_wf_sized();
        let i: u64 = kani::any();
        let v = Value::U64(x.clone());
        // bit i of the value; positions at or above the width (and above 64) read as 0
        let want = if i < x.width as u64 { vb(&x, i as usize) } else { L4::Zero };
        assert!(v.to_vcd_value(i) == vcd_of(want));
        assert!(v.to_vcd_value(i) == to_vcd_value_contract(&v, i));
        assert!(vcd::Value::from(&v) == vcd_of(vb(&x, 0)));
    }
    fn fst_msb_first(x: &ValueU64) {
        let w = x.width as usize;
        let k: usize = kani::any();
        kani::assume(k < w);
        let b = Value::U64(x.clone()).to_fst_bits();
        assert!(b.len() == w);
        // MSB first: entry 0 is bit w-1, entry w-1 is bit 0
        assert!(b[w - 1 - k] == char_of(vb(x, k)));
    }
    /// complete (every width 1..=64), modular: to_vcd_value replaced by its contract (proved by `vcd_value_bit`), Vec::with_capacity by a
    /// constant-capacity model
    #[vp_fst(66)]
    pub fn fst_bits() {
        let x = any_wf_sized();
        fst_msb_first(&x);
    }
    /// bounded stand-in (width <= 4) of the same statement with nothing replaced (real BigUint::from(u64)/bit path, real Vec::with_capacity)
    #[vp_vcd(6)]
    pub fn fst_bits_direct() {
        let x = any_wf_sized();
        kani::assume(x.width <= 4);
        fst_msb_first(&x);
    }

    // VcdValueIter: `next` is loop-free, so it is specified as a transition on an ARBITRARY iterator state (value, pos); "yields width items,
    // MSB first, then None" follows by induction on the number of calls from `vcd_iter_init` (pos == 0) and `vcd_iter_step`.
    #[vp_vcd(4)]
    pub fn vcd_iter_init() {
        let x = any_wf_sized();
        let v = Value::U64(x.clone());
        let it = (&v).into_iter();
        assert!(iter_pos(&it) == 0 && *iter_value(&it) == v);
    }
    #[vp_vcd(4)]
    pub fn vcd_iter_step() {
        let x = any_wf_sized();
        let w = x.width as u64;
        let pos: u64 = kani::any();
        let v = Value::U64(x.clone());
        let mut it = iter_at(v.clone(), pos);
        let r = it.next();
        if pos < w {
            // the item produced in state pos is bit w-1-pos, and the state advances by one
            assert!(r == Some(vcd_of(vb(&x, (w - 1 - pos) as usize))));
            assert!(iter_pos(&it) == pos + 1);
        } else {
            assert!(r.is_none() && iter_pos(&it) == pos);
        }
        assert!(*iter_value(&it) == v);
    }
    /// bounded stand-in (width <= 4): the whole iteration end to end
    #[vp_vcd(6)]
    pub fn vcd_iter_direct() {
        let x = any_wf_sized();
        kani::assume(x.width <= 4);
        let w = x.width as usize;
        let k: usize = kani::any();
        kani::assume(k < w);
        let v = Value::U64(x.clone());
        let want = vcd_of(vb(&x, k));
        let mut it = (&v).into_iter();
        let mut n: usize = 0;
        while let Some(item) = it.next() {
            assert!(n < w);
            // the n-th item is bit w-1-n
            if n == w - 1 - k { assert!(item == want); }
            n += 1;
        }
        assert!(n == w);
        assert!(it.next().is_none());
    }

    // ---------------- vacuity canary (must FAIL)
    #[vp_small(4)]
    pub fn canary_encode() {
        let x = any_wf_sized();
        let e: Vec<SvLogicVecVal> = (&Value::U64(x.clone())).into();
        // reachable with a two-word value that has an x/z bit in the upper word
        assert!(!(e.len() == 2 && e[1].bval != 0));
    }
}
