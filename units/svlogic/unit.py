"""U5 svlogic - DPI svLogicVecVal and VCD/FST dump encodings (C36). Back end: Kani/CBMC.
<=64-bit values: complete (loops bounded by len <= 2 / width <= 64, unwinding assertions on). >64 bits: bounded stand-ins."""
import re
from vp.core import KaniJob
from vp.extract import ExtractError
from vp.kani_run import Harness
from units.common import valuelib as VL

EXTRA_VALUE_FNS = ["to_vcd_value", "to_fst_bits"]
EXTRA_ITEMS = [
    ("impl", "From<&Value> for vcd::Value", None),
    ("impl", "IntoIterator for &Value", None),
    ("struct", "VcdValueIter", None),
    ("impl", "Iterator for VcdValueIter", None),
    ("struct", "SvLogicVecVal", None),
    ("impl", "From<&[SvLogicVecVal]> for Value", None),
    ("impl", "From<&Value> for Vec<SvLogicVecVal>", None),
]

DEPS = dict(VL.DEPS)
DEPS["vcd"] = '"0.7.0"'      # the real crate (same version as /repo/Cargo.lock): vcd::Value is not re-typed

# attribute sets. `small`: every big-integer entry point panics (E9) - decode/encode of <=64-bit values must not reach them.
# `vcd`: Value::payload()/mask_xz() legitimately go through BigUint::from(u64) + BigUint::bit, so only the ValueBigUint
# constructors / MaskCache::get are stubbed. `fst`: as `vcd` + Value::to_vcd_value replaced by its contract (proved separately) + constant-capacity model of Vec::with_capacity.
CTOR_STUBS = "\n".join(l for l in VL.STUB_ATTRS.splitlines() if "kani::stub(crate::value::" in l)
ATTRS = {
    "vp_small": VL.STUB_ATTRS,
    "vp_vcd": CTOR_STUBS,
    "vp_fst": CTOR_STUBS + "\n#[cfg_attr(kani, kani::stub(crate::value::Value::to_vcd_value, crate::spec::to_vcd_value_contract))]"
              "\n#[cfg_attr(kani, kani::stub(std::vec::Vec::with_capacity, crate::spec::vec_with_capacity_64))]",
}

# accessors for the private fields of VcdValueIter, placed INSIDE `pub mod value` (E1: harness-side text, nothing of the repo is changed):
# lets the harness put the iterator into an arbitrary state so that the loop-free `next` can be specified as a transition
INNER = """
pub mod vp_inner {
    use super::{Value, VcdValueIter};
    pub fn iter_at(value: Value, pos: u64) -> VcdValueIter { VcdValueIter { pos, value } }
    pub fn iter_pos(it: &VcdValueIter) -> u64 { it.pos }
    pub fn iter_value(it: &VcdValueIter) -> &Value { &it.value }
}
"""

HARNESSES = [
    # name, kind, function decided, bound
    ("decode_len1", "proof", "From<&[SvLogicVecVal]> for Value", None),
    ("decode_len2", "proof", "From<&[SvLogicVecVal]> for Value", None),
    ("encode_bits", "proof", "From<&Value> for Vec<SvLogicVecVal>", None),
    ("roundtrip_decode_encode", "proof", "From<&Value> for Vec<SvLogicVecVal>", None),
    ("roundtrip_encode_decode", "proof", "From<&[SvLogicVecVal]> for Value", None),
    ("vcd_value_bit", "proof", "Value::to_vcd_value", None),
    ("fst_bits", "proof", "Value::to_fst_bits", None),
    ("fst_bits_direct", "bounded", "Value::to_fst_bits", "width<=4"),
    ("vcd_iter_init", "proof", "IntoIterator for &Value", None),
    ("vcd_iter_step", "proof", "VcdValueIter::next", None),
    ("vcd_iter_direct", "bounded", "VcdValueIter::next", "width<=4"),
    ("canary_encode", "canary", "From<&Value> for Vec<SvLogicVecVal>", None),
]

TRUSTED = {
    r"kani::assume\(wf_sized": "harness precondition: representation invariant of a sized <=64-bit value (1 <= width <= 64, payload/mask_xz have no bit at or above "
                               "the width; established by unit value64 for every constructor/operation)",
    r"kani::stub\(crate::value::Value::to_vcd_value": "modular step: in fst_bits Value::to_vcd_value is replaced by its executable contract spec::to_vcd_value_contract "
                                                     "(which asserts its precondition); that the real function equals the contract for every wf value and every i is obligation kani:svlogic:vcd_value_bit",
    r"kani::stub\(std::vec::Vec::with_capacity": "allocation model: in fst_bits Vec::with_capacity(n) is replaced by spec::vec_with_capacity_64 (asserts n <= 64, returns an empty "
                                                  "vector of capacity 64): std only promises capacity >= n and the capacity is not observable in the result; fst_bits_direct "
                                                  "(width<=4) runs the same statement with nothing replaced",
    r"kani::assume\(": "harness quantifier ranges (bit index / word index within the array or width; width range of the bounded stand-ins)",
}
TRUSTED.update(VL.STUB_TRUST)


def expand(text):
    def f(m):
        return "#[cfg_attr(kani, kani::proof)]\n#[cfg_attr(kani, kani::unwind(%s))]\n%s" % (m.group(2), ATTRS[m.group(1)])
    return re.sub(r"#\[(vp_small|vp_vcd|vp_fst)\((\d+)\)\]", f, text)


def build(ctx, res):
    vtext, vitems = VL.value_module(ctx, extra_value_fns=EXTRA_VALUE_FNS, extra_items=EXTRA_ITEMS)
    raw = ctx.unit_file("svlogic", "harness.rs")
    if not vtext.endswith("}\n"):
        raise ExtractError("value module text does not end with its closing brace")
    vtext = vtext[:-2] + INNER + "}\n"
    lib = VL.PRELUDE + vtext + VL.BIG_STUBS + expand(raw)
    declared = re.findall(r"#\[vp_\w+\(\d+\)\]\s*pub fn (\w+)\(\)", raw)
    if sorted(declared) != sorted(n for n, _, _, _ in HARNESSES):
        raise ExtractError("harness.rs and unit.py disagree on the harness list: %s" % sorted(set(declared) ^ {n for n, _, _, _ in HARNESSES}))
    hs = [Harness("harness::" + n, kind=k, fn=f, bound=b) for n, k, f, b in HARNESSES]
    res.clauses.update({
        "tables": "Annex H: (aval,bval) 00->0 10->1 01->Z 11->X; internal (payload,mask_xz) 00->0 10->1 01->X 11->Z; VCD V0/V1/X/Z; FST '0','1','x','z' (harness.rs::spec)",
        "decode (len 1, 2)": "result is Value::U64, unsigned, width 32*len; for every word k and bit j: bit 32k+j of the result == Annex-H meaning of (aval_k>>j, bval_k>>j)",
        "encode (wf value, width 1..=64)": "len == ceil(width/32); for every word k, bit j: Annex-H meaning of (aval_k>>j, bval_k>>j) == bit 32k+j of the value, == 0 for padding bits >= width",
        "round trips": "encode(decode(s)) == s for every s of 1 and 2 words; decode(encode(v)) has v's payload and mask_xz, width rounded up to a multiple of 32, unsigned",
        "to_vcd_value": "for every i: u64: V0/V1/X/Z exactly for bit i of the value (bits >= width read 0); From<&Value> for vcd::Value is bit 0",
        "to_fst_bits": "[all widths 1..=64, to_vcd_value by its contract, constant-capacity Vec model; + direct stand-in width<=4] length == width; entry width-1-k == '0'/'1'/'x'/'z' for bit k, for every k < width (MSB first)",
        "VcdValueIter": "into_iter starts at pos 0 with a copy of the value; next() in ANY state (value wf, pos: u64): pos < width -> Some(bit width-1-pos), pos+1; "
                        "else None, state unchanged; value never changes. By induction: exactly width items, the n-th is bit width-1-n (MSB first), then None. "
                        "+ direct whole-iteration stand-in width<=4",
        "requires": "wf_sized(v): 1 <= width <= 64 and payload/mask_xz have no bit at or above width (both signednesses)",
    })
    res.samples.append({"obligation": "kani:svlogic:encode_bits", "contract": res.clauses["encode (wf value, width 1..=64)"]})
    res.notes.append("svlogic: width-0 values (unsized all-bit literals) encode to an empty array and are outside the contract; "
                     "Simulator::dump_variables and the VCD/FST writers themselves are not under contract")
    return [KaniJob("svlogic", lib, hs, deps=DEPS, items=vitems, trusted=TRUSTED, jobs=4, timeout=1500, per_harness_timeout=600)]
