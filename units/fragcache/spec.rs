// ---- unit `fragcache` (C06): ID plumbing of fragment capture / restore ------------------------------
// The codec itself (IdWindow::encode, IdRebase::decode, sentinel layer) is proved in unit `codec`; the spec
// functions enc/dec/enc_s/dec_s below are the same text. This unit proves which windows / counts / rebases /
// reserved ranges the real `watermark`, `capture`, `restore` hand to that codec and to the global tables.

pub open spec fn wf_window(w: IdWindow) -> bool { w.start <= w.end }
pub open spec fn in_window(w: IdWindow, id: usize) -> bool { w.start < id && id <= w.end }
pub open spec fn wf_rebase(r: IdRebase) -> bool { r.base + r.count <= usize::MAX }
pub open spec fn win_count(w: IdWindow) -> int { w.end - w.start }

pub open spec fn enc(w: IdWindow, id: usize) -> Option<u64> {
    if in_window(w, id) { Some((id - w.start - 1) as u64) } else { None }
}
pub open spec fn dec(r: IdRebase, local: u64) -> Option<usize> {
    if local < r.count { Some((r.base + local + 1) as usize) } else { None }
}
pub open spec fn enc_s(w: IdWindow, id: usize) -> Option<u64> {
    if id == 0 { Some(0u64) } else if in_window(w, id) { Some((id - w.start) as u64) } else { None }
}
pub open spec fn dec_s(r: IdRebase, v: u64) -> Option<usize> {
    if v == 0 { Some(0usize) } else if v - 1 < r.count { Some((r.base + v) as usize) } else { None }
}

// ---- ghost world: the thread-local state the three functions read and write ----------------------------
/// `Ghost<World>` is threaded through every outlined call (rule G1/G2). It is erased at run time.
pub struct World {
    // ID counters TOKEN_ID / TEXT_ID / SYMBOL_ID / DEFINITION_ID: value == last issued id
    pub token: usize,
    pub text: usize,
    pub symbol: usize,
    pub definition: usize,
    // codec sessions currently installed (thread-locals ENCODE / DECODE of veryl_parser::fragment_codec and
    // veryl_analyzer::fragment_codec). Parser session: (token_window, text_window) / (token_rebase, text_rebase).
    pub enc_p: Option<(IdWindow, IdWindow)>,
    pub enc_a: Option<EncodeSession>,
    pub dec_p: Option<(IdRebase, IdRebase)>,
    pub dec_a: Option<DecodeSession>,
    // history records; each is written by exactly one wrapper (named on the right) and by nothing else
    pub res_token: (usize, usize),        // (base, count) of the most recent reserve_token_ids
    pub res_text: (usize, usize),         //   .. reserve_text_ids
    pub res_symbol: (usize, usize),       //   .. reserve_symbol_ids
    pub res_definition: (usize, usize),   //   .. reserve_definition_ids
    pub reg_text: Option<usize>,          // id given to the most recent text_table::insert_with_id
    pub reg_text_content: Seq<char>,      //   .. and the text registered under it
    pub ser_under: Option<(Option<(IdWindow, IdWindow)>, Option<EncodeSession>)>,   // sessions installed while the most recent payload was serialised
    pub de_under: Option<(Option<(IdRebase, IdRebase)>, Option<DecodeSession>)>,    // sessions installed while the most recent payload was deserialised
    pub exp_symbol: (usize, usize),       // bounds given to the most recent symbol_table::export_fragment
    pub exp_literal: (usize, usize),      //   .. literal_table::export_in_window
    pub exp_definition: (usize, usize),   //   .. definition_table::export_in_window
}

pub open spec fn no_encode(w: World) -> bool { w.enc_p is None && w.enc_a is None }
pub open spec fn no_decode(w: World) -> bool { w.dec_p is None && w.dec_a is None }
pub open spec fn same_counters(a: World, b: World) -> bool {
    a.token == b.token && a.text == b.text && a.symbol == b.symbol && a.definition == b.definition
}
/// the decoded range of `r` lies inside the most recently reserved range `res` = (base, count): ids res.0+1 ..= res.0+res.1
pub open spec fn rebase_reserved(r: IdRebase, res: (usize, usize)) -> bool {
    res.0 <= r.base && r.base + r.count <= res.0 + res.1 && res.0 + res.1 <= usize::MAX
}
pub open spec fn window(start: usize, end: usize) -> IdWindow { IdWindow { start, end } }
pub open spec fn rebase(base: usize, count: usize) -> IdRebase { IdRebase { base, count } }

/// watermark taken earlier than (or at) world state `w`
spec fn wm_le(m: FragmentWatermark, w: World) -> bool {
    m.token <= w.token && m.text <= w.text && m.symbol <= w.symbol && m.definition <= w.definition
}

/// what capture promises about the encode sessions in force while the payload was serialised
spec fn capture_sessions(m: FragmentWatermark, w: World) -> (Option<(IdWindow, IdWindow)>, Option<EncodeSession>) {
    (Some((window(m.token, w.token), window(m.text, w.text))),
     Some(EncodeSession { symbol_window: window(m.symbol, w.symbol), definition_window: window(m.definition, w.definition) }))
}
/// what restore promises about the decode sessions in force while the payload was deserialised
spec fn restore_sessions(f: Fragment, w: World) -> (Option<(IdRebase, IdRebase)>, Option<DecodeSession>) {
    (Some((rebase(w.token, f.token_count), rebase(w.text, 1))),
     Some(DecodeSession { symbol_rebase: rebase(w.symbol, f.symbol_count), definition_rebase: rebase(w.definition, f.definition_count) }))
}

// ---- opaque types (carried, never inspected) -----------------------------------------------------------
#[verifier::external_type_specification]
#[verifier::external_body]
pub struct ExPathBuf(PathBuf);
#[verifier::external_type_specification]
#[verifier::external_body]
pub struct ExPath(Path);

#[verifier::external_body] pub struct PendingWatermark { _p: () }
#[verifier::external_body] pub struct SymbolTableFragment { _p: () }
#[verifier::external_body] pub struct Symbol { _p: () }
#[verifier::external_body] pub struct Namespace { _p: () }
#[verifier::external_body] pub struct Literal { _p: () }
#[verifier::external_body] pub struct TokenRange { _p: () }
#[verifier::external_body] pub struct Attribute { _p: () }
#[verifier::external_body] pub struct Unsafe { _p: () }
#[verifier::external_body] pub struct Definition { _p: () }
#[verifier::external_body] pub struct ReferenceCandidate { _p: () }
#[verifier::external_body] pub struct TypeDagCandidate { _p: () }
#[verifier::external_body] pub struct PendingEntry { _p: () }
/// veryl_parser::fragment_codec::EncodeSession / DecodeSession (hash maps + dictionaries): opaque, only their windows / rebases are visible
#[verifier::external_body] pub struct ParserEncodeSession { _p: () }
#[verifier::external_body] pub struct ParserDecodeSession { _p: () }
pub uninterp spec fn pes_windows(s: ParserEncodeSession) -> (IdWindow, IdWindow);
pub uninterp spec fn pds_rebases(s: ParserDecodeSession) -> (IdRebase, IdRebase);

// ---- counters ------------------------------------------------------------------------------------------
#[verifier::external_body]
fn vp_resource_table_peek_token_id(vp_w: &mut Ghost<World>) -> (r: usize)
    ensures *final(vp_w) == *old(vp_w), r == old(vp_w)@.token,
{ unimplemented!() }
#[verifier::external_body]
fn vp_text_table_peek_text_id(vp_w: &mut Ghost<World>) -> (r: usize)
    ensures *final(vp_w) == *old(vp_w), r == old(vp_w)@.text,
{ unimplemented!() }
#[verifier::external_body]
fn vp_symbol_peek_symbol_id(vp_w: &mut Ghost<World>) -> (r: usize)
    ensures *final(vp_w) == *old(vp_w), r == old(vp_w)@.symbol,
{ unimplemented!() }
#[verifier::external_body]
fn vp_definition_table_peek_definition_id(vp_w: &mut Ghost<World>) -> (r: usize)
    ensures *final(vp_w) == *old(vp_w), r == old(vp_w)@.definition,
{ unimplemented!() }

#[verifier::external_body]
fn vp_resource_table_reserve_token_ids(vp_w: &mut Ghost<World>, count: usize) -> (r: usize)
    requires old(vp_w)@.token + count <= usize::MAX,
    ensures r == old(vp_w)@.token,
        final(vp_w)@ == (World { token: (r + count) as usize, res_token: (r, count), ..old(vp_w)@ }),
{ unimplemented!() }
#[verifier::external_body]
fn vp_text_table_reserve_text_ids(vp_w: &mut Ghost<World>, count: usize) -> (r: usize)
    requires old(vp_w)@.text + count <= usize::MAX,
    ensures r == old(vp_w)@.text,
        final(vp_w)@ == (World { text: (r + count) as usize, res_text: (r, count), ..old(vp_w)@ }),
{ unimplemented!() }
#[verifier::external_body]
fn vp_symbol_reserve_symbol_ids(vp_w: &mut Ghost<World>, count: usize) -> (r: usize)
    requires old(vp_w)@.symbol + count <= usize::MAX,
    ensures r == old(vp_w)@.symbol,
        final(vp_w)@ == (World { symbol: (r + count) as usize, res_symbol: (r, count), ..old(vp_w)@ }),
{ unimplemented!() }
#[verifier::external_body]
fn vp_definition_table_reserve_definition_ids(vp_w: &mut Ghost<World>, count: usize) -> (r: usize)
    requires old(vp_w)@.definition + count <= usize::MAX,
    ensures r == old(vp_w)@.definition,
        final(vp_w)@ == (World { definition: (r + count) as usize, res_definition: (r, count), ..old(vp_w)@ }),
{ unimplemented!() }

// ---- codec sessions (protocol: begin on a free slot, end on an occupied one) ---------------------------
#[verifier::external_body]
fn vp_parser_encode_session_new(token_window: IdWindow, text_window: IdWindow) -> (r: ParserEncodeSession)
    ensures pes_windows(r) == (token_window, text_window),
{ unimplemented!() }
#[verifier::external_body]
fn vp_parser_decode_session_new(strings: &Vec<String>, paths: &Vec<PathBuf>, token_rebase: IdRebase, text_rebase: IdRebase) -> (r: ParserDecodeSession)
    ensures pds_rebases(r) == (token_rebase, text_rebase),
{ unimplemented!() }

#[verifier::external_body]
fn vp_parser_codec_begin_encode(vp_w: &mut Ghost<World>, session: ParserEncodeSession)
    requires old(vp_w)@.enc_p is None, wf_window(pes_windows(session).0), wf_window(pes_windows(session).1),
    ensures final(vp_w)@ == (World { enc_p: Some(pes_windows(session)), ..old(vp_w)@ }),
{ unimplemented!() }
#[verifier::external_body]
fn vp_fragment_codec_begin_encode(vp_w: &mut Ghost<World>, session: EncodeSession)
    requires old(vp_w)@.enc_a is None, wf_window(session.symbol_window), wf_window(session.definition_window),
    ensures final(vp_w)@ == (World { enc_a: Some(session), ..old(vp_w)@ }),
{ unimplemented!() }
#[verifier::external_body]
fn vp_fragment_codec_end_encode(vp_w: &mut Ghost<World>)
    requires old(vp_w)@.enc_a is Some,
    ensures final(vp_w)@ == (World { enc_a: None, ..old(vp_w)@ }),
{ unimplemented!() }
#[verifier::external_body]
fn vp_parser_codec_end_encode(vp_w: &mut Ghost<World>) -> (r: Option<EncodeDicts>)
    requires old(vp_w)@.enc_p is Some,
    ensures final(vp_w)@ == (World { enc_p: None, ..old(vp_w)@ }), r is Some,
{ unimplemented!() }

#[verifier::external_body]
fn vp_parser_codec_begin_decode(vp_w: &mut Ghost<World>, session: ParserDecodeSession)
    requires old(vp_w)@.dec_p is None,
        // doc comment of DecodeSession::new: "The caller must have reserved `token_rebase`/`text_rebase` ranges."
        rebase_reserved(pds_rebases(session).0, old(vp_w)@.res_token), rebase_reserved(pds_rebases(session).1, old(vp_w)@.res_text),
    ensures final(vp_w)@ == (World { dec_p: Some(pds_rebases(session)), ..old(vp_w)@ }),
{ unimplemented!() }
#[verifier::external_body]
fn vp_fragment_codec_begin_decode(vp_w: &mut Ghost<World>, session: DecodeSession)
    requires old(vp_w)@.dec_a is None,
        rebase_reserved(session.symbol_rebase, old(vp_w)@.res_symbol), rebase_reserved(session.definition_rebase, old(vp_w)@.res_definition),
    ensures final(vp_w)@ == (World { dec_a: Some(session), ..old(vp_w)@ }),
{ unimplemented!() }
#[verifier::external_body]
fn vp_fragment_codec_end_decode(vp_w: &mut Ghost<World>)
    requires old(vp_w)@.dec_a is Some,
    ensures final(vp_w)@ == (World { dec_a: None, ..old(vp_w)@ }),
{ unimplemented!() }
#[verifier::external_body]
fn vp_parser_codec_end_decode(vp_w: &mut Ghost<World>)
    requires old(vp_w)@.dec_p is Some,
    ensures final(vp_w)@ == (World { dec_p: None, ..old(vp_w)@ }),
{ unimplemented!() }

// ---- serde / postcard: result arbitrary; must run with both sessions installed --------------------------
#[verifier::external_body]
fn vp_serialize(vp_w: &mut Ghost<World>, payload: &FragmentPayload) -> (r: Result<Vec<u8>, String>)
    requires old(vp_w)@.enc_p is Some, old(vp_w)@.enc_a is Some,
    ensures final(vp_w)@ == (World { ser_under: Some((old(vp_w)@.enc_p, old(vp_w)@.enc_a)), ..old(vp_w)@ }),
{ unimplemented!() }
#[verifier::external_body]
fn vp_deserialize(vp_w: &mut Ghost<World>, bytes: &Vec<u8>) -> (r: Result<FragmentPayload, String>)
    requires old(vp_w)@.dec_p is Some, old(vp_w)@.dec_a is Some,
    ensures final(vp_w)@ == (World { de_under: Some((old(vp_w)@.dec_p, old(vp_w)@.dec_a)), ..old(vp_w)@ }),
{ unimplemented!() }

// ---- text table: the file's source text goes under the id local text id 0 decodes to ---------------------
#[verifier::external_body]
fn vp_text_table_insert_with_id(vp_w: &mut Ghost<World>, id: TextId, info: TextInfo)
    requires
        old(vp_w)@.res_text.0 + old(vp_w)@.res_text.1 <= usize::MAX,
        dec(rebase(old(vp_w)@.res_text.0, old(vp_w)@.res_text.1), 0) == Some(id.0),
    ensures final(vp_w)@ == (World { reg_text: Some(id.0), reg_text_content: info.text@, ..old(vp_w)@ }),
{ unimplemented!() }

// ---- tables: exports (capture) --------------------------------------------------------------------------
#[verifier::external_body]
fn vp_resource_table_insert_path(vp_w: &mut Ghost<World>, value: &Path) -> (r: PathId)
    ensures *final(vp_w) == *old(vp_w),
{ unimplemented!() }
#[verifier::external_body]
fn vp_symbol_table_pending_watermark(vp_w: &mut Ghost<World>) -> (r: PendingWatermark)
    ensures *final(vp_w) == *old(vp_w),
{ unimplemented!() }
#[verifier::external_body]
fn vp_reference_table_candidates_len(vp_w: &mut Ghost<World>) -> (r: usize)
    ensures *final(vp_w) == *old(vp_w),
{ unimplemented!() }
#[verifier::external_body]
fn vp_type_dag_candidates_len(vp_w: &mut Ghost<World>) -> (r: usize)
    ensures *final(vp_w) == *old(vp_w),
{ unimplemented!() }
#[verifier::external_body]
fn vp_generic_inference_table_pending_len(vp_w: &mut Ghost<World>) -> (r: usize)
    ensures *final(vp_w) == *old(vp_w),
{ unimplemented!() }
#[verifier::external_body]
fn vp_doc_comment_table_export_by_path(vp_w: &mut Ghost<World>, path: PathId) -> (r: Vec<(u32, StrId)>)
    ensures *final(vp_w) == *old(vp_w),
{ unimplemented!() }
#[verifier::external_body]
fn vp_symbol_table_export_fragment(vp_w: &mut Ghost<World>, symbol_window_start: usize, symbol_window_end: usize, watermark: &PendingWatermark) -> (r: SymbolTableFragment)
    ensures final(vp_w)@ == (World { exp_symbol: (symbol_window_start, symbol_window_end), ..old(vp_w)@ }),
{ unimplemented!() }
#[verifier::external_body]
fn vp_scope_export_tokens_by_path(vp_w: &mut Ghost<World>, path: PathId) -> (r: Vec<(TokenId, Namespace)>)
    ensures *final(vp_w) == *old(vp_w),
{ unimplemented!() }
#[verifier::external_body]
fn vp_literal_table_export_in_window(vp_w: &mut Ghost<World>, start: usize, end: usize) -> (r: Vec<(TokenId, Literal)>)
    ensures final(vp_w)@ == (World { exp_literal: (start, end), ..old(vp_w)@ }),
{ unimplemented!() }
#[verifier::external_body]
fn vp_attribute_table_export_by_path(vp_w: &mut Ghost<World>, path: PathId) -> (r: Vec<(TokenRange, Attribute)>)
    ensures *final(vp_w) == *old(vp_w),
{ unimplemented!() }
#[verifier::external_body]
fn vp_unsafe_table_export_by_path(vp_w: &mut Ghost<World>, path: PathId) -> (r: Vec<(TokenRange, Unsafe)>)
    ensures *final(vp_w) == *old(vp_w),
{ unimplemented!() }
#[verifier::external_body]
fn vp_definition_table_export_in_window(vp_w: &mut Ghost<World>, start: usize, end: usize) -> (r: Vec<(DefinitionId, Definition)>)
    ensures final(vp_w)@ == (World { exp_definition: (start, end), ..old(vp_w)@ }),
{ unimplemented!() }
#[verifier::external_body]
fn vp_reference_table_export_candidates_since(vp_w: &mut Ghost<World>, since: usize) -> (r: Vec<ReferenceCandidate>)
    ensures *final(vp_w) == *old(vp_w),
{ unimplemented!() }
#[verifier::external_body]
fn vp_type_dag_export_candidates_since(vp_w: &mut Ghost<World>, since: usize) -> (r: Vec<TypeDagCandidate>)
    ensures *final(vp_w) == *old(vp_w),
{ unimplemented!() }
#[verifier::external_body]
fn vp_generic_inference_table_export_pending_since(vp_w: &mut Ghost<World>, since: usize) -> (r: Vec<PendingEntry>)
    ensures *final(vp_w) == *old(vp_w),
{ unimplemented!() }

// ---- tables: insertions (restore); their effect on the tables is outside this unit ------------------------
#[verifier::external_body]
fn vp_doc_comment_table_insert(vp_w: &mut Ghost<World>, path: PathId, line: u32, text: StrId)
    ensures *final(vp_w) == *old(vp_w),
{ unimplemented!() }
#[verifier::external_body]
fn vp_symbol_table_restore_fragment(vp_w: &mut Ghost<World>, fragment: SymbolTableFragment) -> (r: Result<(), Box<Symbol>>)
    ensures *final(vp_w) == *old(vp_w),
{ unimplemented!() }
#[verifier::external_body]
fn vp_scope_insert_token(vp_w: &mut Ghost<World>, id: TokenId, path: PathId, namespace: &Namespace)
    ensures *final(vp_w) == *old(vp_w),
{ unimplemented!() }
#[verifier::external_body]
fn vp_literal_table_insert(vp_w: &mut Ghost<World>, id: TokenId, literal: Literal)
    ensures *final(vp_w) == *old(vp_w),
{ unimplemented!() }
#[verifier::external_body]
fn vp_attribute_table_insert(vp_w: &mut Ghost<World>, range: TokenRange, attribute: Attribute)
    ensures *final(vp_w) == *old(vp_w),
{ unimplemented!() }
#[verifier::external_body]
fn vp_unsafe_table_insert(vp_w: &mut Ghost<World>, range: TokenRange, value: Unsafe)
    ensures *final(vp_w) == *old(vp_w),
{ unimplemented!() }
#[verifier::external_body]
fn vp_definition_table_insert_with_id(vp_w: &mut Ghost<World>, prj: StrId, id: DefinitionId, definition: Definition)
    ensures *final(vp_w) == *old(vp_w),
{ unimplemented!() }
#[verifier::external_body]
fn vp_reference_table_add(vp_w: &mut Ghost<World>, candidate: ReferenceCandidate)
    ensures *final(vp_w) == *old(vp_w),
{ unimplemented!() }
#[verifier::external_body]
fn vp_type_dag_add(vp_w: &mut Ghost<World>, candidate: TypeDagCandidate)
    ensures *final(vp_w) == *old(vp_w),
{ unimplemented!() }
#[verifier::external_body]
fn vp_generic_inference_table_push_pending(vp_w: &mut Ghost<World>, entry: PendingEntry)
    ensures *final(vp_w) == *old(vp_w),
{ unimplemented!() }

// ---- std ------------------------------------------------------------------------------------------------
#[verifier::external_body]
fn vp_msg() -> (r: String) { String::new() }
#[verifier::external_body]
fn vp_to_path_buf(p: &Path) -> (r: PathBuf) { unimplemented!() }

// ---- lemmas: what the contracts of capture / restore mean for ids (tie to unit codec) ---------------------

/// every id decoded through a rebase whose range was reserved lies inside the reserved ids base+1 ..= base+count, and nothing else decodes
proof fn lemma_decoded_in_reserved(r: IdRebase, res: (usize, usize), local: u64)
    requires rebase_reserved(r, res),
    ensures
        wf_rebase(r),
        local < r.count ==> dec(r, local) is Some && res.0 < dec(r, local).unwrap() && dec(r, local).unwrap() <= res.0 + res.1,
        local >= r.count ==> dec(r, local) is None,
        // sentinel layer (SymbolId / DefinitionId): 0 stays 0, everything else lands in the reserved ids
        dec_s(r, local) is Some && local != 0 ==> res.0 < dec_s(r, local).unwrap() && dec_s(r, local).unwrap() <= res.0 + res.1,
        local > r.count ==> dec_s(r, local) is None,
{}

/// restore's rebase {base: counter before, count} decodes onto exactly the ids the matching reserve call handed out
proof fn lemma_restore_range(base: usize, count: usize, x: usize)
    requires base + count <= usize::MAX,
    ensures
        rebase_reserved(rebase(base, count), (base, count)),
        (base < x && x <= base + count) <==> (exists|local: u64| local < count && dec(rebase(base, count), local) == Some(x)),
{
    if base < x && x <= base + count {
        let local = (x - base - 1) as u64;
        assert(local < count && dec(rebase(base, count), local) == Some(x));
    }
}

/// "all ID offsets": a window captured at (start, end] and restored at base `b` with count == end - start (the count capture stores
/// and restore reserves) maps id start + k to b + k, for every 1 <= k <= count, whatever start and b are
proof fn lemma_all_offsets(start: usize, end: usize, b: usize, k: int)
    requires start <= end, b + (end - start) <= usize::MAX, 1 <= k <= end - start,
    ensures ({
        let w = window(start, end);
        let r = rebase(b, (end - start) as usize);
        let id = (start + k) as usize;
        &&& win_count(w) == r.count
        &&& enc(w, id) is Some
        &&& dec(r, enc(w, id).unwrap()) == Some((b + k) as usize)
        &&& enc_s(w, id) is Some && enc_s(w, id).unwrap() != 0
        &&& dec_s(r, enc_s(w, id).unwrap()) == Some((b + k) as usize)
    }),
{}

/// nothing outside the captured window is stored, the sentinel 0 survives, and with the single text id the file's text id maps to base + 1
proof fn lemma_window_refusal_and_text(start: usize, end: usize, b: usize, id: usize)
    requires start <= end,
    ensures
        !(start < id && id <= end) ==> enc(window(start, end), id) is None,
        !(start < id && id <= end) && id != 0 ==> enc_s(window(start, end), id) is None,
        enc_s(window(start, end), 0) == Some(0u64) && dec_s(rebase(b, (end - start) as usize), 0) == Some(0usize),
        end - start == 1 && b + 1 <= usize::MAX ==> enc(window(start, end), end) == Some(0u64) && dec(rebase(b, 1), 0) == Some((b + 1) as usize),
{}

/// modular composition: capture a file, then restore the fragment it returned (later, at whatever the counters then are):
/// the decode rebases cover exactly as many ids as the encode windows held, and the text is registered under the image of the window's one text id
fn vp_capture_then_restore(src_path: &Path, source_text: &str, watermark: &FragmentWatermark, prj: StrId, vp_w: &mut Ghost<World>) -> (r: Result<(), FragmentError>)
    requires
        wm_le(*watermark, old(vp_w)@), no_encode(old(vp_w)@), no_decode(old(vp_w)@),
        2 * old(vp_w)@.token <= usize::MAX, 2 * old(vp_w)@.symbol <= usize::MAX, 2 * old(vp_w)@.definition <= usize::MAX, old(vp_w)@.text < usize::MAX,
    ensures
        no_encode(final(vp_w)@), no_decode(final(vp_w)@),
        r is Ok ==> ({
            let w0 = old(vp_w)@;
            let w1 = final(vp_w)@;
            let (ep, ea) = w1.ser_under.unwrap();
            let (dp, da) = w1.de_under.unwrap();
            &&& ep.unwrap().0 == window(watermark.token, w0.token) && dp.unwrap().0 == rebase(w0.token, (w0.token - watermark.token) as usize)
            &&& ep.unwrap().1 == window(watermark.text, w0.text) && dp.unwrap().1 == rebase(w0.text, 1) && win_count(ep.unwrap().1) == 1
            &&& ea.unwrap().symbol_window == window(watermark.symbol, w0.symbol) && da.unwrap().symbol_rebase == rebase(w0.symbol, (w0.symbol - watermark.symbol) as usize)
            &&& ea.unwrap().definition_window == window(watermark.definition, w0.definition) && da.unwrap().definition_rebase == rebase(w0.definition, (w0.definition - watermark.definition) as usize)
            &&& w1.reg_text == dec(dp.unwrap().1, enc(ep.unwrap().1, w0.text).unwrap())
        }),
{
    let fragment = capture(src_path, source_text, watermark, vp_w)?;
    restore(&fragment, prj, vp_w)
}
