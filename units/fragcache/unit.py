"""U13 fragcache — ID plumbing of fragment capture / restore (C06). Back end: Verus.

Real bodies of `watermark`, `capture`, `restore` (crates/analyzer/src/fragment_cache.rs). Every call into a global table, a codec
session, the serializer or std is outlined, by the per-call rules below, into an `external_body` wrapper (units/fragcache/spec.rs).
The thread-local ID counters and codec sessions are modelled by ghost state `World`, threaded as one extra parameter:

  G1  the function under contract gets one more, last, parameter `vp_w: &mut Ghost<World>` (erased at run time)
  G2  a call `<m>::<f>(args)` with <m> one of the table / codec modules (MODS) becomes `vp_<m>_<f>(vp_w, args)`
  G3  `parser_codec::EncodeSession::new(a, b)` -> `vp_parser_encode_session_new(a, b)`;
      `parser_codec::DecodeSession::new(a, ..)` -> `vp_parser_decode_session_new(a, ..)` (no world parameter: a nested `&mut` borrow is not
      accepted as an argument of the enclosing call; that it re-interns strings/paths without touching counters or sessions is a stated assumption)
  P1  `fragment_codec::EncodeSession {` / `fragment_codec::DecodeSession {` lose the module path (single-file verification; the structs are extracted)
  O-serde  `postcard::to_allocvec(&payload)` -> `vp_serialize(vp_w, &payload)`; `postcard::from_bytes(&fragment.payload)` -> `vp_deserialize(vp_w, &fragment.payload)`
  O4  `format!(..)` -> `vp_msg()`
  O8  error-mapping closures `|x| FragmentError::K(e)` get a result name and `ensures o is K` (Verus needs closure contracts); body text unchanged
  O9  `src_path.to_path_buf()` -> `vp_to_path_buf(src_path)`
  V1  `pub fn` -> `fn` on the three functions (their contracts mention private fields; Verus rejects that on a public function of the single-file crate)
  TL  (counter functions) `X.with(|f| *f.borrow())` -> `*vp_ctr`; `X.with(|f| { let mut ret = f.borrow_mut(); S })` -> `{ let ret = vp_ctr; S }`,
      the cell becoming a parameter `vp_ctr: &usize` / `&mut usize`
"""
from vp.core import VerusJob
from vp.verus_run import VerusFile

F = "crates/analyzer/src/fragment_cache.rs"
AC = "crates/analyzer/src/fragment_codec.rs"
PC = "crates/parser/src/fragment_codec.rs"
RT = "crates/parser/src/resource_table.rs"
TT = "crates/parser/src/text_table.rs"
SY = "crates/analyzer/src/symbol.rs"
DT = "crates/analyzer/src/definition_table.rs"

MODS = ("resource_table|text_table|symbol_table|symbol|definition_table|reference_table|type_dag|generic_inference_table|"
        "doc_comment_table|scope|literal_table|attribute_table|unsafe_table|parser_codec|fragment_codec")

FRAME = "leaves the ID counters, the codec sessions and the history records of the ghost world unchanged (it calls none of new_*_id / reserve_*_ids / begin_* / end_*)"

TRUSTED = {
    r"struct ExPathBuf|struct ExPath\b": "std::path::{Path, PathBuf} are opaque external types (carried, not interpreted)",
    r"pub struct (PendingWatermark|SymbolTableFragment|Symbol|Namespace|Literal|TokenRange|Attribute|Unsafe|Definition|ReferenceCandidate|TypeDagCandidate|PendingEntry) ":
        "payload element types are opaque (fields never inspected by capture/restore)",
    r"pub struct Parser(En|De)codeSession": "veryl_parser::fragment_codec::{EncodeSession, DecodeSession} are opaque; only their windows / rebases are visible (pes_windows / pds_rebases, uninterpreted)",
    r"uninterp spec fn": "pes_windows() / pds_rebases(): the windows / rebases a parser codec session was built with",
    r"fn vp_(resource_table_peek_token_id|text_table_peek_text_id|symbol_peek_symbol_id|definition_table_peek_definition_id)":
        "G2: peek_*_id outlined; assumed: returns the thread-local counter (== world.<counter>) and changes nothing. The real bodies are checked against the same contract over a `&usize` cell (rule TL, obligations peek_*_id)",
    r"fn vp_(resource_table_reserve_token_ids|text_table_reserve_text_ids|symbol_reserve_symbol_ids|definition_table_reserve_definition_ids)":
        "G2: reserve_*_ids(count) outlined; assumed: returns the counter's previous value `base`, the counter becomes base + count (reserved ids base+1..=base+count), records (base, count) in world.res_*; "
        "obligation on the caller: base + count fits usize. The real bodies are checked against the same contract over a `&mut usize` cell (rule TL, obligations reserve_*_ids)",
    r"fn vp_parser_encode_session_new": "G3: parser EncodeSession::new outlined; assumed: the session carries exactly the two windows given (body: `Self { token_window, text_window, ..Default::default() }`)",
    r"fn vp_parser_decode_session_new": "G3: parser DecodeSession::new outlined; assumed: the session carries exactly the two rebases given and re-interning strings/paths " + FRAME
                                        + " (implicit: the wrapper has no world parameter); the doc comment's obligation 'the caller must have reserved the ranges' is checked at begin_decode",
    r"fn vp_parser_codec_begin_encode|fn vp_fragment_codec_begin_encode": "G2: begin_encode outlined; assumed: installs the session (world.enc_p / enc_a := Some); obligation on the caller: slot free, windows start <= end",
    r"fn vp_fragment_codec_end_encode|fn vp_parser_codec_end_encode": "G2: end_encode outlined; assumed: clears the slot, parser side returns Some(dictionaries) when a session was installed; obligation on the caller: a session is installed",
    r"fn vp_parser_codec_begin_decode|fn vp_fragment_codec_begin_decode": "G2: begin_decode outlined; assumed: installs the session (world.dec_p / dec_a := Some); obligation on the caller: slot free, every rebase range inside the most recently reserved range of its kind",
    r"fn vp_fragment_codec_end_decode|fn vp_parser_codec_end_decode": "G2: end_decode outlined; assumed: clears the slot; obligation on the caller: a session is installed",
    r"fn vp_serialize": "O-serde: postcard::to_allocvec(&FragmentPayload) outlined; result arbitrary; assumed: records the installed encode sessions in world.ser_under and changes nothing else; obligation on the caller: both encode sessions installed",
    r"fn vp_deserialize": "O-serde: postcard::from_bytes::<FragmentPayload> outlined; result arbitrary; assumed: records the installed decode sessions in world.de_under and changes nothing else; obligation on the caller: both decode sessions installed",
    r"fn vp_text_table_insert_with_id": "G2: text_table::insert_with_id outlined; assumed: records the id in world.reg_text and the text in world.reg_text_content, nothing else changes; obligation on the caller: the id is what local text id 0 decodes to in the most recently reserved text range",
    r"fn vp_symbol_table_export_fragment|fn vp_literal_table_export_in_window|fn vp_definition_table_export_in_window":
        "G2: window exporters outlined; result opaque; assumed: records the (start, end) bounds it was given in world.exp_*, nothing else changes",
    r"fn vp_(resource_table_insert_path|symbol_table_pending_watermark|reference_table_candidates_len|type_dag_candidates_len|generic_inference_table_pending_len|"
    r"doc_comment_table_export_by_path|scope_export_tokens_by_path|attribute_table_export_by_path|unsafe_table_export_by_path|reference_table_export_candidates_since|"
    r"type_dag_export_candidates_since|generic_inference_table_export_pending_since)": "G2: table read / intern call outlined; result opaque; assumed: " + FRAME,
    r"fn vp_(doc_comment_table_insert|symbol_table_restore_fragment|scope_insert_token|literal_table_insert|attribute_table_insert|unsafe_table_insert|"
    r"definition_table_insert_with_id|reference_table_add|type_dag_add|generic_inference_table_push_pending)":
        "G2: table insertion outlined (its effect on the table is outside this unit); assumed: " + FRAME,
    r"fn vp_msg": "O4: error-message construction `format!(..)` outlined to an uninterpreted String",
    r"fn vp_to_path_buf": "O9: Path::to_path_buf outlined (result opaque)",
}

CANARIES = [
    ("vp_canary_capture", "proof fn vp_canary_capture(m: FragmentWatermark, w: World) requires wm_le(m, w), no_encode(w), no_decode(w), w.text - m.text == 1, w.token - m.token > 3 ensures false {}"),
    ("vp_canary_restore", "proof fn vp_canary_restore(f: Fragment, w: World) requires no_decode(w), no_encode(w), w.token + f.token_count <= usize::MAX, w.text + 1 <= usize::MAX, "
                          "w.symbol + f.symbol_count <= usize::MAX, w.definition + f.definition_count <= usize::MAX, f.token_count > 0, w.token > 0 ensures false {}"),
    ("vp_canary_offsets", "proof fn vp_canary_offsets(start: usize, end: usize, b: usize, k: int) requires start <= end, b + (end - start) <= usize::MAX, 1 <= k <= end - start ensures false {}"),
    ("vp_canary_reserved", "proof fn vp_canary_reserved(r: IdRebase, res: (usize, usize), local: u64) requires rebase_reserved(r, res), local < r.count ensures false {}"),
]

WATERMARK_POST = """
    ensures
        *final(vp_w) == *old(vp_w),
        r.token == old(vp_w)@.token, r.text == old(vp_w)@.text, r.symbol == old(vp_w)@.symbol, r.definition == old(vp_w)@.definition,
        wm_le(r, final(vp_w)@),
"""

CAPTURE_POST = """
    requires
        // the watermark was taken earlier; no codec session is installed
        wm_le(*watermark, old(vp_w)@), no_encode(old(vp_w)@),
    ensures
        // sessions closed again on every path; counters and decode side untouched
        no_encode(final(vp_w)@), same_counters(final(vp_w)@, old(vp_w)@),
        final(vp_w)@.dec_p == old(vp_w)@.dec_p, final(vp_w)@.dec_a == old(vp_w)@.dec_a,
        // refusal: anything but exactly one text id in the window is NonCacheable, and nothing gets serialised
        old(vp_w)@.text - watermark.text != 1 ==> r is Err && final(vp_w)@.ser_under == old(vp_w)@.ser_under,
        r is Err ==> r->Err_0 is NonCacheable,
        // otherwise the payload was serialised under exactly the windows (watermark.X, X_now], X in token/text/symbol/definition,
        // and the window exporters saw the same bounds
        old(vp_w)@.text - watermark.text == 1 ==> {
            &&& final(vp_w)@.ser_under == Some(capture_sessions(*watermark, old(vp_w)@))
            &&& final(vp_w)@.exp_symbol == (watermark.symbol, old(vp_w)@.symbol)
            &&& final(vp_w)@.exp_literal == (watermark.token, old(vp_w)@.token)
            &&& final(vp_w)@.exp_definition == (watermark.definition, old(vp_w)@.definition)
        },
        // the stored counts are IdWindow::count() of those windows
        r is Ok ==> {
            &&& old(vp_w)@.text - watermark.text == 1
            &&& r->Ok_0.token_count == win_count(window(watermark.token, old(vp_w)@.token))
            &&& r->Ok_0.symbol_count == win_count(window(watermark.symbol, old(vp_w)@.symbol))
            &&& r->Ok_0.definition_count == win_count(window(watermark.definition, old(vp_w)@.definition))
            &&& r->Ok_0.source_text@ == source_text@
        },
"""

RESTORE_POST = """
    requires
        no_decode(old(vp_w)@),
        // 2^64 ids are not exhausted
        old(vp_w)@.token + fragment.token_count <= usize::MAX, old(vp_w)@.text + 1 <= usize::MAX,
        old(vp_w)@.symbol + fragment.symbol_count <= usize::MAX, old(vp_w)@.definition + fragment.definition_count <= usize::MAX,
    ensures
        // reserves exactly token_count / 1 / symbol_count / definition_count ids, starting at the current counters
        final(vp_w)@.res_token == (old(vp_w)@.token, fragment.token_count), final(vp_w)@.token == old(vp_w)@.token + fragment.token_count,
        final(vp_w)@.res_text == (old(vp_w)@.text, 1usize), final(vp_w)@.text == old(vp_w)@.text + 1,
        final(vp_w)@.res_symbol == (old(vp_w)@.symbol, fragment.symbol_count), final(vp_w)@.symbol == old(vp_w)@.symbol + fragment.symbol_count,
        final(vp_w)@.res_definition == (old(vp_w)@.definition, fragment.definition_count), final(vp_w)@.definition == old(vp_w)@.definition + fragment.definition_count,
        // the payload was deserialised under rebases {base: counter before, count: the count reserved}
        final(vp_w)@.de_under == Some(restore_sessions(*fragment, old(vp_w)@)),
        // the source text is registered under the id local text id 0 decodes to
        final(vp_w)@.reg_text == dec(rebase(old(vp_w)@.text, 1), 0),
        final(vp_w)@.reg_text == Some((old(vp_w)@.text + 1) as usize), final(vp_w)@.reg_text_content == fragment.source_text@,
        // decode sessions closed on every path (error return included); encode side untouched
        no_decode(final(vp_w)@), final(vp_w)@.enc_p == old(vp_w)@.enc_p, final(vp_w)@.enc_a == old(vp_w)@.enc_a,
        final(vp_w)@.ser_under == old(vp_w)@.ser_under,
        r is Err ==> r->Err_0 is Restore,
"""

LOOP_INV = "        invariant vp_w@ == vp_wl,"


def g2(f):
    """rule G2 on one function item"""
    f.sub_opt(r"\b(%s)::(\w+)\(\)" % MODS, r"vp_\1_\2(vp_w)", rule="G2")
    f.sub_opt(r"\b(%s)::(\w+)\((?!\))" % MODS, r"vp_\1_\2(vp_w, ", rule="G2")


def o8(f, count):
    """rule O8: `.map_err(|x| FragmentError::K(e))?;` -> `.map_err(|x| -> (o: FragmentError) ensures o is K { FragmentError::K(e) })?;`"""
    f.sub(r"\|x\| (?=FragmentError::(\w+)\()", r"|x| -> (o: FragmentError) ensures o is \1 { ", count=count, rule="O8")
    f.sub(r"\)(?=\)\?;)", ") }", count=count, rule="O8")


def counter_fn(src, name, mutable):
    """rule TL: the thread-local counter cell becomes a parameter"""
    f = src.item("fn", name)
    f.name_return("r")
    if mutable:
        f.replace(name + "(count: usize)", name + "(vp_ctr: &mut usize, count: usize)", rule="TL")
        f.sub(r"\w+\.with\(\|f\| \{\s*let mut ret = f\.borrow_mut\(\);", "{\n        let ret = vp_ctr;", count=1, rule="TL")
        f.sub(r"\}\)\s*\}\s*$", "}\n}", count=1, rule="TL")
        f.spec("    requires *old(vp_ctr) + count <= usize::MAX,\n    ensures r == *old(vp_ctr), *final(vp_ctr) == r + count,")
    else:
        f.replace(name + "()", name + "(vp_ctr: &usize)", rule="TL")
        f.sub(r"\w+\.with\(\|f\| \*f\.borrow\(\)\)", "*vp_ctr", count=1, rule="TL")
        f.spec("    ensures r == *vp_ctr,")
    return f


def build(ctx, res):
    s, ac, pc = ctx.src(F), ctx.src(AC), ctx.src(PC)
    rt, tt, sy, dt = ctx.src(RT), ctx.src(TT), ctx.src(SY), ctx.src(DT)
    hdr = "use vstd::prelude::*;\nuse std::path::{Path, PathBuf};\nverus! {\nglobal size_of usize == 8;\n"
    vf = VerusFile(header=hdr)
    items = []

    def add(it, label=None):
        items.append(it)
        vf.item(it, label)

    ALL = ("Debug", "Default", "Clone", "Copy", "PartialEq", "Eq", "Hash", "PartialOrd", "Ord", "Serialize", "Deserialize")
    for src, name in [(rt, "StrId"), (rt, "PathId"), (rt, "TokenId"), (tt, "TextId"), (dt, "DefinitionId"), (tt, "TextInfo"),
                      (pc, "IdWindow"), (pc, "IdRebase"), (pc, "EncodeDicts"), (ac, "EncodeSession"), (ac, "DecodeSession"),
                      (s, "FragmentWatermark"), (s, "FragmentPayload"), (s, "Fragment"), (s, "FragmentError")]:
        it = src.item("enum" if name == "FragmentError" else "struct", name)
        # Clone/Copy stay on the plain-data types; they go where a field type is opaque (E3)
        keep = () if name in ("FragmentWatermark", "FragmentPayload", "Fragment", "FragmentError", "TextInfo", "EncodeDicts") else ("Clone", "Copy")
        it.strip_derive(*[d for d in ALL if d not in keep])
        add(it)

    vf.raw("impl IdWindow {", "impl")
    f = pc.item("fn", "count", impl="IdWindow")
    f.name_return("r")
    f.spec("    requires wf_window(*self),\n    ensures r == win_count(*self),")
    add(f, "IdWindow::count")
    vf.raw("}", "impl")

    # the eight counter functions, real bodies over a cell parameter (rule TL)
    for src, name, mut in [(rt, "peek_token_id", False), (rt, "reserve_token_ids", True), (tt, "peek_text_id", False), (tt, "reserve_text_ids", True),
                           (sy, "peek_symbol_id", False), (sy, "reserve_symbol_ids", True), (dt, "peek_definition_id", False), (dt, "reserve_definition_ids", True)]:
        add(counter_fn(src, name, mut))

    f = s.item("fn", "watermark")
    f.name_return("r")
    f.replace("pub fn watermark()", "fn watermark(vp_w: &mut Ghost<World>)", rule="G1+V1")
    g2(f)
    f.spec(WATERMARK_POST)
    add(f)

    f = s.item("fn", "capture")
    f.name_return("r")
    f.replace("pub fn capture(", "fn capture(", rule="V1")
    f.replace("watermark: &FragmentWatermark,\n)", "watermark: &FragmentWatermark,\n    vp_w: &mut Ghost<World>,\n)", rule="G1")
    g2(f)
    f.replace("parser_codec::EncodeSession::new(", "vp_parser_encode_session_new(", rule="G3")
    f.replace("fragment_codec::EncodeSession {", "EncodeSession {", rule="P1")
    f.replace("postcard::to_allocvec(&payload)", "vp_serialize(vp_w, &payload)", rule="O-serde")
    f.replace_macro("format", "vp_msg()")
    o8(f, 1)
    f.replace("src_path.to_path_buf()", "vp_to_path_buf(src_path)", rule="O9")
    f.spec(CAPTURE_POST)
    add(f)

    f = s.item("fn", "restore")
    f.name_return("r")
    f.replace("pub fn restore(", "fn restore(", rule="V1")
    f.replace("prj: StrId)", "prj: StrId, vp_w: &mut Ghost<World>)", rule="G1")
    g2(f)
    f.replace("parser_codec::DecodeSession::new(", "vp_parser_decode_session_new(", rule="G3")
    f.replace("fragment_codec::DecodeSession {", "DecodeSession {", rule="P1")
    f.replace("postcard::from_bytes(&fragment.payload)", "vp_deserialize(vp_w, &fragment.payload)", rule="O-serde")
    f.replace_macro("format", "vp_msg()")
    o8(f, 2)
    f.spec(RESTORE_POST)
    # every table-insertion loop keeps the ghost world as it was when the loop was entered
    n = len(f.loops)
    for k in range(n):
        f.before_loop(k, "    let ghost vp_wl = vp_w@;")
        f.loop_spec(k, LOOP_INV)
    add(f)

    vf.raw(ctx.unit_file("fragcache", "spec.rs"), "spec")
    text = vf.finish()
    res.clauses.update({
        "watermark": "ensures token/text/symbol/definition == the current counters; world unchanged",
        "capture": "requires watermark <= counters, no encode session installed; ensures Err(NonCacheable) and nothing serialised unless text_now - watermark.text == 1; "
                   "payload serialised under windows (watermark.X, X_now] for token/text/symbol/definition; exporters called with the same bounds; "
                   "Ok(f): f.token_count/symbol_count/definition_count == X_now - watermark.X; both encode sessions closed on every path; counters unchanged; every Err is NonCacheable",
        "restore": "requires no decode session installed, counters + counts fit usize; ensures reserves exactly token_count / 1 / symbol_count / definition_count ids at the current counters; "
                   "payload deserialised under rebases {base: counter before, count: same count}; source text registered under dec({text_base,1},0) == text_base+1; "
                   "both decode sessions closed on every path; every Err is Restore",
        "peek_*_id / reserve_*_ids": "real bodies over a cell parameter: peek returns the cell; reserve returns the old value and adds count",
        "lemmas": "decoded ids lie in the reserved range and nothing else decodes; restore's rebase is onto exactly the reserved ids; id start+k -> base+k for all 1<=k<=count at every start/base (plain and sentinel codec); "
                  "refusal outside the window; capture-then-restore composition from the two contracts only",
    })
    res.samples.append({"obligation": "verus:fragcache:restore", "contract": RESTORE_POST.strip()})
    expect = ["IdWindow::count",
              "peek_token_id", "reserve_token_ids", "peek_text_id", "reserve_text_ids", "peek_symbol_id", "reserve_symbol_ids", "peek_definition_id", "reserve_definition_ids",
              "watermark", "capture", "restore",
              "lemma_decoded_in_reserved", "lemma_restore_range", "lemma_all_offsets", "lemma_window_refusal_and_text", "vp_capture_then_restore"]
    return [VerusJob("fragcache", text, vf, expect, canaries=CANARIES, items=items, trusted=TRUSTED, rlimit=30)]


def replay(ctx, res, f):
    """no native replay: the functions act on thread-local global tables of the analyzer crate; a failed obligation is reported with the verifier's diagnostic only"""
    return None
