"""U3 value64 — 4-state <=64-bit value primitives (C17, C18, C36). Back end: Kani/CBMC, complete (loop-free)."""
import re
from vp.core import KaniJob
from vp.kani_run import Harness
from units.common import valuelib as VL

S = "crate::spec::"
CONTRACTS = {
    ("ValueU64", "gen_mask"): "#[cfg_attr(kani, kani::ensures(|r: &u64| *r == %srmask(width)))]" % S,
    ("ValueU64", "gen_mask_range"): "#[cfg_attr(kani, kani::requires(beg < usize::MAX))]\n"
                                    "#[cfg_attr(kani, kani::ensures(|r: &u64| *r == %srmask(beg + 1) & !%srmask(end)))]" % (S, S),
    ("ValueU64", "trunc"): "#[cfg_attr(kani, kani::modifies(self))]\n"
                           "#[cfg_attr(kani, kani::ensures(|_r| %spost_trunc(self, &old(self.clone()), width)))]" % S,
    ("ValueU64", "select"): "#[cfg_attr(kani, kani::requires(%spre_select(self, beg, end)))]\n"
                            "#[cfg_attr(kani, kani::ensures(|r: &Self| %spost_select(r, self, beg, end)))]" % (S, S),
    ("ValueU64", "assign"): "#[cfg_attr(kani, kani::requires(%spre_assign(self, beg, end)))]\n"
                            "#[cfg_attr(kani, kani::modifies(self))]\n"
                            "#[cfg_attr(kani, kani::ensures(|_r| %spost_assign(self, &old(self.clone()), &old(value.clone()), beg, end)))]" % (S, S),
    ("ValueU64", "to_i64"): "#[cfg_attr(kani, kani::requires(%spre_to_i64(self)))]\n"
                            "#[cfg_attr(kani, kani::ensures(|r: &Option<i64>| %spost_to_i64(r, self)))]" % (S, S),
}

TRUSTED = dict(VL.STUB_TRUST)
TRUSTED.update({r"kani::assume\(": "harness preconditions (representation invariant wf; index ranges taken from the call sites) - see contract_clauses"})


def build(ctx, res):
    vtext, vitems = VL.value_module(ctx, contracts=CONTRACTS)
    raw = ctx.unit_file("value64", "harness.rs")
    h = VL.expand_harness_attrs(raw, unwind=2)
    lib = VL.PRELUDE + vtext + VL.BIG_STUBS + h.replace("pub mod spec {", "pub mod spec {", 1)
    lib = lib.replace("crate::spec::", "crate::spec::")
    hs = []
    for n in re.findall(r"kani::proof_for_contract\(([\w:]+)\)\)\]\s*pub fn (\w+)", raw):
        hs.append(Harness("harness::" + n[1], kind="contract", fn=n[0]))
    for n in re.findall(r"#\[vp_proof\]\s*pub fn (\w+)", raw):
        hs.append(Harness("harness::" + n, kind="canary" if n.startswith("canary_") else "proof", fn=n))
    res.clauses.update({k[0] + "::" + k[1]: re.sub(r"#\[cfg_attr\(kani, |\)\]$", "", v, flags=re.M) for k, v in CONTRACTS.items()})
    res.clauses["Value::{expand,trunc,select,concat,assign,set_value}"] = "per-bit postconditions with a symbolic bit index, see units/value64/harness.rs (v_* harnesses); all ensure wf(result)"
    res.samples.append({"obligation": "kani:value64:c_assign", "contract": CONTRACTS[("ValueU64", "assign")]})
    return [KaniJob("value64", lib, hs, deps=VL.DEPS, items=vitems, trusted=TRUSTED, jobs=8, timeout=1800, per_harness_timeout=900)]
