// Unit `value64`: 4-state <=64-bit value primitives (crates/analyzer/src/value.rs).
// Kani function contracts (spliced as attributes onto the REAL methods, see unit.py) are proved by the
// proof_for_contract harnesses; the per-bit harnesses restate the same facts through an independent
// bit-level view with a symbolic bit index (= for all bits), and run natively for counterexample replay.
pub mod spec {
    use crate::value::{Value, ValueU64};

    pub fn rmask(w: usize) -> u64 {
        if w >= 64 { !0u64 } else { !(!0u64 << w) }
    }
    /// bits end..=beg (beg >= end)
    pub fn range_mask(beg: usize, end: usize) -> u64 {
        if end >= 64 { 0 } else { rmask(beg + 1) & !rmask(end) }
    }
    pub fn bit(x: u64, k: usize) -> bool { k < 64 && (x >> k) & 1 == 1 }

    #[derive(Clone, Copy, PartialEq, Eq, Debug)]
    pub enum B4 { Zero, One, X, Z }
    pub fn b4(p: u64, m: u64, k: usize) -> B4 {
        match (bit(p, k), bit(m, k)) {
            (false, false) => B4::Zero,
            (true, false) => B4::One,
            (false, true) => B4::X,
            (true, true) => B4::Z,
        }
    }
    pub fn vb(v: &ValueU64, k: usize) -> B4 { b4(v.payload, v.mask_xz, k) }

    /// representation invariant (width 0 = unsized all-bit literal carrying its 1-bit pattern)
    pub fn wf(v: &ValueU64) -> bool {
        let w = v.width as usize;
        if w == 0 { !v.signed && v.payload <= 1 && v.mask_xz <= 1 }
        else { w <= 64 && v.payload & !rmask(w) == 0 && v.mask_xz & !rmask(w) == 0 }
    }
    pub fn wf_sized(v: &ValueU64) -> bool { v.width >= 1 && wf(v) }
    /// an empty accumulator (Value::new(0, 0, false)) or a sized value: what concat is called with
    pub fn wf_concat(v: &ValueU64) -> bool { wf(v) && (v.width >= 1 || (v.payload == 0 && v.mask_xz == 0)) }

    pub fn any_u64v() -> ValueU64 {
        ValueU64 { payload: kani::any(), mask_xz: kani::any(), width: kani::any(), signed: kani::any() }
    }
    pub fn any_wf() -> ValueU64 { let v = any_u64v(); kani::assume(wf(&v)); v }
    pub fn any_wf_sized() -> ValueU64 { let v = any_u64v(); kani::assume(wf_sized(&v)); v }

    pub fn ext_bit(v: &ValueU64, k: usize, sext: bool) -> B4 {
        let w = v.width as usize;
        if w == 0 { return vb(v, 0); }
        if k < w { vb(v, k) } else if sext { vb(v, w - 1) } else { B4::Zero }
    }
    pub fn sval(p: u64, w: usize) -> i64 {
        if w >= 64 { p as i64 } else if bit(p, w - 1) { (p | !rmask(w)) as i64 } else { p as i64 }
    }
    pub fn u(v: &Value) -> &ValueU64 {
        match v { Value::U64(x) => x, _ => panic!("a <=64-bit result must stay in the <=64-bit representation") }
    }

    // ---- executable pre/postconditions used by the spliced Kani contracts -------------------------------
    pub fn pre_select(s: &ValueU64, beg: usize, end: usize) -> bool {
        wf(s) && (beg < end || beg - end < u32::MAX as usize)
    }
    pub fn post_select(r: &ValueU64, s: &ValueU64, beg: usize, end: usize) -> bool {
        if beg < end { return *r == ValueU64::default(); }
        let w = beg - end + 1;
        r.width as usize == w && !r.signed && if end >= 64 {
            r.payload == 0 && r.mask_xz == rmask(w)
        } else {
            r.payload == (s.payload >> end) & rmask(w) && r.mask_xz == (s.mask_xz >> end) & rmask(w)
        }
    }
    /// in-range field write (end <= beg < width), or a write at/after bit 64 (dropped)
    pub fn pre_assign(s: &ValueU64, beg: usize, end: usize) -> bool {
        wf(s) && ((end >= 64 && beg < usize::MAX) || (s.width >= 1 && end <= beg && beg < s.width as usize))
    }
    pub fn post_assign(s: &ValueU64, old: &ValueU64, v: &ValueU64, beg: usize, end: usize) -> bool {
        if end >= 64 { return s == old; }
        let rm = range_mask(beg, end);
        s.width == old.width && s.signed == old.signed && wf(s)
            && s.payload & !rm == old.payload & !rm && s.mask_xz & !rm == old.mask_xz & !rm
            && s.payload & rm == (v.payload << end) & rm && s.mask_xz & rm == (v.mask_xz << end) & rm
    }
    pub fn post_trunc(s: &ValueU64, old: &ValueU64, width: usize) -> bool {
        s.width == width as u32 && s.signed == old.signed
            && s.payload == old.payload & rmask(width) && s.mask_xz == old.mask_xz & rmask(width)
    }
    pub fn pre_to_i64(s: &ValueU64) -> bool { wf(s) && (!s.signed || s.width >= 1) }
    pub fn post_to_i64(r: &Option<i64>, s: &ValueU64) -> bool {
        if s.mask_xz != 0 { r.is_none() }
        else if s.signed { *r == Some(sval(s.payload, s.width as usize)) }
        else if s.payload > i64::MAX as u64 { r.is_none() }
        else { *r == Some(s.payload as i64) }
    }
}

pub mod harness {
    use super::spec::*;
    use crate::value::{Value, ValueU64};

    // ---------------- contract proofs (modular: each function against its own contract) -------------------
    #[cfg_attr(kani, kani::proof_for_contract(ValueU64::gen_mask))]
    pub fn c_gen_mask() { let _ = ValueU64::gen_mask(kani::any()); }

    #[cfg_attr(kani, kani::proof_for_contract(ValueU64::gen_mask_range))]
    pub fn c_gen_mask_range() { let _ = ValueU64::gen_mask_range(kani::any(), kani::any()); }

    #[cfg_attr(kani, kani::proof_for_contract(ValueU64::trunc))]
    pub fn c_trunc() { let mut v = any_u64v(); v.trunc(kani::any()); }

    #[cfg_attr(kani, kani::proof_for_contract(ValueU64::select))]
    pub fn c_select() { let v = any_u64v(); let _ = v.select(kani::any(), kani::any()); }

    #[cfg_attr(kani, kani::proof_for_contract(ValueU64::assign))]
    pub fn c_assign() { let mut v = any_u64v(); let w = any_u64v(); v.assign(w, kani::any(), kani::any()); }

    #[cfg_attr(kani, kani::proof_for_contract(ValueU64::to_i64))]
    pub fn c_to_i64() { let v = any_u64v(); let _ = v.to_i64(); }

    // ---------------- independent bit-level restatements (symbolic bit index = all bits) ------------------
    #[vp_proof]
    pub fn b_gen_mask() {
        let w: usize = kani::any();
        let k: usize = kani::any();
        kani::assume(k < 64);
        assert!(bit(ValueU64::gen_mask(w), k) == (k < w));
    }
    #[vp_proof]
    pub fn b_gen_mask_range() {
        let (beg, end, k): (usize, usize, usize) = (kani::any(), kani::any(), kani::any());
        kani::assume(beg < usize::MAX && k < 64);
        assert!(bit(ValueU64::gen_mask_range(beg, end), k) == (end <= k && k <= beg));
    }
    #[vp_proof]
    pub fn b_constructors() {
        let w: usize = kani::any();
        let s: bool = kani::any();
        kani::assume(w >= 1 && w <= 64);
        let k: usize = kani::any();
        kani::assume(k < 64);
        let x = ValueU64::new_x(w, s);
        let z = ValueU64::new_z(w, s);
        assert!(wf(&x) && wf(&z) && x.width as usize == w && z.width as usize == w && x.signed == s && z.signed == s);
        assert!(vb(&x, k) == if k < w { B4::X } else { B4::Zero });
        assert!(vb(&z, k) == if k < w { B4::Z } else { B4::Zero });
        let p: u64 = kani::any();
        let n = ValueU64::new(p, w, s);
        assert!(n.payload == p && n.mask_xz == 0 && n.width as usize == w && n.signed == s);
        let (a, b): (bool, bool) = (kani::any(), kani::any());
        // the four 1-bit priority constructors: first flag wins
        let one = ValueU64 { payload: 1, mask_xz: 0, width: 1, signed: false };
        let zero = ValueU64 { payload: 0, mask_xz: 0, width: 1, signed: false };
        let xx = ValueU64 { payload: 0, mask_xz: 1, width: 1, signed: false };
        assert!(ValueU64::new_bit_1x(a, b) == if a { one.clone() } else if b { xx.clone() } else { zero.clone() });
        assert!(ValueU64::new_bit_0x(a, b) == if a { zero.clone() } else if b { xx.clone() } else { one.clone() });
        assert!(ValueU64::new_bit_x1(a, b) == if a { xx.clone() } else if b { one.clone() } else { zero.clone() });
        assert!(ValueU64::new_bit_x0(a, b) == if a { xx.clone() } else if b { zero.clone() } else { one.clone() });
        let v = any_u64v();
        assert!(v.is_xz() == (v.mask_xz != 0));
        assert!(v.to_u64() == if v.mask_xz != 0 { None } else { Some(v.payload) });
        assert!(v.to_usize() == if v.mask_xz != 0 { None } else { Some(v.payload as usize) });
        assert!(v.to_u32() == if v.mask_xz != 0 || v.payload > u32::MAX as u64 { None } else { Some(v.payload as u32) });
    }
    #[vp_proof]
    pub fn b_select() {
        let v = any_wf();
        let (beg, end, k): (usize, usize, usize) = (kani::any(), kani::any(), kani::any());
        kani::assume(beg >= end && beg - end < 64 && k < 64);
        let r = v.select(beg, end);
        let w = beg - end + 1;
        assert!(r.width as usize == w && !r.signed && wf(&r));
        let e = if k >= w { B4::Zero } else if end >= 64 { B4::X } else { vb(&v, k + end) };
        assert!(vb(&r, k) == e);
    }
    #[vp_proof]
    pub fn b_assign() {
        let mut v = any_wf_sized();
        let val = any_u64v();
        let (beg, end, k): (usize, usize, usize) = (kani::any(), kani::any(), kani::any());
        kani::assume(end <= beg && beg < v.width as usize && k < 64);
        let old = v.clone();
        v.assign(val.clone(), beg, end);
        assert!(wf(&v) && v.width == old.width && v.signed == old.signed);
        // frame: only bits end..=beg change, and they come from val bits 0..
        let e = if k >= end && k <= beg { vb(&val, k - end) } else { vb(&old, k) };
        assert!(vb(&v, k) == e);
    }
    #[vp_proof]
    pub fn b_assign_out_of_range_dropped() {
        let mut v = any_wf();
        let val = any_u64v();
        let (beg, end): (usize, usize) = (kani::any(), kani::any());
        kani::assume(end >= 64 && beg < usize::MAX);
        let old = v.clone();
        v.assign(val, beg, end);
        assert!(v == old);
    }
    #[vp_proof]
    pub fn b_to_i64() {
        let v = any_wf();
        kani::assume(!v.signed || v.width >= 1);
        let r = v.to_i64();
        assert!(post_to_i64(&r, &v));
        if let Some(x) = r {
            // the integer denotes the same bit pattern at the value's width
            if v.width >= 1 { assert!((x as u64) & rmask(v.width as usize) == v.payload); }
            if v.signed && v.width < 64 { let h = 1i64 << (v.width - 1); assert!(-h <= x && x < h); }
        }
    }

    // ---------------- Value-level operations on the <=64-bit representation -------------------------------
    #[vp_proof]
    pub fn v_new() {
        let (p, w, s): (u64, usize, bool) = (kani::any(), kani::any(), kani::any());
        kani::assume(w <= 64);
        let n = Value::new(p, w, s);
        let r = u(&n);
        assert!(r.payload == p && r.mask_xz == 0 && r.width as usize == w && r.signed == s);
        assert!(n.width() == w && n.signed() == s && !n.is_xz());
        let x = Value::new_x(w, s);
        let z = Value::new_z(w, s);
        assert!(u(&x).mask_xz == rmask(w) && u(&x).payload == 0 && u(&z).payload == rmask(w) && u(&z).mask_xz == rmask(w));
        assert!(x.width() == w && z.width() == w);
    }
    #[vp_proof]
    pub fn v_expand() {
        let x = any_wf();
        let (w, use_sign, k): (usize, bool, usize) = (kani::any(), kani::any(), kani::any());
        kani::assume(w <= 64 && k < 64);
        let xv = Value::U64(x.clone());
        let r = xv.expand(w, use_sign);
        let r = u(r.as_ref());
        if x.width as usize >= w && x.width != 0 {
            assert!(*r == x);                                     // never narrows
        } else {
            assert!(r.width as usize == w && wf(r));
            assert!(r.signed == (use_sign && x.signed));
            let e = if k < w { ext_bit(&x, k, use_sign && x.signed) } else { B4::Zero };
            assert!(vb(r, k) == e);
        }
    }
    #[vp_proof]
    pub fn v_trunc() {
        let x = any_wf();
        let (w, k): (usize, usize) = (kani::any(), kani::any());
        kani::assume(w >= 1 && w <= 64 && k < 64);
        let mut v = Value::U64(x.clone());
        v.trunc(w);
        let r = u(&v);
        assert!(wf(r));
        if x.width == 0 {
            assert!(r.width as usize == w && !r.signed);
            assert!(vb(r, k) == if k < w { vb(&x, 0) } else { B4::Zero });
        } else if x.width as usize <= w {
            assert!(*r == x);
        } else {
            assert!(r.width as usize == w && r.signed == x.signed);
            assert!(vb(r, k) == if k < w { vb(&x, k) } else { B4::Zero });
        }
    }
    #[vp_proof]
    pub fn v_select() {
        let x = any_wf();
        let (beg, end, k): (usize, usize, usize) = (kani::any(), kani::any(), kani::any());
        kani::assume(beg >= end && beg - end < 64 && k < 64);
        let r = Value::U64(x.clone()).select(beg, end);
        let r = u(&r);
        let w = beg - end + 1;
        assert!(r.width as usize == w && !r.signed && wf(r));
        assert!(vb(r, k) == if k >= w { B4::Zero } else if end >= 64 { B4::X } else { vb(&x, k + end) });
    }
    #[vp_proof]
    pub fn v_concat() {
        let a = any_u64v();
        let b = any_u64v();
        kani::assume(wf_concat(&a) && wf_concat(&b) && a.width as usize + b.width as usize <= 64);
        let k: usize = kani::any();
        kani::assume(k < 64);
        let r = Value::U64(a.clone()).concat(&Value::U64(b.clone()));
        let r = u(&r);
        let (aw, bw) = (a.width as usize, b.width as usize);
        assert!(r.width as usize == aw + bw && !r.signed && wf(r));
        // {a, b}: b occupies the low bits, a the bits above it
        let e = if k < bw { vb(&b, k) } else if k < aw + bw { vb(&a, k - bw) } else { B4::Zero };
        assert!(vb(r, k) == e);
    }
    #[vp_proof]
    pub fn v_assign() {
        let x = any_wf_sized();
        let val = any_u64v();
        let (beg, end, k): (usize, usize, usize) = (kani::any(), kani::any(), kani::any());
        kani::assume(end <= beg && beg < x.width as usize && k < 64);
        let mut v = Value::U64(x.clone());
        v.assign(Value::U64(val.clone()), beg, end);
        let r = u(&v);
        assert!(wf(r) && r.width == x.width && r.signed == x.signed);
        assert!(vb(r, k) == if k >= end && k <= beg { vb(&val, k - end) } else { vb(&x, k) });
    }
    #[vp_proof]
    pub fn v_set_value() {
        let x = any_wf_sized();
        let val = any_wf();
        let k: usize = kani::any();
        kani::assume(k < 64);
        let mut v = Value::U64(x.clone());
        v.set_value(Value::U64(val.clone()));
        let r = u(&v);
        let w = x.width as usize;
        assert!(wf(r) && r.width == x.width && r.signed == x.signed);
        // the stored value is the new value truncated / zero-extended (all-bit literal: replicated) to the variable's width
        let e = if k >= w { B4::Zero } else if val.width == 0 { vb(&val, 0) } else if k < val.width as usize { vb(&val, k) } else { B4::Zero };
        assert!(vb(r, k) == e);
    }
    #[vp_proof]
    pub fn v_accessors() {
        let x = any_u64v();
        let mut v = Value::U64(x.clone());
        assert!(v.width() == x.width as usize && v.signed() == x.signed && v.is_xz() == (x.mask_xz != 0));
        assert!(v.to_u64() == if x.mask_xz != 0 { None } else { Some(x.payload) });
        assert!(v.to_usize() == if x.mask_xz != 0 { None } else { Some(x.payload as usize) });
        assert!(v.to_shift_amount() == v.to_usize());
        let s: bool = kani::any();
        v.set_signed(s);
        assert!(v.signed() == s && u(&v).payload == x.payload && u(&v).mask_xz == x.mask_xz && u(&v).width == x.width);
        v.clear_xz();
        assert!(u(&v).mask_xz == 0 && u(&v).payload == x.payload && u(&v).width == x.width);
    }

    // ---------------- vacuity canaries (must FAIL) -------------------------------------------------------
    #[vp_proof]
    pub fn canary_wf() {
        let v = any_wf_sized();
        let (beg, end): (usize, usize) = (kani::any(), kani::any());
        kani::assume(end <= beg && beg < v.width as usize);
        assert!(v.width == 0);
    }
    #[vp_proof]
    pub fn canary_concat() {
        let a = any_u64v();
        let b = any_u64v();
        kani::assume(wf_concat(&a) && wf_concat(&b) && a.width as usize + b.width as usize <= 64);
        assert!(a.width == 0 && b.width == 0);
    }
}
