// Unit `npn`: NPN4 canonicalisation and pattern transformation (C21), crates/synthesizer/src/aig/npn4.rs.
//
// Everything above this file in the generated crate is cut from /repo (crate root): Tt4, VAR_TT, MAX_ANDS, ALL_PERMS,
// perm_tt, flip_inputs, NpnTransform (+ IDENTITY, apply), npn_canonical, PatEdge, AigPattern (+ size, eval, tt),
// transform_pattern. `perm_table` (OnceLock + 3 MB Vec, 24*65536 initialiser iterations) is NOT linked; its place is taken
// by the accessor below, which *is* the assumed contract `table[i*65536+tt] == perm_tt(tt, ALL_PERMS[i])`.

// ---------------------------------------------------------------------------------------------------------
// trusted accessor standing in for `perm_table()`; `npn_canonical` only does `let table = perm_table();` and
// `table[pi * 65536 + tt as usize]`, so its body text compiles unchanged against this.
// ---------------------------------------------------------------------------------------------------------
pub struct VpPermTable;
impl std::ops::Index<usize> for VpPermTable {
    type Output = Tt4;
    fn index(&self, idx: usize) -> &Tt4 {
        let (i, tt) = (idx / 65536, idx % 65536);
        assert!(i < 24, "perm_table index out of bounds");
        Box::leak(Box::new(perm_tt(tt as Tt4, ALL_PERMS[i])))
    }
}
static VP_PERM_TABLE: VpPermTable = VpPermTable;
fn perm_table() -> &'static VpPermTable {
    &VP_PERM_TABLE
}

// ---------------------------------------------------------------------------------------------------------
// independent definitions, written from the doc comments ("Bit m is the function value when inputs encode m
// (bit 0 -> x0, bit 3 -> x3)"; NpnTransform: "perm[i] = old variable index assigned to new position i",
// "Bit i set => negate the i-th *new* (post-perm) input variable", "Whether to negate the output") as evaluation
// of a Boolean function of four variables on one assignment.
// ---------------------------------------------------------------------------------------------------------
pub mod spec {
    use crate::{AigPattern, PatEdge, Tt4};

    /// the assignment encoded by minterm number m
    pub fn assignment(m: u8) -> [bool; 4] {
        [m & 1 != 0, m & 2 != 0, m & 4 != 0, m & 8 != 0]
    }
    /// f(x0, x1, x2, x3)
    pub fn value_at(f: Tt4, x: [bool; 4]) -> bool {
        let m = (x[0] as u32) + 2 * (x[1] as u32) + 4 * (x[2] as u32) + 8 * (x[3] as u32);
        (f as u32 >> m) & 1 == 1
    }
    pub fn is_perm(p: [u8; 4]) -> bool {
        p[0] < 4 && p[1] < 4 && p[2] < 4 && p[3] < 4 && p[0] != p[1] && p[0] != p[2] && p[0] != p[3] && p[1] != p[2] && p[1] != p[3] && p[2] != p[3]
    }
    /// g = the function obtained from f by (input permutation p, input negation mask neg, output negation o):
    /// g(y) = o XOR f(z) where old variable p[i] is fed from new input i, negated if bit i of neg is set:  z[p[i]] = y[i] XOR neg_i
    pub fn npn_value_at(f: Tt4, p: [u8; 4], neg: u8, o: bool, y: [bool; 4]) -> bool {
        let mut z = [false; 4];
        z[p[0] as usize] = y[0] ^ (neg & 1 != 0);
        z[p[1] as usize] = y[1] ^ (neg & 2 != 0);
        z[p[2] as usize] = y[2] ^ (neg & 4 != 0);
        z[p[3] as usize] = y[3] ^ (neg & 8 != 0);
        o ^ value_at(f, z)
    }
    /// the same through the inverse permutation, as perm_tt's second doc line puts it: z_j = y_{perm_inv[j]}
    pub fn inv_of(p: [u8; 4]) -> [u8; 4] {
        let find = |j: u8| -> u8 { if p[0] == j { 0 } else if p[1] == j { 1 } else if p[2] == j { 2 } else { 3 } };
        [find(0), find(1), find(2), find(3)]
    }
    /// whole table of g, minterm by minterm
    pub fn npn_table(f: Tt4, p: [u8; 4], neg: u8, o: bool) -> Tt4 {
        let mut g: Tt4 = 0;
        let mut m = 0u8;
        while m < 16 {
            if npn_value_at(f, p, neg, o, assignment(m)) {
                g |= 1 << m;
            }
            m += 1;
        }
        g
    }

    /// well-formed pattern, read off AigPattern::eval: gate k (node 4+k) may only reference nodes < 4+k
    /// (eval indexes `values`, which holds 4+k entries at that point), the output references an existing node.
    /// The library builder's patterns satisfy this (a_node, b_node < 4 + ands.len(), out_node < 4 + ands.len()).
    pub fn wf_pattern(p: &AigPattern) -> bool {
        let n = p.ands.len();
        let mut k = 0;
        while k < n {
            let (a, b) = p.ands[k];
            if a.0 as usize >= 4 + k || b.0 as usize >= 4 + k {
                return false;
            }
            k += 1;
        }
        (p.output.0 as usize) < 4 + n
    }
    /// value of a pattern on one assignment, gate by gate (independent of AigPattern::eval's bit-parallel form)
    pub fn pattern_value_at(p: &AigPattern, x: [bool; 4]) -> bool {
        let mut v = [x[0], x[1], x[2], x[3], false, false, false];
        let n = p.ands.len();
        let mut k = 0;
        while k < n && k < 3 {
            let (a, b) = p.ands[k];
            v[4 + k] = (v[a.0 as usize] ^ a.1) & (v[b.0 as usize] ^ b.1);
            k += 1;
        }
        v[p.output.0 as usize] ^ p.output.1
    }

    /// symbolic well-formed pattern with at most MAX_ANDS (= 3) gates; only primitives are drawn
    pub fn any_pattern() -> AigPattern {
        let n: u8 = kani::any();
        let nodes: [u8; 6] = kani::any();
        let negs: [bool; 6] = kani::any();
        let out: u8 = kani::any();
        let out_neg: bool = kani::any();
        kani::assume(n <= crate::MAX_ANDS);
        let mut ands = Vec::with_capacity(3);
        let mut k = 0u8;
        while k < 3 {
            if k < n {
                let (a, b) = (nodes[2 * k as usize], nodes[2 * k as usize + 1]);
                kani::assume(a < 4 + k && b < 4 + k);
                ands.push((PatEdge(a, negs[2 * k as usize]), PatEdge(b, negs[2 * k as usize + 1])));
            }
            k += 1;
        }
        kani::assume(out < 4 + n);
        AigPattern { ands, output: PatEdge(out, out_neg) }
    }
}

pub mod harness {
    use crate::spec::*;
    use crate::{flip_inputs, npn_canonical, perm_tt, transform_pattern, AigPattern, NpnTransform, PatEdge, Tt4, ALL_PERMS, MAX_ANDS, VAR_TT};

    fn any_perm_index() -> usize {
        let pi: u8 = kani::any();
        kani::assume(pi < 24);
        pi as usize
    }
    fn any_minterm() -> u8 {
        let m: u8 = kani::any();
        kani::assume(m < 16);
        m
    }
    fn bit(t: Tt4, m: u8) -> bool {
        (t >> m) & 1 == 1
    }

    /// ALL_PERMS: every row is a permutation of {0,1,2,3}, rows are pairwise distinct, and every permutation occurs
    /// (so ALL_PERMS x 16 x 2 is the whole NPN group, 768 transforms)
    #[vp_proof(5)]
    pub fn all_perms_are_the_24_permutations() {
        let (i, j) = (any_perm_index(), any_perm_index());
        assert!(is_perm(ALL_PERMS[i]), "a row of ALL_PERMS is not a permutation of 0..4");
        if i != j {
            assert!(ALL_PERMS[i] != ALL_PERMS[j], "two rows of ALL_PERMS are equal");
        }
        let p: [u8; 4] = kani::any();
        kani::assume(is_perm(p));
        let mut found = false;
        let mut k = 0;
        while k < 24 {
            if ALL_PERMS[k] == p {
                found = true;
            }
            k += 1;
        }
        assert!(found, "a permutation of 0..4 is missing from ALL_PERMS");
    }
    /// VAR_TT[i] is the table of the projection x_i
    #[vp_proof(5)]
    pub fn var_tt_are_projections() {
        let m = any_minterm();
        let x = assignment(m);
        assert!(bit(VAR_TT[0], m) == x[0] && bit(VAR_TT[1], m) == x[1] && bit(VAR_TT[2], m) == x[2] && bit(VAR_TT[3], m) == x[3]);
    }
    /// perm_tt(tt,p)(y) == tt(z) with z[p[i]] = y[i], for every tt, every row p of ALL_PERMS, every minterm;
    /// bit m of the result is bit sum_i ((m>>i)&1) << p[i] of tt; and the inverse-permutation reading of the doc comment
    #[vp_proof(17)]
    pub fn perm_tt_permutes_inputs() {
        let tt: Tt4 = kani::any();
        let p = ALL_PERMS[any_perm_index()];
        let m = any_minterm();
        let r = perm_tt(tt, p);
        let y = assignment(m);
        assert!(bit(r, m) == npn_value_at(tt, p, 0, false, y), "perm_tt: new(y) != old(z), z[p[i]] = y[i]");
        let mp = (((m >> 0) & 1) << p[0]) + (((m >> 1) & 1) << p[1]) + (((m >> 2) & 1) << p[2]) + (((m >> 3) & 1) << p[3]);
        assert!(bit(r, m) == bit(tt, mp), "perm_tt: bit m is not bit sum((m>>i)&1)<<p[i]");
        let q = inv_of(p);
        let z = [y[q[0] as usize], y[q[1] as usize], y[q[2] as usize], y[q[3] as usize]];
        assert!(bit(r, m) == value_at(tt, z), "perm_tt: new(y) != old(y[perm_inv[0]],..,y[perm_inv[3]])");
    }
    /// flip_inputs(tt,k) bit m is bit m ^ (k & 15) of tt == tt evaluated with the masked inputs negated; any u8 mask
    #[vp_proof(17)]
    pub fn flip_inputs_negates_inputs() {
        let tt: Tt4 = kani::any();
        let k: u8 = kani::any();
        let m = any_minterm();
        let r = flip_inputs(tt, k);
        assert!(bit(r, m) == bit(tt, m ^ (k & 15)), "flip_inputs: bit m is not bit m^(k&15)");
        assert!(bit(r, m) == npn_value_at(tt, [0, 1, 2, 3], k, false, assignment(m)), "flip_inputs: new(y) != old(y ^ mask)");
    }
    /// NpnTransform::apply == output negation o after input negation after permutation, as documented, for every
    /// transform of the group and every tt: t.apply(f)(y) == o XOR f(z), z[perm[i]] = y[i] XOR neg_i
    #[vp_proof(17)]
    pub fn apply_is_the_documented_composition() {
        let tt: Tt4 = kani::any();
        let p = ALL_PERMS[any_perm_index()];
        let neg: u8 = kani::any();
        let o: bool = kani::any();
        let t = NpnTransform { perm: p, in_neg: neg, out_neg: o };
        let r = t.apply(tt);
        let m = any_minterm();
        assert!(bit(r, m) == npn_value_at(tt, p, neg, o, assignment(m)), "apply: t.apply(f)(y) != o ^ f(z), z[perm[i]] = y[i] ^ neg_i");
        let fo = flip_inputs(perm_tt(tt, p), neg);
        assert!(r == if o { !fo } else { fo }, "apply is not flip_output(flip_inputs(perm_tt(tt, perm), in_neg), out_neg)");
        assert!(NpnTransform::IDENTITY.apply(tt) == tt);
    }
    /// AigPattern::eval on VAR_TT computes the pattern's function (gate-by-gate evaluation on each assignment)
    #[vp_proof(17)]
    pub fn pattern_tt_is_its_function() {
        let pat = any_pattern();
        let m = any_minterm();
        assert!(wf_pattern(&pat) && pat.size() <= MAX_ANDS as usize);
        assert!(bit(pat.tt(), m) == pattern_value_at(&pat, assignment(m)), "AigPattern::tt differs from evaluating the gates");
    }
    /// transform_pattern(pat,t).tt() == t.apply(pat.tt()) for every transform and every well-formed pattern with <= MAX_ANDS gates;
    /// the result is well-formed, has the same number of gates, and computes o ^ pat(z) on every assignment
    #[vp_proof(17)]
    pub fn transform_pattern_commutes_with_apply() {
        let pat = any_pattern();
        let p = ALL_PERMS[any_perm_index()];
        let neg: u8 = kani::any();
        let o: bool = kani::any();
        let t = NpnTransform { perm: p, in_neg: neg, out_neg: o };
        let q = transform_pattern(&pat, t);
        assert!(wf_pattern(&q) && q.size() == pat.size(), "transform_pattern changed the shape of the pattern");
        assert!(q.tt() == t.apply(pat.tt()), "transform_pattern(pat,t).tt() != t.apply(pat.tt())");
        let m = any_minterm();
        assert!(pattern_value_at(&q, assignment(m)) == npn_value_at(pat.tt(), p, neg, o, assignment(m)), "transformed pattern does not compute o ^ f(z)");
    }
    /// npn_canonical(tt) = (c, t): t is one of the 768 transforms and t.apply(tt) == c, for every tt
    #[vp_proof(25)]
    pub fn canonical_transform_maps_to_canonical() {
        let tt: Tt4 = kani::any();
        let (c, t) = npn_canonical(tt);
        assert!(t.apply(tt) == c, "t.apply(tt) != canonical");
        assert!(t.in_neg < 16 && is_perm(t.perm));
        assert!(npn_table(tt, t.perm, t.in_neg, t.out_neg) == c, "the returned transform does not map the function to the canonical form");
    }
    /// ... and c is the least table in the NPN class: c <= T.apply(tt) for every one of the 768 transforms T
    #[vp_proof(25)]
    pub fn canonical_is_least_in_class() {
        let tt: Tt4 = kani::any();
        let (c, _t) = npn_canonical(tt);
        let p = ALL_PERMS[any_perm_index()];
        let neg: u8 = kani::any();
        let o: bool = kani::any();
        let other = NpnTransform { perm: p, in_neg: neg, out_neg: o };
        assert!(c <= other.apply(tt), "a transform reaches a smaller table than the canonical one");
    }
    /// library, second pass of build_library, one iteration: given an entry (tt, pat) of by_tt with pat.tt() == tt,
    /// the entry (canonical, canon_pat) offered to `best` satisfies canon_pat.tt() == canonical (the source's debug_assert_eq)
    #[vp_proof(25)]
    pub fn library_canonical_entry_computes_its_key() {
        let pat = any_pattern();
        let tt = pat.tt();
        let (canonical, t) = npn_canonical(tt);
        let canon_pat = transform_pattern(&pat, t);
        assert!(canon_pat.tt() == canonical, "library entry does not compute its recorded truth table");
        assert!(canon_pat.size() == pat.size() && wf_pattern(&canon_pat));
    }
    /// canary: the assumptions of the pattern harnesses are satisfiable with 3 gates (must FAIL)
    #[vp_proof(17)]
    pub fn canary_pattern_three_gates() {
        let pat = any_pattern();
        assert!(pat.size() < 3 || pat.tt() == 0);
    }
    /// canary: npn_canonical does move some table (must FAIL)
    #[vp_proof(25)]
    pub fn canary_canonical_not_identity() {
        let tt: Tt4 = kani::any();
        let (c, _t) = npn_canonical(tt);
        assert!(c == tt);
    }
}
