// Unit `npn`, Kani job: truth-table transforms and pattern transformation of crates/synthesizer/src/aig/npn4.rs.
//
// Everything above this file in the generated crate is cut from /repo (crate root): Tt4, VAR_TT, MAX_ANDS, ALL_PERMS,
// perm_tt, flip_inputs, NpnTransform (+ IDENTITY, apply), PatEdge, AigPattern (+ size, eval, tt), transform_pattern;
// then units/npn/spec.rs (independent minterm-evaluation definitions). npn_canonical and perm_table are proved in the
// Verus job of this unit (units/npn/verus_spec.rs); the three facts that job takes as axioms are proved HERE for the
// full u16 domain: perm_tt / flip_inputs are total (no panic, loops bounded) and IDENTITY.apply(tt) == tt.
pub mod harness {
    use crate::spec::*;
    use crate::{flip_inputs, perm_tt, transform_pattern, AigPattern, NpnTransform, PatEdge, Tt4, ALL_PERMS, MAX_ANDS, VAR_TT};

    fn any_perm_index() -> usize {
        let pi: u8 = kani::any();
        kani::assume(pi < 24);
        pi as usize
    }
    fn any_minterm() -> u8 {
        let m: u8 = kani::any();
        kani::assume(m < 16);
        m
    }
    fn bit(t: Tt4, m: u8) -> bool {
        (t >> m) & 1 == 1
    }
    /// symbolic transform of the NPN group: a row of ALL_PERMS, ANY u8 negation mask (only its low 4 bits matter), any output polarity
    fn any_transform() -> NpnTransform {
        let p = ALL_PERMS[any_perm_index()];
        let neg: u8 = kani::any();
        let o: bool = kani::any();
        NpnTransform { perm: p, in_neg: neg, out_neg: o }
    }
    /// symbolic well-formed pattern with exactly n gates (n is a concrete number in every harness; all of 0..=MAX_ANDS are covered);
    /// only primitives are drawn, always the same number of them, so native replay works
    fn any_pattern(n: u8) -> AigPattern {
        let nodes: [u8; 6] = kani::any();
        let negs: [bool; 6] = kani::any();
        let out: u8 = kani::any();
        let out_neg: bool = kani::any();
        let mut ands = Vec::with_capacity(3);
        let mut k = 0u8;
        while k < n {
            let (a, b) = (nodes[2 * k as usize], nodes[2 * k as usize + 1]);
            kani::assume(a < 4 + k && b < 4 + k);
            ands.push((PatEdge(a, negs[2 * k as usize]), PatEdge(b, negs[2 * k as usize + 1])));
            k += 1;
        }
        kani::assume(out < 4 + n);
        AigPattern { ands, output: PatEdge(out, out_neg) }
    }

    /// ALL_PERMS: every row is a permutation of {0,1,2,3}, rows are pairwise distinct, and every permutation occurs
    /// (so ALL_PERMS x 16 x 2 is the whole NPN group, 768 transforms)
    #[vp_proof(25)]
    pub fn all_perms_are_the_24_permutations() {
        let (i, j) = (any_perm_index(), any_perm_index());
        assert!(is_perm(ALL_PERMS[i]), "a row of ALL_PERMS is not a permutation of 0..4");
        if i != j {
            assert!(ALL_PERMS[i] != ALL_PERMS[j], "two rows of ALL_PERMS are equal");
        }
        let p: [u8; 4] = kani::any();
        kani::assume(is_perm(p));
        let mut found = false;
        let mut k = 0;
        while k < 24 {
            if ALL_PERMS[k] == p {
                found = true;
            }
            k += 1;
        }
        assert!(found, "a permutation of 0..4 is missing from ALL_PERMS");
    }
    /// VAR_TT[i] is the table of the projection x_i; MAX_ANDS is what the pattern harnesses cover
    #[vp_proof(5)]
    pub fn var_tt_are_projections() {
        let m = any_minterm();
        let x = assignment(m);
        assert!(bit(VAR_TT[0], m) == x[0] && bit(VAR_TT[1], m) == x[1] && bit(VAR_TT[2], m) == x[2] && bit(VAR_TT[3], m) == x[3]);
        assert!(MAX_ANDS == 3, "the pattern harnesses cover 0..=3 gates; MAX_ANDS changed");
    }
    /// perm_tt(tt,p)(y) == tt(z) with z[p[i]] = y[i], for every tt, every row p of ALL_PERMS, every minterm;
    /// bit m of the result is bit sum_i ((m>>i)&1) << p[i] of tt; and the inverse-permutation reading of the doc comment
    #[vp_proof(17)]
    pub fn perm_tt_permutes_inputs() {
        let tt: Tt4 = kani::any();
        let p = ALL_PERMS[any_perm_index()];
        let m = any_minterm();
        let r = perm_tt(tt, p);
        let y = assignment(m);
        assert!(bit(r, m) == npn_value_at(tt, p, 0, false, y), "perm_tt: new(y) != old(z), z[p[i]] = y[i]");
        let mp = (((m >> 0) & 1) << p[0]) + (((m >> 1) & 1) << p[1]) + (((m >> 2) & 1) << p[2]) + (((m >> 3) & 1) << p[3]);
        assert!(bit(r, m) == bit(tt, mp), "perm_tt: bit m is not bit sum((m>>i)&1)<<p[i]");
        let q = inv_of(p);
        let z = [y[q[0] as usize], y[q[1] as usize], y[q[2] as usize], y[q[3] as usize]];
        assert!(bit(r, m) == value_at(tt, z), "perm_tt: new(y) != old(y[perm_inv[0]],..,y[perm_inv[3]])");
    }
    /// flip_inputs(tt,k) bit m is bit m ^ (k & 15) of tt == tt evaluated with the masked inputs negated; any u8 mask
    #[vp_proof(17)]
    pub fn flip_inputs_negates_inputs() {
        let tt: Tt4 = kani::any();
        let k: u8 = kani::any();
        let m = any_minterm();
        let r = flip_inputs(tt, k);
        assert!(bit(r, m) == bit(tt, m ^ (k & 15)), "flip_inputs: bit m is not bit m^(k&15)");
        assert!(bit(r, m) == npn_value_at(tt, [0, 1, 2, 3], k, false, assignment(m)), "flip_inputs: new(y) != old(y ^ mask)");
    }
    /// NpnTransform::apply == output negation o after input negation after permutation, as documented, for every
    /// transform of the group and every tt: t.apply(f)(y) == o XOR f(z), z[perm[i]] = y[i] XOR neg_i; IDENTITY is the identity
    #[vp_proof(17)]
    pub fn apply_is_the_documented_composition() {
        let tt: Tt4 = kani::any();
        let t = any_transform();
        let r = t.apply(tt);
        let m = any_minterm();
        assert!(bit(r, m) == npn_value_at(tt, t.perm, t.in_neg, t.out_neg, assignment(m)), "apply: t.apply(f)(y) != o ^ f(z), z[perm[i]] = y[i] ^ neg_i");
        let fo = flip_inputs(perm_tt(tt, t.perm), t.in_neg);
        assert!(r == if t.out_neg { !fo } else { fo }, "apply is not flip_output(flip_inputs(perm_tt(tt, perm), in_neg), out_neg)");
    }
    /// axiom A3 of the Verus job: NpnTransform::IDENTITY.apply(tt) == tt for every tt, and IDENTITY is in the group
    #[vp_proof(17)]
    pub fn identity_transform_is_identity() {
        let tt: Tt4 = kani::any();
        assert!(NpnTransform::IDENTITY.apply(tt) == tt, "IDENTITY.apply(tt) != tt");
        assert!(flip_inputs(perm_tt(tt, [0, 1, 2, 3]), 0) == tt);
        assert!(NpnTransform::IDENTITY.perm == ALL_PERMS[0] && NpnTransform::IDENTITY.in_neg == 0 && !NpnTransform::IDENTITY.out_neg);
    }

    fn pattern_tt(n: u8) {
        let pat = any_pattern(n);
        let m = any_minterm();
        assert!(wf_pattern(&pat) && pat.size() == n as usize);
        assert!(bit(pat.tt(), m) == pattern_value_at(&pat, assignment(m)), "AigPattern::tt differs from evaluating the gates");
    }
    /// AigPattern::eval on VAR_TT computes the pattern's function (gate-by-gate evaluation on each assignment), 0..=3 gates
    #[vp_proof(17)]
    pub fn pattern_tt_is_its_function() {
        pattern_tt(0);
        pattern_tt(1);
        pattern_tt(2);
        pattern_tt(3);
    }

    /// node tables of a pattern over arbitrary variable tables, gate by gate (harness-side mirror of AigPattern::eval, checked against it below)
    fn node_tables(p: &AigPattern, vars: [Tt4; 4]) -> [Tt4; 7] {
        let mut v = [vars[0], vars[1], vars[2], vars[3], 0, 0, 0];
        let n = p.ands.len();
        let mut k = 0;
        while k < n && k < 3 {
            let (a, b) = p.ands[k];
            v[4 + k] = (v[a.0 as usize] ^ if a.1 { !0 } else { 0 }) & (v[b.0 as usize] ^ if b.1 { !0 } else { 0 });
            k += 1;
        }
        v
    }
    fn mask(b: bool) -> Tt4 {
        if b { !0 } else { 0 }
    }
    /// transform_pattern(pat,t).tt() == t.apply(pat.tt()), proved the way one proves it by hand; every intermediate fact is first
    /// ASSERTED (checked by CBMC for all inputs) and only then assumed for the following steps, so nothing is taken on trust:
    ///   S(x) := the table of x under the input part of t (gathered through the minterm map);  zs[perm[i]] := VAR_TT[i] ^ neg_i
    ///   (1) induction over the nodes of pat: S(node_i over VAR_TT) == node_i over zs          (variables first, then each gate)
    ///   (2) AigPattern::eval agrees with the node tables on VAR_TT and on zs                  => pat.eval(zs) == S(pat.tt())
    ///   (3) transform_pattern(pat,t).eval(VAR_TT) == out_neg ^ pat.eval(zs)                   (edge substitution, real eval)
    ///   (4) t.apply(f) == out_neg ^ S(f) for f = pat.tt()                                     (real perm_tt / flip_inputs)
    ///   => (5) the contract, and (6) the library lemma: any (canonical, t) with t.apply(pat.tt()) == canonical gives an entry
    ///      (canonical, transform_pattern(pat,t)) whose pattern computes canonical (the source's debug_assert_eq in build_library).
    /// proof device only (never part of a statement): the minterm map of the input part of a transform, idx[m] = number of the assignment z
    /// with z[p[i]] = m_i ^ neg_i, and the table gathered through it, S(x)[m] = x[idx[m]]
    fn minterm_map(p: [u8; 4], neg: u8) -> [u8; 16] {
        let mut idx = [0u8; 16];
        let mut m = 0u8;
        while m < 16 {
            let y = m ^ (neg & 15);
            idx[m as usize] = (((y >> 0) & 1) << p[0]) | (((y >> 1) & 1) << p[1]) | (((y >> 2) & 1) << p[2]) | (((y >> 3) & 1) << p[3]);
            m += 1;
        }
        idx
    }
    fn gather(x: Tt4, idx: &[u8; 16]) -> Tt4 {
        let mut r: Tt4 = 0;
        let mut m = 0usize;
        while m < 16 {
            r |= ((x >> (idx[m] & 15)) & 1) << m;
            m += 1;
        }
        r
    }
    fn transform_commutes(n: u8, canary: bool) {
        let pat = any_pattern(n);
        let t = any_transform();
        let (p, neg) = (t.perm, t.in_neg);
        let idx = minterm_map(p, neg);
        let mut zs = [0u16; 4];
        zs[p[0] as usize] = VAR_TT[0] ^ mask(neg & 1 != 0);
        zs[p[1] as usize] = VAR_TT[1] ^ mask(neg & 2 != 0);
        zs[p[2] as usize] = VAR_TT[2] ^ mask(neg & 4 != 0);
        zs[p[3] as usize] = VAR_TT[3] ^ mask(neg & 8 != 0);
        let vp = node_tables(&pat, VAR_TT);
        let vz = node_tables(&pat, zs);
        let mut i = 0usize;
        while i < 4 + n as usize {
            let s = gather(vp[i], &idx);
            assert!(s == vz[i], "(1) node table under the input transform");
            kani::assume(s == vz[i]);
            i += 1;
        }
        let o = pat.output;
        let f = pat.tt();
        let fe = vp[o.0 as usize] ^ mask(o.1);
        assert!(f == fe, "(2) eval == node tables on VAR_TT");
        kani::assume(f == fe);
        let g = pat.eval(zs);
        let ge = vz[o.0 as usize] ^ mask(o.1);
        assert!(g == ge, "(2) eval == node tables on zs");
        kani::assume(g == ge);
        let sf = gather(f, &idx);
        assert!(g == sf, "(2) pat.eval(zs) == S(pat.tt())");
        kani::assume(g == sf);
        let q = transform_pattern(&pat, t);
        assert!(wf_pattern(&q) && q.size() == pat.size(), "transform_pattern changed the shape of the pattern");
        let qt = q.tt();
        assert!(qt == g ^ mask(t.out_neg), "(3) transformed pattern == out_neg ^ pat.eval(zs)");
        kani::assume(qt == g ^ mask(t.out_neg));
        let ap = t.apply(f);
        assert!(ap == sf ^ mask(t.out_neg), "(4) apply == out_neg ^ S");
        kani::assume(ap == sf ^ mask(t.out_neg));
        if canary {
            assert!(qt != 0xAAAA, "canary: the assumption chain is satisfiable");
            return;
        }
        // (5): qt = transform_pattern(&pat, t).tt(), ap = t.apply(pat.tt())
        assert!(qt == ap, "(5) transform_pattern(pat,t).tt() != t.apply(pat.tt())");
        let canonical: Tt4 = kani::any();
        kani::assume(ap == canonical);
        assert!(qt == canonical, "(6) library entry does not compute its recorded truth table");
    }
    /// for every transform (row of ALL_PERMS x any u8 mask x bool) and every well-formed pattern with n gates; n = 0,1,2,3 = all n <= MAX_ANDS
    #[vp_proof(17)]
    pub fn transform_pattern_commutes_with_apply_0_gates() {
        transform_commutes(0, false);
    }
    #[vp_proof(17)]
    pub fn transform_pattern_commutes_with_apply_1_gate() {
        transform_commutes(1, false);
    }
    #[vp_proof(17)]
    pub fn transform_pattern_commutes_with_apply_2_gates() {
        transform_commutes(2, false);
    }
    #[vp_proof(17)]
    pub fn transform_pattern_commutes_with_apply_3_gates() {
        transform_commutes(3, false);
    }
    /// the same statement on the level of single assignments, without tables: the transformed pattern computes out_neg ^ pat(z), z[perm[i]] = y[i] ^ neg_i
    fn substitutes_inputs(n: u8) {
        let pat = any_pattern(n);
        let t = any_transform();
        let q = transform_pattern(&pat, t);
        assert!(wf_pattern(&q) && q.size() == pat.size());
        let y: [bool; 4] = kani::any();
        let mut z = [false; 4];
        z[t.perm[0] as usize] = y[0] ^ (t.in_neg & 1 != 0);
        z[t.perm[1] as usize] = y[1] ^ (t.in_neg & 2 != 0);
        z[t.perm[2] as usize] = y[2] ^ (t.in_neg & 4 != 0);
        z[t.perm[3] as usize] = y[3] ^ (t.in_neg & 8 != 0);
        assert!(pattern_value_at(&q, y) == t.out_neg ^ pattern_value_at(&pat, z), "transformed pattern does not compute o ^ pat(z)");
    }
    #[vp_proof(17)]
    pub fn transform_pattern_substitutes_inputs() {
        substitutes_inputs(0);
        substitutes_inputs(1);
        substitutes_inputs(2);
        substitutes_inputs(3);
    }
    /// canary: the pattern assumptions are satisfiable with 3 gates and a non-trivial function (must FAIL)
    #[vp_proof(17)]
    pub fn canary_pattern_three_gates() {
        let pat = any_pattern(3);
        assert!(pat.tt() == 0);
    }
    /// canary: the assert-then-assume chain of transform_commutes is satisfiable (must FAIL)
    #[vp_proof(17)]
    pub fn canary_transform_chain() {
        transform_commutes(0, true);
    }
}
