// Unit `npn`, Verus job: npn_canonical (minimality over the 768 transforms) and the perm_table initialiser.
//
// perm_tt / flip_inputs are kept with their real bodies but `external_body`: Verus sees them as the two (uninterpreted)
// pure functions sp_perm_tt / sp_flip. Everything proved here therefore holds for whatever these two functions compute,
// in particular for the real ones, whose bit-level meaning (input permutation / input negation on minterms) is proved for
// the full u16 domain in the Kani job of this unit. The only property of them used here is axiom A3.

pub uninterp spec fn sp_perm_tt(tt: u16, perm: [u8; 4]) -> u16;
pub uninterp spec fn sp_flip(tt: u16, mask: u8) -> u16;

/// O5 (README): std integer helpers Verus has no spec for. Unused at HEAD; declared so that an edit of npn_canonical that starts using
/// count_ones is still ingested (and then judged by the contract) instead of making the run undecided. Only the range is assumed.
pub assume_specification [u16::count_ones] (x: u16) -> (r: u32)
    ensures r <= 16;

/// NpnTransform::apply as a spec function (same composition as the exec body; `apply` is proved against it)
pub open spec fn sp_apply(t: NpnTransform, tt: u16) -> u16 {
    let a = sp_flip(sp_perm_tt(tt, t.perm), t.in_neg);
    if t.out_neg { !a } else { a }
}

/// row p of ALL_PERMS (closed: ALL_PERMS is private in the source)
pub closed spec fn perm_row(p: int) -> [u8; 4] {
    ALL_PERMS[p]
}
/// the transform (ALL_PERMS[p], n, o): p in 0..24, n in 0..16, o in {false,true} enumerate the 768 transforms
pub closed spec fn npn_t(p: int, n: int, o: bool) -> NpnTransform {
    NpnTransform { perm: ALL_PERMS[p], in_neg: n as u8, out_neg: o }
}
pub closed spec fn in_group(t: NpnTransform) -> bool {
    exists|p: int, n: int, o: bool| 0 <= p < 24 && 0 <= n < 16 && t == #[trigger] npn_t(p, n, o)
}
/// (p, n) comes strictly before (pi, ni) in npn_canonical's loop order
pub closed spec fn visited(p: int, n: int, pi: int, ni: int) -> bool {
    0 <= p < 24 && 0 <= n < 16 && (p < pi || (p == pi && n < ni))
}
/// contract of the lookup table, the sentence of its doc comment: PERM_TABLE[i * 65536 + tt] = perm_tt(tt, ALL_PERMS[i])
pub closed spec fn table_ok(t: Seq<u16>) -> bool {
    t.len() == 24 * 65536
    && forall|i: int, tt: int| 0 <= i < 24 && 0 <= tt < 65536 ==> #[trigger] t[i * 65536 + tt] == sp_perm_tt(tt as u16, ALL_PERMS[i])
}
/// rows 0..i complete, row i complete up to column n
pub closed spec fn table_filled(t: Seq<u16>, i: int, n: int) -> bool {
    t.len() == 24 * 65536
    && (forall|a: int, b: int| 0 <= a < i && 0 <= b < 65536 ==> #[trigger] t[a * 65536 + b] == sp_perm_tt(b as u16, ALL_PERMS[a]))
    && (forall|b: int| 0 <= b < n ==> #[trigger] t[i * 65536 + b] == sp_perm_tt(b as u16, ALL_PERMS[i]))
}

/// A3 (proved by Kani harness identity_transform_is_identity for every tt): IDENTITY.apply(tt) == tt
#[verifier::external_body]
pub proof fn ax_identity_apply(tt: u16)
    ensures sp_flip(sp_perm_tt(tt, [0u8, 1u8, 2u8, 3u8]), 0u8) == tt,
{
}

pub proof fn lemma_identity(tt: u16)
    ensures
        sp_apply(NpnTransform::IDENTITY, tt) == tt,
        in_group(NpnTransform::IDENTITY),
{
    ax_identity_apply(tt);
    assert(NpnTransform::IDENTITY.perm == [0u8, 1u8, 2u8, 3u8]);
    assert(ALL_PERMS[0] == [0u8, 1u8, 2u8, 3u8]);
    assert(NpnTransform::IDENTITY == npn_t(0, 0, false));
}

/// reading of npn_canonical's contract without the closed helpers: the result is least among ALL_PERMS x 0..16 x bool
proof fn lemma_least_unfolded(tt: u16, c: u16, p: int, n: u8, o: bool)
    requires
        forall|p: int, n: int, o: bool| 0 <= p < 24 && 0 <= n < 16 ==> c <= sp_apply(#[trigger] npn_t(p, n, o), tt),
        0 <= p < 24,
        n < 16,
    ensures
        c <= sp_apply(NpnTransform { perm: ALL_PERMS[p], in_neg: n, out_neg: o }, tt),
{
    assert(npn_t(p, n as int, o) == NpnTransform { perm: ALL_PERMS[p], in_neg: n, out_neg: o });
}
