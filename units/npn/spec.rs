// Unit `npn`: independent definitions, written from the doc comments of npn4.rs ("Bit m is the function value when inputs
// encode m (bit 0 -> x0, bit 3 -> x3)"; NpnTransform: "perm[i] = old variable index assigned to new position i",
// "Bit i set => negate the i-th *new* (post-perm) input variable", "Whether to negate the output") as evaluation of a
// Boolean function of four variables on one assignment. Shared by the Kani harness crate and the native replay program.
pub mod spec {
    use crate::{AigPattern, PatEdge, Tt4};

    /// the assignment encoded by minterm number m
    pub fn assignment(m: u8) -> [bool; 4] {
        [m & 1 != 0, m & 2 != 0, m & 4 != 0, m & 8 != 0]
    }
    /// f(x0, x1, x2, x3)
    pub fn value_at(f: Tt4, x: [bool; 4]) -> bool {
        let m = (x[0] as u32) + 2 * (x[1] as u32) + 4 * (x[2] as u32) + 8 * (x[3] as u32);
        (f as u32 >> m) & 1 == 1
    }
    pub fn is_perm(p: [u8; 4]) -> bool {
        p[0] < 4 && p[1] < 4 && p[2] < 4 && p[3] < 4 && p[0] != p[1] && p[0] != p[2] && p[0] != p[3] && p[1] != p[2] && p[1] != p[3] && p[2] != p[3]
    }
    /// g = the function obtained from f by (input permutation p, input negation mask neg, output negation o):
    /// g(y) = o XOR f(z) where old variable p[i] is fed from new input i, negated if bit i of neg is set:  z[p[i]] = y[i] XOR neg_i
    pub fn npn_value_at(f: Tt4, p: [u8; 4], neg: u8, o: bool, y: [bool; 4]) -> bool {
        let mut z = [false; 4];
        z[p[0] as usize] = y[0] ^ (neg & 1 != 0);
        z[p[1] as usize] = y[1] ^ (neg & 2 != 0);
        z[p[2] as usize] = y[2] ^ (neg & 4 != 0);
        z[p[3] as usize] = y[3] ^ (neg & 8 != 0);
        o ^ value_at(f, z)
    }
    /// the same through the inverse permutation, as perm_tt's second doc line puts it: z_j = y_{perm_inv[j]}
    pub fn inv_of(p: [u8; 4]) -> [u8; 4] {
        let find = |j: u8| -> u8 { if p[0] == j { 0 } else if p[1] == j { 1 } else if p[2] == j { 2 } else { 3 } };
        [find(0), find(1), find(2), find(3)]
    }
    /// whole table of g, minterm by minterm
    pub fn npn_table(f: Tt4, p: [u8; 4], neg: u8, o: bool) -> Tt4 {
        let mut g: Tt4 = 0;
        let mut m = 0u8;
        while m < 16 {
            if npn_value_at(f, p, neg, o, assignment(m)) {
                g |= 1 << m;
            }
            m += 1;
        }
        g
    }

    /// well-formed pattern, read off AigPattern::eval: gate k (node 4+k) may only reference nodes < 4+k
    /// (eval indexes `values`, which holds 4+k entries at that point), the output references an existing node.
    /// The library builder's patterns satisfy this (a_node, b_node < 4 + ands.len(), out_node < 4 + ands.len()).
    pub fn wf_pattern(p: &AigPattern) -> bool {
        let n = p.ands.len();
        let mut k = 0;
        while k < n {
            let (a, b) = p.ands[k];
            if a.0 as usize >= 4 + k || b.0 as usize >= 4 + k {
                return false;
            }
            k += 1;
        }
        (p.output.0 as usize) < 4 + n
    }
    /// value of a pattern on one assignment, gate by gate (independent of AigPattern::eval's bit-parallel form)
    pub fn pattern_value_at(p: &AigPattern, x: [bool; 4]) -> bool {
        let mut v = [x[0], x[1], x[2], x[3], false, false, false];
        let n = p.ands.len();
        let mut k = 0;
        while k < n && k < 3 {
            let (a, b) = p.ands[k];
            v[4 + k] = (v[a.0 as usize] ^ a.1) & (v[b.0 as usize] ^ b.1);
            k += 1;
        }
        v[p.output.0 as usize] ^ p.output.1
    }
}
