
// Native search for a concrete failing input (unit `npn`), run only after an obligation failed. Above this text: the ORIGINAL
// item texts of npn4.rs and units/npn/spec.rs. Exhaustive: 65536 tables x 768 transforms, the whole lookup table, the whole library.
fn found(what: &str, fields: String) -> ! {
    println!("FOUND {{\"fn\":\"{}\",{}}}", what, fields);
    std::process::exit(1);
}

fn main() {
    use spec::*;
    // a panic inside the real code (e.g. build_library's debug_assert_eq!(canon_pat.tt(), canonical)) is a failing input too
    std::panic::set_hook(Box::new(|info| {
        let msg = info.to_string().replace('"', "'").replace('\n', " ");
        println!("FOUND {{\"panic\":\"{}\"}}", msg);
        std::process::exit(1);
    }));
    let mut n: u64 = 0;
    // ALL_PERMS
    for i in 0..24 {
        if !is_perm(ALL_PERMS[i]) {
            found("ALL_PERMS", format!("\"row\":{},\"value\":\"{:?}\",\"expected\":\"a permutation of 0..4\"", i, ALL_PERMS[i]));
        }
        for j in 0..i {
            if ALL_PERMS[i] == ALL_PERMS[j] {
                found("ALL_PERMS", format!("\"row\":{},\"equal_to_row\":{},\"value\":\"{:?}\"", i, j, ALL_PERMS[i]));
            }
        }
    }
    // perm_tt / flip_inputs / apply against the minterm definitions; the lookup table against perm_tt
    let table = perm_table();
    if table.len() != 24 * 65536 {
        found("perm_table", format!("\"len\":{},\"expected\":{}", table.len(), 24 * 65536));
    }
    for tt in 0..=65535u16 {
        for i in 0..24usize {
            let p = ALL_PERMS[i];
            let got = perm_tt(tt, p);
            let want = npn_table(tt, p, 0, false);
            if got != want {
                found("perm_tt", format!("\"tt\":{},\"perm\":\"{:?}\",\"actual\":{},\"expected\":{}", tt, p, got, want));
            }
            if table[i * 65536 + tt as usize] != got {
                found("perm_table", format!("\"i\":{},\"tt\":{},\"actual\":{},\"expected\":{}", i, tt, table[i * 65536 + tt as usize], got));
            }
            n += 1;
        }
        for k in 0..=255u8 {
            let got = flip_inputs(tt, k);
            let want = npn_table(tt, [0, 1, 2, 3], k & 15, false);
            if got != want {
                found("flip_inputs", format!("\"tt\":{},\"mask\":{},\"actual\":{},\"expected\":{}", tt, k, got, want));
            }
        }
        if NpnTransform::IDENTITY.apply(tt) != tt {
            found("NpnTransform::IDENTITY", format!("\"tt\":{},\"actual\":{},\"expected\":{}", tt, NpnTransform::IDENTITY.apply(tt), tt));
        }
    }
    // npn_canonical: maps to canonical, transform in the group, least over the 768 transforms (by the independent definition)
    for tt in 0..=65535u16 {
        let (c, t) = npn_canonical(tt);
        let in_group = t.in_neg < 16 && (0..24).any(|i| ALL_PERMS[i] == t.perm);
        if !in_group {
            found("npn_canonical", format!("\"tt\":{},\"transform\":\"{:?}\",\"expected\":\"a transform of ALL_PERMS x 0..16 x bool\"", tt, t));
        }
        if t.apply(tt) != c {
            found("npn_canonical", format!("\"tt\":{},\"transform\":\"{:?}\",\"canonical\":{},\"actual\":{},\"expected\":\"t.apply(tt) == canonical\"", tt, t, c, t.apply(tt)));
        }
        if is_perm(t.perm) && npn_table(tt, t.perm, t.in_neg, t.out_neg) != c {
            found("npn_canonical", format!("\"tt\":{},\"transform\":\"{:?}\",\"canonical\":{},\"actual\":{},\"expected\":\"the transform maps tt to canonical\"", tt, t, c, npn_table(tt, t.perm, t.in_neg, t.out_neg)));
        }
        for i in 0..24usize {
            for neg in 0..16u8 {
                for o in [false, true] {
                    let other = NpnTransform { perm: ALL_PERMS[i], in_neg: neg, out_neg: o };
                    let v = other.apply(tt);
                    let w = npn_table(tt, ALL_PERMS[i], neg, o);
                    if v != w {
                        found("NpnTransform::apply", format!("\"tt\":{},\"transform\":\"{:?}\",\"actual\":{},\"expected\":{}", tt, other, v, w));
                    }
                    if w < c {
                        found("npn_canonical", format!("\"tt\":{},\"canonical\":{},\"smaller\":{},\"by_transform\":\"{:?}\",\"expected\":\"canonical is least in the NPN class\"", tt, c, w, other));
                    }
                    n += 1;
                }
            }
        }
    }
    // transform_pattern on every pattern with at most one gate (builder shape) and every transform, before the library is touched
    let mut small: Vec<AigPattern> = Vec::new();
    for out in 0..4u8 {
        for on in [false, true] {
            small.push(AigPattern { ands: vec![], output: PatEdge(out, on) });
        }
    }
    for a in 0..4u8 {
        for b in 0..4u8 {
            for (an, bn) in [(false, false), (false, true), (true, false), (true, true)] {
                for out in 0..5u8 {
                    for on in [false, true] {
                        small.push(AigPattern { ands: vec![(PatEdge(a, an), PatEdge(b, bn))], output: PatEdge(out, on) });
                    }
                }
            }
        }
    }
    for p in small.iter() {
        for i in 0..24usize {
            for neg in 0..16u8 {
                for o in [false, true] {
                    let t = NpnTransform { perm: ALL_PERMS[i], in_neg: neg, out_neg: o };
                    let q = transform_pattern(p, t);
                    let want = npn_table(p.tt(), t.perm, neg, o);
                    if !wf_pattern(&q) || q.size() != p.size() || q.tt() != want {
                        found("transform_pattern", format!("\"pattern\":\"{:?}\",\"transform\":\"{:?}\",\"result\":\"{:?}\",\"actual\":{},\"expected\":{}", p, t, q, q.tt(), want));
                    }
                    n += 1;
                }
            }
        }
    }
    // the library: every pattern computes its recorded truth table, keys are canonical
    let lib = library();
    for (k, p) in lib.iter() {
        if !wf_pattern(p) || p.size() > MAX_ANDS as usize {
            found("build_library", format!("\"key\":{},\"pattern\":\"{:?}\",\"expected\":\"well-formed, <= MAX_ANDS gates\"", k, p));
        }
        if p.tt() != *k {
            found("build_library", format!("\"key\":{},\"pattern\":\"{:?}\",\"actual\":{},\"expected\":\"pattern.tt() == key\"", k, p, p.tt()));
        }
        let by_gates = (0..16u8).fold(0u16, |a, m| a | ((pattern_value_at(p, assignment(m)) as u16) << m));
        if by_gates != *k {
            found("build_library", format!("\"key\":{},\"pattern\":\"{:?}\",\"actual\":{},\"expected\":\"gate-by-gate evaluation == key\"", k, p, by_gates));
        }
        if npn_canonical(*k).0 != *k {
            found("build_library", format!("\"key\":{},\"expected\":\"keys are canonical\",\"actual\":{}", k, npn_canonical(*k).0));
        }
        n += 1;
    }
    // transform_pattern on every library pattern and every transform
    for (_k, p) in lib.iter() {
        for i in 0..24usize {
            for neg in 0..16u8 {
                for o in [false, true] {
                    let t = NpnTransform { perm: ALL_PERMS[i], in_neg: neg, out_neg: o };
                    let q = transform_pattern(p, t);
                    if q.tt() != npn_table(p.tt(), t.perm, neg, o) {
                        found("transform_pattern", format!("\"pattern\":\"{:?}\",\"transform\":\"{:?}\",\"actual\":{},\"expected\":{}", p, t, q.tt(), npn_table(p.tt(), t.perm, neg, o)));
                    }
                    n += 1;
                }
            }
        }
    }
    println!("NONE {}", n);
}
