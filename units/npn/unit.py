"""U8 npn - NPN4 canonicalisation + pattern transformation (C21). Back end: Kani/CBMC, complete (constant loop bounds 16/4/24, full u16 domain)."""
import re
from vp.core import KaniJob
from vp.kani_run import Harness

F = "crates/synthesizer/src/aig/npn4.rs"

TRUSTED = {
    r"kani::assume\(": "harness input domains only: perm index < 24, minterm < 16, symbolic p is a permutation, pattern well-formedness "
                       "(gate k references nodes < 4+k, output < 4+n, n <= MAX_ANDS) - see contract_clauses",
}

TABLE = ("perm_table(): the OnceLock + 3 MB Vec (24*65536 initialiser iterations) is not linked; npn_canonical's unchanged body reads the trusted accessor "
         "VpPermTable (units/npn/harness.rs) whose Index impl *is* the assumed contract table[i*65536+tt] == perm_tt(tt, ALL_PERMS[i]), i < 24 "
         "(the sentence of the real doc comment); the initialiser loop of the real perm_table is NOT proved")


def expand(text):
    return re.sub(r"#\[vp_proof\((\d+)\)\]", r"#[cfg_attr(kani, kani::proof)]\n    #[cfg_attr(kani, kani::unwind(\1))]", text)


def extracted(ctx):
    """-> (text, items) : the items of npn4.rs the harnesses link, byte for byte (file-level feature gate ignored)"""
    s = ctx.src(F)
    items, out = [], []

    def add(it):
        items.append(it)
        out.append(it.render())

    for kind, name in [("type", "Tt4"), ("const", "VAR_TT"), ("const", "MAX_ANDS"), ("const", "ALL_PERMS"),
                       ("fn", "perm_tt"), ("fn", "flip_inputs"), ("struct", "NpnTransform")]:
        add(s.item(kind, name))
    out.append("impl NpnTransform {")
    add(s.item("const", "IDENTITY", impl="NpnTransform"))
    add(s.item("fn", "apply", impl="NpnTransform"))
    out.append("}")
    add(s.item("fn", "npn_canonical"))
    add(s.item("struct", "PatEdge"))
    add(s.item("struct", "AigPattern"))
    out.append("impl AigPattern {")
    for f in ("size", "eval", "tt"):
        add(s.item("fn", f, impl="AigPattern"))
    out.append("}")
    add(s.item("fn", "transform_pattern"))
    return "\n".join(out) + "\n", items


def build(ctx, res):
    text, items = extracted(ctx)
    raw = ctx.unit_file("npn", "harness.rs")
    lib = text + expand(raw)
    fn_of = {"all_perms": "ALL_PERMS", "var_tt": "VAR_TT", "perm_tt": "perm_tt", "flip_inputs": "flip_inputs", "apply": "NpnTransform::apply",
             "pattern_tt": "AigPattern::eval", "transform_pattern": "transform_pattern", "canonical": "npn_canonical", "library": "build_library (one second-pass step)",
             "canary_pattern": "transform_pattern", "canary_canonical": "npn_canonical"}
    hs = []
    for n in re.findall(r"#\[vp_proof\(\d+\)\]\s*pub fn (\w+)", raw):
        fn = next((v for k, v in fn_of.items() if n.startswith(k)), n)
        hs.append(Harness("harness::" + n, kind="canary" if n.startswith("canary_") else "proof", fn=fn))
    for t in [TABLE] + LIB_ASSUMED:
        ent = "npn: " + t
        if ent not in res.trusted:
            res.trusted.append(ent)
    # the lemma about build_library is stated over its two insertion sites; if their text moves, the lemma no longer speaks
    # about the code and the run is undecided (ExtractError -> exit 2)
    bl = ctx.src(F).item("fn", "build_library")
    for anchor, n in LIB_ANCHORS:
        if bl.orig.count(anchor) != n:
            from vp.extract import ExtractError
            raise ExtractError("build_library: anchor %r expected %d x, found %d (library lemma no longer matches the code)" % (anchor, n, bl.orig.count(anchor)))
    items.append(bl)
    res.clauses.update({
        "spec": "npn_value_at(f,p,neg,o,y) := o ^ f(z), z[p[i]] = y[i] ^ neg_i (evaluation on one assignment); wf_pattern: gate k references nodes < 4+k, output < 4+n",
        "perm_tt": "for every tt, every row p of ALL_PERMS, every minterm m: bit m of perm_tt(tt,p) == tt(z), z[p[i]] = y[i] == bit sum((m>>i)&1)<<p[i] of tt",
        "flip_inputs": "for every tt, every u8 mask k, every m: bit m of flip_inputs(tt,k) == bit m^(k&15) of tt",
        "ALL_PERMS": "24 rows, each a permutation of {0,1,2,3}, pairwise distinct, every permutation present",
        "NpnTransform::apply": "t.apply(f)(y) == out_neg ^ f(z), z[perm[i]] = y[i] ^ in_neg_i; == flip_output(flip_inputs(perm_tt(f,perm),in_neg),out_neg)",
        "transform_pattern": "for every well-formed pat with <= MAX_ANDS gates and every t in ALL_PERMS x u8 x bool: result well-formed, same size, "
                             "result.tt() == t.apply(pat.tt())",
        "npn_canonical": "for every tt: (c,t) = npn_canonical(tt) ==> t in ALL_PERMS x 0..16 x bool, t.apply(tt) == c, and c <= T.apply(tt) for all 768 T",
        "library": "second pass step: pat well-formed, tt == pat.tt(), (canonical,t) = npn_canonical(tt) ==> transform_pattern(&pat,t).tt() == canonical; "
                   "see trusted_base for the steps of build_library that are assumed",
    })
    res.samples.append({"obligation": "kani:npn:canonical_is_least_in_class", "contract": "forall tt: u16, T in ALL_PERMS x u8 x bool: npn_canonical(tt).0 <= T.apply(tt)"})
    return [KaniJob("npn", lib, hs, deps={}, items=items, trusted=TRUSTED, jobs=4, timeout=1500, per_harness_timeout=600)]


# "Every library pattern computes its recorded truth table" = lemma over the contracts above; the steps that neither tool ingests are assumed:
LIB_ASSUMED = [
    "build_library, assumed (std HashMap + recursion over a nested fn, not ingested): (1) HashMap::insert(k,v)/get/into-iteration behave as a finite map, so every "
    "(tt, pat) the second pass sees was inserted by the only by_tt insertion site `let tt = pat.tt(); .. by_tt.insert(tt, pat)` and thus tt == pat.tt(); "
    "(2) every pattern built by the nested `enumerate` is well-formed with <= MAX_ANDS gates (a_node, b_node < 4 + ands.len(), out_node < 4 + ands.len(), recursion depth MAX_ANDS) - by inspection; "
    "(3) `best` is only written by `best.insert(canonical, canon_pat)` with (canonical, t) = npn_canonical(tt), canon_pat = transform_pattern(&pat, t). "
    "Given (1)-(3), harness library_canonical_entry_computes_its_key proves canon_pat.tt() == canonical for every entry; the textual anchors of the three sites are re-checked on every run",
    "not covered: that the library holds the *smallest* pattern per class, lookup_canonical/library() OnceLock plumbing, rewrite.rs cut enumeration/replacement, techmap.rs",
]
LIB_ANCHORS = [
    (".insert(", 2),
    ("let tt = pat.tt();", 1),
    ("by_tt.insert(tt, pat);", 1),
    ("for (tt, pat) in by_tt {", 1),
    ("let (canonical, t) = npn_canonical(tt);", 1),
    ("let canon_pat = transform_pattern(&pat, t);", 1),
    ("best.insert(canonical, canon_pat);", 1),
]
