"""U8 npn - NPN4 canonicalisation + pattern transformation (C21).
Kani/CBMC (complete: constant loop bounds 16/4/24, full u16 domain) for the truth-table transforms and transform_pattern;
Verus (unbounded) for npn_canonical's minimality loop and the perm_table initialiser."""
import re
from vp.core import KaniJob, VerusJob
from vp.extract import ExtractError
from vp.kani_run import Harness
from vp.verus_run import VerusFile

F = "crates/synthesizer/src/aig/npn4.rs"

KANI_TRUSTED = {
    r"kani::assume\(": "harness input domains only: perm index < 24, minterm < 16, symbolic p is a permutation, pattern well-formedness (gate k references "
                       "nodes < 4+k, output < 4+n); in transform_commutes every other assume(P) directly follows assert!(P) on the same values (lemma chaining: P is checked "
                       "for all inputs before it is used); the library step (6) assumes npn_canonical's postcondition t.apply(tt) == canonical, proved in the Verus job",
}
VERUS_TRUSTED = {
    r"pub fn perm_tt": "perm_tt kept with its real body but external_body: Verus sees it as the pure function sp_perm_tt (its bit-level meaning, totality and "
                       "panic-freedom are proved for all 2^16 x 24 inputs by Kani harness perm_tt_permutes_inputs)",
    r"pub fn flip_inputs": "flip_inputs kept with its real body but external_body: Verus sees it as the pure function sp_flip (meaning proved by Kani harness flip_inputs_negates_inputs)",
    r"fn perm_table\(\)": "perm_table(): OnceLock accessor, external_body with the contract of its doc comment table[i*65536+tt] == perm_tt(tt, ALL_PERMS[i]); the initialiser "
                          "closure body is proved against that contract as vp_perm_table_init (rule O9); trusted: OnceLock::get_or_init returns a reference to the value its closure returned",
    r"u16::count_ones": "O5: assume_specification for u16::count_ones (result <= 16 only); unused at HEAD, present so that edits using it are ingested and judged by the contract",
    r"proof fn ax_identity_apply": "axiom A3 flip_inputs(perm_tt(tt,[0,1,2,3]),0) == tt: proved for every tt by Kani harness identity_transform_is_identity",
}

E7B = "E7b"   # `for (i, &x) in ARR.iter().enumerate()` -> `for i in 0..ARR.len()` + `let x = ARR[i];` at body start (Verus: no ref patterns, no Enumerate spec)
O9 = "O9"     # OnceLock wrapper `static T..; T.get_or_init(|| { BODY })` removed: BODY becomes the body of a function returning the value


def expand(text):
    return re.sub(r"#\[vp_proof\((\d+)\)\]", r"#[cfg_attr(kani, kani::proof)]\n    #[cfg_attr(kani, kani::unwind(\1))]", text)


KANI_ITEMS = [("type", "Tt4", None), ("const", "VAR_TT", None), ("const", "MAX_ANDS", None), ("const", "ALL_PERMS", None), ("fn", "perm_tt", None),
              ("fn", "flip_inputs", None), ("struct", "NpnTransform", None), ("impl{", "NpnTransform", None), ("const", "IDENTITY", "NpnTransform"),
              ("fn", "apply", "NpnTransform"), ("}", None, None), ("struct", "PatEdge", None), ("struct", "AigPattern", None), ("impl{", "AigPattern", None),
              ("fn", "size", "AigPattern"), ("fn", "eval", "AigPattern"), ("fn", "tt", "AigPattern"), ("}", None, None), ("fn", "transform_pattern", None)]


def cut(ctx, plan, orig=False):
    """-> (text, items): items of npn4.rs, byte for byte (the crate-level `#[cfg(feature = "aig")]` gate is ignored)"""
    s = ctx.src(F)
    items, out = [], []
    for kind, name, impl in plan:
        if kind == "impl{":
            out.append("impl %s {" % name)
        elif kind == "}":
            out.append("}")
        else:
            it = s.item(kind, name, impl=impl)
            items.append(it)
            out.append(it.orig if orig else it.render())
    return "\n".join(out) + "\n", items


def kani_job(ctx, res):
    text, items = cut(ctx, KANI_ITEMS)
    raw = ctx.unit_file("npn", "harness.rs")
    lib = text + ctx.unit_file("npn", "spec.rs") + expand(raw)
    fn_of = {"all_perms": "ALL_PERMS", "var_tt": "VAR_TT", "perm_tt": "perm_tt", "flip_inputs": "flip_inputs", "apply": "NpnTransform::apply",
             "identity": "NpnTransform::IDENTITY", "pattern_tt": "AigPattern::eval", "transform_pattern": "transform_pattern",
             "canary_pattern": "AigPattern::eval", "canary_transform": "transform_pattern"}
    hs = []
    for n in re.findall(r"#\[vp_proof\(\d+\)\]\s*pub fn (\w+)", raw):
        fn = next((v for k, v in fn_of.items() if n.startswith(k)), n)
        hs.append(Harness("harness::" + n, kind="canary" if n.startswith("canary_") else "proof", fn=fn))
    return KaniJob("npn", lib, hs, deps={}, items=items, trusted=KANI_TRUSTED, jobs=4, timeout=1200, per_harness_timeout=400)


def verus_job(ctx, res):
    s = ctx.src(F)
    vf = VerusFile(header="use vstd::prelude::*;\nuse std::sync::OnceLock;\nverus! {\nglobal size_of usize == 8;\n")
    items = []

    def add(it, label=None):
        items.append(it)
        vf.item(it, label)

    add(s.item("type", "Tt4"))
    add(s.item("const", "ALL_PERMS"))
    for name, sp in (("perm_tt", "sp_perm_tt(tt, perm)"), ("flip_inputs", "sp_flip(tt, mask)")):
        f = s.item("fn", name)
        f.prepend("#[verifier::external_body]")
        f.name_return("r")
        f.spec("    ensures r == %s," % sp)
        add(f)
    add(s.item("struct", "NpnTransform"))
    vf.raw("impl NpnTransform {", "impl")
    add(s.item("const", "IDENTITY", impl="NpnTransform"), "NpnTransform::IDENTITY")
    f = s.item("fn", "apply", impl="NpnTransform")
    f.name_return("r")
    f.spec("    ensures r == sp_apply(self, tt),")
    add(f, "NpnTransform::apply")
    vf.raw("}", "impl")

    # the accessor as npn_canonical sees it (trusted contract) ...
    f = s.item("fn", "perm_table")
    f.prepend("#[verifier::external_body]")
    f.name_return("r")
    f.spec("    ensures table_ok(r@),")
    add(f)
    # ... and its initialiser proved against the same contract
    f = s.item("fn", "perm_table")
    f.replace("fn perm_table() -> &'static Vec<Tt4> {\n    static T: OnceLock<Vec<Tt4>> = OnceLock::new();\n    T.get_or_init(|| {",
              "fn vp_perm_table_init() -> (r: Vec<Tt4>)\n    ensures table_ok(r@),\n{", rule=O9)
    f.replace("    })\n}", "}", rule=O9)
    f.replace("for (i, &perm) in ALL_PERMS.iter().enumerate()", "for i in 0..ALL_PERMS.len()", rule=E7B)
    f.loop_body_start(0, "            let perm = ALL_PERMS[i];")
    f.loop_spec(0, "            invariant table_filled(t@, i as int, 0),")
    f.loop_spec(1, "                invariant 0 <= i < 24, base == i * 65536, perm == ALL_PERMS[i as int], table_filled(t@, i as int, tt as int),")
    add(f, "vp_perm_table_init")

    f = s.item("fn", "npn_canonical")
    f.name_return("r")
    f.spec("    ensures\n"
           "        sp_apply(r.1, tt) == r.0,\n"
           "        in_group(r.1),\n"
           "        forall|p: int, n: int, o: bool| 0 <= p < 24 && 0 <= n < 16 ==> r.0 <= sp_apply(#[trigger] npn_t(p, n, o), tt),")
    f.replace("for (pi, &perm) in ALL_PERMS.iter().enumerate()", "for pi in 0..ALL_PERMS.len()", rule=E7B)
    f.loop_body_start(0, "        let perm = ALL_PERMS[pi];")
    f.before_loop(0, "    proof { lemma_identity(tt); }")
    f.loop_spec(0, "        invariant\n"
                   "            table_ok(table@),\n"
                   "            sp_apply(best, tt) == best_tt,\n"
                   "            in_group(best),\n"
                   "            forall|p: int, n: int, o: bool| visited(p, n, pi as int, 0) ==> best_tt <= sp_apply(#[trigger] npn_t(p, n, o), tt),")
    f.loop_spec(1, "            invariant\n"
                   "                0 <= pi < 24,\n"
                   "                perm == ALL_PERMS[pi as int],\n"
                   "                permed == sp_perm_tt(tt, perm),\n"
                   "                sp_apply(best, tt) == best_tt,\n"
                   "                in_group(best),\n"
                   "                forall|p: int, n: int, o: bool| visited(p, n, pi as int, in_neg as int) ==> best_tt <= sp_apply(#[trigger] npn_t(p, n, o), tt),")
    f.loop_body_end(1, "            proof {\n"
                       "                assert(sp_apply(npn_t(pi as int, in_neg as int, false), tt) == flipped);\n"
                       "                assert(sp_apply(npn_t(pi as int, in_neg as int, true), tt) == neg);\n"
                       "            }")
    add(f)
    vf.raw(ctx.unit_file("npn", "verus_spec.rs"), "spec")
    text = vf.finish()
    expect = ["NpnTransform::apply", "vp_perm_table_init", "npn_canonical", "lemma_identity", "lemma_least_unfolded"]
    canaries = [
        ("vp_canary_axiom", "proof fn vp_canary_axiom(tt: u16) ensures false { ax_identity_apply(tt); }"),
        ("vp_canary_table", "proof fn vp_canary_table(t: Seq<u16>) requires table_ok(t) ensures false {}"),
        ("vp_canary_least", "proof fn vp_canary_least(tt: u16, c: u16) requires forall|p: int, n: int, o: bool| 0 <= p < 24 && 0 <= n < 16 ==> "
                            "c <= sp_apply(#[trigger] npn_t(p, n, o), tt) ensures false {}"),
    ]
    return VerusJob("npn_canon", text, vf, expect, canaries=canaries, items=items, trusted=VERUS_TRUSTED, rlimit=30)


def build(ctx, res):
    # the lemma about build_library is stated over its insertion sites; if their text moves, the lemma no longer speaks about
    # the code and the run is undecided (ExtractError -> exit 2)
    bl = ctx.src(F).item("fn", "build_library")
    for anchor, n in LIB_ANCHORS:
        if bl.orig.count(anchor) != n:
            raise ExtractError("build_library: anchor %r expected %d x, found %d (library lemma no longer matches the code)" % (anchor, n, bl.orig.count(anchor)))
    kj = kani_job(ctx, res)
    kj.items.append(bl)
    vj = verus_job(ctx, res)
    for t in LIB_ASSUMED:
        ent = "npn: " + t
        if ent not in res.trusted:
            res.trusted.append(ent)
    res.clauses.update({
        "spec": "npn_value_at(f,p,neg,o,y) := o ^ f(z), z[p[i]] = y[i] ^ neg_i (evaluation on one assignment); wf_pattern: gate k references nodes < 4+k, output < 4+n",
        "perm_tt": "for every tt, every row p of ALL_PERMS, every minterm m: bit m of perm_tt(tt,p) == tt(z), z[p[i]] = y[i] == bit sum((m>>i)&1)<<p[i] of tt",
        "flip_inputs": "for every tt, every u8 mask k, every m: bit m of flip_inputs(tt,k) == bit m^(k&15) of tt",
        "ALL_PERMS": "24 rows, each a permutation of {0,1,2,3}, pairwise distinct, every permutation present",
        "NpnTransform::apply": "t.apply(f)(y) == out_neg ^ f(z), z[perm[i]] = y[i] ^ in_neg_i; == flip_output(flip_inputs(perm_tt(f,perm),in_neg),out_neg); IDENTITY.apply(f) == f",
        "transform_pattern": "for every well-formed pat with 0..=3 (= MAX_ANDS) gates and every t in ALL_PERMS x u8 x bool: result well-formed, same size, "
                             "result.tt() == t.apply(pat.tt()) (guided proof: node-table induction, every step asserted before it is assumed); on single assignments: result(y) == o ^ pat(z)",
        "npn_canonical": "Verus: ensures t.apply(tt) == c, t in ALL_PERMS x 0..16 x bool, forall p<24, n<16, o: c <= (ALL_PERMS[p],n,o).apply(tt); loop invariant: "
                         "best.apply(tt) == best_tt && forall visited (p,n,o): best_tt <= T(p,n,o).apply(tt)",
        "perm_table": "Verus: the initialiser closure body (as vp_perm_table_init) ensures len == 24*65536 and t[i*65536+tt] == perm_tt(tt, ALL_PERMS[i]); all index arithmetic in bounds",
        "library": "second pass step: pat well-formed, tt == pat.tt(), (canonical,t) any pair satisfying npn_canonical's contract ==> transform_pattern(&pat,t).tt() == canonical; "
                   "see trusted_base for the steps of build_library that are assumed",
    })
    res.samples.append({"obligation": "verus:npn:npn_canonical",
                        "contract": "ensures sp_apply(r.1, tt) == r.0, in_group(r.1), forall p<24, n<16, o: r.0 <= sp_apply(npn_t(p,n,o), tt)"})
    res.samples.append({"obligation": "kani:npn:transform_pattern_commutes_with_apply_3_gates", "contract": "transform_pattern(&pat,t).tt() == t.apply(pat.tt())"})
    return [vj, kj]


# "Every library pattern computes its recorded truth table" = lemma over the contracts above; the steps that neither tool ingests are assumed:
LIB_ASSUMED = [
    "build_library, assumed (std HashMap + a recursive nested fn, not ingested): (1) HashMap::insert/get/into-iteration behave as a finite map, so every "
    "(tt, pat) the second pass sees was inserted by the only by_tt insertion site `let tt = pat.tt(); .. by_tt.insert(tt, pat);` and thus tt == pat.tt(); "
    "(2) every pattern built by the nested `enumerate` is well-formed with <= MAX_ANDS gates (a_node, b_node < 4 + ands.len(), out_node < 4 + ands.len(), recursion depth MAX_ANDS) - by inspection; "
    "(3) `best` is only written by `best.insert(canonical, canon_pat);` with (canonical, t) = npn_canonical(tt), canon_pat = transform_pattern(&pat, t). "
    "Given (1)-(3), step (6) of the transform_pattern_commutes_with_apply_{0,1,2,3}_gates harnesses + npn_canonical's Verus contract give canon_pat.tt() == canonical for every entry; the textual anchors of the sites are re-checked on every run",
    "not covered: that the library holds the *smallest* pattern per class, lookup_canonical / library() OnceLock plumbing, rewrite.rs cut enumeration and replacement, techmap.rs",
]
LIB_ANCHORS = [
    (".insert(", 2),
    ("let tt = pat.tt();", 1),
    ("by_tt.insert(tt, pat);", 1),
    ("for (tt, pat) in by_tt {", 1),
    ("let (canonical, t) = npn_canonical(tt);", 1),
    ("let canon_pat = transform_pattern(&pat, t);", 1),
    ("best.insert(canonical, canon_pat);", 1),
]

REPLAY_ITEMS = [("type", "Tt4", None), ("const", "VAR_TT", None), ("const", "MAX_ANDS", None), ("const", "ALL_PERMS", None), ("fn", "perm_tt", None),
                ("fn", "flip_inputs", None), ("struct", "NpnTransform", None), ("impl{", "NpnTransform", None), ("const", "IDENTITY", "NpnTransform"),
                ("fn", "apply", "NpnTransform"), ("}", None, None), ("fn", "perm_table", None), ("fn", "npn_canonical", None), ("struct", "PatEdge", None),
                ("struct", "AigPattern", None), ("impl{", "AigPattern", None), ("fn", "size", "AigPattern"), ("fn", "eval", "AigPattern"),
                ("fn", "tt", "AigPattern"), ("}", None, None), ("fn", "transform_pattern", None), ("fn", "library", None), ("fn", "lookup_canonical", None),
                ("fn", "build_library", None)]


def replay(ctx, res, failure):
    """Verus gives no counterexample: compile the ORIGINAL item texts natively and enumerate all 65536 tables (x 768 transforms),
    the whole lookup table and the whole pattern library; prints FOUND {json} for the first concrete failing input."""
    from vp.core import native_search
    if ctx.repo in _REPLAY_CACHE:          # one exhaustive run serves every failed obligation of this tree
        return dict(_REPLAY_CACHE[ctx.repo])
    text, _ = cut(ctx, REPLAY_ITEMS, orig=True)
    body = ("#![allow(dead_code, unused_imports, unused_variables, unused_mut)]\nuse std::collections::HashMap;\nuse std::sync::OnceLock;\n"
            + text + ctx.unit_file("npn", "spec.rs") + ctx.unit_file("npn", "replay.rs"))
    r = native_search(ctx, "npn", "npn", body, timeout=900)
    _REPLAY_CACHE[ctx.repo] = r
    return dict(r)


_REPLAY_CACHE = {}
