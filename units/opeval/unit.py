"""U4 opeval — IEEE 1800 operator evaluation at <=64 bits (C17, C18). Back end: Kani/CBMC, complete (loop-free, all widths symbolic)."""
import re
from vp.core import KaniJob
from vp.kani_run import Harness
from units.common import valuelib as VL

TRUSTED = dict(VL.STUB_TRUST)
TRUSTED.update({
    r"kani::assume\(": "harness preconditions (operand representation invariant wf, context width >= operand widths, expression signed only if operands are) - see contract_clauses",
})

QUICK_SKIP = set()


UF_HARNESSES = ("op_mul", "op_div", "op_rem")


def build(ctx, res):
    vtext, vitems = VL.value_module(ctx)
    otext, oitems = VL.op_module(ctx)
    utext, uitems = VL.op_module(ctx, uf=True)
    h = VL.expand_harness_attrs(ctx.unit_file("opeval", "harness.rs"), unwind=2)
    lib = VL.PRELUDE + vtext + otext + VL.BIG_STUBS + VL.UF_MODULE + h
    lib_uf = VL.PRELUDE + vtext + utext + VL.BIG_STUBS + VL.UF_MODULE + h
    names = re.findall(r"#\[vp_proof\]\s*pub fn (\w+)", ctx.unit_file("opeval", "harness.rs"))
    hs, hs_uf = [], []
    for n in names:
        kind = "canary" if n.startswith("canary_") else "bounded" if n.startswith("small_") else "proof"
        fn = "Op::eval_value_unary" if n.startswith(("op_unary", "op_red", "op_bitnot", "op_logic_not")) else "Op::eval_value_binary"
        hx = Harness("harness::" + n, kind=kind, fn=fn, bound="context width <= 8 (real machine mul/div/rem vs i128 reference)" if kind == "bounded" else None)
        (hs_uf if n in UF_HARNESSES else hs).append(hx)
    TRUSTED.update(VL.UF_TRUST)
    res.clauses.update({
        "requires": "wf(x), wf(y) (payload/mask_xz within width, width<=64, width 0 only for the unsized all-bit literal); 1<=w<=64; "
                    "context-determined ops: w >= operand widths and signed ==> both operands signed; shifts: w >= x.width, signed ==> x.signed",
        "ensures": "result is Value::U64, wf(result), width == w, and payload/mask_xz equal the IEEE 1800 reference (harness.rs::spec) "
                   "for every operand value, every operand width and every context width; big-integer code unreachable (stubs panic)",
        "signed flag": "checked for arithmetic results (== expression signedness) and 1-bit results (unsigned); not constrained for bitwise/shift results",
    })
    res.samples.append({"obligation": "kani:opeval:op_eq", "contract": "definite mismatch on a position known in both -> 0; else any x/z -> x; else 1; zero-extended to w"})
    res.clauses["mul/div/rem"] = ("rule E10: u64::wrapping_mul, u64 `/` `%`, i64 checked_div/checked_rem are replaced in code and reference by the same uninterpreted "
                                  "functions (job opeval_uf), so operand extension, x/z handling, sign conversion, zero-divisor and MIN/-1 handling and masking are proved for "
                                  "all widths; the machine operations themselves are trusted, and cross-checked against an i128 reference at context width <= 8 (bounded stand-ins small_*)")
    return [KaniJob("opeval", lib, hs, deps=VL.DEPS, items=vitems + oitems, trusted=TRUSTED, jobs=6, timeout=3300, per_harness_timeout=900),
            KaniJob("opeval_uf", lib_uf, hs_uf, deps=VL.DEPS, items=uitems[-1:], trusted=TRUSTED, jobs=3, timeout=1800, per_harness_timeout=900)]
