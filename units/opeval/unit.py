"""U4 opeval — IEEE 1800 operator evaluation at <=64 bits (C17, C18). Back end: Kani/CBMC, complete (loop-free, all widths symbolic)."""
import re
from vp.core import KaniJob
from vp.kani_run import Harness
from units.common import valuelib as VL

TRUSTED = dict(VL.STUB_TRUST)
TRUSTED.update({
    r"kani::assume\(": "harness preconditions (operand representation invariant wf, context width >= operand widths, expression signed only if operands are) - see contract_clauses",
})

QUICK_SKIP = set()


def build(ctx, res):
    vtext, vitems = VL.value_module(ctx)
    otext, oitems = VL.op_module(ctx)
    h = VL.expand_harness_attrs(ctx.unit_file("opeval", "harness.rs"), unwind=2)
    lib = VL.PRELUDE + vtext + otext + VL.BIG_STUBS + h
    names = re.findall(r"#\[vp_proof\]\s*pub fn (\w+)", ctx.unit_file("opeval", "harness.rs"))
    hs = []
    for n in names:
        kind = "canary" if n.startswith("canary_") else "proof"
        hs.append(Harness("harness::" + n, kind=kind, fn="Op::eval_value_unary" if n.startswith(("op_unary", "op_red", "op_bitnot", "op_logic_not")) else "Op::eval_value_binary"))
    res.clauses.update({
        "requires": "wf(x), wf(y) (payload/mask_xz within width, width<=64, width 0 only for the unsized all-bit literal); 1<=w<=64; "
                    "context-determined ops: w >= operand widths and signed ==> both operands signed; shifts: w >= x.width, signed ==> x.signed",
        "ensures": "result is Value::U64, wf(result), width == w, and payload/mask_xz equal the IEEE 1800 reference (harness.rs::spec) "
                   "for every operand value, every operand width and every context width; big-integer code unreachable (stubs panic)",
        "signed flag": "checked for arithmetic results (== expression signedness) and 1-bit results (unsigned); not constrained for bitwise/shift results",
    })
    res.samples.append({"obligation": "kani:opeval:op_eq", "contract": "definite mismatch on a position known in both -> 0; else any x/z -> x; else 1; zero-extended to w"})
    return [KaniJob("opeval", lib, hs, deps=VL.DEPS, items=vitems + oitems, trusted=TRUSTED, jobs=14, timeout=3300, per_harness_timeout=1500)]
