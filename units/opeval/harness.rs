// Unit `opeval`: reference model of IEEE 1800-2023 operator semantics (§11.4, §11.8) for operands that fit
// the <=64-bit representation, and one harness per operator comparing the REAL eval_value_* text against it.
// Style is deliberately different from the code under test: per-bit 4-state tables with a symbolic bit
// index for bitwise/shift/extension, word arithmetic only where the operator itself is word arithmetic.
pub mod spec {
    use crate::op::Op;
    use crate::value::{MaskCache, Value, ValueU64};

    pub fn rmask(w: usize) -> u64 {
        if w >= 64 { !0u64 } else { !(!0u64 << w) }
    }

    #[derive(Clone, Copy, PartialEq, Eq, Debug)]
    pub enum B4 { Zero, One, X, Z }
    use B4::*;

    pub fn b4(p: u64, m: u64, k: usize) -> B4 {
        if k >= 64 { return Zero; }
        let sel = 1u64 << k;                       // one-hot select (cheaper for the SAT back end than a barrel shifter)
        match (p & sel != 0, m & sel != 0) {
            (false, false) => Zero,
            (true, false) => One,
            (false, true) => X,
            (true, true) => Z,
        }
    }
    pub fn unk(b: B4) -> bool { b == X || b == Z }
    /// operator results never produce Z: unknown is X
    pub fn norm(b: B4) -> B4 { if b == Z { X } else { b } }

    /// representation invariant of ValueU64 (width 0 = the unsized all-bit literal '0 '1 'x 'z)
    pub fn wf(v: &ValueU64) -> bool {
        let w = v.width as usize;
        if w == 0 {
            !v.signed && v.payload <= 1 && v.mask_xz <= 1
        } else {
            w <= 64 && v.payload & !rmask(w) == 0 && v.mask_xz & !rmask(w) == 0
        }
    }

    pub fn any_v64() -> ValueU64 {
        let v = ValueU64 { payload: kani::any(), mask_xz: kani::any(), width: kani::any(), signed: kani::any() };
        kani::assume(wf(&v));
        v
    }
    pub fn any_v64_sized() -> ValueU64 {
        let v = any_v64();
        kani::assume(v.width >= 1);
        v
    }

    /// §11.8.2 operand extension, bit view: bit k of `v` extended to a wider context.
    /// sext = "the expression type is signed and so is the operand".
    pub fn ext_bit(v: &ValueU64, k: usize, sext: bool) -> B4 {
        let w = v.width as usize;
        if w == 0 { return b4(v.payload, v.mask_xz, 0); }         // all-bit literal fills every position
        if k < w { b4(v.payload, v.mask_xz, k) }
        else if sext { b4(v.payload, v.mask_xz, w - 1) }             // x/z sign bit extends as x/z
        else { Zero }
    }

    /// word view of the same extension to `w` bits (p, m); agreement with ext_bit is itself proved (harness spec_ext_agrees)
    pub fn ext(v: &ValueU64, w: usize, sext: bool) -> (u64, u64) {
        let vw = v.width as usize;
        let full = rmask(w);
        if vw == 0 {
            return (if v.payload == 1 { full } else { 0 }, if v.mask_xz == 1 { full } else { 0 });
        }
        if vw >= w { return (v.payload, v.mask_xz); }
        let hi = full ^ rmask(vw);
        let sp = sext && (v.payload >> (vw - 1)) & 1 == 1;
        let sm = sext && (v.mask_xz >> (vw - 1)) & 1 == 1;
        (v.payload | if sp { hi } else { 0 }, v.mask_xz | if sm { hi } else { 0 })
    }

    /// two's complement value of the low w bits (1 <= w <= 64)
    pub fn sval(p: u64, w: usize) -> i64 {
        if w >= 64 { p as i64 }
        else if (p >> (w - 1)) & 1 == 1 { (p | !rmask(w)) as i64 }
        else { p as i64 }
    }

    pub fn as_u64(v: &Value) -> Option<&ValueU64> {
        match v { Value::U64(x) => Some(x), _ => None }
    }

    pub fn bit_and(a: B4, b: B4) -> B4 {
        if a == Zero || b == Zero { Zero } else if a == One && b == One { One } else { X }
    }
    pub fn bit_or(a: B4, b: B4) -> B4 {
        if a == One || b == One { One } else if a == Zero && b == Zero { Zero } else { X }
    }
    pub fn bit_xor(a: B4, b: B4) -> B4 {
        if unk(a) || unk(b) { X } else if a != b { One } else { Zero }
    }
    pub fn bit_not(a: B4) -> B4 {
        match a { Zero => One, One => Zero, _ => X }
    }

    /// 3-valued truth of a vector (§11.4.7): Some(true) if some bit is a known 1, Some(false) if all bits known 0
    pub fn truth(v: &ValueU64) -> Option<bool> {
        if v.payload & !v.mask_xz != 0 { Some(true) } else if v.mask_xz == 0 { Some(false) } else { None }
    }

    /// expected shape of a 1-bit result zero-extended to the context width w (w >= 1)
    pub fn is_bit_result(r: &ValueU64, w: usize, b: B4) -> bool {
        r.width as usize == w && !r.signed && match b {
            Zero => r.payload == 0 && r.mask_xz == 0,
            One => r.payload == 1 && r.mask_xz == 0,
            _ => r.payload == 0 && r.mask_xz == 1,
        }
    }
    pub fn all_x(r: &ValueU64, w: usize) -> bool {
        r.width as usize == w && r.payload == 0 && r.mask_xz == rmask(w)
    }
}

pub mod harness {
    use super::spec::*;
    use super::spec::B4::*;
    use crate::op::Op;
    use crate::value::{MaskCache, Value, ValueU64};

    fn bin(op: Op, x: &ValueU64, y: &ValueU64, w: usize, signed: bool) -> ValueU64 {
        let mut cache = MaskCache::default();
        let r = op.eval_value_binary(&Value::U64(x.clone()), &Value::U64(y.clone()), w, signed, &mut cache);
        let r = as_u64(&r).expect("result of a <=64-bit operation must stay in the <=64-bit representation").clone();
        assert!(wf(&r), "result violates the representation invariant");
        r
    }
    fn un(op: Op, x: &ValueU64, w: usize, signed: bool) -> ValueU64 {
        let mut cache = MaskCache::default();
        let r = op.eval_value_unary(&Value::U64(x.clone()), w, signed, &mut cache);
        let r = as_u64(&r).expect("result of a <=64-bit operation must stay in the <=64-bit representation").clone();
        assert!(wf(&r), "result violates the representation invariant");
        r
    }

    /// context-determined binary operators: expression width >= both operand widths, and the expression is
    /// signed only if both operands are (eval_context_binary: signed = x.signed & y.signed)
    fn ctx_binary() -> (ValueU64, ValueU64, usize, bool) {
        let x = any_v64();
        let y = any_v64();
        let w: usize = kani::any();
        let signed: bool = kani::any();
        kani::assume(w >= 1 && w <= 64 && w >= x.width as usize && w >= y.width as usize);
        kani::assume(!signed || (x.signed && y.signed));
        (x, y, w, signed)
    }

    // ---- the spec's own two views of operand extension agree --------------------------------------------
    #[vp_proof]
    pub fn spec_ext_agrees() {
        let v = any_v64();
        let w: usize = kani::any();
        let sext: bool = kani::any();
        kani::assume(w >= 1 && w <= 64 && w >= v.width as usize);
        kani::assume(!sext || v.width >= 1);
        let (p, m) = ext(&v, w, sext);
        let k: usize = kani::any();
        kani::assume(k < 64);
        if k < w { assert!(b4(p, m, k) == ext_bit(&v, k, sext)); } else { assert!(b4(p, m, k) == Zero); }
    }

    // ---- arithmetic (§11.4.2): any x/z -> all x; otherwise modulo 2^w on operands extended to w ----------
    fn arith(op: Op) {
        let (x, y, w, signed) = ctx_binary();
        let r = bin(op, &x, &y, w, signed);
        let (xp, xm) = ext(&x, w, signed);
        let (yp, ym) = ext(&y, w, signed);
        assert!(r.width as usize == w);
        assert!(r.signed == signed);
        if xm != 0 || ym != 0 {
            assert!(all_x(&r, w));
            return;
        }
        assert!(r.mask_xz == 0);
        let full = rmask(w);
        match op {
            Op::Add => { assert!(r.payload == xp.wrapping_add(yp) & full) }
            Op::Sub => { assert!(r.payload == xp.wrapping_sub(yp) & full) }
            // job opeval_uf: the multiplier is the same uninterpreted function in code and reference (rule E10)
            Op::Mul => { assert!(r.payload == crate::uf::mul(xp, yp) & full) }
            _ => unreachable!(),
        }
    }
    #[vp_proof]
    pub fn op_add() { arith(Op::Add) }
    #[vp_proof]
    pub fn op_sub() { arith(Op::Sub) }
    #[vp_proof]
    pub fn op_mul() { arith(Op::Mul) }

    // division / modulus (§11.4.2): zero divisor or any x/z -> all x; signed: truncate toward zero,
    // remainder takes the sign of the dividend; results modulo 2^w (so MIN / -1 wraps to MIN)
    fn divrem(op: Op) {
        let (x, y, w, signed) = ctx_binary();
        let r = bin(op, &x, &y, w, signed);
        let (xp, xm) = ext(&x, w, signed);
        let (yp, ym) = ext(&y, w, signed);
        assert!(r.width as usize == w);
        assert!(r.signed == signed);
        if xm != 0 || ym != 0 || yp == 0 {
            assert!(all_x(&r, w));
            return;
        }
        assert!(r.mask_xz == 0);
        let full = rmask(w);
        // job opeval_uf: divider/remainder are the same uninterpreted functions in code and reference (rule E10);
        // the overflow case MIN / -1 is spelled out: quotient wraps to MIN (== dividend), remainder 0
        let expect = if signed {
            let (a, b) = (sval(xp, w), sval(yp, w));
            let ovf = a == i64::MIN && b == -1;
            match op {
                Op::Div => (if ovf { a } else { crate::uf::sdiv(a, b) }) as u64 & full,
                _ => (if ovf { 0 } else { crate::uf::srem(a, b) }) as u64 & full,
            }
        } else {
            match op { Op::Div => crate::uf::udiv(xp, yp) & full, _ => crate::uf::urem(xp, yp) & full }
        };
        assert!(r.payload == expect);
    }

    // bounded stand-ins with the REAL machine operations against a mathematical reference (i128), context width <= 8
    fn arith_small(op: Op) {
        let (x, y, w, signed) = ctx_binary();
        kani::assume(w <= 8);
        let r = bin(op, &x, &y, w, signed);
        let (xp, xm) = ext(&x, w, signed);
        let (yp, ym) = ext(&y, w, signed);
        if xm != 0 || ym != 0 || (yp == 0 && op != Op::Mul) {
            assert!(all_x(&r, w));
            return;
        }
        let (a, b) = if signed { (sval(xp, w) as i128, sval(yp, w) as i128) } else { (xp as i128, yp as i128) };
        // truncation toward zero; remainder has the sign of the dividend (IEEE 1800 11.4.2)
        let m = match op {
            Op::Mul => a * b,
            Op::Div => { let q = a.abs() / b.abs(); if (a < 0) != (b < 0) { -q } else { q } }
            _ => { let q = a.abs() % b.abs(); if a < 0 { -q } else { q } }
        };
        assert!(r.mask_xz == 0 && r.width as usize == w);
        assert!(r.payload == (m as u64) & rmask(w));
    }
    #[vp_proof]
    pub fn small_mul() { arith_small(Op::Mul) }
    #[vp_proof]
    pub fn small_div() { arith_small(Op::Div) }
    #[vp_proof]
    pub fn small_rem() { arith_small(Op::Rem) }
    #[vp_proof]
    pub fn op_div() { divrem(Op::Div) }
    #[vp_proof]
    pub fn op_rem() { divrem(Op::Rem) }

    // ---- bitwise binary (§11.4.8): 4-state tables bit by bit on the extended operands -------------------
    fn bitwise(op: Op) {
        let (x, y, w, signed) = ctx_binary();
        let r = bin(op, &x, &y, w, signed);
        assert!(r.width as usize == w);
        let k: usize = kani::any();
        kani::assume(k < w);
        let a = ext_bit(&x, k, signed);
        let b = ext_bit(&y, k, signed);
        let e = match op {
            Op::BitAnd => bit_and(a, b),
            Op::BitOr => bit_or(a, b),
            Op::BitXor => bit_xor(a, b),
            Op::BitXnor => bit_not(bit_xor(a, b)),
            _ => unreachable!(),
        };
        assert!(b4(r.payload, r.mask_xz, k) == e);
    }
    #[vp_proof]
    pub fn op_bitand() { bitwise(Op::BitAnd) }
    #[vp_proof]
    pub fn op_bitor() { bitwise(Op::BitOr) }
    #[vp_proof]
    pub fn op_bitxor() { bitwise(Op::BitXor) }
    #[vp_proof]
    pub fn op_bitxnor() { bitwise(Op::BitXnor) }

    // ---- equality (§11.4.5): operands extended to max(wx, wy), sign-extended iff both signed.
    // Some position where both bits are known and differ -> 0 ; else any x/z -> x ; else 1.
    fn self_det_binary() -> (ValueU64, ValueU64, usize) {
        let x = any_v64();
        let y = any_v64();
        let w: usize = kani::any();
        kani::assume(w >= 1 && w <= 64);
        kani::assume(x.width >= 1 || y.width >= 1);
        (x, y, w)
    }
    fn equality(op: Op) {
        let (x, y, w) = self_det_binary();
        let r = bin(op, &x, &y, w, false);
        let cw = (x.width as usize).max(y.width as usize);
        let sext = x.signed && y.signed;
        let (xp, xm) = ext(&x, cw, sext);
        let (yp, ym) = ext(&y, cw, sext);
        let known = !xm & !ym & rmask(cw);
        let definite_mismatch = (xp ^ yp) & known != 0;
        let ambiguous = (xm | ym) & rmask(cw) != 0;
        let eq = if definite_mismatch { Zero } else if ambiguous { X } else { One };
        let e = match op { Op::Eq => eq, _ => bit_not(eq) };
        assert!(is_bit_result(&r, w, e));
    }
    #[vp_proof]
    pub fn op_eq() { equality(Op::Eq) }
    #[vp_proof]
    pub fn op_ne() { equality(Op::Ne) }

    // wildcard equality (§11.4.6): x/z bits of the RIGHT operand are don't-care positions
    fn wildcard(op: Op) {
        let (x, y, w) = self_det_binary();
        let r = bin(op, &x, &y, w, false);
        let cw = (x.width as usize).max(y.width as usize);
        let sext = x.signed && y.signed;
        let (xp, xm) = ext(&x, cw, sext);
        let (yp, ym) = ext(&y, cw, sext);
        let cmp = !ym & rmask(cw);
        let definite_mismatch = (xp ^ yp) & cmp & !xm != 0;
        let ambiguous = xm & cmp != 0;
        let eq = if definite_mismatch { Zero } else if ambiguous { X } else { One };
        let e = match op { Op::EqWildcard => eq, _ => bit_not(eq) };
        assert!(is_bit_result(&r, w, e));
    }
    #[vp_proof]
    pub fn op_eq_wildcard() { wildcard(Op::EqWildcard) }
    #[vp_proof]
    pub fn op_ne_wildcard() { wildcard(Op::NeWildcard) }

    // ---- relational (§11.4.4): any x/z -> x; signed comparison iff both operands signed -------------------
    fn relational(op: Op) {
        let (x, y, w) = self_det_binary();
        let signed: bool = kani::any();
        kani::assume(!signed || (x.signed && y.signed));
        let r = bin(op, &x, &y, w, signed);
        let cw = (x.width as usize).max(y.width as usize);
        let (xp, xm) = ext(&x, cw, signed);
        let (yp, ym) = ext(&y, cw, signed);
        let e = if xm != 0 || ym != 0 { X } else {
            let t = if signed {
                let (a, b) = (sval(xp, cw), sval(yp, cw));
                match op { Op::Less => a < b, Op::LessEq => a <= b, Op::Greater => a > b, _ => a >= b }
            } else {
                match op { Op::Less => xp < yp, Op::LessEq => xp <= yp, Op::Greater => xp > yp, _ => xp >= yp }
            };
            if t { One } else { Zero }
        };
        assert!(is_bit_result(&r, w, e));
    }
    #[vp_proof]
    pub fn op_less() { relational(Op::Less) }
    #[vp_proof]
    pub fn op_lesseq() { relational(Op::LessEq) }
    #[vp_proof]
    pub fn op_greater() { relational(Op::Greater) }
    #[vp_proof]
    pub fn op_greatereq() { relational(Op::GreaterEq) }

    // ---- logical (§11.4.7): 3-valued and / or over the truth of each operand -----------------------------
    fn logical(op: Op) {
        let (x, y, w) = self_det_binary();
        let r = bin(op, &x, &y, w, false);
        let (a, b) = (truth(&x), truth(&y));
        let e = match op {
            Op::LogicAnd => if a == Some(false) || b == Some(false) { Zero } else if a == Some(true) && b == Some(true) { One } else { X },
            _ => if a == Some(true) || b == Some(true) { One } else if a == Some(false) && b == Some(false) { Zero } else { X },
        };
        assert!(is_bit_result(&r, w, e));
    }
    #[vp_proof]
    pub fn op_logic_and() { logical(Op::LogicAnd) }
    #[vp_proof]
    pub fn op_logic_or() { logical(Op::LogicOr) }

    // ---- shifts (§11.4.10): left operand extended to the context width; amount self-determined, unsigned;
    // x/z amount -> all x; vacated bits 0, or the sign bit for >>> when the result type is signed -------------
    fn shift(op: Op) {
        let x = any_v64_sized();
        let y = any_v64_sized();
        let w: usize = kani::any();
        let signed: bool = kani::any();
        kani::assume(w >= 1 && w <= 64 && w >= x.width as usize);
        kani::assume(!signed || x.signed);
        let r = bin(op, &x, &y, w, signed);
        assert!(r.width as usize == w);
        if y.mask_xz != 0 {
            assert!(all_x(&r, w));
            return;
        }
        let s = y.payload;                    // shift amount is unsigned whatever y.signed says
        let k: usize = kani::any();
        kani::assume(k < w);
        let e = match op {
            Op::LogicShiftL | Op::ArithShiftL => {
                if (k as u64) >= s { ext_bit(&x, k - s as usize, signed) } else { Zero }
            }
            Op::LogicShiftR => {
                if s < w as u64 && k + (s as usize) < w { ext_bit(&x, k + s as usize, signed) } else { Zero }
            }
            _ => {
                if s < w as u64 && k + (s as usize) < w { ext_bit(&x, k + s as usize, signed) }
                else if signed { ext_bit(&x, w - 1, signed) } else { Zero }
            }
        };
        assert!(b4(r.payload, r.mask_xz, k) == e);
    }
    #[vp_proof]
    pub fn op_shl() { shift(Op::LogicShiftL) }
    #[vp_proof]
    pub fn op_ashl() { shift(Op::ArithShiftL) }
    #[vp_proof]
    pub fn op_shr() { shift(Op::LogicShiftR) }
    #[vp_proof]
    pub fn op_ashr() { shift(Op::ArithShiftR) }

    // ---- power with a negative exponent (§11.4.3, Table 11-4): no repeated multiplication involved -----------
    // x ** y, y < 0:  x == 0 -> all x;  x == 1 -> 1;  x == -1 (signed) -> y odd ? -1 : 1;  otherwise 0;  x/z base -> all x
    #[vp_proof]
    pub fn op_pow_negative_exponent() {
        let x = any_v64_sized();
        let y = any_v64_sized();
        let w: usize = kani::any();
        let signed: bool = kani::any();
        kani::assume(w >= 1 && w <= 64 && w >= x.width as usize);
        kani::assume(!signed || x.signed);
        kani::assume(y.signed && (y.payload >> (y.width - 1)) & 1 == 1 && y.mask_xz == 0);
        let r = bin(Op::Pow, &x, &y, w, signed);
        let (xp, xm) = ext(&x, w, signed);
        let full = rmask(w);
        assert!(r.width as usize == w);
        if xm != 0 || xp == 0 {
            assert!(all_x(&r, w));
        } else if xp == 1 {
            assert!(r.mask_xz == 0 && r.payload == 1);
        } else if signed && xp == full {
            assert!(r.mask_xz == 0 && r.payload == if y.payload & 1 == 1 { full } else { 1 });
        } else {
            assert!(r.mask_xz == 0 && r.payload == 0);
        }
    }

    // an exponent with any x/z bit (also one whose sign position is set) makes the whole result x (§11.4.2)
    #[vp_proof]
    pub fn op_pow_xz_exponent() {
        let x = any_v64_sized();
        let y = any_v64_sized();
        let w: usize = kani::any();
        let signed: bool = kani::any();
        kani::assume(w >= 1 && w <= 64 && w >= x.width as usize);
        kani::assume(!signed || x.signed);
        kani::assume(y.mask_xz != 0);
        let r = bin(Op::Pow, &x, &y, w, signed);
        assert!(all_x(&r, w));
    }

    // ---- unary ------------------------------------------------------------------------------------------------
    fn ctx_unary() -> (ValueU64, usize, bool) {
        let x = any_v64();
        let w: usize = kani::any();
        let signed: bool = kani::any();
        kani::assume(w >= 1 && w <= 64 && w >= x.width as usize);
        kani::assume(!signed || x.signed);
        (x, w, signed)
    }
    #[vp_proof]
    pub fn op_unary_minus() {
        let (x, w, signed) = ctx_unary();
        let r = un(Op::Sub, &x, w, signed);
        let (xp, xm) = ext(&x, w, signed);
        assert!(r.width as usize == w);
        if xm != 0 { assert!(all_x(&r, w)); } else {
            assert!(r.mask_xz == 0 && r.payload == 0u64.wrapping_sub(xp) & rmask(w));
        }
    }
    #[vp_proof]
    pub fn op_unary_plus() {
        let (x, w, signed) = ctx_unary();
        let r = un(Op::Add, &x, w, signed);
        assert!(r.width as usize == w);
        let k: usize = kani::any();
        kani::assume(k < w);
        assert!(b4(r.payload, r.mask_xz, k) == ext_bit(&x, k, signed));
    }
    #[vp_proof]
    pub fn op_bitnot() {
        let (x, w, signed) = ctx_unary();
        let r = un(Op::BitNot, &x, w, signed);
        assert!(r.width as usize == w);
        let k: usize = kani::any();
        kani::assume(k < w);
        assert!(b4(r.payload, r.mask_xz, k) == bit_not(ext_bit(&x, k, signed)));
    }

    // reductions (§11.4.9) and logical negation: operand self-determined, 1-bit result zero-extended
    fn reduction(op: Op) {
        let x = any_v64_sized();
        let w: usize = kani::any();
        kani::assume(w >= 1 && w <= 64);
        let r = un(op, &x, w, false);
        let xw = x.width as usize;
        let full = rmask(xw);
        let known0 = !x.payload & !x.mask_xz & full != 0;      // some bit is a known 0
        let known1 = x.payload & !x.mask_xz != 0;               // some bit is a known 1
        let anyx = x.mask_xz != 0;
        let parity = if (x.payload.count_ones() & 1) == 1 { One } else { Zero };
        let and = if known0 { Zero } else if anyx { X } else { One };
        let or = if known1 { One } else if anyx { X } else { Zero };
        let xor = if anyx { X } else { parity };
        let e = match op {
            Op::BitAnd => and,
            Op::BitNand => bit_not(and),
            Op::BitOr => or,
            Op::BitNor | Op::LogicNot => bit_not(or),
            Op::BitXor => xor,
            _ => bit_not(xor),
        };
        assert!(is_bit_result(&r, w, e));
    }
    #[vp_proof]
    pub fn op_red_and() { reduction(Op::BitAnd) }
    #[vp_proof]
    pub fn op_red_nand() { reduction(Op::BitNand) }
    #[vp_proof]
    pub fn op_red_or() { reduction(Op::BitOr) }
    #[vp_proof]
    pub fn op_red_nor() { reduction(Op::BitNor) }
    #[vp_proof]
    pub fn op_red_xor() { reduction(Op::BitXor) }
    #[vp_proof]
    pub fn op_red_xnor() { reduction(Op::BitXnor) }
    #[vp_proof]
    pub fn op_logic_not() { reduction(Op::LogicNot) }

    // ---- vacuity canary: the operand generator + context assumptions are satisfiable (this harness must FAIL)
    #[vp_proof]
    pub fn canary_ctx_binary() {
        let (x, y, w, signed) = ctx_binary();
        let r = bin(Op::Add, &x, &y, w, signed);
        assert!(r.width == 0);
    }
}
