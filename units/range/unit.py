"""U6 range - `$tb::random` draws (C32: reproducible for a given seed and handle name; every range draw within its bounds).
Back end: Kani/CBMC. get/get_range/mask/sign_extend: complete (loop-free, every u64 min/max, every width 0..=64, both
signednesses, every draw rand may return). derive_seed: bounded stand-in (name <= 2 octets) + a syntactic scan of its body."""
import re
from vp.core import KaniJob
from vp.extract import ExtractError
from vp.kani_run import Harness
from units.common import valuelib as VL

RT = "crates/simulator/src/random_table.rs"
TB = "crates/simulator/src/testbench.rs"

# E1: the `use` lines of random_table.rs are replaced by this fixed prelude (Value is veryl_analyzer::value::Value, re-exported
# by crate::ir; rand / resource_table are the stand-ins of harness.rs::env)
RT_USE = """    use crate::value::Value;
    use self::env::{resource_table, StrId, vp_draw};
"""

# O9 (outline): `with_rng(key, |rng| rng.random_range(R))` -> `vp_draw((R))`: the generator state is abstracted to rand's documented
# contract for random_range on an inclusive range (panics if empty; result within the range). R itself is untouched.
O9_OLD, O9_NEW = "with_rng(key, |rng| rng.random_range(", "vp_draw(("

# derive_seed may mention: its parameters and locals (computed from its text), and exactly these other identifiers
SEED_ALLOW = {
    # keywords / primitive types
    "let", "mut", "for", "in", "as", "u64", "u8",
    # std methods
    "unwrap_or_default", "wrapping_mul", "to_le_bytes", "as_bytes",
    # the interned-string lookup that turns the handle id into the handle NAME (the only non-argument input)
    "resource_table", "get_str_value",
}

HARNESSES = [
    # name, kind, fn decided, bound
    ("mask_is_pow2m1", "proof", "mask", None),
    ("sign_extend_twos_complement", "proof", "sign_extend", None),
    ("get_range_within_bounds", "proof", "get_range", None),
    ("get_fits_width", "proof", "get", None),
    ("derive_seed_is_fnv1a", "bounded", "derive_seed", "name.len()<=2 octets"),
    ("range_bound_keeps_value", "proof", "range_bound", None),
    ("get_range_from_argument_values", "proof", "range_bound + get_range", None),
    ("canary_get_range", "canary", "get_range", None),
]

TRUSTED = {
    r"kani::assume\(lo <= r && r <= hi\)": "O9: rand's documented contract for Rng::random_range(lo..=hi): the result r satisfies lo <= r <= hi "
                                           "(and it panics on an empty range: `lo <= hi` is asserted, not assumed). Pcg64/seed_from_u64 determinism is rand's.",
    r"kani::assume\(w <= 64\)": "harness precondition: handle width <= 64 (doc comment of random_table::get; the analyzer rejects $tb::random element types wider than 64 bits - analyzer test tb_random_element_type)",
    r"kani::assume\(v\.width|kani::assume\(w >= 1 && w <= 64\)|kani::assume\(representable": "harness preconditions of the call-site glue: argument values are well-formed sized <=64-bit "
        "values without x/z (representation invariant, preserved by the operations proved in units value64/opeval), handle width 1..=64, and the requested bounds are representable in the handle's type",
    r"kani::assume\(len <= 2\)": "bound of the derive_seed stand-in: handle names of at most 2 octets",
}
TRUSTED.update(VL.STUB_TRUST)


def scan_seed(it):
    """derive_seed reads nothing but (base, key -> name): no identifier besides parameters, locals and the allow-list"""
    sig = it.orig[it.kw_off:it._toks[it.body_open].start]
    params = set(re.findall(r"(\w+)\s*:", sig[sig.index("("):]))
    body = it.body_text()
    locs = set(re.findall(r"\blet\s+(?:mut\s+)?(\w+)", body)) | set(re.findall(r"\bfor\s+(\w+)\s+in\b", body))
    for m in re.finditer(r"\|([^|]*)\|", body):
        locs |= set(re.findall(r"(\w+)\s*:", m.group(1))) | set(re.findall(r"^\s*(\w+)\s*$", m.group(1)))
    extra = [i for i in it.free_idents() if i not in params and i not in locs and i not in SEED_ALLOW]
    if extra:
        raise ExtractError("derive_seed mentions identifier(s) %s besides its parameters %s, locals %s and the allow-list: "
                           "it may read something other than (base, name)" % (extra, sorted(params), sorted(locs)))
    if "static" in body or "thread_local" in body or "unsafe" in body:
        raise ExtractError("derive_seed body declares state")
    return sorted(params), sorted(locs)


def build(ctx, res):
    vtext, vitems = VL.value_module(ctx, extra_value_fns=["payload_u64"])
    src = ctx.src(RT)
    items = {n: src.item("fn", n) for n in ["mask", "sign_extend", "get_range", "get", "derive_seed"]}
    # every occurrence (at least one) - a refactoring that changes the number of draws is still extracted and then has to meet the contract
    items["get"].sub(re.escape(O9_OLD), O9_NEW.replace("\\", "\\\\"), rule="O9")
    items["get_range"].sub(re.escape(O9_OLD), O9_NEW.replace("\\", "\\\\"), rule="O9")
    for n in ("get", "get_range"):
        if "rng" in items[n].render() or "with_rng" in items[n].render():
            raise ExtractError("%s still mentions the generator after rule O9" % n)
    # the call-site glue that turns an evaluated bound expression into the handle-width pattern (testbench.rs)
    items["range_bound"] = ctx.src(TB).item("fn", "range_bound")
    params, locs = scan_seed(items["derive_seed"])
    raw = ctx.unit_file("range", "harness.rs")
    h = VL.expand_harness_attrs(raw, unwind=2)
    rt = "pub mod random_table {\n" + RT_USE + "\n".join(it.render() for it in items.values()) + "\n" + h + "}\n"
    lib = VL.PRELUDE + vtext + VL.BIG_STUBS + rt
    declared = re.findall(r"pub fn (\w+)\(\) \{", raw[raw.index("pub mod harness"):])
    if sorted(declared) != sorted(n for n, _, _, _ in HARNESSES):
        raise ExtractError("harness.rs and unit.py disagree on the harness list: %s" % sorted(set(declared) ^ {n for n, _, _, _ in HARNESSES}))
    hs = [Harness("random_table::harness::" + n, kind=k, fn=f, bound=b) for n, k, f, b in HARNESSES]
    res.clauses.update({
        "mask": "mask(w) == 2^min(w,64) - 1 for every u32 w",
        "sign_extend": "for every raw, w: (sign_extend(raw,w) as u64) & mask(w) == raw & mask(w); for 1 <= w <= 64 the result is the two's complement "
                       "value of the low w bits (128-bit reference); w > 64: raw as i64; w == 0: 0 when raw == 0 (the callers' case)",
        "get_range": "requires w <= 64. For every min, max: u64, signed, and EVERY value rand may return: the range passed to rand is non-empty (lo <= hi asserted); "
                     "result is Value::U64 with width w, the handle's signedness, no x/z, payload & !mask(w) == 0, and its value read at (w, signed) lies between "
                     "the two requested bounds read at (w, signed), in whichever order they were given (the code swaps)",
        "range_bound": "for every well-formed <=64-bit argument value v (no x/z) and handle width w <= 64: if v's integer value (signed or unsigned by v's own flag) is "
                       "representable at (w, handle signedness), then range_bound(v, w) read at (w, signed) IS that value; composed with get_range: the draw lies between "
                       "the integer values of the two argument expressions",
        "get": "requires w <= 64: result is Value::U64, width w, signedness as requested, no x/z, payload fits w bits; range passed to rand non-empty",
        "derive_seed": "== FNV-1a-64 over (8 octets of base, least significant first) ++ (octets of the handle name; empty if the id is unknown), name <= 2 octets; "
                       "equal for equal (base, name) whatever the id; body mentions only parameters %s, locals %s and %s" % (params, locs, sorted(SEED_ALLOW)),
    })
    res.samples.append({"obligation": "kani:range:get_range_within_bounds", "contract": res.clauses["get_range"]})
    res.notes.append("range: reproducibility rests on derive_seed being a function of (base seed, handle name) [checked] and on rand_pcg::Pcg64::seed_from_u64 / "
                     "random_range being deterministic functions of the generator state [trusted, rand]; with_rng/seed_handle/reset (thread-local table) are not under contract")
    return [KaniJob("range", lib, hs, deps=VL.DEPS, items=vitems + list(items.values()), trusted=TRUSTED, jobs=4, timeout=900, per_harness_timeout=300)]
