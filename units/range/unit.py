"""U6 range - `$tb::random` draws (C32: reproducible for a given seed and handle name; every range draw within its bounds).

Job `range` (Kani/CBMC): get/get_range/mask/sign_extend: complete (loop-free, every u64 min/max, every width 0..=64, both
signednesses, every draw rand may return). derive_seed: bounded stand-in (name <= 2 octets) + a syntactic scan of its body.

Job `range_table` (Verus, unbounded): the generator TABLE. Real bodies of `reset`, `with_rng`, `seed_handle`, `get_seed_handle` and the
real `struct RandomTable`, against contracts over the abstract view (base seed, Map<StrId, (generator, seed)>); lemmas over the contracts
(history independence of reset, reproducibility, isolation of handles, explicit seed) and exec clients `vp_two_tests*` (units/range/table_spec.rs).
Rewrite rules of that job (everything else is the original text):

  TL  the thread-local cell becomes a parameter: `fn <name>(` -> `fn <name>(t: &mut RandomTable, `; `TABLE.with(|t| {` -> `{`; the matching
      closing `})` -> `}`; `t.borrow_mut()` -> `t`  (so `let mut t = t.borrow_mut();` reads `let mut t = t;`). One table per thread: the parameter
      stands for the calling thread's TABLE; no other thread can reach it (thread_local!), so there is no interference to model.
  V1  `pub fn` -> `fn` on the four functions (their contracts mention the private struct; Verus rejects that on a public function)
  E3  `#[derive(Default)]` dropped from RandomTable (the opaque generator stand-in has no Default; the initial table is not used by any contract)
  O8  the seeding closure `|| { .. }` handed to `or_insert_with` gets a result name and a contract:
      `|| -> (vp_o: (Pcg64, u64)) ensures vp_o == lazy_slot(vp_base, key) { .. }` - body text unchanged and CHECKED against it
      (`vp_base` is a ghost copy of `t.base_seed` taken at function entry). Verus needs closure contracts; they are not inferred.
  No rewrite at all for: `t.rngs.entry(key).or_insert_with(..)` (vstd specifies `HashMap::entry`; `Entry::or_insert_with` gets an
  `assume_specification` modelled on vstd's `Entry::or_insert`, lazy: the closure's contract counts only for a vacant entry), `.insert`, `.clear`
  (vstd), the destructuring `let (rng, _) = ..`, `.1`, and the user closure call `f(rng)`: `f` is specified with Verus closure specs
  (`f.requires((m,))`, `f.ensures((m,), r)` over `m: &mut Pcg64`, `*m` the generator handed in, `*final(m)` the generator as left by f).
  `Pcg64::seed_from_u64(s)` and `derive_seed(base, key)` keep their call text: the job declares an opaque `struct Pcg64` with that one
  associated function (assumed result: the uninterpreted `gen_of(s)`) and a bodiless `derive_seed` (assumed result: the uninterpreted
  `seed_of(base, key)`; its real signature is compared with the stub's, its definition is what the Kani job checks).

Dry runs only: `VP_ONLY=verus ./check --unit range` (or `VP_ONLY=kani`) restricts `./check --unit` to one back end while iterating. The switch is
ignored by `./check --rebaseline` and by property checks (`./check C32`), which always build and run both jobs."""
import os
import re
from vp.core import KaniJob, VerusJob
from vp.extract import ExtractError
from vp.kani_run import Harness
from vp.verus_run import VerusFile
from units.common import valuelib as VL

RT = "crates/simulator/src/random_table.rs"
TB = "crates/simulator/src/testbench.rs"

# E1: the `use` lines of random_table.rs are replaced by this fixed prelude (Value is veryl_analyzer::value::Value, re-exported
# by crate::ir; rand / resource_table are the stand-ins of harness.rs::env)
RT_USE = """    use crate::value::Value;
    use self::env::{resource_table, StrId, vp_draw};
"""

# O9 (outline): `with_rng(key, |rng| rng.random_range(R))` -> `vp_draw((R))`: the generator state is abstracted to rand's documented
# contract for random_range on an inclusive range (panics if empty; result within the range). R itself is untouched.
O9_OLD, O9_NEW = "with_rng(key, |rng| rng.random_range(", "vp_draw(("

# derive_seed may mention: its parameters and locals (computed from its text), and exactly these other identifiers
SEED_ALLOW = {
    # keywords / primitive types
    "let", "mut", "for", "in", "as", "u64", "u8",
    # std methods
    "unwrap_or_default", "wrapping_mul", "to_le_bytes", "as_bytes",
    # the interned-string lookup that turns the handle id into the handle NAME (the only non-argument input)
    "resource_table", "get_str_value",
}

HARNESSES = [
    # name, kind, fn decided, bound
    ("mask_is_pow2m1", "proof", "mask", None),
    ("sign_extend_twos_complement", "proof", "sign_extend", None),
    ("get_range_within_bounds", "proof", "get_range", None),
    ("get_fits_width", "proof", "get", None),
    ("derive_seed_is_fnv1a", "bounded", "derive_seed", "name.len()<=2 octets"),
    ("range_bound_keeps_value", "proof", "range_bound", None),
    ("get_range_from_argument_values", "proof", "range_bound + get_range", None),
    ("canary_get_range", "canary", "get_range", None),
]

TRUSTED = {
    r"kani::assume\(lo <= r && r <= hi\)": "O9: rand's documented contract for Rng::random_range(lo..=hi): the result r satisfies lo <= r <= hi "
                                           "(and it panics on an empty range: `lo <= hi` is asserted, not assumed). Pcg64/seed_from_u64 determinism is rand's.",
    r"kani::assume\(w <= 64\)": "harness precondition: handle width <= 64 (doc comment of random_table::get; the analyzer rejects $tb::random element types wider than 64 bits - analyzer test tb_random_element_type)",
    r"kani::assume\(v\.width|kani::assume\(w >= 1 && w <= 64\)|kani::assume\(representable": "harness preconditions of the call-site glue: argument values are well-formed sized <=64-bit "
        "values without x/z (representation invariant, preserved by the operations proved in units value64/opeval), handle width 1..=64, and the requested bounds are representable in the handle's type",
    r"kani::assume\(len <= 2\)": "bound of the derive_seed stand-in: handle names of at most 2 octets",
}
TRUSTED.update(VL.STUB_TRUST)


def scan_seed(it):
    """derive_seed reads nothing but (base, key -> name): no identifier besides parameters, locals and the allow-list"""
    sig = it.orig[it.kw_off:it._toks[it.body_open].start]
    params = set(re.findall(r"(\w+)\s*:", sig[sig.index("("):]))
    body = it.body_text()
    locs = set(re.findall(r"\blet\s+(?:mut\s+)?(\w+)", body)) | set(re.findall(r"\bfor\s+(\w+)\s+in\b", body))
    for m in re.finditer(r"\|([^|]*)\|", body):
        locs |= set(re.findall(r"(\w+)\s*:", m.group(1))) | set(re.findall(r"^\s*(\w+)\s*$", m.group(1)))
    extra = [i for i in it.free_idents() if i not in params and i not in locs and i not in SEED_ALLOW]
    if extra:
        raise ExtractError("derive_seed mentions identifier(s) %s besides its parameters %s, locals %s and the allow-list: "
                           "it may read something other than (base, name)" % (extra, sorted(params), sorted(locs)))
    if "static" in body or "thread_local" in body or "unsafe" in body:
        raise ExtractError("derive_seed body declares state")
    return sorted(params), sorted(locs)


def only_jobs(ctx, jobs):
    """VP_ONLY=verus|kani: dry runs (`./check --unit range`, prop id `_try_range`) only. A property check or a rebaseline never skips a job."""
    only = os.environ.get("VP_ONLY", "")
    if not str(ctx.prop).startswith("_try_") or only not in ("verus", "kani"):
        return jobs
    cls = VerusJob if only == "verus" else KaniJob
    return [j for j in jobs if isinstance(j, cls)]


def build(ctx, res):
    """the two jobs are built independently: a lost anchor (ExtractError) in one makes that job undecided and keeps the other's verdict"""
    jobs = []
    for mk in (kani_job, table_job):
        try:
            jobs.append(mk(ctx, res))
        except ExtractError as e:
            res.undecided.append("extraction (%s): %s" % (mk.__name__, e))
    return only_jobs(ctx, jobs)


def kani_job(ctx, res):
    vtext, vitems = VL.value_module(ctx, extra_value_fns=["payload_u64"])
    src = ctx.src(RT)
    items = {n: src.item("fn", n) for n in ["mask", "sign_extend", "get_range", "get", "derive_seed"]}
    # every occurrence (at least one) - a refactoring that changes the number of draws is still extracted and then has to meet the contract
    items["get"].sub(re.escape(O9_OLD), O9_NEW.replace("\\", "\\\\"), rule="O9")
    items["get_range"].sub(re.escape(O9_OLD), O9_NEW.replace("\\", "\\\\"), rule="O9")
    for n in ("get", "get_range"):
        if "rng" in items[n].render() or "with_rng" in items[n].render():
            raise ExtractError("%s still mentions the generator after rule O9" % n)
    # the call-site glue that turns an evaluated bound expression into the handle-width pattern (testbench.rs)
    items["range_bound"] = ctx.src(TB).item("fn", "range_bound")
    params, locs = scan_seed(items["derive_seed"])
    raw = ctx.unit_file("range", "harness.rs")
    h = VL.expand_harness_attrs(raw, unwind=2)
    rt = "pub mod random_table {\n" + RT_USE + "\n".join(it.render() for it in items.values()) + "\n" + h + "}\n"
    lib = VL.PRELUDE + vtext + VL.BIG_STUBS + rt
    declared = re.findall(r"pub fn (\w+)\(\) \{", raw[raw.index("pub mod harness"):])
    if sorted(declared) != sorted(n for n, _, _, _ in HARNESSES):
        raise ExtractError("harness.rs and unit.py disagree on the harness list: %s" % sorted(set(declared) ^ {n for n, _, _, _ in HARNESSES}))
    hs = [Harness("random_table::harness::" + n, kind=k, fn=f, bound=b) for n, k, f, b in HARNESSES]
    res.clauses.update({
        "mask": "mask(w) == 2^min(w,64) - 1 for every u32 w",
        "sign_extend": "for every raw, w: (sign_extend(raw,w) as u64) & mask(w) == raw & mask(w); for 1 <= w <= 64 the result is the two's complement "
                       "value of the low w bits (128-bit reference); w > 64: raw as i64; w == 0: 0 when raw == 0 (the callers' case)",
        "get_range": "requires w <= 64. For every min, max: u64, signed, and EVERY value rand may return: the range passed to rand is non-empty (lo <= hi asserted); "
                     "result is Value::U64 with width w, the handle's signedness, no x/z, payload & !mask(w) == 0, and its value read at (w, signed) lies between "
                     "the two requested bounds read at (w, signed), in whichever order they were given (the code swaps)",
        "range_bound": "for every well-formed <=64-bit argument value v (no x/z) and handle width w <= 64: if v's integer value (signed or unsigned by v's own flag) is "
                       "representable at (w, handle signedness), then range_bound(v, w) read at (w, signed) IS that value; composed with get_range: the draw lies between "
                       "the integer values of the two argument expressions",
        "get": "requires w <= 64: result is Value::U64, width w, signedness as requested, no x/z, payload fits w bits; range passed to rand non-empty",
        "derive_seed": "== FNV-1a-64 over (8 octets of base, least significant first) ++ (octets of the handle name; empty if the id is unknown), name <= 2 octets; "
                       "equal for equal (base, name) whatever the id; body mentions only parameters %s, locals %s and %s" % (params, locs, sorted(SEED_ALLOW)),
    })
    res.samples.append({"obligation": "kani:range:get_range_within_bounds", "contract": res.clauses["get_range"]})
    res.notes.append("range: reproducibility rests on derive_seed being a function of (base seed, handle name) [checked] and on rand_pcg::Pcg64::seed_from_u64 / "
                     "random_range being deterministic functions of the generator state [trusted, rand]; with_rng/seed_handle/get_seed_handle/reset (thread-local table) "
                     "are under contract in job range_table (Verus)")
    return KaniJob("range", lib, hs, deps=VL.DEPS, items=vitems + list(items.values()), trusted=TRUSTED, jobs=4, timeout=900, per_harness_timeout=300)


# ---------------------------------------------------------------------------------------------------------------------------------
# job `range_table` (Verus): the generator table
# ---------------------------------------------------------------------------------------------------------------------------------
SR = "crates/parser/src/resource_table.rs"

T_HEADER = ("#![feature(allocator_api)]\nuse vstd::prelude::*;\nuse std::collections::HashMap;\nuse vstd::std_specs::hash::EntrySpecFns;\n"
            "verus! {\nglobal size_of usize == 8;\nbroadcast use vstd::std_specs::hash::group_hash_axioms;\n")

# the stub of table_spec.rs stands for exactly this function
DERIVE_SEED_SIG = "fn derive_seed(base: u64, key: StrId) -> u64"

T_TRUSTED = {
    r"pub struct Pcg64": "rand_pcg::Pcg64 is an opaque external type (generator states are carried and compared, never inspected)",
    r"fn seed_from_u64": "E-ext: `Pcg64::seed_from_u64(s)` (rand's SeedableRng) is a bodiless associated function of the opaque stand-in; ASSUMED: it returns gen_of(s), "
                         "an uninterpreted function of s alone = rand_pcg's seeding is deterministic and reads no other state",
    r"fn derive_seed": "E-ext: `derive_seed(base, key)` is bodiless here; ASSUMED: it returns seed_of(base, key), an uninterpreted function of (base, handle id). Its real "
                       "signature is compared with the stub's; its real body is what the Kani job of this unit checks (FNV-1a over base ++ handle NAME; body reads nothing "
                       "but its arguments and the interned name). Implicit: an interned id keeps its name for the life of the process (resource_table is append-only)",
    r"or_insert_with\]": "std: `hash_map::Entry::or_insert_with` has no vstd specification; ASSUMED contract = vstd's own `Entry::or_insert` with the default made lazy: occupied -> "
                         "the existing slot, unchanged, closure not called; vacant -> the slot is what the closure returns (closure precondition due only then); the slot's final "
                         "content is the map's entry for that key (vstd `HashMap::entry` / `final_value`)",
    r"axiom_strid_key_model|admit\(\)": "assumed: the derived Hash/Eq of the usize newtype StrId obeys vstd's key model (deterministic hashing); `broadcast use`d inside the functions only",
}

T_CANARIES = [
    # the assumed axioms (key model, hash group) are consistent
    ("vp_canary_axioms", "proof fn vp_canary_axioms() ensures false { broadcast use axiom_strid_key_model; }"),
    # each contract relation is satisfiable in its interesting case
    ("vp_canary_reset", "proof fn vp_canary_reset(pre: TV, post: TV, b: u64, k: StrId) requires reset_post(pre, post, b), pre.1.contains_key(k), pre.0 == b ensures false {}"),
    ("vp_canary_seed_handle", "proof fn vp_canary_seed_handle(pre: TV, post: TV, k: StrId, j: StrId, s: u64) requires seed_handle_post(pre, post, k, s), j != k, pre.1.contains_key(j), pre.1.contains_key(k) ensures false {}"),
    ("vp_canary_get_seed_absent", "proof fn vp_canary_get_seed_absent(pre: TV, post: TV, k: StrId, r: u64) requires get_seed_post(pre, post, k, r), !pre.1.contains_key(k) ensures false {}"),
    ("vp_canary_get_seed_present", "proof fn vp_canary_get_seed_present(pre: TV, post: TV, k: StrId, r: u64) requires get_seed_post(pre, post, k, r), pre.1.contains_key(k) ensures false {}"),
    ("vp_canary_with_rng_absent", "proof fn vp_canary_with_rng_absent(pre: TV, post: TV, k: StrId, g0: Pcg64, g1: Pcg64) requires with_rng_post(pre, post, k, g0, g1), !pre.1.contains_key(k), g1 != g0 ensures false {}"),
    ("vp_canary_with_rng_present", "proof fn vp_canary_with_rng_present(pre: TV, post: TV, k: StrId, g0: Pcg64, g1: Pcg64) requires with_rng_post(pre, post, k, g0, g1), pre.1.contains_key(k), g1 != g0 ensures false {}"),
    ("vp_canary_reproducible", "proof fn vp_canary_reproducible(pre: TV, s1: TV, s2: TV, b: u64, k: StrId, g0: Pcg64, g1: Pcg64) requires reset_post(pre, s1, b), with_rng_post(s1, s2, k, g0, g1), pre.1.contains_key(k), pre.0 == b ensures false {}"),
    ("vp_canary_isolation", "proof fn vp_canary_isolation(pre: TV, post: TV, k: StrId, j: StrId, g0: Pcg64, g1: Pcg64) requires j != k, with_rng_post(pre, post, k, g0, g1), pre.1.contains_key(j) ensures false {}"),
    # the closure precondition of with_rng / of the clients is satisfiable, and a closure postcondition is not vacuous
    ("vp_canary_closure", "proof fn vp_canary_closure<R, F: FnOnce(&mut Pcg64) -> R>(f: F, r: R, b: u64, k: StrId, post: TV) requires forall|m: &mut Pcg64| #[trigger] f.requires((m,)), first_draw_post(f, r, b, k, post) ensures false {}"),
]

RESET_SPEC = """    ensures
        // base seed recorded ...
        final(t).base_seed == base_seed,
        // ... and NO generator left - whatever the table held before (history independence; the clause a "clear only when the seed changes" reset breaks)
        final(t).rngs@ =~= Map::<StrId, Slot>::empty(),
        // (the same, as the relation the lemmas and clients use)
        reset_post(tv(*old(t)), tv(*final(t)), base_seed),
"""
SEED_HANDLE_SPEC = """    ensures
        seed_handle_post(tv(*old(t)), tv(*final(t)), key, seed),
"""
GET_SEED_SPEC = """    ensures
        get_seed_post(tv(*old(t)), tv(*final(t)), key, r),
"""
WITH_RNG_SPEC = """    requires
        // the closure accepts the generator the slot holds (or lazily gets)
        forall|m: &mut Pcg64| *m == slot_of(tv(*old(t)), key).0 ==> #[trigger] f.requires((m,)),
    ensures
        // f ran once, on a reference m to the slot's generator: *m on entry, *final(m) as f left it, r its result
        exists|m: &mut Pcg64| #[trigger] f.ensures((m,), r) && with_rng_post(tv(*old(t)), tv(*final(t)), key, *m, *final(m)),
"""
O8_OLD = r"\.or_insert_with\(\|\| \{"
O8_NEW = ".or_insert_with(|| -> (vp_o: (Pcg64, u64)) ensures vp_o == lazy_slot(vp_base, key) {"
GHOST_IN = "    broadcast use axiom_strid_key_model;\n    let ghost vp_base = t.base_seed;"


def tl(f):
    """rules TL + V1 on one of the four table functions"""
    f.sub(r"(?:pub )?fn %s(<[^>]*>)?\(" % f.name, r"fn %s\1(t: &mut RandomTable, " % f.name, count=1, rule="TL+V1")
    f.replace("TABLE.with(|t| {", "{", count=1, rule="TL")
    f.sub(r"\}\)(;?\s*\}\s*)$", r"}\1", count=1, rule="TL")
    f.sub(r"\bt\.borrow_mut\(\)", "t", count=1, rule="TL")
    if re.search(r"\bTABLE\b|\bborrow\w*\(", f.render()):
        raise ExtractError("%s still mentions the thread-local cell after rule TL" % f.name)
    return f


def table_job(ctx, res):
    src = ctx.src(RT)
    vf = VerusFile(header=T_HEADER)
    items = []

    def add(it, label=None):
        items.append(it)
        vf.item(it, label)

    it = ctx.src(SR).item("struct", "StrId")
    it.strip_derive("Debug", "Default", "PartialOrd", "Ord")
    add(it)
    it = src.item("struct", "RandomTable")
    it.strip_derive("Default")
    add(it)

    # the stub `derive_seed` of table_spec.rs stands for the real one: same signature, or the anchor is lost
    ds = src.item("fn", "derive_seed")
    sig = " ".join(ds.orig[ds.kw_off:ds._toks[ds.body_open].start].split())
    if sig != DERIVE_SEED_SIG:
        raise ExtractError("derive_seed's signature is `%s`, the stub of job range_table stands for `%s`" % (sig, DERIVE_SEED_SIG))

    # frame: the table is reachable only through the four functions under contract (and its own declaration)
    fns = {n: src.item("fn", n) for n in ("reset", "with_rng", "seed_handle", "get_seed_handle")}
    outside = len(re.findall(r"\bTABLE\b", src.text)) - sum(len(re.findall(r"\bTABLE\b", f.orig)) for f in fns.values())
    if outside != 1:
        raise ExtractError("random_table.rs mentions TABLE %d time(s) outside reset/with_rng/seed_handle/get_seed_handle (expected: its declaration only): "
                           "another function reaches the generator table and is not under contract" % outside)
    if not re.search(TL_DECL, src.text):
        raise ExtractError("TABLE is no longer a thread_local RefCell<RandomTable>: rule TL (one private table per thread) does not apply")

    vf.raw(ctx.unit_file("range", "table_spec.rs"), "spec")

    f = tl(fns["reset"])
    f.spec(RESET_SPEC)
    f.at_start("    broadcast use axiom_strid_key_model;")
    add(f)

    f = tl(fns["with_rng"])
    f.name_return("r")
    f.sub(O8_OLD, O8_NEW, count=1, rule="O8")
    f.spec(WITH_RNG_SPEC)
    f.at_start(GHOST_IN)
    add(f)

    f = tl(fns["seed_handle"])
    f.spec(SEED_HANDLE_SPEC)
    f.at_start("    broadcast use axiom_strid_key_model;")
    add(f)

    f = tl(fns["get_seed_handle"])
    f.name_return("r")
    f.sub(O8_OLD, O8_NEW, count=1, rule="O8")
    f.spec(GET_SEED_SPEC)
    f.at_start(GHOST_IN)
    add(f)

    text = vf.finish()
    res.clauses.update({
        "table view": "tv(t) = (t.base_seed, t.rngs@ : Map<StrId, (generator, seed)>); slot_of(v, k) = v.1[k] if present else lazy_slot(v.0, k) = (gen_of(seed_of(base, k)), seed_of(base, k)); "
                      "gen_of(s) = the generator Pcg64::seed_from_u64(s) returns, seed_of(b, k) = derive_seed(b, k) (both uninterpreted)",
        "reset": "ensures base seed == argument and the map is EMPTY, for every previous table (history independence)",
        "seed_handle": "ensures slot key == (gen_of(seed), seed); every other slot and the base seed unchanged",
        "get_seed_handle": "ensures r == slot_of(old, key).1; slot key == slot_of(old, key) (an absent slot becomes (gen_of(seed_of(base, key)), seed_of(base, key)); a present one is "
                           "untouched); every other slot and the base seed unchanged",
        "with_rng": "requires f accepts the slot's generator; ensures f ran (f.ensures) on a reference whose entry value is slot_of(old, key).0 (stored generator, or the fresh "
                    "gen_of(seed_of(base, key)) if absent); afterwards slot key == (generator as left by f, same seed); every other slot and the base seed unchanged",
        "table lemmas": "after reset(b) the table is a function of b alone; the first with_rng(k)/get_seed_handle(k) after reset(b) starts from gen_of(seed_of(b, k)) / reports seed_of(b, k) for every "
                        "earlier table; operations on k leave every j != k and the base seed alone; after seed_handle(k, s) the next draw starts from gen_of(s); streams continue across calls; "
                        "a reset that clears only on a changed base seed provably leaves an earlier generator in place (lemma_conditional_clear_depends_on_history)",
        "table clients": "vp_two_tests: reset(b); with_rng(k, fa); reset(b); with_rng(k, fb) - fb runs on gen_of(seed_of(b, k)) and the table ends as {k: (left by fb, seed_of(b, k))}: the same "
                         "postcondition (first_draw_post) as vp_test_b_alone (reset(b); with_rng(k, fb)) on an arbitrary table; vp_two_tests_busy: same with a test A that also seeds k explicitly and uses another handle",
        "assumed std contract": "vp_std_or_insert*: under the assumed contract `or_insert_with(|| v)` meets the same model as vstd's `or_insert(v)`, writes through the slot reach the map, "
                                "and an occupied entry accepts a closure with `requires false` (laziness)",
        "table frame": "random_table.rs mentions TABLE only in its thread_local declaration and in the four functions under contract (syntactic check)",
    })
    res.samples.append({"obligation": "verus:range:reset", "contract": RESET_SPEC.strip() + "   where reset_post(pre, post, b) = post.0 == b && post.1 =~= Map::empty()"})
    res.notes.append("range_table: not covered - the draws themselves (`rng.random_range(..)` inside the closures of get/get_range: rand's determinism is assumed; that get/get_range reach the "
                     "table only as `with_rng(key, |rng| rng.random_range(..))` with their own `key` is checked by rule O9 of the Kani job); the call site `random_table::reset(sim.ir.seed)` at the "
                     "start of testbench::run_testbench (that every test begins with reset is not checked here); other per-test thread-local state (file_table, assert_buffer)")
    expect = ["reset", "with_rng", "seed_handle", "get_seed_handle",
              "lemma_reset_history_independent", "lemma_reproducible_after_reset", "lemma_isolation", "lemma_explicit_seed", "lemma_stream_continues",
              "lemma_conditional_clear_depends_on_history", "vp_two_tests", "vp_test_b_alone", "vp_two_tests_busy",
              "vp_std_or_insert", "vp_std_or_insert_with", "vp_std_or_insert_with_write", "vp_std_or_insert_with_lazy"]
    return VerusJob("range_table", text, vf, expect, canaries=T_CANARIES, items=items, trusted=T_TRUSTED, rlimit=30)


TL_DECL = r"thread_local!\s*\{\s*static TABLE: RefCell<RandomTable> = RefCell::new\(RandomTable::default\(\)\);\s*\}"
NATIVE_DEPS = {"rand": '{ version = "0.10", default-features = false }', "rand_pcg": '"0.10"'}   # as in /repo/Cargo.toml [workspace.dependencies]


def replay(ctx, res, failure):
    """job range_table: seeded native run of the ORIGINAL text of the table (struct, thread_local!, derive_seed, reset, with_rng, seed_handle,
    get_seed_handle; real rand / rand_pcg) against an executable form of the contracts (units/range/table_replay.rs): random operation sequences in which
    the same base seed recurs; every seed read and every draw is compared with the contract model. Kani failures are replayed by the driver itself."""
    from vp.core import native_search, NATIVE_RNG
    o = failure.get("obl")
    if o is not None and o.backend != "verus":
        return None
    src = ctx.src(RT)
    m = re.search(TL_DECL, src.text)
    if not m:
        return {"found_input": False, "native_search": "TABLE declaration not found"}
    strid = ctx.src(SR).item("struct", "StrId").orig
    real = "\n".join([src.item("struct", "RandomTable").orig, m.group(0)] +
                     [src.item("fn", n).orig for n in ("derive_seed", "reset", "with_rng", "seed_handle", "get_seed_handle")])
    body = ("#![allow(dead_code, unused_imports, unused_mut)]\nuse rand::{RngExt, SeedableRng};\nuse rand_pcg::Pcg64;\nuse std::cell::RefCell;\nuse std::collections::HashMap;\n"
            "use resource_table::StrId;\n"
            "mod resource_table {\n" + strid + "\n    /// stand-in: every id is interned, under a name of its own\n"
            "    pub fn get_str_value(id: StrId) -> Option<String> { Some(format!(\"handle_{}\", id.0)) }\n}\n"
            + NATIVE_RNG + real + "\n" + ctx.unit_file("range", "table_replay.rs"))
    return native_search(ctx, "range", "range_table", body, args=[ctx.seed], timeout=900, deps=NATIVE_DEPS)
