// ---- unit `range`, job `range_table` (C32): the thread-local generator TABLE of crates/simulator/src/random_table.rs -----------
// `reset`, `with_rng`, `seed_handle`, `get_seed_handle` are verified with their real bodies over an explicit `t: &mut RandomTable`
// (rule TL in unit.py). This file holds only: the opaque generator type, the two uninterpreted models, the assumed std contract of
// `Entry::or_insert_with`, the abstract view, the contracts as relations over the view, lemmas over those relations, exec clients.

// ---- trusted models ------------------------------------------------------------------------------------------------------
/// opaque stand-in for `rand_pcg::Pcg64` (the generator state is carried, never inspected)
#[verifier::external_body]
pub struct Pcg64 { _p: () }

/// "a generator freshly seeded with s": the state `Pcg64::seed_from_u64(s)` returns (rand_pcg is deterministic: trusted)
pub uninterp spec fn gen_of(s: u64) -> Pcg64;
/// the value `derive_seed(base, key)` returns (its definition, FNV-1a over base ++ handle name, is checked by the Kani job of this unit)
pub uninterp spec fn seed_of(base: u64, key: StrId) -> u64;

impl Pcg64 {
    #[verifier::external_body]
    pub fn seed_from_u64(s: u64) -> (r: Pcg64)
        ensures r == gen_of(s),
    { unimplemented!() }
}

#[verifier::external_body]
fn derive_seed(base: u64, key: StrId) -> (r: u64)
    ensures r == seed_of(base, key),
{ unimplemented!() }

/// std: `Entry::or_insert_with(default)` - modelled on vstd's own specification of `Entry::or_insert` (std_specs/hash.rs), with the
/// LAZINESS of std kept: the closure is called (its precondition is due, its postcondition describes the new slot) only when the entry is vacant;
/// an occupied entry hands out the existing slot unchanged. `entry.final_value()` ties the slot's final content back to the map (vstd's `HashMap::entry`).
pub assume_specification<'a, K, V, A: std::alloc::Allocator, F: FnOnce() -> V> [std::collections::hash_map::Entry::<'a, K, V, A>::or_insert_with]
    (entry: std::collections::hash_map::Entry<'a, K, V, A>, default: F) -> (value: &'a mut V)
    requires
        entry.value() is None ==> default.requires(()),
    ensures
        match entry.value() { Some(v) => *value == v, None => default.ensures((), *value) },
        entry.final_value() == Some(*final(value)),
;

/// the derived Hash/Eq of the usize newtype StrId is deterministic (vstd's key model) - assumed; brought into scope inside the functions only
pub broadcast proof fn axiom_strid_key_model()
    ensures #[trigger] vstd::std_specs::hash::obeys_key_model::<StrId>(),
{ admit(); }

// ---- sanity of the assumed std contract: it gives `or_insert_with(|| v)` exactly the behaviour vstd specifies for `or_insert(v)`, plus laziness ----
spec fn or_insert_model(pre: Map<u64, u64>, post: Map<u64, u64>, k: u64, v: u64, r: u64) -> bool {
    post =~= (if pre.contains_key(k) { pre } else { pre.insert(k, v) }) && r == post[k] && (pre.contains_key(k) ==> r == pre[k])
}
/// vstd's own `Entry::or_insert`
fn vp_std_or_insert(m: &mut HashMap<u64, u64>, k: u64, v: u64) -> (r: u64)
    ensures or_insert_model(old(m)@, final(m)@, k, v, r),
{
    let x = m.entry(k).or_insert(v);
    *x
}
/// the assumed `Entry::or_insert_with` meets the same model
fn vp_std_or_insert_with(m: &mut HashMap<u64, u64>, k: u64, v: u64) -> (r: u64)
    ensures or_insert_model(old(m)@, final(m)@, k, v, r),
{
    let x = m.entry(k).or_insert_with(|| -> (o: u64) ensures o == v { v });
    *x
}
/// ... writes through the returned slot reach the map ...
fn vp_std_or_insert_with_write(m: &mut HashMap<u64, u64>, k: u64)
    ensures final(m)@ =~= old(m)@.insert(k, 7),
{
    let x = m.entry(k).or_insert_with(|| -> (o: u64) ensures o == 3 { 3 });
    *x = 7;
}
/// ... and it is lazy: on an occupied entry a closure that must never run (`requires false`) is accepted and the map is unchanged
fn vp_std_or_insert_with_lazy(m: &mut HashMap<u64, u64>, k: u64) -> (r: u64)
    requires old(m)@.contains_key(k),
    ensures final(m)@ =~= old(m)@, r == old(m)@[k],
{
    let x = m.entry(k).or_insert_with(|| -> (o: u64) requires false { 0 });
    *x
}

// ---- abstract view ---------------------------------------------------------------------------------------------------------
/// one handle's slot: (generator state, seed currently applied to it)
pub type Slot = (Pcg64, u64);
/// the table: (run base seed, handle -> slot)
pub type TV = (u64, Map<StrId, Slot>);

spec fn tv(t: RandomTable) -> TV { (t.base_seed, t.rngs@) }

/// the slot a handle gets when it is first used under base seed `base`
spec fn lazy_slot(base: u64, k: StrId) -> Slot { (gen_of(seed_of(base, k)), seed_of(base, k)) }

/// the slot handle `k` has, or would lazily get on its next use
spec fn slot_of(v: TV, k: StrId) -> Slot { if v.1.contains_key(k) { v.1[k] } else { lazy_slot(v.0, k) } }

// ---- the contracts, as relations over the view (the exec functions `ensure` exactly these) ------------------------------------
/// reset(b): base seed b and NO generator - whatever the table held before
spec fn reset_post(pre: TV, post: TV, b: u64) -> bool {
    post.0 == b && post.1 =~= Map::<StrId, Slot>::empty()
}
/// seed_handle(k, s): slot k = (fresh generator of s, s); every other slot and the base seed unchanged
spec fn seed_handle_post(pre: TV, post: TV, k: StrId, s: u64) -> bool {
    post.0 == pre.0 && post.1 =~= pre.1.insert(k, (gen_of(s), s))
}
/// get_seed_handle(k) -> r: r is the slot's seed; an absent slot is first created lazily; nothing else changes
spec fn get_seed_post(pre: TV, post: TV, k: StrId, r: u64) -> bool {
    post.0 == pre.0 && post.1 =~= pre.1.insert(k, slot_of(pre, k)) && r == slot_of(pre, k).1
}
/// with_rng(k, f): f ran on a generator that was `g0` = the slot's generator (lazily created if absent) and left it as `g1`;
/// afterwards slot k = (g1, same seed); every other slot and the base seed unchanged
spec fn with_rng_post(pre: TV, post: TV, k: StrId, g0: Pcg64, g1: Pcg64) -> bool {
    g0 == slot_of(pre, k).0 && post.0 == pre.0 && post.1 =~= pre.1.insert(k, (g1, slot_of(pre, k).1))
}
/// handle j looks the same in both tables
spec fn same_slot(a: TV, b: TV, j: StrId) -> bool {
    a.1.contains_key(j) == b.1.contains_key(j) && (a.1.contains_key(j) ==> a.1[j] == b.1[j]) && slot_of(a, j) == slot_of(b, j)
}

// ---- lemmas over the contracts ------------------------------------------------------------------------------------------------
/// history independence: the table after reset(b) is a function of b alone
proof fn lemma_reset_history_independent(pre1: TV, pre2: TV, post1: TV, post2: TV, b: u64)
    requires reset_post(pre1, post1, b), reset_post(pre2, post2, b),
    ensures post1 == post2, post1 == (b, Map::<StrId, Slot>::empty()),
{
    assert(post1.1 =~= post2.1);
}

/// reproducibility: after reset(b) - from ANY earlier table `pre` - the first with_rng(k, ..) runs its closure on gen_of(seed_of(b, k)),
/// and the first get_seed_handle(k) reports seed_of(b, k)
proof fn lemma_reproducible_after_reset(pre: TV, s1: TV, s2: TV, b: u64, k: StrId, g0: Pcg64, g1: Pcg64, r: u64)
    requires reset_post(pre, s1, b),
    ensures
        with_rng_post(s1, s2, k, g0, g1) ==> g0 == gen_of(seed_of(b, k)) && s2.0 == b && s2.1.contains_key(k) && s2.1[k] == (g1, seed_of(b, k)),
        get_seed_post(s1, s2, k, r) ==> r == seed_of(b, k) && s2.0 == b && s2.1.contains_key(k) && s2.1[k] == lazy_slot(b, k),
        // and the next draw on k after reading the seed still starts from the fresh generator
        get_seed_post(s1, s2, k, r) ==> slot_of(s2, k).0 == gen_of(seed_of(b, k)),
{}

/// isolation: no operation on handle k changes handle j != k, nor the base seed
proof fn lemma_isolation(pre: TV, post: TV, k: StrId, j: StrId, s: u64, r: u64, g0: Pcg64, g1: Pcg64)
    requires j != k,
        seed_handle_post(pre, post, k, s) || get_seed_post(pre, post, k, r) || with_rng_post(pre, post, k, g0, g1),
    ensures same_slot(post, pre, j), post.0 == pre.0,
{}

/// explicit seed: after seed_handle(k, s) the next draw on k starts from gen_of(s) and the seed read back is s, whatever came before
proof fn lemma_explicit_seed(pre: TV, s1: TV, s2: TV, k: StrId, s: u64, g0: Pcg64, g1: Pcg64, r: u64)
    requires seed_handle_post(pre, s1, k, s),
    ensures
        with_rng_post(s1, s2, k, g0, g1) ==> g0 == gen_of(s) && s2.1.contains_key(k) && s2.1[k] == (g1, s),
        get_seed_post(s1, s2, k, r) ==> r == s && s2 == s1,
{
    if get_seed_post(s1, s2, k, r) { assert(s2.1 =~= s1.1); }
}

/// the stream continues: a second with_rng(k) starts where the first one stopped, the seed stays; reading the seed does not disturb the generator
proof fn lemma_stream_continues(pre: TV, s1: TV, s2: TV, k: StrId, g0: Pcg64, g1: Pcg64, h0: Pcg64, h1: Pcg64, r: u64)
    requires with_rng_post(pre, s1, k, g0, g1),
    ensures
        with_rng_post(s1, s2, k, h0, h1) ==> h0 == g1 && s2.1[k] == (h1, slot_of(pre, k).1),
        get_seed_post(s1, s2, k, r) ==> r == slot_of(pre, k).1 && s2 == s1,
{
    if get_seed_post(s1, s2, k, r) { assert(s2.1 =~= s1.1); }
}

/// why reset's "map is EMPTY" clause is needed: a reset that clears only when the base seed changes meets every OTHER clause,
/// yet leaves an earlier test's generator g in place, so the next test's first draw on k starts from g instead of gen_of(seed_of(b, k))
spec fn conditional_clear_post(pre: TV, post: TV, b: u64) -> bool {
    post == (if pre.0 != b { (b, Map::<StrId, Slot>::empty()) } else { pre })
}
proof fn lemma_conditional_clear_depends_on_history(b: u64, k: StrId, g: Pcg64, s: u64)
    requires g != gen_of(seed_of(b, k)),
    ensures ({
        let pre = (b, Map::<StrId, Slot>::empty().insert(k, (g, s)));
        &&& conditional_clear_post(pre, pre, b)
        &&& !reset_post(pre, pre, b)
        &&& slot_of(pre, k).0 == g && slot_of(pre, k).0 != lazy_slot(b, k).0
    }),
{
    let pre = (b, Map::<StrId, Slot>::empty().insert(k, (g, s)));
    assert(pre.1.contains_key(k));
}

// ---- exec clients: they see only the contracts ---------------------------------------------------------------------------------
/// what a test that starts with reset(b) and then draws once on k observes: its closure ran on gen_of(seed_of(b, k)) and the table holds just that slot
#[verifier::prophetic]
spec fn first_draw_post<R, F: FnOnce(&mut Pcg64) -> R>(f: F, r: R, b: u64, k: StrId, post: TV) -> bool {
    exists|m: &mut Pcg64| *m == gen_of(seed_of(b, k)) && #[trigger] f.ensures((m,), r) && post.0 == b
        && post.1 =~= Map::<StrId, Slot>::empty().insert(k, (*final(m), seed_of(b, k)))
}

/// test A then test B on the same worker thread, same base seed, same handle name
fn vp_two_tests<RA, RB, FA: FnOnce(&mut Pcg64) -> RA, FB: FnOnce(&mut Pcg64) -> RB>(t: &mut RandomTable, b: u64, k: StrId, fa: FA, fb: FB) -> (r: (RA, RB))
    requires
        forall|m: &mut Pcg64| *m == gen_of(seed_of(b, k)) ==> #[trigger] fa.requires((m,)),
        forall|m: &mut Pcg64| *m == gen_of(seed_of(b, k)) ==> #[trigger] fb.requires((m,)),
    ensures
        first_draw_post(fb, r.1, b, k, tv(*final(t))),
{
    reset(t, b);
    let ra = with_rng(t, k, fa);   // test A
    reset(t, b);
    let rb = with_rng(t, k, fb);   // test B
    (ra, rb)
}

/// test B alone, on a table in ANY state: the same postcondition as after vp_two_tests - as if test A had never run
fn vp_test_b_alone<RB, FB: FnOnce(&mut Pcg64) -> RB>(t: &mut RandomTable, b: u64, k: StrId, fb: FB) -> (r: RB)
    requires
        forall|m: &mut Pcg64| *m == gen_of(seed_of(b, k)) ==> #[trigger] fb.requires((m,)),
    ensures
        first_draw_post(fb, r, b, k, tv(*final(t))),
{
    reset(t, b);
    with_rng(t, k, fb)
}

/// a busier test A (explicit seed on k, a draw on k, a draw and a seed read on another handle j) still leaves nothing behind for test B,
/// whose seed read reports seed_of(b, k) and whose draw starts from the fresh generator
fn vp_two_tests_busy<RA, RB, FA: FnOnce(&mut Pcg64) -> RA, FA2: FnOnce(&mut Pcg64) -> RA, FB: FnOnce(&mut Pcg64) -> RB>(
    t: &mut RandomTable, b: u64, k: StrId, j: StrId, sa: u64, fa: FA, fa2: FA2, fb: FB) -> (r: (u64, RB))
    requires
        forall|m: &mut Pcg64| #[trigger] fa.requires((m,)),
        forall|m: &mut Pcg64| #[trigger] fa2.requires((m,)),
        forall|m: &mut Pcg64| *m == gen_of(seed_of(b, k)) ==> #[trigger] fb.requires((m,)),
    ensures
        r.0 == seed_of(b, k),
        first_draw_post(fb, r.1, b, k, tv(*final(t))),
{
    reset(t, b);
    seed_handle(t, k, sa);
    let _ra = with_rng(t, k, fa);
    let _ra2 = with_rng(t, j, fa2);
    let _sj = get_seed_handle(t, j);
    reset(t, b);
    let s = get_seed_handle(t, k);
    let rb = with_rng(t, k, fb);
    (s, rb)
}
