
// ---- unit `range`, job `range_table`: native differential run (replay of a failed Verus obligation / thorough tier / undecided fallback) ----
// Above this text unit.py pastes: NATIVE_RNG, the `use` lines, `mod resource_table` (stand-in: StrId's real text + a total get_str_value),
// and the ORIGINAL text of struct RandomTable, the thread_local! TABLE, derive_seed, reset, with_rng, seed_handle, get_seed_handle.
// Below: an executable form of the contracts of table_spec.rs (a table VALUE, no thread-local) and a seeded search over operation sequences.

/// executable form of the view and of the four contracts (gen_of = Pcg64::seed_from_u64, seed_of = the real derive_seed)
struct Model { base: u64, slots: Vec<(StrId, Pcg64, u64)> }
impl Model {
    fn find(&self, k: StrId) -> Option<usize> { self.slots.iter().position(|s| s.0 == k) }
    /// slot_of: the slot a handle has, or lazily gets
    fn slot(&mut self, k: StrId) -> usize {
        match self.find(k) {
            Some(i) => i,
            None => { let s = derive_seed(self.base, k); self.slots.push((k, Pcg64::seed_from_u64(s), s)); self.slots.len() - 1 }
        }
    }
    /// reset_post: base recorded, NO slot left
    fn reset(&mut self, b: u64) { self.base = b; self.slots = Vec::new(); }
    /// seed_handle_post
    fn seed_handle(&mut self, k: StrId, s: u64) {
        let fresh = (k, Pcg64::seed_from_u64(s), s);
        match self.find(k) { Some(i) => self.slots[i] = fresh, None => self.slots.push(fresh) }
    }
    /// get_seed_post
    fn get_seed(&mut self, k: StrId) -> u64 { let i = self.slot(k); self.slots[i].2 }
    /// with_rng_post with the closure `|rng| rng.random_range(0..=u64::MAX)`
    fn draw(&mut self, k: StrId) -> u64 { let i = self.slot(k); self.slots[i].1.random_range(0..=u64::MAX) }
}

#[derive(Clone, Copy)]
enum Op { Reset(u64), Seed(usize, u64), GetSeed(usize), Draw(usize) }

fn show(ops: &[Op]) -> String {
    let v: Vec<String> = ops.iter().map(|o| match o {
        Op::Reset(b) => format!("\"reset({})\"", b),
        Op::Seed(k, s) => format!("\"seed_handle(h{}, {})\"", k, s),
        Op::GetSeed(k) => format!("\"get_seed_handle(h{})\"", k),
        Op::Draw(k) => format!("\"with_rng(h{}, draw u64)\"", k),
    }).collect();
    format!("[{}]", v.join(","))
}

fn main() {
    let mut g = Rng(vp_seed());
    vp_hook();
    let mut n = 0u64;
    for _ in 0..20_000u64 {
        // every case starts with a reset, so the table's initial content plays no role
        let mut ops = vec![Op::Reset(1 + g.below(2))];
        let len = 1 + g.below(10);
        for _ in 0..len {
            let k = g.below(3) as usize;
            ops.push(match g.below(6) {
                // few distinct base seeds: the SAME base seed recurs, as it does for every test of one run
                0 | 1 => Op::Reset(1 + g.below(2)),
                2 => Op::Seed(k, g.below(4)),
                3 => Op::GetSeed(k),
                _ => Op::Draw(k),
            });
        }
        n += 1;
        vp_case(format!("{{\"ops\":{}}}", show(&ops)));
        let mut m = Model { base: 0, slots: Vec::new() };
        for (i, op) in ops.iter().enumerate() {
            let (what, got, want): (&str, u64, u64) = match *op {
                Op::Reset(b) => { reset(b); m.reset(b); ("reset", 0, 0) }
                Op::Seed(k, s) => { seed_handle(StrId(k), s); m.seed_handle(StrId(k), s); ("seed_handle", 0, 0) }
                Op::GetSeed(k) => ("get_seed_handle", get_seed_handle(StrId(k)), m.get_seed(StrId(k))),
                Op::Draw(k) => ("with_rng", with_rng(StrId(k), |rng| rng.random_range(0..=u64::MAX)), m.draw(StrId(k))),
            };
            if got != want {
                println!("FOUND {{\"ops\":{},\"step\":{},\"fn\":\"{}\",\"actual\":{},\"expected\":{},\"note\":\"expected = the contracts of table_spec.rs run on a table value (after reset: no generator survives)\"}}",
                         show(&ops[..=i]), i, what, got, want);
                std::process::exit(1);
            }
        }
    }
    println!("NONE {}", n);
}
