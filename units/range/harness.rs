    // Unit `range` ($tb::random draws, crates/simulator/src/random_table.rs). This text is placed INSIDE `pub mod random_table { .. }`
    // (child modules see the private fns `mask`, `sign_extend`, `derive_seed` without any visibility rewrite).

    /// Stand-ins for what the extracted functions import (`rand`, `veryl_parser::resource_table`).
    pub mod env {
        /// a handle name: at most 8 arbitrary bytes (the real type is String; derive_seed only looks at `.as_bytes()`)
        #[derive(Clone, Copy, Debug, Default, PartialEq, Eq)]
        pub struct VpName { pub bytes: [u8; 8], pub len: usize }
        impl VpName { pub fn as_bytes(&self) -> &[u8] { &self.bytes[..self.len] } }

        /// stand-in for `veryl_parser::resource_table::StrId`: the handle id together with the string interned for it
        /// (None = id not in the table), so that the name lookup stays a pure function of the key
        #[derive(Clone, Copy, Debug, PartialEq, Eq)]
        pub struct StrId { pub id: usize, pub name: Option<VpName> }

        pub mod resource_table {
            pub use super::StrId;
            use super::VpName;
            pub fn get_str_value(id: StrId) -> Option<VpName> { id.name }
        }

        /// rand's contract for `Rng::random_range(lo..=hi)`, the ONLY thing assumed about the generator:
        /// it panics on an empty range (so `lo <= hi` is an obligation of the caller) and returns some r with lo <= r <= hi.
        pub fn vp_draw_u64(lo: u64, hi: u64) -> u64 {
            assert!(lo <= hi, "random_range called with an empty range (rand panics)");
            let r: u64 = kani::any();
            kani::assume(lo <= r && r <= hi);
            r
        }
        pub fn vp_draw_i64(lo: i64, hi: i64) -> i64 {
            assert!(lo <= hi, "random_range called with an empty range (rand panics)");
            let r: i64 = kani::any();
            kani::assume(lo <= r && r <= hi);
            r
        }
        /// `random_range` is generic in the element type; the type is chosen by inference in the extracted text exactly as in the original.
        pub trait VpDraw: Sized { fn draw(lo: Self, hi: Self) -> Self; }
        impl VpDraw for u64 { fn draw(lo: u64, hi: u64) -> u64 { vp_draw_u64(lo, hi) } }
        impl VpDraw for i64 { fn draw(lo: i64, hi: i64) -> i64 { vp_draw_i64(lo, hi) } }
        pub fn vp_draw<T: VpDraw>(r: core::ops::RangeInclusive<T>) -> T {
            let (lo, hi) = r.into_inner();
            T::draw(lo, hi)
        }
    }

    /// Independent statement of what the functions must compute (128-bit integer arithmetic, no shift tricks).
    pub mod spec {
        /// 2^min(w,64) - 1
        pub fn pow2m1(w: u32) -> u64 {
            let e = if w > 64 { 64 } else { w };
            ((1u128 << e) - 1) as u64
        }
        /// the integer denoted by the low `w` bits of `raw` (w <= 64) read as unsigned / two's complement
        pub fn interp(raw: u64, w: u32, signed: bool) -> i128 {
            let m: u128 = 1u128 << w;                     // 2^w
            let low: u128 = (raw as u128) & (m - 1);      // raw mod 2^w
            if signed && w >= 1 && low >= m / 2 { low as i128 - m as i128 } else { low as i128 }
        }
        /// FNV-1a, 64 bit (Fowler/Noll/Vo): h0 = 14695981039346656037; per octet: h = (h xor octet) * 1099511628211 mod 2^64
        pub fn fnv1a_step(h: u64, octet: u8) -> u64 {
            let prime: u64 = (1u64 << 40) + (1u64 << 8) + 0xb3;
            (h ^ octet as u64).wrapping_mul(prime)
        }
        /// seed of a handle = FNV-1a over the 8 octets of the base seed, least significant first, followed by the octets of the name
        pub fn seed_ref(base: u64, name: &[u8]) -> u64 {
            let mut h: u64 = 14695981039346656037;
            let mut i = 0;
            while i < 8 { h = fnv1a_step(h, ((base >> (8 * i)) & 0xff) as u8); i += 1; }
            let mut j = 0;
            while j < name.len() { h = fnv1a_step(h, name[j]); j += 1; }
            h
        }
    }

    pub mod harness {
        use super::env::{StrId, VpName};
        use super::spec::*;
        use super::{derive_seed, get, get_range, mask, range_bound, sign_extend};
        use crate::value::{Value, ValueU64};

        fn any_key() -> StrId { StrId { id: kani::any(), name: None } }
        fn u(v: &Value) -> &ValueU64 {
            match v { Value::U64(x) => x, _ => panic!("a <=64-bit draw must stay in the <=64-bit representation") }
        }

        #[vp_proof]
        pub fn mask_is_pow2m1() {
            let w: u32 = kani::any();
            assert!(mask(w) == pow2m1(w));
        }

        #[vp_proof]
        pub fn sign_extend_twos_complement() {
            let raw: u64 = kani::any();
            let w: u32 = kani::any();
            let r = sign_extend(raw, w);
            // the low w bits are preserved, for every width
            assert!((r as u64) & mask(w) == raw & mask(w));
            assert!((r as u64) & pow2m1(w) == raw & pow2m1(w));
            if w >= 1 && w <= 64 {
                // and the integer is the two's complement reading of those bits
                assert!(r as i128 == interp(raw, w, true));
            } else if w > 64 {
                assert!(r == raw as i64);
            } else if raw == 0 {
                // width 0: every caller passes raw & mask(0) == 0
                assert!(r == 0);
            }
        }

        #[vp_proof]
        pub fn get_range_within_bounds() {
            let min: u64 = kani::any();
            let max: u64 = kani::any();
            let w: u32 = kani::any();
            let signed: bool = kani::any();
            kani::assume(w <= 64);
            // (inside: vp_draw_* assert lo <= hi at the draw and return EVERY r in [lo, hi])
            let r = get_range(any_key(), min, max, w, signed);
            let v = u(&r);
            // requested bounds read at the handle's width and signedness, in either order
            let a = interp(min, w, signed);
            let b = interp(max, w, signed);
            let (lo, hi) = if a <= b { (a, b) } else { (b, a) };
            let got = interp(v.payload, w, signed);
            assert!(lo <= got && got <= hi);
            assert!(v.payload & !pow2m1(w) == 0);
            assert!(v.mask_xz == 0);
            assert!(v.width == w && v.signed == signed);
            assert!(r.width() == w as usize && r.signed() == signed && !r.is_xz());
        }

        #[vp_proof]
        pub fn get_fits_width() {
            let w: u32 = kani::any();
            let signed: bool = kani::any();
            kani::assume(w <= 64);
            let r = get(any_key(), w, signed);
            let v = u(&r);
            assert!(v.payload & !pow2m1(w) == 0);
            assert!(v.mask_xz == 0 && v.width == w && v.signed == signed);
            assert!(r.width() == w as usize && r.signed() == signed && !r.is_xz());
        }

        /// bounded stand-in: names of at most 2 octets (the 64-bit multiply chain costs CBMC ~10 s per round: 8 rounds for the base seed + name)
        #[cfg_attr(kani, kani::proof)]
        #[cfg_attr(kani, kani::unwind(10))]
        pub fn derive_seed_is_fnv1a() {
            let base: u64 = kani::any();
            let bytes: [u8; 8] = kani::any();
            let len: usize = kani::any();
            let present: bool = kani::any();
            kani::assume(len <= 2);
            // the numeric id is arbitrary and does not occur in the reference: equal (base, name) give equal seeds
            let key = StrId { id: kani::any(), name: if present { Some(VpName { bytes, len }) } else { None } };
            let got = derive_seed(base, key);
            let name: &[u8] = if present { &bytes[..len] } else { &[] };   // an unknown id has the empty name
            assert!(got == seed_ref(base, name));
        }

        // ---------------- call-site glue: bound expressions -> handle-width patterns -------------------------
        fn any_arg() -> crate::value::ValueU64 {
            // an evaluated bound expression: any well-formed sized <=64-bit value without x/z
            let v = crate::value::ValueU64 { payload: kani::any(), mask_xz: 0, width: kani::any(), signed: kani::any() };
            kani::assume(v.width >= 1 && v.width <= 64);
            kani::assume(v.width == 64 || v.payload >> v.width == 0);
            v
        }
        /// the integer an argument value denotes by its own width and signedness
        fn arg_value(v: &crate::value::ValueU64) -> i128 { interp(v.payload, v.width, v.signed) }
        fn representable(x: i128, w: u32, signed: bool) -> bool {
            if w == 0 { return x == 0; }
            if signed { -(1i128 << (w - 1)) <= x && x < (1i128 << (w - 1)) } else { 0 <= x && x < (1i128 << w) }
        }

        #[vp_proof]
        pub fn range_bound_keeps_value() {
            let v = any_arg();
            let w: u32 = kani::any();
            let signed: bool = kani::any();
            kani::assume(w >= 1 && w <= 64);
            let b = range_bound(&Value::U64(v.clone()), w);
            if representable(arg_value(&v), w, signed) {
                assert!(interp(b, w, signed) == arg_value(&v));
            }
        }

        #[vp_proof]
        pub fn get_range_from_argument_values() {
            let (mn, mx) = (any_arg(), any_arg());
            let w: u32 = kani::any();
            let signed: bool = kani::any();
            kani::assume(w >= 1 && w <= 64);
            kani::assume(representable(arg_value(&mn), w, signed) && representable(arg_value(&mx), w, signed));
            let r = get_range(any_key(), range_bound(&Value::U64(mn.clone()), w), range_bound(&Value::U64(mx.clone()), w), w, signed);
            let got = interp(u(&r).payload, w, signed);
            let (a, b) = (arg_value(&mn), arg_value(&mx));
            let (lo, hi) = if a <= b { (a, b) } else { (b, a) };
            assert!(lo <= got && got <= hi);
        }

        // ---------------- vacuity canaries (must FAIL) ----------------------------------------------------
        #[vp_proof]
        pub fn canary_get_range() {
            let min: u64 = kani::any();
            let max: u64 = kani::any();
            let w: u32 = kani::any();
            let signed: bool = kani::any();
            kani::assume(w <= 64);
            let r = get_range(any_key(), min, max, w, signed);
            // reachable with a non-trivial draw: some admissible draw is negative at a wide signed type
            assert!(!(signed && w == 64 && interp(u(&r).payload, w, signed) < -1));
        }
    }
