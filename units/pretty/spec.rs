// =================================================================================================
// spec side of unit `pretty` (C28 / C13): what "line", "column", "anchor is true" mean.
// Everything below is hand-written contract text; every exec item above it is cut from /repo.
// `vp_excl_block_nl()` is emitted by unit.py: true iff the known-finding class
// "block comment whose text contains '\n'" (F-C28-col) is excluded on the input side.
// =================================================================================================

// ---- text geometry ------------------------------------------------------------------------------
/// number of '\n' in s
spec fn count_nl(s: Seq<char>) -> nat
    decreases s.len(),
{
    if s.len() == 0 { 0 } else { count_nl(s.drop_last()) + if s.last() == '\n' { 1nat } else { 0nat } }
}

/// number of chars after the last '\n' of s (all of s if it has none)
spec fn col_of(s: Seq<char>) -> nat
    decreases s.len(),
{
    if s.len() == 0 { 0 } else if s.last() == '\n' { 0 } else { col_of(s.drop_last()) + 1 }
}

/// the suffix of s after its last '\n'
spec fn last_line(s: Seq<char>) -> Seq<char> {
    s.subrange(s.len() - col_of(s), s.len() as int)
}

spec fn spaces(n: nat) -> Seq<char> {
    Seq::new(n, |i: int| ' ')
}

spec fn all_spaces_from(s: Seq<char>, k: int) -> bool {
    forall|j: int| k <= j < s.len() ==> s[j] == ' '
}

/// b extends a
spec fn grows(a: Seq<char>, b: Seq<char>) -> bool {
    a.len() <= b.len() && b.take(a.len() as int) =~= a
}

/// b extends a after dropping some trailing spaces of a (the documented DedentHardline truncation)
spec fn trunc_grows(a: Seq<char>, b: Seq<char>) -> bool {
    exists|k: int| 0 <= k <= a.len() && k <= b.len() && #[trigger] b.take(k) =~= a.take(k) && all_spaces_from(a, k)
}

/// size limit used by every overflow argument: 2^31
spec fn lim() -> nat {
    0x8000_0000
}

// ---- assumed contracts of std string calls (outlining rules O1-O3, O7, O9; assume_specification) ---
// O1: E.matches('\n').count()
#[verifier::external_body]
fn vp_count_nl(s: &str) -> (r: usize)
    ensures r == count_nl(s@),
{
    s.matches('\n').count()
}

// O2: E.chars().count()
#[verifier::external_body]
fn vp_char_count(s: &str) -> (r: usize)
    ensures r == s@.len(),
{
    s.chars().count()
}

// O3: E.rsplit('\n').next().unwrap_or("")
#[verifier::external_body]
fn vp_last_line<'a>(s: &'a str) -> (r: &'a str)
    ensures r@ == last_line(s@),
{
    s.rsplit('\n').next().unwrap_or("")
}

// O9: E[a..].iter().all(|b| *b == b' ')
#[verifier::external_body]
fn vp_all_spaces(b: &[u8], from: usize) -> (r: bool)
    requires from <= b@.len(),
    ensures r == (forall|i: int| from <= i < b@.len() ==> b@[i] == 0x20u8),
{
    b[from..].iter().all(|b| *b == b' ')
}

/// UTF-8 encoding of a char sequence (uninterpreted; only the two facts below are assumed)
pub uninterp spec fn utf8(s: Seq<char>) -> Seq<u8>;


pub assume_specification[ String::len ](s: &String) -> (r: usize)
    ensures r == utf8(s@).len(),
;

pub assume_specification[ String::as_bytes ](s: &String) -> (r: &[u8])
    ensures r@ == utf8(s@),
;

// String::truncate(n): no-op if n >= byte length, panics unless n is a char boundary, otherwise keeps
// exactly the chars whose encoding is the first n bytes.
pub assume_specification[ String::truncate ](s: &mut String, n: usize)
    requires
        n >= utf8(old(s)@).len() || exists|k: int| 0 <= k <= old(s)@.len() && #[trigger] utf8(old(s)@.take(k)).len() == n,
    ensures
        n >= utf8(old(s)@).len() ==> final(s)@ == old(s)@,
        forall|k: int| 0 <= k <= old(s)@.len() && #[trigger] utf8(old(s)@.take(k)).len() == n ==> final(s)@ == old(s)@.take(k),
;

/// assumed UTF-8 fact: byte 0x20 only ever encodes ' ' (one byte); so if the last `want` bytes are 0x20 the
/// last `want` chars are ' ' and dropping them drops exactly those bytes.
#[verifier::external_body]
proof fn axiom_utf8_trailing_spaces(s: Seq<char>, want: nat)
    requires
        want <= utf8(s).len(),
        forall|i: int| utf8(s).len() - want <= i < utf8(s).len() ==> utf8(s)[i] == 0x20u8,
    ensures
        want <= s.len(),
        all_spaces_from(s, s.len() - want),
        utf8(s.take(s.len() - want)).len() == utf8(s).len() - want,
{
}

// ---- lemmas about count_nl / col_of ---------------------------------------------------------------
broadcast proof fn lemma_count_nl_add(a: Seq<char>, b: Seq<char>)
    ensures #[trigger] count_nl(a + b) == count_nl(a) + count_nl(b),
    decreases b.len(),
{
    if b.len() == 0 {
        assert(a + b =~= a);
    } else {
        assert((a + b).drop_last() =~= a + b.drop_last());
        lemma_count_nl_add(a, b.drop_last());
    }
}

broadcast proof fn lemma_col_of_add(a: Seq<char>, b: Seq<char>)
    ensures #[trigger] col_of(a + b) == if count_nl(b) == 0 { col_of(a) + b.len() } else { col_of(b) },
    decreases b.len(),
{
    if b.len() == 0 {
        assert(a + b =~= a);
    } else {
        assert((a + b).drop_last() =~= a + b.drop_last());
        lemma_col_of_add(a, b.drop_last());
    }
}

broadcast proof fn lemma_col_le(s: Seq<char>)
    ensures #[trigger] col_of(s) <= s.len(),
    decreases s.len(),
{
    if s.len() > 0 {
        lemma_col_le(s.drop_last());
    }
}

broadcast proof fn lemma_nl_le(s: Seq<char>)
    ensures #[trigger] count_nl(s) <= s.len(),
    decreases s.len(),
{
    if s.len() > 0 {
        lemma_nl_le(s.drop_last());
    }
}

broadcast proof fn lemma_push_nl(s: Seq<char>, c: char)
    ensures #[trigger] count_nl(s.push(c)) == count_nl(s) + if c == '\n' { 1nat } else { 0nat },
{
    assert(s.push(c).drop_last() =~= s);
}

broadcast proof fn lemma_push_col(s: Seq<char>, c: char)
    ensures #[trigger] col_of(s.push(c)) == if c == '\n' { 0 } else { col_of(s) + 1 },
{
    assert(s.push(c).drop_last() =~= s);
}

broadcast proof fn lemma_spaces(n: nat)
    ensures
        count_nl(#[trigger] spaces(n)) == 0,
        col_of(spaces(n)) == n,
        spaces(n).len() == n,
    decreases n,
{
    if n > 0 {
        lemma_spaces((n - 1) as nat);
        assert(spaces(n).drop_last() =~= spaces((n - 1) as nat));
    }
}

/// dropping trailing spaces keeps the line and moves the column left by their number
proof fn lemma_trunc_spaces(s: Seq<char>, k: int)
    requires 0 <= k <= s.len(), all_spaces_from(s, k),
    ensures count_nl(s.take(k)) == count_nl(s), col_of(s.take(k)) + (s.len() - k) == col_of(s),
    decreases s.len() - k,
{
    if k < s.len() {
        assert(s.drop_last().take(k) =~= s.take(k));
        lemma_trunc_spaces(s.drop_last(), k);
    } else {
        assert(s.take(k) =~= s);
    }
}

proof fn lemma_mul_bound(a: int, b: int, ma: int, mb: int)
    requires 0 <= a <= ma, 0 <= b <= mb,
    ensures 0 <= a * b <= ma * mb,
{
    assert(0 <= a * b <= ma * mb) by (nonlinear_arith)
        requires 0 <= a <= ma, 0 <= b <= mb;
}

// ---- options --------------------------------------------------------------------------------------
/// opts.newline is "\n" or "\r\n" (exactly one '\n', at the end); indent_width <= 2^31
spec fn wf_opts(o: RenderOpts) -> bool {
    &&& (o.newline@ =~= seq!['\n'] || o.newline@ =~= seq!['\r', '\n'])
    &&& o.indent_width <= lim()
}

proof fn lemma_newline(o: RenderOpts)
    requires wf_opts(o),
    ensures count_nl(o.newline@) == 1, col_of(o.newline@) == 0, 1 <= o.newline@.len() <= 2,
{
    let s = o.newline@;
    if s =~= seq!['\n'] {
        assert(s.drop_last() =~= Seq::<char>::empty());
        assert(count_nl(s.drop_last()) == 0);
    } else {
        let t = s.drop_last();
        assert(t =~= seq!['\r']);
        assert(t.drop_last() =~= Seq::<char>::empty());
        assert(count_nl(t.drop_last()) == 0);
        assert(count_nl(t) == 0);
    }
}

spec fn pad_of(indent: int, o: RenderOpts) -> nat {
    ((if indent > 0 { indent } else { 0 }) * (o.indent_width as int)) as nat
}

// ---- renderer state -------------------------------------------------------------------------------
spec fn pend(st: State) -> nat {
    match st.pending_indent {
        Some(p) => p as nat,
        None => 0,
    }
}

/// chars already written plus indentation already promised
spec fn used(st: State) -> nat {
    st.out@.len() + pend(st)
}

/// C28/C13 core: (current_line, col) is the position of the end of the output
spec fn pos_inv(st: State) -> bool {
    &&& line_ok(st)
    &&& col_ok(st)
    &&& (st.pending_indent.is_some() ==> st.col == 0)
}

/// current_line is 1 + the number of '\n' written so far
spec fn line_ok(st: State) -> bool {
    st.current_line == 1 + count_nl(st.out@)
}

/// col is the number of chars written after the last '\n'
spec fn col_ok(st: State) -> bool {
    st.col == col_of(st.out@)
}

/// pos_inv plus: a pending swallow only exists right after a line comment (which also queued the indent)
spec fn st_inv(st: State) -> bool {
    &&& pos_inv(st)
    &&& (st.swallow_next_break ==> st.pending_indent.is_some())
}

/// number of indentation spaces flush_pending_with_indent writes
spec fn flush_n(st: State, indent: int, o: RenderOpts) -> nat {
    match st.pending_indent {
        Some(p) => if pad_of(indent, o) <= p { pad_of(indent, o) } else { p as nat },
        None => 0,
    }
}

/// everything but `out`, `col`, `pending_indent` is unchanged
spec fn same_rest(a: State, b: State) -> bool {
    &&& a.current_line == b.current_line
    &&& a.swallow_next_break == b.swallow_next_break
    &&& a.anchors == b.anchors
    &&& a.offs == b.offs
}

/// only `out` differs
spec fn same_but_out(a: State, b: State) -> bool {
    &&& same_rest(a, b)
    &&& a.col == b.col
    &&& a.pending_indent == b.pending_indent
}

// ---- anchors --------------------------------------------------------------------------------------
/// the anchor recorded for the text written at char offset `off` of `out` is true:
/// its text is there, (dst_line, dst_column) is the 1-based line / column (in chars) of that offset,
/// all four coordinates are >= 1
spec fn anchor_ok(out: Seq<char>, off: nat, a: RenderedAnchor) -> bool {
    let n = a.text@.len();
    &&& n >= 1
    &&& a.text@[n - 1] != ' '
    &&& off + n <= out.len()
    &&& out.subrange(off as int, (off + n) as int) =~= a.text@
    &&& a.dst_line == 1 + count_nl(out.take(off as int))
    &&& a.dst_column == 1 + col_of(out.take(off as int))
    &&& a.src_line >= 1
    &&& a.src_column >= 1
}

spec fn anchors_hold(out: Seq<char>, offs: Seq<nat>, anchors: Seq<RenderedAnchor>) -> bool {
    &&& offs.len() == anchors.len()
    &&& forall|i: int| 0 <= i < anchors.len() ==> anchor_ok(out, offs[i], #[trigger] anchors[i])
    &&& forall|i: int, j: int| 0 <= i <= j < offs.len() ==> offs[i] <= offs[j]
}

spec fn anchors_ok(st: State) -> bool {
    anchors_hold(st.out@, st.offs@, st.anchors@)
}

proof fn lemma_prefix_index(a: Seq<char>, b: Seq<char>)
    requires grows(a, b),
    ensures forall|j: int| 0 <= j < a.len() ==> a[j] == b[j],
{
    assert forall|j: int| 0 <= j < a.len() implies a[j] == b[j] by {
        assert(b.take(a.len() as int)[j] == b[j]);
    }
}

proof fn lemma_anchors_grow(out: Seq<char>, out2: Seq<char>, offs: Seq<nat>, anchors: Seq<RenderedAnchor>)
    requires anchors_hold(out, offs, anchors), grows(out, out2),
    ensures anchors_hold(out2, offs, anchors),
{
    lemma_prefix_index(out, out2);
    assert forall|i: int| 0 <= i < anchors.len() implies anchor_ok(out2, offs[i], #[trigger] anchors[i]) by {
        let off = offs[i] as int;
        let n = anchors[i].text@.len();
        assert(anchor_ok(out, offs[i], anchors[i]));
        assert(out2.take(off) =~= out.take(off));
        assert(out2.subrange(off, off + n) =~= out.subrange(off, off + n));
    }
}

proof fn lemma_anchors_trunc(out: Seq<char>, k: int, offs: Seq<nat>, anchors: Seq<RenderedAnchor>)
    requires anchors_hold(out, offs, anchors), 0 <= k <= out.len(), all_spaces_from(out, k),
    ensures anchors_hold(out.take(k), offs, anchors),
{
    let out2 = out.take(k);
    assert forall|i: int| 0 <= i < anchors.len() implies anchor_ok(out2, offs[i], #[trigger] anchors[i]) by {
        let off = offs[i] as int;
        let n = anchors[i].text@.len();
        assert(anchor_ok(out, offs[i], anchors[i]));
        assert(out.subrange(off, off + n)[n - 1] == out[off + n - 1]);
        assert(off + n <= k);
        assert(out2.take(off) =~= out.take(off));
        assert(out2.subrange(off, off + n) =~= out.subrange(off, off + n));
    }
}

/// a new anchor written at the current end of `out`, followed by its text
proof fn lemma_anchor_push(out: Seq<char>, offs: Seq<nat>, anchors: Seq<RenderedAnchor>, a: RenderedAnchor)
    requires
        anchors_hold(out, offs, anchors),
        a.text@.len() >= 1,
        a.text@[a.text@.len() - 1] != ' ',
        a.dst_line == 1 + count_nl(out),
        a.dst_column == 1 + col_of(out),
        a.src_line >= 1,
        a.src_column >= 1,
    ensures anchors_hold(out + a.text@, offs.push(out.len()), anchors.push(a)),
{
    let out2 = out + a.text@;
    let offs2 = offs.push(out.len());
    let anchors2 = anchors.push(a);
    assert(grows(out, out2));
    lemma_anchors_grow(out, out2, offs, anchors);
    assert(out2.take(out.len() as int) =~= out);
    assert(out2.subrange(out.len() as int, (out.len() + a.text@.len()) as int) =~= a.text@);
    assert forall|i: int| 0 <= i < anchors2.len() implies anchor_ok(out2, offs2[i], #[trigger] anchors2[i]) by {
        if i < anchors.len() {
            assert(anchors2[i] == anchors[i] && offs2[i] == offs[i]);
            assert(anchor_ok(out2, offs[i], anchors[i]));
        }
    }
    assert forall|i: int, j: int| 0 <= i <= j < offs2.len() implies offs2[i] <= offs2[j] by {
        if i < offs.len() {
            assert(anchor_ok(out, offs[i], anchors[i]));
        }
    }
}


// ---- path-local facts (broadcast): how `grows`, anchors and the truncation survive appends -----------------
broadcast proof fn lemma_grows_add(a: Seq<char>, b: Seq<char>)
    ensures grows(a, #[trigger] (a + b)),
{
    assert((a + b).take(a.len() as int) =~= a);
}

broadcast proof fn lemma_grows_add2(a: Seq<char>, b: Seq<char>, c: Seq<char>)
    requires grows(a, b),
    ensures #![trigger grows(a, b), b + c] grows(a, b + c),
{
    assert((b + c).take(a.len() as int) =~= b.take(a.len() as int));
}

broadcast proof fn lemma_grows_push(a: Seq<char>, b: Seq<char>, c: char)
    requires grows(a, b),
    ensures #![trigger grows(a, b), b.push(c)] grows(a, b.push(c)),
{
    assert(b.push(c).take(a.len() as int) =~= b.take(a.len() as int));
}

broadcast proof fn lemma_grows_refl(a: Seq<char>)
    ensures #[trigger] grows(a, a),
{
    assert(a.take(a.len() as int) =~= a);
}

broadcast proof fn lemma_anchors_grow_b(out: Seq<char>, out2: Seq<char>, offs: Seq<nat>, anchors: Seq<RenderedAnchor>)
    requires anchors_hold(out, offs, anchors), grows(out, out2),
    ensures #![trigger anchors_hold(out, offs, anchors), grows(out, out2)] anchors_hold(out2, offs, anchors),
{
    lemma_anchors_grow(out, out2, offs, anchors);
}

broadcast proof fn lemma_grows_trunc(a: Seq<char>, b: Seq<char>)
    requires grows(a, b),
    ensures #[trigger] trunc_grows(a, b),
{
    let k = a.len() as int;
    assert(b.take(k) =~= a.take(k));
    assert(all_spaces_from(a, k));
}

broadcast proof fn lemma_trunc_then_add(a: Seq<char>, k: int, c: Seq<char>)
    requires 0 <= k <= a.len(), all_spaces_from(a, k),
    ensures trunc_grows(a, #[trigger] (a.take(k) + c)),
{
    assert((a.take(k) + c).take(k) =~= a.take(k));
}

broadcast proof fn lemma_kept_same(s0: State, s1: State)
    requires s1.anchors == s0.anchors, s1.offs == s0.offs,
    ensures #[trigger] anchors_kept(s0, s1),
{
    assert(s1.anchors@.take(s0.anchors@.len() as int) =~= s0.anchors@);
    assert(s1.offs@.take(s0.offs@.len() as int) =~= s0.offs@);
}

broadcast group vp_path_lemmas {
    lemma_grows_add,
    lemma_grows_add2,
    lemma_grows_push,
    lemma_grows_refl,
    lemma_anchors_grow_b,
    lemma_grows_trunc,
    lemma_trunc_then_add,
    lemma_kept_same,
}

// ---- well-formed documents and their size ------------------------------------------------------------
spec fn anchored_wf(a: AnchoredText) -> bool {
    &&& a.text@.len() >= 1
    &&& a.text@[a.text@.len() - 1] != ' '
    &&& a.src_line >= 1
    &&& a.src_column >= 1
}

/// a comment that will record an anchor has non-empty text not ending in ' ';
/// with the known finding F-C28-col active: a block comment's text contains no '\n'
spec fn comment_wf(c: CommentDoc) -> bool {
    &&& ((c.src_line != 0 && c.src_column != 0) ==> c.text@.len() >= 1 && c.text@[c.text@.len() - 1] != ' ')
    &&& (vp_excl_block_nl() ==> (!c.is_line_comment ==> count_nl(c.text@) == 0))
}

spec fn comments_wf(cs: Seq<CommentDoc>) -> bool {
    forall|i: int| 0 <= i < cs.len() ==> comment_wf(#[trigger] cs[i])
}

/// sum of (chars + 1) of comments lo..
spec fn comments_len(cs: Seq<CommentDoc>, lo: nat) -> nat
    decreases cs.len() - lo,
{
    if lo >= cs.len() { 0 } else { cs[lo as int].text@.len() + 1 + comments_len(cs, lo + 1) }
}

/// upper bound of what render_comments writes (or promises as indentation) for one comment
spec fn comment_cost(c: CommentDoc, indent: int, o: RenderOpts) -> nat {
    2 * (if c.leading_newlines >= 1 { c.leading_newlines as nat } else { 1nat }) + 2 * pad_of(indent, o) + 1 + c.text@.len() + 2
}

spec fn comments_cost(cs: Seq<CommentDoc>, lo: nat, indent: int, o: RenderOpts) -> nat
    decreases cs.len() - lo,
{
    if lo >= cs.len() { 0 } else { comment_cost(cs[lo as int], indent, o) + comments_cost(cs, lo + 1, indent, o) }
}

/// indent-independent part of wf_doc: text sizes, no '\n' in Line separators and IfBreak texts (the renderer only
/// advances `col` for them), anchored text shape, comment shape
spec fn sizes_ok(d: Doc) -> bool
    decreases d,
{
    match d {
        Doc::Text(s) => s@.len() <= lim(),
        Doc::Concat(items) => forall|i: int| 0 <= i < items@.len() ==> sizes_ok(#[trigger] items@[i]),
        Doc::Indent(_, inner) => sizes_ok(*inner),
        Doc::Group(inner) => sizes_ok(*inner),
        Doc::ForceFlat(inner) => sizes_ok(*inner),
        Doc::Line(sep) => sep@.len() <= lim() && count_nl(sep@) == 0,
        Doc::Comments(cs) => comments_len(cs@, 0) <= lim() && comments_wf(cs@),
        Doc::IfBreak(s) => s@.len() <= lim() && count_nl(s@) == 0,
        Doc::Anchored(a) => a.text@.len() <= lim() && anchored_wf(*a),
        _ => true,
    }
}

/// accumulated indent levels stay inside i32
spec fn indents_ok(d: Doc, indent: int) -> bool
    decreases d,
{
    match d {
        Doc::Concat(items) => forall|i: int| 0 <= i < items@.len() ==> indents_ok(#[trigger] items@[i], indent),
        Doc::Indent(off, inner) => i32::MIN <= indent + off <= i32::MAX && indents_ok(*inner, indent + off),
        Doc::Group(inner) => indents_ok(*inner, indent),
        Doc::ForceFlat(inner) => indents_ok(*inner, indent),
        _ => true,
    }
}

spec fn wf_doc(d: Doc, indent: int) -> bool {
    sizes_ok(d) && indents_ok(d, indent)
}

/// 1 per node + upper bound of the chars the node itself can write or promise as indentation,
/// in either mode (a newline counts 2, a break = newline + pad_of(indent))
spec fn doc_cost(d: Doc, indent: int, o: RenderOpts) -> nat
    decreases d,
{
    1 + match d {
        Doc::Nil => 0,
        Doc::Text(s) => s@.len(),
        Doc::Concat(items) => docs_cost(items@, 0, indent, o),
        Doc::Indent(off, inner) => doc_cost(*inner, indent + off, o),
        Doc::Group(inner) => doc_cost(*inner, indent, o),
        Doc::ForceFlat(inner) => doc_cost(*inner, indent, o),
        Doc::Line(sep) => sep@.len() + 2 + pad_of(indent, o),
        Doc::Hardline => 3 + pad_of(indent, o),
        Doc::DedentHardline(_) => 3 + pad_of(indent, o),
        Doc::Comments(cs) => comments_cost(cs@, 0, indent, o),
        Doc::IfBreak(s) => s@.len(),
        Doc::IfBreakPad(w) => w as nat,
        Doc::Pad(w) => w as nat,
        Doc::IfFlatPad(w) => w as nat,
        Doc::Anchored(a) => a.text@.len(),
    }
}

spec fn docs_cost(items: Seq<Doc>, lo: nat, indent: int, o: RenderOpts) -> nat
    decreases items, items.len() - lo,
{
    if lo >= items.len() { 0 } else { doc_cost(items[lo as int], indent, o) + docs_cost(items, lo + 1, indent, o) }
}

// ---- the work stack -----------------------------------------------------------------------------------
spec fn frame_wf(f: Frame<'_>) -> bool {
    wf_doc(*f.doc, f.indent as int)
}

spec fn frame_cost(f: Frame<'_>, o: RenderOpts) -> nat {
    doc_cost(*f.doc, f.indent as int, o)
}

spec fn stack_wf(s: Seq<Frame<'_>>) -> bool {
    forall|i: int| 0 <= i < s.len() ==> frame_wf(#[trigger] s[i])
}

spec fn stack_cost(s: Seq<Frame<'_>>, o: RenderOpts) -> nat
    decreases s.len(),
{
    if s.len() == 0 { 0 } else { stack_cost(s.drop_last(), o) + frame_cost(s.last(), o) }
}

broadcast proof fn lemma_stack_push(s: Seq<Frame<'_>>, f: Frame<'_>, o: RenderOpts)
    ensures #[trigger] stack_cost(s.push(f), o) == stack_cost(s, o) + frame_cost(f, o),
{
    assert(s.push(f).drop_last() =~= s);
}

/// every frame costs at least 1, so the stack is never longer than its cost
proof fn lemma_stack_len(s: Seq<Frame<'_>>, o: RenderOpts)
    ensures s.len() <= stack_cost(s, o),
    decreases s.len(),
{
    if s.len() > 0 {
        lemma_stack_len(s.drop_last(), o);
    }
}

spec fn work_ok(w: Seq<(&Doc, bool)>) -> bool {
    forall|j: int| 0 <= j < w.len() ==> sizes_ok(*(#[trigger] w[j]).0)
}

/// the frame pushed for a child: same indent/mode bookkeeping as the source
spec fn is_frame(f: Frame<'_>, indent: int, mode: Mode, d: Doc) -> bool {
    f.indent == indent && f.mode == mode && *f.doc == d
}

/// `t` was written after the pending indentation (if any) was flushed for this frame's indent
spec fn emits(s0: State, s1: State, t: Seq<char>, indent: int, o: RenderOpts) -> bool {
    s1.out@ == s0.out@ + spaces(flush_n(s0, indent, o)) + t
}

/// effect of emit_break on the output
spec fn breaks(s0: State, s1: State, o: RenderOpts) -> bool {
    s1.out@ == s0.out@ + (if s0.swallow_next_break { Seq::<char>::empty() } else { o.newline@ })
}

/// anchors recorded earlier are never touched again
spec fn anchors_kept(s0: State, s1: State) -> bool {
    &&& s0.anchors@.len() <= s1.anchors@.len()
    &&& s1.anchors@.take(s0.anchors@.len() as int) =~= s0.anchors@
    &&& s0.offs@.len() <= s1.offs@.len()
    &&& s1.offs@.take(s0.offs@.len() as int) =~= s0.offs@
}

/// per-variant effect of render_frame on the output (s0 -> s1) and on the work stack (k0 -> k1).
/// IfBreak / IfBreakPad / IfFlatPad: the text is written iff the frame's mode is Break (resp. Flat);
/// Concat / Indent / Group / ForceFlat: children inherit the mode, except that Group chooses it (Flat stays Flat)
/// and ForceFlat forces Flat -- so a frame's mode is the mode chosen for its immediately enclosing group.
spec fn frame_post(frame: Frame<'_>, o: RenderOpts, s0: State, s1: State, k0: Seq<Frame<'_>>, k1: Seq<Frame<'_>>) -> bool {
    let indent = frame.indent as int;
    let mode = frame.mode;
    match *frame.doc {
        Doc::Nil => s1 == s0 && k1 == k0,
        Doc::Text(s) => k1 == k0 && emits(s0, s1, s@, indent, o) && s1.anchors == s0.anchors,
        Doc::Concat(items) => {
            &&& s1 == s0
            &&& k1.len() == k0.len() + items@.len()
            &&& k1.take(k0.len() as int) =~= k0
            &&& forall|i: int| 0 <= i < items@.len() ==> is_frame(#[trigger] k1[k0.len() + i], indent, mode, items@[items@.len() - 1 - i])
        },
        Doc::Indent(off, inner) => s1 == s0 && k1 == k0.push(k1.last()) && is_frame(k1.last(), indent + off, mode, *inner),
        Doc::Group(inner) => {
            &&& s1 == s0
            &&& k1 == k0.push(k1.last())
            &&& is_frame(k1.last(), indent, k1.last().mode, *inner)
            &&& (mode is Flat ==> k1.last().mode is Flat)
        },
        Doc::ForceFlat(inner) => s1 == s0 && k1 == k0.push(k1.last()) && is_frame(k1.last(), indent, Mode::Flat, *inner),
        Doc::Line(sep) => k1 == k0 && s1.anchors == s0.anchors && (if mode is Flat { s1.out@ == s0.out@ + spaces(pend(s0)) + sep@ } else { breaks(s0, s1, o) }),
        Doc::Hardline => k1 == k0 && s1.anchors == s0.anchors && (if mode is Flat { s1.out@ == (s0.out@ + spaces(pend(s0))).push(' ') } else { breaks(s0, s1, o) }),
        Doc::DedentHardline(_) => k1 == k0 && s1.anchors == s0.anchors && (mode is Flat ==> s1.out@ == (s0.out@ + spaces(pend(s0))).push(' ')),
        Doc::Comments(_) => k1 == k0,
        Doc::IfBreak(s) => k1 == k0 && s1.anchors == s0.anchors && (if mode is Break { emits(s0, s1, s@, indent, o) } else { s1 == s0 }),
        Doc::IfBreakPad(w) => k1 == k0 && s1.anchors == s0.anchors && (if mode is Break && w > 0 { emits(s0, s1, spaces(w as nat), indent, o) } else { s1 == s0 }),
        Doc::Pad(w) => k1 == k0 && s1.anchors == s0.anchors && (if w > 0 { emits(s0, s1, spaces(w as nat), indent, o) } else { s1 == s0 }),
        Doc::IfFlatPad(w) => k1 == k0 && s1.anchors == s0.anchors && (if mode is Flat && w > 0 { emits(s0, s1, spaces(w as nat), indent, o) } else { s1 == s0 }),
        Doc::Anchored(a) => k1 == k0 && emits(s0, s1, a.text@, indent, o) && s1.anchors@.len() == s0.anchors@.len() + 1 && s1.anchors@.last().text@ == a.text@,
    }
}

/// what the rendered result promises (C28 anchors clause, C13 ordering and 1-based clause)
pub closed spec fn rendered_ok(r: Rendered, o: RenderOpts) -> bool {
    exists|raw: Seq<char>, offs: Seq<nat>|
        #![trigger vp_witness(raw, offs)]
        vp_witness(raw, offs) && anchors_hold(raw, offs, r.anchors@) && (if o.strip_trailing_whitespace { is_strip_tw(r.text@, raw, o.newline@) } else { r.text@ == raw })
}

/// names the witness (unstripped output, anchor offsets) of rendered_ok
spec fn vp_witness(raw: Seq<char>, offs: Seq<nat>) -> bool {
    true
}

pub closed spec fn render_pre(doc: Doc, o: RenderOpts) -> bool {
    wf_opts(o) && wf_doc(doc, 0) && doc_cost(doc, 0, o) <= lim()
}

broadcast group vp_text_lemmas {
    lemma_count_nl_add,
    lemma_col_of_add,
    lemma_col_le,
    lemma_nl_le,
    lemma_push_nl,
    lemma_push_col,
    lemma_spaces,
    lemma_stack_push,
}

// =================================================================================================
// C13: what the source-map consumer may rely on (lemmas over the contracts only)
// =================================================================================================

/// a later offset has a lexicographically later (line, column)
proof fn lemma_line_col_monotone(out: Seq<char>, a: int, b: int)
    requires 0 <= a <= b <= out.len(),
    ensures
        count_nl(out.take(a)) < count_nl(out.take(b)) || (count_nl(out.take(a)) == count_nl(out.take(b)) && col_of(out.take(a)) <= col_of(out.take(b))),
    decreases b - a,
{
    if a < b {
        lemma_line_col_monotone(out, a, b - 1);
        assert(out.take(b).drop_last() =~= out.take(b - 1));
    }
}

spec fn lex_le(l1: u32, c1: u32, l2: u32, c2: u32) -> bool {
    l1 < l2 || (l1 == l2 && c1 <= c2)
}

/// C13: every entry has all four coordinates >= 1 (so `x - 1` in SourceMap::add cannot underflow) and the entries
/// are ordered by output position
pub closed spec fn anchors_1based_sorted(anchors: Seq<RenderedAnchor>) -> bool {
    &&& forall|i: int| 0 <= i < anchors.len() ==> {
            let a = #[trigger] anchors[i];
            a.dst_line >= 1 && a.dst_column >= 1 && a.src_line >= 1 && a.src_column >= 1
        }
    &&& forall|i: int, j: int| 0 <= i <= j < anchors.len() ==> lex_le(anchors[i].dst_line, anchors[i].dst_column, anchors[j].dst_line, anchors[j].dst_column)
}

proof fn lemma_rendered_sorted(r: Rendered, o: RenderOpts)
    requires rendered_ok(r, o),
    ensures anchors_1based_sorted(r.anchors@),
{
    let (raw, offs) = choose|raw: Seq<char>, offs: Seq<nat>| #![trigger vp_witness(raw, offs)]
        vp_witness(raw, offs) && anchors_hold(raw, offs, r.anchors@) && (if o.strip_trailing_whitespace { is_strip_tw(r.text@, raw, o.newline@) } else { r.text@ == raw });
    let an = r.anchors@;
    assert forall|i: int, j: int| 0 <= i <= j < an.len() implies lex_le(an[i].dst_line, an[i].dst_column, an[j].dst_line, an[j].dst_column) by {
        assert(anchor_ok(raw, offs[i], an[i]));
        assert(anchor_ok(raw, offs[j], an[j]));
        lemma_line_col_monotone(raw, offs[i] as int, offs[j] as int);
    }
    assert forall|i: int| 0 <= i < an.len() implies ({
        let a = #[trigger] an[i];
        a.dst_line >= 1 && a.dst_column >= 1 && a.src_line >= 1 && a.src_column >= 1
    }) by {
        assert(anchor_ok(raw, offs[i], an[i]));
    }
}


// =================================================================================================
// C28 content clause, final pass: strip_trailing_whitespace (its real loop is verified; only the two std calls
// `s.split(newline).enumerate()` (O10) and `line.trim_end_matches([' ', '\t'])` (O11) are outlined)
// =================================================================================================
spec fn is_blank(c: char) -> bool {
    c == ' ' || c == '\t'
}

/// s without its trailing ' ' / '\t' chars (nothing else is ever removed)
spec fn trim_blank(s: Seq<char>) -> Seq<char>
    decreases s.len(),
{
    if s.len() > 0 && is_blank(s.last()) { trim_blank(s.drop_last()) } else { s }
}

spec fn contains_at(s: Seq<char>, pat: Seq<char>, i: int) -> bool {
    0 <= i && i + pat.len() <= s.len() && s.subrange(i, i + pat.len()) == pat
}

spec fn contains(s: Seq<char>, pat: Seq<char>) -> bool {
    exists|i: int| contains_at(s, pat, i)
}

/// first n pieces joined by nl
spec fn join_upto(p: Seq<Seq<char>>, nl: Seq<char>, n: int) -> Seq<char>
    decreases n,
{
    if n <= 0 { Seq::empty() } else if n == 1 { p[0] } else { join_upto(p, nl, n - 1) + nl + p[n - 1] }
}

/// first n pieces, each blank-trimmed, joined by nl
spec fn join_trim_upto(p: Seq<Seq<char>>, nl: Seq<char>, n: int) -> Seq<char>
    decreases n,
{
    if n <= 0 { Seq::empty() } else if n == 1 { trim_blank(p[0]) } else { join_trim_upto(p, nl, n - 1) + nl + trim_blank(p[n - 1]) }
}

/// p are the lines of s: joined by nl they give s back, and no line contains nl
spec fn is_split(p: Seq<Seq<char>>, s: Seq<char>, nl: Seq<char>) -> bool {
    p.len() >= 1 && join_upto(p, nl, p.len() as int) == s && forall|i: int| 0 <= i < p.len() ==> !contains(#[trigger] p[i], nl)
}

/// strip_tw as a defined relation: r is s with the trailing ' ' / '\t' of every line (and nothing else) removed
spec fn is_strip_tw(r: Seq<char>, s: Seq<char>, nl: Seq<char>) -> bool {
    exists|p: Seq<Seq<char>>| #[trigger] is_split(p, s, nl) && r == join_trim_upto(p, nl, p.len() as int)
}

spec fn pieces_of(v: Seq<(usize, &str)>) -> Seq<Seq<char>> {
    Seq::new(v.len(), |k: int| v[k].1@)
}

// O10: s.split(newline).enumerate()   (the iterator is collected; element k is (k, k-th piece))
#[verifier::external_body]
fn vp_split_enumerate<'a>(s: &'a str, newline: &str) -> (r: Vec<(usize, &'a str)>)
    ensures
        is_split(pieces_of(r@), s@, newline@),
        forall|k: int| 0 <= k < r@.len() ==> (#[trigger] r@[k]).0 == k,
{
    s.split(newline).enumerate().collect()
}

// O11: line.trim_end_matches([' ', '\t'])
#[verifier::external_body]
fn vp_trim_end_blank<'a>(line: &'a str) -> (r: &'a str)
    ensures r@ == trim_blank(line@),
{
    line.trim_end_matches([' ', '\t'])
}

pub assume_specification[ String::with_capacity ](n: usize) -> (r: String)
    ensures r@ == Seq::<char>::empty(),
;

/// s with every ' ' and '\t' deleted
spec fn unblank(s: Seq<char>) -> Seq<char>
    decreases s.len(),
{
    if s.len() == 0 { Seq::empty() } else { unblank(s.drop_last()) + (if is_blank(s.last()) { Seq::<char>::empty() } else { seq![s.last()] }) }
}

proof fn lemma_unblank_add(a: Seq<char>, b: Seq<char>)
    ensures unblank(a + b) == unblank(a) + unblank(b),
    decreases b.len(),
{
    if b.len() == 0 {
        assert(a + b =~= a);
        assert(unblank(a) + unblank(b) =~= unblank(a));
    } else {
        assert((a + b).drop_last() =~= a + b.drop_last());
        lemma_unblank_add(a, b.drop_last());
        let t = if is_blank(b.last()) { Seq::<char>::empty() } else { seq![b.last()] };
        assert((unblank(a) + unblank(b.drop_last())) + t =~= unblank(a) + (unblank(b.drop_last()) + t));
    }
}

proof fn lemma_trim_blank(s: Seq<char>)
    ensures unblank(trim_blank(s)) == unblank(s), trim_blank(s).len() <= s.len(),
    decreases s.len(),
{
    if s.len() > 0 && is_blank(s.last()) {
        lemma_trim_blank(s.drop_last());
        assert(unblank(s.drop_last()) + Seq::<char>::empty() =~= unblank(s.drop_last()));
    }
}

proof fn lemma_join_content(p: Seq<Seq<char>>, nl: Seq<char>, n: int)
    requires 0 <= n <= p.len(),
    ensures
        unblank(join_trim_upto(p, nl, n)) == unblank(join_upto(p, nl, n)),
        join_trim_upto(p, nl, n).len() <= join_upto(p, nl, n).len(),
    decreases n,
{
    if n == 1 {
        lemma_trim_blank(p[0]);
    } else if n > 1 {
        lemma_join_content(p, nl, n - 1);
        lemma_trim_blank(p[n - 1]);
        lemma_unblank_add(join_trim_upto(p, nl, n - 1) + nl, trim_blank(p[n - 1]));
        lemma_unblank_add(join_trim_upto(p, nl, n - 1), nl);
        lemma_unblank_add(join_upto(p, nl, n - 1) + nl, p[n - 1]);
        lemma_unblank_add(join_upto(p, nl, n - 1), nl);
    }
}

/// C28 content clause for the strip pass: no non-blank character is lost, added or reordered, and nothing grows
proof fn lemma_strip_content(r: Seq<char>, s: Seq<char>, nl: Seq<char>)
    requires is_strip_tw(r, s, nl),
    ensures unblank(r) == unblank(s), r.len() <= s.len(),
{
    let p = choose|p: Seq<Seq<char>>| #[trigger] is_split(p, s, nl) && r == join_trim_upto(p, nl, p.len() as int);
    lemma_join_content(p, nl, p.len() as int);
}

/// the returned text has exactly the non-blank content of the unstripped output the anchors are stated for
proof fn lemma_rendered_text(r: Rendered, o: RenderOpts)
    requires rendered_ok(r, o),
    ensures exists|raw: Seq<char>, offs: Seq<nat>| #![trigger vp_witness(raw, offs)]
        vp_witness(raw, offs) && anchors_hold(raw, offs, r.anchors@) && unblank(r.text@) == unblank(raw) && r.text@.len() <= raw.len(),
{
    let (raw, offs) = choose|raw: Seq<char>, offs: Seq<nat>| #![trigger vp_witness(raw, offs)]
        vp_witness(raw, offs) && anchors_hold(raw, offs, r.anchors@) && (if o.strip_trailing_whitespace { is_strip_tw(r.text@, raw, o.newline@) } else { r.text@ == raw });
    if o.strip_trailing_whitespace {
        lemma_strip_content(r.text@, raw, o.newline@);
    }
    assert(vp_witness(raw, offs));
}
