"""U7 pretty — renderer positions and anchors (C28, C13). Back end: Verus (unbounded).

Every non-test item of crates/pretty/src/render.rs and the type definitions of crates/pretty/src/doc.rs are cut from
the working tree on every run (Src.top_level / Src.item).  Rewrite rules applied (all stated, all per item):
  E1  `use` lines and the `#[cfg(test)]` module are dropped (the fixed prelude has `use std::rc::Rc; use std::path::PathBuf;`);
      doc.rs constructor fns are not emitted (types only); from crates/sourcemap/src/sourcemap.rs only `struct SourceMap` and
      `SourceMap::add` are emitted (Tier 2), the external `sourcemap` crate is replaced by a recording stand-in (sourcemap_spec.rs)
  E8  `#[verifier::exec_allows_no_decreases_clause]` on the two `while let` functions (termination not proved)
  O1  E.matches('\\n').count()                      -> vp_count_nl(&E)      assumed: r == count_nl(E@)
  O2  E.chars().count()                            -> vp_char_count(&E)    assumed: r == E@.len()
  O3  E.rsplit('\\n').next().unwrap_or("")          -> vp_last_line(&E)     assumed: r@ == suffix after last '\\n'
  O10 s.split(newline).enumerate()                 -> vp_split_enumerate(s, newline)   (exact text, strip_trailing_whitespace only) assumed: element k is
      (k, k-th piece), the pieces joined by newline give s back, no piece contains newline, there is at least one piece
  O11 line.trim_end_matches([' ', '\\t'])           -> vp_trim_end_blank(line)          (exact text) assumed: r == line without its trailing ' ' / '\\t' chars
  O9  E[a..].iter().all(|b| *b == b' ')            -> vp_all_spaces(E, a)  assumed: r == all bytes from a are 0x20
  G1  ghost field `offs: Ghost<Seq<nat>>` in State (+ its initialiser); in front of every `state.anchors.push(` the offset of
      the output end is pushed to it (and the output is snapshotted in the ghost local `vp_mid`)
  G2  every `for P in E` gets a ghost iterator name: `for P in vp_it: E` (so invariants can mention the index)
  G3  proof blocks around `state.out.truncate(len - want);` (UTF-8 axiom before, anchor lemma after)
All other ghost text goes to function start/end and loop head/body start/body end/before/after (ordinal keyed).
Verus runs with `-V spinoff-all` (one solver instance per function, so a failing function cannot perturb the others), rlimit 300.
Known finding F-C28-col: with a `finding:` line of class block-comment-newline for C28/C13 in known_findings.txt the class is excluded on the
input side (comment_wf: a block comment's text has no '\n'), the witness is replayed by known_findings(); otherwise the honest contract
is used and obligation verus:pretty:render_comments fails on the unchanged tree (loop invariant col_ok / st_inv at the end of the body).
"""
from vp.core import VerusJob
from vp.extract import ExtractError
from vp.verus_run import VerusFile

S = "crates/sourcemap/src/sourcemap.rs"
R = "crates/pretty/src/render.rs"
D = "crates/pretty/src/doc.rs"
HEADER = "use vstd::prelude::*;\nuse std::rc::Rc;\nuse std::path::PathBuf;\nverus! {\nglobal size_of usize == 8;\n"

TRUSTED = {
    r"fn vp_count_nl": "O1: `E.matches('\\n').count()` outlined to vp_count_nl (external_body); assumed: result == number of '\\n' chars in E",
    r"fn vp_char_count": "O2: `E.chars().count()` outlined to vp_char_count (external_body); assumed: result == number of chars of E",
    r"fn vp_last_line": "O3: `E.rsplit('\\n').next().unwrap_or(\"\")` outlined to vp_last_line (external_body); assumed: result is the suffix of E after its last '\\n' (all of E if none)",
    r"fn vp_all_spaces": "O9: `E[a..].iter().all(|b| *b == b' ')` outlined to vp_all_spaces (external_body); assumed: requires a <= len, result == every byte from a on is 0x20",
    r"fn vp_split_enumerate": "O10: `s.split(newline).enumerate()` outlined to vp_split_enumerate (external_body, collected into a Vec); assumed: element k is (k, k-th piece), "
                              "the pieces joined by newline give s back, no piece contains newline, at least one piece",
    r"fn vp_trim_end_blank": "O11: `line.trim_end_matches([' ', '\\t'])` outlined to vp_trim_end_blank (external_body); assumed: result == line without its trailing ' ' / '\\t' chars "
                             "(trim_blank: nothing else is removed)",
    r"String::with_capacity": "assume_specification String::with_capacity: the new string is empty",
    r"String::len": "assume_specification String::len: result == length of the UTF-8 encoding (uninterpreted utf8()) of the string",
    r"String::as_bytes": "assume_specification String::as_bytes: result == the UTF-8 encoding (uninterpreted utf8()) of the string",
    r"String::truncate": "assume_specification String::truncate(n): requires n >= byte length or n is the byte length of some char prefix (char boundary, else it panics); "
                         "ensures unchanged if n >= byte length, else exactly that char prefix remains",
    r"axiom_utf8_trailing_spaces": "assumed UTF-8 fact (external_body proof fn): if the last k bytes of the encoding are 0x20 then the last k chars are ' ' and the encoding of the string "
                                   "without them is k bytes shorter",
    r"struct ExPathBuf": "external_type_specification for std::path::PathBuf (opaque field type of struct SourceMap; no property assumed)",
    r"struct SourceMapBuilder": "stand-in for the external crate type sourcemap::SourceMapBuilder (external_body, opaque)",
    r"pub fn add\(&mut self, dst_line: u32, dst_col: u32": "assumed external: sourcemap::SourceMapBuilder::add records the coordinate tuple it is given (stand-in, external_body); "
                                                           "what the sourcemap crate does with it is not covered",
    r"fn render_inner": "E8: termination of the `while let Some(frame) = stack.pop()` loop of render_inner is not proved (exec_allows_no_decreases_clause)",
    r"fn fits_flat": "E8: termination of the `while let Some(..) = work.pop()` loop of fits_flat is not proved (exec_allows_no_decreases_clause)",
}

O_RULES = [
    ("O1", r"([A-Za-z_][A-Za-z_0-9\.]*)\.matches\('\\n'\)\.count\(\)", r"vp_count_nl(&\1)"),
    ("O2", r"([A-Za-z_][A-Za-z_0-9\.]*)\.chars\(\)\.count\(\)", r"vp_char_count(&\1)"),
    ("O3", r"([A-Za-z_][A-Za-z_0-9\.]*)\.rsplit\('\\n'\)\.next\(\)\.unwrap_or\(\"\"\)", r"vp_last_line(&\1)"),
    ("O9", r"([A-Za-z_][A-Za-z_0-9]*)\[([^\]\n]+?)\.\.\]\.iter\(\)\.all\(\|b\| \*b == b' '\)", r"vp_all_spaces(\1, \2)"),
    ("G2", r"\bfor (\([^()]*\)|[A-Za-z_][A-Za-z_0-9]*) in ", r"for \1 in vp_it: "),
]
RECORD = "proof { vp_mid = state.out@; } state.offs = Ghost(state.offs@.push(state.out@.len()));\n"


def excluded(ctx):
    """known finding F-C28-col active -> exclude the class on the input side"""
    fs = ctx.active_findings("C28") + ctx.active_findings("C13")
    return any(f.get("class") == "block-comment-newline" or f.get("input-class") == "block-comment-newline" for f in fs)


# ---- contracts ---------------------------------------------------------------------------------------------
ST_PRE = "wf_opts(*opts), st_inv(*old(state)), anchors_ok(*old(state)),"
ST_POST = "st_inv(*final(state)), anchors_ok(*final(state)),"


def c_pad_for(f):
    f.name_return("r")
    f.spec("    requires wf_opts(*opts),\n    ensures r == pad_of(indent as int, *opts),")
    f.at_start("    proof { lemma_mul_bound(if indent > 0 { indent as int } else { 0 }, opts.indent_width as int, 0x7fff_ffff, 0x8000_0000); }")
    return "requires wf_opts ensures r == max(indent,0)*indent_width (no overflow)"


def c_flush_pending(f):
    f.spec("""    requires pos_inv(*old(state)), anchors_ok(*old(state)),
    ensures pos_inv(*final(state)), anchors_ok(*final(state)), same_rest(*old(state), *final(state)),
        final(state).out@ == old(state).out@ + spaces(pend(*old(state))),
        final(state).pending_indent.is_none(),""")
    f.loop_spec(0, """            invariant 0 <= vp_it.index@ <= pad, old(state).pending_indent == Some(pad), pos_inv(*old(state)),
                state.out@ == old(state).out@ + spaces(vp_it.index@ as nat),
                state.pending_indent.is_none(), state.col == old(state).col, same_rest(*old(state), *state),""")
    f.loop_body_end(0, "            proof { assert(state.out@ =~= old(state).out@ + spaces((vp_it.index@ + 1) as nat)); }")
    f.at_end("    proof { assert(old(state).out@ + spaces(0) =~= old(state).out@); lemma_anchors_grow(old(state).out@, state.out@, state.offs@, state.anchors@); }")
    return ("requires pos_inv, anchors_ok ensures pos_inv, anchors_ok, out == old.out + spaces(pending or 0), pending_indent == None, "
            "line/swallow/anchors unchanged")


def c_flush_pending_with_indent(f):
    f.spec("""    requires wf_opts(*opts), pos_inv(*old(state)), anchors_ok(*old(state)),
    ensures pos_inv(*final(state)), anchors_ok(*final(state)), same_rest(*old(state), *final(state)),
        final(state).out@ == old(state).out@ + spaces(flush_n(*old(state), frame_indent as int, *opts)),
        final(state).pending_indent.is_none(),""")
    f.loop_spec(0, """            invariant 0 <= vp_it.index@ <= target, old(state).pending_indent == Some(pad), pos_inv(*old(state)),
                target == flush_n(*old(state), frame_indent as int, *opts),
                state.out@ == old(state).out@ + spaces(vp_it.index@ as nat),
                state.pending_indent.is_none(), state.col == old(state).col, same_rest(*old(state), *state),""")
    f.loop_body_end(0, "            proof { assert(state.out@ =~= old(state).out@ + spaces((vp_it.index@ + 1) as nat)); }")
    f.at_end("    proof { assert(old(state).out@ + spaces(0) =~= old(state).out@); lemma_anchors_grow(old(state).out@, state.out@, state.offs@, state.anchors@); }")
    return ("requires wf_opts, pos_inv, anchors_ok ensures pos_inv, anchors_ok, out == old.out + spaces(min(pad_for(frame_indent), pending) or 0), "
            "pending_indent == None, line/swallow/anchors unchanged")


def c_emit_break(f):
    f.spec("""    requires %s
        used(*old(state)) + 2 + pad_of(indent as int, *opts) <= lim(),
    ensures %s
        final(state).out@ == old(state).out@ + (if old(state).swallow_next_break { Seq::<char>::empty() } else { opts.newline@ }),
        final(state).pending_indent == Some(pad_of(indent as int, *opts) as usize),
        !final(state).swallow_next_break,
        final(state).anchors == old(state).anchors, final(state).offs == old(state).offs,
        used(*final(state)) <= used(*old(state)) + 2 + pad_of(indent as int, *opts),""" % (ST_PRE, ST_POST))
    f.at_start("    proof { lemma_newline(*opts); }")
    f.at_end("    proof { assert(old(state).out@ + Seq::<char>::empty() =~= old(state).out@); lemma_anchors_grow(old(state).out@, state.out@, state.offs@, state.anchors@); }")
    return ("requires wf_opts, st_inv, anchors_ok, used+2+pad <= 2^31 ensures st_inv, anchors_ok, out == old.out + (swallowed ? \"\" : newline), "
            "pending_indent == Some(pad_for(indent)), anchors unchanged")


def c_emit_anchored(f):
    f.spec("""    requires %s
        anchored_wf(**a), used(*old(state)) + a.text@.len() <= lim(),
    ensures %s
        final(state).out@ == old(state).out@ + spaces(flush_n(*old(state), indent as int, *opts)) + a.text@,
        final(state).anchors@.len() == old(state).anchors@.len() + 1,
        final(state).anchors@.drop_last() == old(state).anchors@, anchors_kept(*old(state), *final(state)),
        final(state).offs@ == old(state).offs@.push(old(state).out@.len() + flush_n(*old(state), indent as int, *opts)),
        final(state).anchors@.last().text@ == a.text@,
        final(state).anchors@.last().src_line == a.src_line, final(state).anchors@.last().src_column == a.src_column,
        used(*final(state)) <= used(*old(state)) + a.text@.len(),""" % (ST_PRE, ST_POST))
    f.at_end("""    proof {
        let mid = old(state).out@ + spaces(flush_n(*old(state), indent as int, *opts));
        lemma_anchors_grow(old(state).out@, mid, old(state).offs@, old(state).anchors@);
        lemma_anchor_push(mid, old(state).offs@, old(state).anchors@, state.anchors@.last());
        assert(state.anchors@ =~= old(state).anchors@.push(state.anchors@.last()));
        assert(state.anchors@.drop_last() =~= old(state).anchors@);
        assert(state.anchors@.take(old(state).anchors@.len() as int) =~= old(state).anchors@);
        assert(state.offs@.take(old(state).offs@.len() as int) =~= old(state).offs@);
    }""")
    return ("requires wf_opts, st_inv, anchors_ok, text non-empty not ending in ' ', src >= 1, used+|text| <= 2^31 ensures st_inv, anchors_ok, "
            "out == old.out + indentation + text, exactly one anchor appended whose offset is where the text starts")


def c_render_comments(f):
    f.spec("""    requires %s
        comments_wf(cs@), used(*old(state)) + comments_cost(cs@, 0, indent as int, *opts) <= lim(),
    ensures %s
        grows(old(state).out@, final(state).out@), anchors_kept(*old(state), *final(state)),
        used(*final(state)) <= used(*old(state)) + comments_cost(cs@, 0, indent as int, *opts),""" % (ST_PRE, ST_POST))
    f.at_start("    proof { lemma_newline(*opts); }")
    f.loop_spec(0, """        invariant wf_opts(*opts), comments_wf(cs@), pad_width == pad_of(indent as int, *opts),
            0 <= vp_it.index@ <= cs@.len(), vp_it.seq().len() == cs@.len(),
            forall|i: int| 0 <= i < cs@.len() ==> *vp_it.seq()[i] == cs@[i],
            line_ok(*state),
            col_ok(*state),
            st_inv(*state),
            anchors_ok(*state),
            grows(old(state).out@, state.out@), anchors_kept(*old(state), *state),
            used(*state) + comments_cost(cs@, vp_it.index@ as nat, indent as int, *opts) <= used(*old(state)) + comments_cost(cs@, 0, indent as int, *opts),
            used(*old(state)) + comments_cost(cs@, 0, indent as int, *opts) <= lim(),""")
    f.loop_body_start(0, """        let ghost vp_b0 = *state;
        proof {
            assert(*c == cs@[vp_it.index@]);
            assert(comment_wf(cs@[vp_it.index@]));
            assert(comments_cost(cs@, vp_it.index@ as nat, indent as int, *opts)
                == comment_cost(*c, indent as int, *opts) + comments_cost(cs@, (vp_it.index@ + 1) as nat, indent as int, *opts));
            lemma_newline(*opts);
        }""")
    # inner loop 1: newlines, inner loop 2: pad
    f.before_loop(1, "            let ghost vp_s1 = *state;")
    f.loop_spec(1, """                invariant wf_opts(*opts), 0 <= vp_it.index@ <= to_emit, pos_inv(*state),
                    state.swallow_next_break == vp_s1.swallow_next_break, state.anchors == vp_s1.anchors, state.offs == vp_s1.offs,
                    state.pending_indent == vp_s1.pending_indent, grows(vp_s1.out@, state.out@),
                    state.out@.len() <= vp_s1.out@.len() + 2 * vp_it.index@,
                    vp_it.index@ > 0 ==> state.col == 0,
                    vp_s1.out@.len() + 2 * to_emit <= lim(),""")
    f.loop_body_start(1, "                let ghost vp_o = state.out@; proof { lemma_newline(*opts); }")
    f.loop_body_end(1, "                proof { assert(grows(vp_o, state.out@)); assert(state.out@.take(vp_s1.out@.len() as int) =~= vp_o.take(vp_s1.out@.len() as int)); }")
    f.before_loop(2, "            let ghost vp_s2 = *state;")
    f.loop_spec(2, """                invariant 0 <= vp_it.index@ <= pad_width, same_but_out(vp_s2, *state),
                    state.out@ == vp_s2.out@ + spaces(vp_it.index@ as nat),""")
    f.loop_body_end(2, "                proof { assert(state.out@ =~= vp_s2.out@ + spaces((vp_it.index@ + 1) as nat)); }")
    f.after_loop(2, """            proof {
                assert(vp_s2.out@ + spaces(0) =~= vp_s2.out@);
                assert(grows(vp_s2.out@, state.out@));
                assert(state.out@.take(vp_b0.out@.len() as int) =~= vp_s2.out@.take(vp_b0.out@.len() as int));
            }""")
    f.loop_body_end(0, """        proof {
            assert(grows(vp_b0.out@, state.out@)) by {
                assert(state.out@.take(vp_b0.out@.len() as int) =~= vp_b0.out@);
            }
            assert(state.out@.take(old(state).out@.len() as int) =~= vp_b0.out@.take(old(state).out@.len() as int));
            // vp_ob: the output at the moment the comment text was written
            let vp_ob = state.out@.take(state.out@.len() - c.text@.len() - (if c.is_line_comment { opts.newline@.len() } else { 0 }));
            assert(grows(vp_b0.out@, vp_ob)) by {
                assert(vp_ob.take(vp_b0.out@.len() as int) =~= vp_b0.out@);
            }
            lemma_anchors_grow(vp_b0.out@, vp_ob, vp_b0.offs@, vp_b0.anchors@);
            if c.src_line != 0 && c.src_column != 0 {
                assert(vp_ob =~= vp_mid);
                assert(state.anchors@ =~= vp_b0.anchors@.push(state.anchors@.last()));
                assert(state.offs@ =~= vp_b0.offs@.push(vp_ob.len()));
                lemma_anchor_push(vp_ob, vp_b0.offs@, vp_b0.anchors@, state.anchors@.last());
                assert(grows(vp_ob + c.text@, state.out@)) by {
                    assert(state.out@.take((vp_ob + c.text@).len() as int) =~= vp_ob + c.text@);
                }
                lemma_anchors_grow(vp_ob + c.text@, state.out@, state.offs@, state.anchors@);
            } else {
                assert(grows(vp_ob, state.out@));
                lemma_anchors_grow(vp_ob, state.out@, state.offs@, state.anchors@);
            }
        }""")
    return ("requires wf_opts, st_inv, anchors_ok, comments_wf (anchored comment text non-empty not ending in ' '; with F-C28-col active: block comments have no '\\n'), "
            "used+cost <= 2^31 ensures st_inv, anchors_ok, out grows")


def c_fits_flat(f):
    f.spec("""    requires sizes_ok(*d), outer@.len() + 8 <= usize::MAX,
        forall|i: int| 0 <= i < outer@.len() ==> sizes_ok(*(#[trigger] outer@[i]).doc),""")
    f.loop_spec(0, """        invariant sizes_ok(*d), work_ok(work@), vp_it.seq().len() == outer@.len(),
            forall|i: int| 0 <= i < outer@.len() ==> sizes_ok(*(#[trigger] outer@[i]).doc),
            forall|i: int| 0 <= i < outer@.len() ==> *vp_it.seq()[i] == outer@[i],""")
    f.loop_body_start(0, "        proof { assert(*frame == outer@[vp_it.index@]); }")
    f.loop_spec(1, "        invariant work_ok(work@),")
    f.loop_spec(2, """                    invariant work_ok(work@), vp_it.seq().len() == items@.len(),
                        forall|i: int| 0 <= i < items@.len() ==> sizes_ok(#[trigger] items@[i]),
                        forall|i: int| 0 <= i < items@.len() ==> *vp_it.seq()[i] == items@[items@.len() - 1 - i],""")
    f.loop_body_start(2, "                    proof { assert(*item == items@[items@.len() - 1 - vp_it.index@]); }")
    f.loop_spec(3, """                    invariant 0 <= vp_it.index@ <= cs@.len(), vp_it.seq().len() == cs@.len(), comments_len(cs@, 0) <= lim(),
                        forall|i: int| 0 <= i < cs@.len() ==> *vp_it.seq()[i] == cs@[i],
                        budget + comments_len(cs@, 0) - comments_len(cs@, vp_it.index@ as nat) >= 0,
                        comments_len(cs@, vp_it.index@ as nat) <= comments_len(cs@, 0),""")
    f.loop_body_start(3, """                    proof {
                        assert(*c == cs@[vp_it.index@]);
                        assert(comments_len(cs@, vp_it.index@ as nat) == c.text@.len() + 1 + comments_len(cs@, (vp_it.index@ + 1) as nat));
                    }""")
    return ("requires every text in d and in the docs of `outer` has <= 2^31 chars (sizes_ok), |outer| + 8 <= usize::MAX; "
            "ensures nothing (memory safety and overflow freedom only)")


def c_render_frame(f):
    f.spec("""    requires %s
        frame_wf(frame), stack_wf(old(stack)@),
        used(*old(state)) + frame_cost(frame, *opts) + stack_cost(old(stack)@, *opts) <= lim(),
    ensures %s
        stack_wf(final(stack)@),
        used(*final(state)) + stack_cost(final(stack)@, *opts) <= used(*old(state)) + frame_cost(frame, *opts) + stack_cost(old(stack)@, *opts),
        if *frame.doc is DedentHardline && frame.mode is Break { trunc_grows(old(state).out@, final(state).out@) } else { grows(old(state).out@, final(state).out@) },
        anchors_kept(*old(state), *final(state)),
        frame_post(frame, *opts, *old(state), *final(state), old(stack)@, final(stack)@),""" % (ST_PRE, ST_POST))
    f.at_start("""    broadcast use vp_path_lemmas;
    let ghost mut vp_k: int = old(state).out@.len() as int;
    proof {
        lemma_stack_len(old(stack)@, *opts);
        lemma_newline(*opts);
        match *frame.doc {
            Doc::DedentHardline(level) => { lemma_mul_bound(level as int, opts.indent_width as int, 0xffff_ffff, 0x8000_0000); },
            _ => {},
        }
    }""")
    # loop 0: Concat pushes its items in reverse
    f.loop_spec(0, """                invariant wf_opts(*opts), vp_it.seq().len() == items@.len(), 0 <= vp_it.index@ <= items@.len(),
                    forall|i: int| 0 <= i < items@.len() ==> *vp_it.seq()[i] == items@[items@.len() - 1 - i],
                    forall|i: int| 0 <= i < items@.len() ==> wf_doc(#[trigger] items@[i], indent as int),
                    stack@.len() == old(stack)@.len() + vp_it.index@,
                    stack@.take(old(stack)@.len() as int) =~= old(stack)@,
                    forall|i: int| 0 <= i < vp_it.index@ ==> is_frame(#[trigger] stack@[old(stack)@.len() + i], indent as int, mode, items@[items@.len() - 1 - i]),
                    stack_wf(stack@),
                    stack_cost(stack@, *opts) == stack_cost(old(stack)@, *opts) + docs_cost(items@, (items@.len() - vp_it.index@) as nat, indent as int, *opts),""")
    f.loop_body_start(0, "                let ghost vp_k0 = stack@;")
    f.loop_body_end(0, """                proof {
                    let n = items@.len() as int;
                    let k = vp_it.index@;
                    assert(*item == items@[n - 1 - k]);
                    assert(docs_cost(items@, (n - 1 - k) as nat, indent as int, *opts)
                        == doc_cost(items@[n - 1 - k], indent as int, *opts) + docs_cost(items@, (n - k) as nat, indent as int, *opts));
                    assert(stack@ =~= vp_k0.push(stack@.last()));
                    assert(frame_wf(stack@.last()));
                    assert(stack@.take(old(stack)@.len() as int) =~= vp_k0.take(old(stack)@.len() as int));
                }""")
    # loops 1..3: IfBreakPad / Pad / IfFlatPad write `width` spaces
    for k in (1, 2, 3):
        f.before_loop(k, "                let ghost vp_s = *state;")
        f.loop_spec(k, """                    invariant 0 <= vp_it.index@ <= *width, same_but_out(vp_s, *state),
                        state.out@ == vp_s.out@ + spaces(vp_it.index@ as nat),""")
        f.loop_body_end(k, "                    proof { assert(state.out@ =~= vp_s.out@ + spaces((vp_it.index@ + 1) as nat)); }")
        f.after_loop(k, "                proof { assert(vp_s.out@ + spaces(0) =~= vp_s.out@); }")
    f.replace("state.out.truncate(len - want);", """proof {
                            axiom_utf8_trailing_spaces(state.out@, want as nat);
                            vp_k = state.out@.len() - want;
                            assert(utf8(state.out@.take(vp_k)).len() == len - want);
                        }
                        state.out.truncate(len - want);
                        proof {
                            assert(state.out@ == old(state).out@.take(vp_k));
                            lemma_trunc_spaces(old(state).out@, vp_k);
                            lemma_anchors_trunc(old(state).out@, vp_k, state.offs@, state.anchors@);
                        }""", rule="G3")
    return ("requires wf_opts, st_inv, anchors_ok, wf_doc(frame.doc, frame.indent), every stack frame wf, used + cost(frame) + cost(stack) <= 2^31 "
            "ensures st_inv, anchors_ok, stack wf, budget not exceeded, out grows (DedentHardline in Break mode may first drop trailing spaces), earlier anchors untouched, "
            "per-variant effect frame_post: IfBreak/IfBreakPad text written iff mode == Break, IfFlatPad iff mode == Flat, children inherit the mode except Group chooses / ForceFlat forces it")


def c_render_inner(f):
    f.name_return("r")
    f.spec("    requires render_pre(*doc, *opts),\n    ensures rendered_ok(r, *opts),")
    f.loop_spec(0, """        invariant wf_opts(*opts), st_inv(state), anchors_ok(state), stack_wf(stack@),
            used(state) + stack_cost(stack@, *opts) <= lim(),""")
    f.after_loop(0, "    proof { assert(vp_witness(state.out@, state.offs@)); }")
    return ("requires wf_opts, wf_doc(doc, 0), doc_cost(doc, 0) <= 2^31 ensures there are raw output and offsets such that every returned anchor is true for raw "
            "(text there, 1-based line/column of its offset, ordered) and text == raw (or is_strip_tw(text, raw, newline) when strip_trailing_whitespace)")


def c_render_with_anchors(f):
    f.name_return("r")
    f.spec("    requires render_pre(*doc, *opts),\n    ensures rendered_ok(r, *opts),")
    return "same contract as render_inner"


def c_render(f):
    f.name_return("r")
    f.spec("    requires render_pre(*doc, *opts),\n    ensures exists|x: Rendered| #[trigger] rendered_ok(x, *opts) && x.text@ == r@,")
    return "requires as render_inner ensures the string is the text of a rendered_ok result"


def c_strip_trailing_whitespace(f):
    f.replace("s.split(newline).enumerate()", "vp_split_enumerate(s, newline)", rule="O10")
    f.replace("line.trim_end_matches([' ', '\\t'])", "vp_trim_end_blank(line)", rule="O11")
    f.name_return("r")
    f.spec("    ensures is_strip_tw(r@, s@, newline@),")
    f.loop_spec(0, """        invariant 0 <= vp_it.index@ <= vp_it.seq().len(),
            is_split(pieces_of(vp_it.seq()), s@, newline@),
            forall|k: int| 0 <= k < vp_it.seq().len() ==> (#[trigger] vp_it.seq()[k]).0 == k,
            out@ == join_trim_upto(pieces_of(vp_it.seq()), newline@, vp_it.index@),""")
    return ("ensures is_strip_tw(r, s, newline): there are pieces with join(pieces, newline) == s, no piece containing newline, and "
            "r == join of the pieces each without its trailing ' ' / '\\t' chars (loop body verified; split and trim_end_matches outlined O10/O11)")


CONTRACTS = {
    "pad_for": c_pad_for,
    "flush_pending": c_flush_pending,
    "flush_pending_with_indent": c_flush_pending_with_indent,
    "emit_break": c_emit_break,
    "emit_anchored": c_emit_anchored,
    "render_comments": c_render_comments,
    "fits_flat": c_fits_flat,
    "render_frame": c_render_frame,
    "render_inner": c_render_inner,
    "render_with_anchors": c_render_with_anchors,
    "render": c_render,
    "strip_trailing_whitespace": c_strip_trailing_whitespace,
}

_ST = "wf_opts(o), st_inv(st), anchors_ok(st), st.anchors@.len() > 0, st.pending_indent.is_some()"
CANARIES = [
    ("vp_canary_flush", "proof fn vp_canary_flush(st: State, o: RenderOpts) requires wf_opts(o), pos_inv(st), anchors_ok(st), st.anchors@.len() > 0, st.pending_indent.is_some() ensures false {}"),
    ("vp_canary_emit_break", "proof fn vp_canary_emit_break(st: State, indent: i32, o: RenderOpts) requires %s, used(st) + 2 + pad_of(indent as int, o) <= lim() ensures false {}" % _ST),
    ("vp_canary_emit_anchored", "proof fn vp_canary_emit_anchored(a: AnchoredText, st: State, indent: i32, o: RenderOpts) requires %s, anchored_wf(a), used(st) + a.text@.len() <= lim() ensures false {}" % _ST),
    ("vp_canary_render_comments", "proof fn vp_canary_render_comments(cs: Seq<CommentDoc>, st: State, indent: i32, o: RenderOpts) requires %s, cs.len() > 0, comments_wf(cs), "
                                  "used(st) + comments_cost(cs, 0, indent as int, o) <= lim() ensures false {}" % _ST),
    ("vp_canary_fits_flat", "proof fn vp_canary_fits_flat(d: Doc, outer: Seq<Frame<'_>>) requires sizes_ok(d), outer.len() > 0, outer.len() + 8 <= usize::MAX, "
                            "forall|i: int| 0 <= i < outer.len() ==> sizes_ok(*(#[trigger] outer[i]).doc) ensures false {}"),
    ("vp_canary_render_frame", "proof fn vp_canary_render_frame(frame: Frame<'_>, st: State, k: Seq<Frame<'_>>, o: RenderOpts) requires %s, frame_wf(frame), stack_wf(k), k.len() > 0, "
                               "used(st) + frame_cost(frame, o) + stack_cost(k, o) <= lim() ensures false {}" % _ST),
    ("vp_canary_render", "proof fn vp_canary_render(doc: Doc, o: RenderOpts) requires render_pre(doc, o), doc is Concat ensures false {}"),
    ("vp_canary_strip", "proof fn vp_canary_strip(r: Seq<char>, s: Seq<char>, nl: Seq<char>) requires is_strip_tw(r, s, nl), s.len() > 1, r.len() < s.len() ensures false {}"),
    ("vp_canary_source_map", "proof fn vp_canary_source_map(r: Rendered, o: RenderOpts) requires rendered_ok(r, o), r.anchors@.len() > 1 ensures false {}"),
]


def build(ctx, res):
    r, d = ctx.src(R), ctx.src(D)
    excl = excluded(ctx)
    vf = VerusFile(HEADER)
    items, expect = [], []

    # ---- doc.rs: type definitions only (E1) ----
    for kind, name in d.top_level():
        if kind in ("struct", "enum", "type"):
            it = d.item(kind, name)
            items.append(it)
            vf.item(it)
        elif kind not in ("use", "fn"):
            raise ExtractError("doc.rs: unexpected top-level item %s %s" % (kind, name))

    # ---- render.rs: every non-test item ----
    seen = set()
    for kind, name in r.top_level():
        if kind == "use":
            continue
        it = r.item(kind, name)
        if kind == "mod":
            if "#[cfg(test)]" in it.orig:
                continue
            raise ExtractError("render.rs: unexpected module %s" % name)
        if kind == "struct" and name == "State":
            it.replace("    anchors: Vec<RenderedAnchor>,\n}", "    anchors: Vec<RenderedAnchor>,\n    offs: Ghost<Seq<nat>>,\n}", rule="G1")
        if kind == "fn":
            for rule, pat, new in O_RULES:
                it.sub_opt(pat, new, rule=rule)
            n = it.orig.count("state.anchors.push(")
            if n:
                it.replace("state.anchors.push(", RECORD + "state.anchors.push(", count=n, rule="G1")
                it.at_start("    let ghost mut vp_mid: Seq<char> = Seq::empty();")
            if name == "render_inner":
                it.replace("        anchors: Vec::new(),\n    };", "        anchors: Vec::new(),\n        offs: Ghost(Seq::empty()),\n    };", rule="G1")
            if name in ("render_inner", "fits_flat"):
                it.prepend("#[verifier::exec_allows_no_decreases_clause]")
            if name in CONTRACTS:
                # broadcast lemmas are per proof context: function body and every loop body
                it.at_start("    broadcast use vp_text_lemmas;")
                for k in range(len(it.loops)):
                    it.loop_body_start(k, "    broadcast use vp_text_lemmas;")
                res.clauses[name] = CONTRACTS[name](it)
                expect.append(name)
                seen.add(name)
            else:
                res.notes.append("render.rs fn %s is ingested without a contract" % name)
        items.append(it)
        vf.item(it)
    missing = [n for n in CONTRACTS if n not in seen]
    if missing:
        raise ExtractError("render.rs: functions under contract not found: %s" % ", ".join(missing))

    # ---- sourcemap.rs: struct SourceMap + SourceMap::add (C13 consumer side, Tier 2) ----
    sm = ctx.src(S)
    it = sm.item("struct", "SourceMap")
    items.append(it)
    vf.item(it)
    vf.raw("impl SourceMap {", "impl")
    it = sm.item("fn", "add", impl="SourceMap")
    it.spec("""        requires dst_line >= 1, dst_column >= 1, src_line >= 1, src_column >= 1,
        ensures final(self).sent() == old(self).sent().push(((dst_line - 1) as u32, (dst_column - 1) as u32, (src_line - 1) as u32, (src_column - 1) as u32)),""")
    res.clauses["SourceMap::add"] = "requires all four coordinates >= 1 ensures the builder receives exactly (x - 1) for each (no underflow)"
    items.append(it)
    vf.item(it, "SourceMap::add")
    vf.raw("}", "impl")
    vf.raw(ctx.unit_file("pretty", "sourcemap_spec.rs"), "spec")
    expect += ["SourceMap::add", "vp_feed_source_map", "lemma_line_col_monotone", "lemma_rendered_sorted"]

    vf.raw("spec fn vp_excl_block_nl() -> bool { %s }\n" % ("true" if excl else "false"), "spec")
    vf.raw(ctx.unit_file("pretty", "spec.rs"), "spec")
    text = vf.finish()
    res.samples.append({"obligation": "verus:pretty:emit_anchored",
                        "contract": "requires wf_opts, st_inv, anchors_ok, anchored_wf(a), used+|text| <= 2^31 ensures st_inv, anchors_ok, "
                                    "out == old.out + spaces(flush_n) + a.text, offs == old.offs.push(|old.out| + flush_n)"})
    res.samples.append({"obligation": "verus:pretty:render_frame",
                        "contract": "ensures frame_post: IfBreak(s) => if mode is Break { out == old.out + indentation + s } else { state unchanged } (same for IfBreakPad; IfFlatPad with Flat)"})
    res.notes.append("known-finding class block-comment-newline (F-C28-col) %s" % ("EXCLUDED on the input side (wf_doc requires no block comment with '\\n')" if excl else "not excluded: honest contract"))
    expect += ["lemma_count_nl_add", "lemma_col_of_add", "lemma_col_le", "lemma_nl_le", "lemma_push_nl", "lemma_push_col", "lemma_spaces",
               "lemma_trunc_spaces", "lemma_mul_bound", "lemma_newline", "lemma_prefix_index", "lemma_anchors_grow", "lemma_anchors_trunc",
               "lemma_anchor_push", "lemma_stack_push", "lemma_stack_len",
               "lemma_grows_add", "lemma_grows_add2", "lemma_grows_push", "lemma_grows_refl", "lemma_anchors_grow_b", "lemma_grows_trunc",
               "lemma_trunc_then_add", "lemma_kept_same",
               "lemma_unblank_add", "lemma_trim_blank", "lemma_join_content", "lemma_strip_content", "lemma_rendered_text"]
    return [VerusJob("pretty", text, vf, expect, canaries=CANARIES, items=items, trusted=TRUSTED, rlimit=300, extra=["-V", "spinoff-all"])]


# ---- native replay ------------------------------------------------------------------------------------------
def _native_program(ctx):
    """ORIGINAL text of doc.rs and render.rs (whole files, unedited) as modules + the generator/checker"""
    from vp.core import NATIVE_RNG
    r, d = ctx.src(R), ctx.src(D)
    return ("#![allow(dead_code, unused_imports)]\n" + NATIVE_RNG
            + "\nmod doc {\n" + d.text + "\n}\nmod render {\n" + r.text + "\n}\n"
            + ctx.unit_file("pretty", "replay_main.rs"))


def replay(ctx, res, f):
    """seeded native run: random small Doc trees (inside the contract's input class) rendered by the original text;
    every anchor's (dst_line, dst_column) must be where its (unique) text is in the output, anchors ordered"""
    from vp.core import native_search
    # block comments containing '\n' only ever falsify render_comments' invariant (F-C28-col); for any other failed
    # obligation they are left out so that the input found belongs to that obligation
    fn = getattr(f.get("obl"), "fn", None) if isinstance(f, dict) else None
    if fn in ("SourceMap::add", "vp_feed_source_map"):
        return {"found_input": False, "native_search": "no native replay for %s: it only talks to the external sourcemap crate" % fn}
    skip = excluded(ctx) or (fn is not None and fn != "render_comments")
    return native_search(ctx, "pretty", "pretty", _native_program(ctx), args=[ctx.seed, "1" if skip else "0"])


def known_findings(ctx, res):
    """F-C28-col witness (DESIGN section 7): replayed on every run while the class is excluded on the input side"""
    if not excluded(ctx):
        return []
    from vp.core import native_search
    r = native_search(ctx, "pretty", "pretty_witness", _native_program(ctx), args=[ctx.seed, "1", "witness"])
    line = ("obligation=verus:pretty:render_comments input-class=block-comment-newline "
            "render_comments sets col = 0 after a block comment containing '\\n': a later anchor on that output line gets a wrong dst_column")
    if r.get("found_input"):
        inp = r.get("input") or {}
        line += " (witness: anchor %r recorded at %s, is at %s)" % (inp.get("anchor_text"), inp.get("actual"), inp.get("expected"))
    return [(line, bool(r.get("found_input")))]
