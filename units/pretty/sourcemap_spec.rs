// =================================================================================================
// C13, consumer side: SourceMap::add (crates/sourcemap/src/sourcemap.rs) converts 1-based to 0-based.
// The `sourcemap` crate is an assumed external: SourceMapBuilder below is a stand-in that only records
// the coordinate tuples it receives.
// =================================================================================================
#[verifier::external_type_specification]
#[verifier::external_body]
pub struct ExPathBuf(std::path::PathBuf);

/// stand-in for the external crate type `sourcemap::SourceMapBuilder`
#[verifier::external_body]
pub struct SourceMapBuilder {
    _p: (),
}

/// stand-in for the external crate path `sourcemap::SourceMap` (field type only)
pub mod sourcemap {
    pub struct SourceMap {
        pub x: u8,
    }
}

impl SourceMapBuilder {
    /// the (dst_line, dst_col, src_line, src_col) tuples received so far
    pub uninterp spec fn calls(&self) -> Seq<(u32, u32, u32, u32)>;

    #[verifier::external_body]
    pub fn add(&mut self, dst_line: u32, dst_col: u32, src_line: u32, src_col: u32, source: Option<&str>, name: Option<&str>, is_range: bool)
        ensures final(self).calls() == old(self).calls().push((dst_line, dst_col, src_line, src_col)),
    {
        unimplemented!()
    }
}

impl SourceMap {
    /// what the builder has received
    pub closed spec fn sent(&self) -> Seq<(u32, u32, u32, u32)> {
        self.builder.calls()
    }
}

/// hand-written mirror of the only call site (Emitter::emit: `for a in &rendered.anchors { map.add(..) }`):
/// with the renderer's postcondition every call meets SourceMap::add's precondition
fn vp_feed_source_map(map: &mut SourceMap, rendered: &Rendered, Ghost(o): Ghost<RenderOpts>)
    requires rendered_ok(*rendered, o),
    ensures final(map).sent().len() == old(map).sent().len() + rendered.anchors@.len(),
{
    proof {
        lemma_rendered_sorted(*rendered, o);
    }
    for a in vp_it: &rendered.anchors
        invariant
            anchors_1based_sorted(rendered.anchors@),
            0 <= vp_it.index@ <= rendered.anchors@.len(),
            vp_it.seq().len() == rendered.anchors@.len(),
            forall|i: int| 0 <= i < rendered.anchors@.len() ==> *vp_it.seq()[i] == rendered.anchors@[i],
            map.sent().len() == old(map).sent().len() + vp_it.index@,
    {
        proof {
            assert(*a == rendered.anchors@[vp_it.index@]);
        }
        map.add(a.dst_line, a.dst_column, a.src_line, a.src_column, &a.text);
    }
}
