// Native replay for unit `pretty`: random small Doc trees rendered by the ORIGINAL doc.rs + render.rs text
// (modules `doc` and `render` above this line are the unedited files of the tree under test).
// Every anchored text is unique, so its true position is found by searching the output.
// args: <seed> <excl 0|1> [witness]
use doc::*;
use render::*;

fn esc(s: &str) -> String {
    let mut o = String::new();
    for c in s.chars() {
        match c {
            '"' => o.push_str("\\\""),
            '\\' => o.push_str("\\\\"),
            '\n' => o.push_str("\\n"),
            '\r' => o.push_str("\\r"),
            '\t' => o.push_str("\\t"),
            c if (c as u32) < 0x20 => o.push_str(&format!("\\u{:04x}", c as u32)),
            c => o.push(c),
        }
    }
    o
}

struct Gen {
    g: Rng,
    n: u32,
    excl: bool,
    nodes: u32,
}

impl Gen {
    fn uniq(&mut self) -> u32 {
        self.n += 1;
        self.n
    }
    /// anchored token text: unique, non-empty, never ends in ' '; sometimes multi-line / multi-byte
    fn tok(&mut self) -> String {
        let id = self.uniq();
        match self.g.below(8) {
            0 => format!("T{}t\nu{}t", id, id),
            1 => format!("é{}t", id),
            2 => format!("T{}t x{}t", id, id),
            _ => format!("T{}t", id),
        }
    }
    fn plain(&mut self) -> String {
        match self.g.below(16) {
            // line ends in whitespace other than ' ' / '\t': must survive strip_trailing_whitespace
            10 => "x\u{3000}".to_string(),
            11 => "y\u{a0}".to_string(),
            12 => "z\u{c}".to_string(),
            13 => "w\r\nq".to_string(),
            14 => "k \t".to_string(),
            15 => "v\u{3000} ".to_string(),
            0 => " ".to_string(),
            1 => "  ".to_string(),
            2 => "a\nb".to_string(),
            3 => "".to_string(),
            4 => "ü".to_string(),
            5 => "word ".to_string(),
            _ => "pp".to_string(),
        }
    }
    fn comment(&mut self) -> CommentDoc {
        let id = self.uniq();
        let is_line = self.g.below(2) == 0;
        let multi = !is_line && !self.excl && self.g.below(2) == 0;
        let text = if is_line && self.g.below(4) == 0 {
            // a line comment whose last char is non-ASCII / non-blank whitespace (kept by the strip pass)
            format!("// c{}c{}", id, ['\u{3000}', '\u{a0}', '\u{c}'][self.g.below(3) as usize])
        } else if is_line {
            format!("// c{}c", id)
        } else if multi {
            format!("/* c{}c\n   bb */", id)
        } else {
            format!("/* c{}c */", id)
        };
        let anchored = self.g.below(4) != 0;
        CommentDoc {
            text: text.as_str().into(),
            leading_newlines: match self.g.below(4) { 0 => 0, 1 => 1, 2 => 2, _ => 0 },
            is_line_comment: is_line,
            src_line: if anchored { 1 + self.g.below(50) as u32 } else { 0 },
            src_column: if anchored { 1 + self.g.below(50) as u32 } else { 0 },
        }
    }
    fn doc(&mut self, depth: u32) -> Doc {
        self.nodes += 1;
        let leaf = depth == 0 || self.nodes > 14;
        let k = if leaf { self.g.below(11) } else { self.g.below(18) };
        match k {
            0 => { let s = self.plain(); text(s) }
            1 | 2 | 3 => { let s = self.tok(); anchored(s, 1 + self.g.below(90) as u32, 1 + self.g.below(90) as u32) }
            4 => { let n = 1 + self.g.below(3); let cs = (0..n).map(|_| self.comment()).collect(); comments(cs) }
            5 => hard(),
            6 => if self.g.below(2) == 0 { line() } else { softline() },
            7 => match self.g.below(3) { 0 => if_break(","), 1 => if_break_pad(self.g.below(4) as u32), _ => if_flat_pad(self.g.below(4) as u32) },
            8 => pad(self.g.below(4) as u32),
            9 => Doc::DedentHardline(self.g.below(3) as u32),
            10 => space(self.g.below(3) as usize),
            11 | 12 => { let n = 2 + self.g.below(4); let v = (0..n).map(|_| self.doc(depth - 1)).collect(); concat(v) }
            13 | 14 => group(self.doc(depth - 1)),
            15 => nest(self.doc(depth - 1)),
            16 => if self.g.below(2) == 0 { dedent(self.doc(depth - 1)) } else { indent_by(self.g.below(4) as i32 - 1, self.doc(depth - 1)) },
            _ => force_flat(self.doc(depth - 1)),
        }
    }
}

/// 1-based (line, column in chars) of char offset `off`
fn line_col(chars: &[char], off: usize) -> (u32, u32) {
    let mut line = 1u32;
    let mut col = 1u32;
    for c in &chars[..off] {
        if *c == '\n' { line += 1; col = 1; } else { col += 1; }
    }
    (line, col)
}

fn find(chars: &[char], pat: &[char], from: usize) -> Option<usize> {
    if pat.is_empty() || chars.len() < pat.len() { return None; }
    (from..=chars.len() - pat.len()).find(|&i| &chars[i..i + pat.len()] == pat)
}

/// first false anchor of a rendering: Some(json)
fn check(d: &Doc, o: &RenderOpts, what: &str) -> Option<String> {
    let r = render_with_anchors(d, o);
    let chars: Vec<char> = r.text.chars().collect();
    let mut prev = (0u32, 0u32);
    for (i, a) in r.anchors.iter().enumerate() {
        let pat: Vec<char> = a.text.chars().collect();
        let bad = |why: &str, exp: String| {
            Some(format!(
                "{{\"fn\":\"{}\",\"why\":\"{}\",\"doc\":\"{}\",\"opts\":{{\"max_width\":{},\"indent_width\":{},\"newline\":\"{}\",\"strip_trailing_whitespace\":{}}},\"output\":\"{}\",\"anchor_index\":{},\"anchor_text\":\"{}\",\"actual\":\"{}:{}\",\"expected\":\"{}\"}}",
                what, why, esc(&format!("{:?}", d)), o.max_width, o.indent_width, esc(o.newline), o.strip_trailing_whitespace,
                esc(&r.text), i, esc(&a.text), a.dst_line, a.dst_column, exp))
        };
        if a.dst_line < 1 || a.dst_column < 1 || a.src_line < 1 || a.src_column < 1 {
            return bad("coordinate below 1", ">= 1".to_string());
        }
        match find(&chars, &pat, 0) {
            None => return bad("anchored text does not occur in the output", "text present".to_string()),
            Some(off) => {
                let (l, c) = line_col(&chars, off);
                if (l, c) != (a.dst_line, a.dst_column) {
                    return bad("recorded line:column is not where the text was written", format!("{}:{}", l, c));
                }
            }
        }
        if (a.dst_line, a.dst_column) < prev {
            return bad("anchors not ordered by output position", format!(">= {}:{}", prev.0, prev.1));
        }
        prev = (a.dst_line, a.dst_column);
    }
    None
}


/// C28 "break-only text appears exactly when its group is broken": group(A · X · line · B) has a single break
/// opportunity, so it is broken iff B lands on a later line than A; X is IfBreak / IfBreakPad / IfFlatPad.
fn check_if_break(gn: &mut Gen) -> Option<String> {
    let kind = gn.g.below(3);
    let w = 1 + gn.g.below(3) as u32;
    let x = match kind { 0 => if_break("<IB>"), 1 => if_break_pad(w), _ => if_flat_pad(w) };
    let a_txt = if gn.g.below(2) == 0 { "Aa".to_string() } else { "Aaaaaaaaaa".to_string() };
    let b_txt = if gn.g.below(2) == 0 { "Bb".to_string() } else { "Bbbbbbbbbb".to_string() };
    let mut g = group(concat(vec![anchored(a_txt.as_str(), 1, 1), x, line(), anchored(b_txt.as_str(), 1, 2)]));
    if gn.g.below(2) == 0 { g = nest(g); }
    if gn.g.below(3) == 0 { g = force_flat(g); }
    let prefix = "p".repeat(gn.g.below(12) as usize);
    let d = concat(vec![text(prefix.as_str()), g, text(";")]);
    let o = RenderOpts { max_width: 8 + gn.g.below(20) as usize, indent_width: gn.g.below(4) as usize, newline: if gn.g.below(3) == 0 { "\r\n" } else { "\n" }, strip_trailing_whitespace: false };
    let r = render_with_anchors(&d, &o);
    if r.anchors.len() != 2 { return None; }
    let (a, b) = (&r.anchors[0], &r.anchors[1]);
    let broken = b.dst_line > a.dst_line;
    let between: String = {
        let chars: Vec<char> = r.text.chars().collect();
        let ia = find(&chars, &a_txt.chars().collect::<Vec<_>>(), 0)? + a_txt.chars().count();
        let ib = find(&chars, &b_txt.chars().collect::<Vec<_>>(), 0)?;
        if ib < ia { return None; }
        chars[ia..ib].iter().collect()
    };
    let nl = o.newline;
    let spaces_before_nl = between.split(nl).next().unwrap_or("").chars().filter(|c| *c == ' ').count() as u32;
    let (ok, expected) = match kind {
        0 => (between.contains("<IB>") == broken, format!("<IB> present iff broken (broken={})", broken)),
        1 => if broken { (spaces_before_nl == w, format!("{} pad spaces before the newline (broken)", w)) } else { (between == " ", "only the line separator (flat)".to_string()) },
        _ => if broken { (spaces_before_nl == 0, "no pad before the newline (broken)".to_string()) } else { (between.chars().count() as u32 == w + 1, format!("{} pad spaces + separator (flat)", w)) },
    };
    if ok { return None; }
    Some(format!(
        "{{\"fn\":\"render_frame\",\"why\":\"break-only / flat-only text does not follow the group's mode\",\"doc\":\"{}\",\"opts\":{{\"max_width\":{},\"indent_width\":{},\"newline\":\"{}\",\"strip_trailing_whitespace\":false}},\"output\":\"{}\",\"actual\":\"between A and B: '{}'\",\"expected\":\"{}\"}}",
        esc(&format!("{:?}", d)), o.max_width, o.indent_width, esc(o.newline), esc(&r.text), esc(&between), esc(&expected)))
}

/// independent oracle for the strip pass: per line (split at the newline string) drop trailing ' ' / '\t' only
fn strip_oracle(raw: &str, nl: &str) -> String {
    let mut out = String::new();
    let mut rest = raw;
    loop {
        let (line, more) = match rest.find(nl) { Some(i) => (&rest[..i], Some(&rest[i + nl.len()..])), None => (rest, None) };
        let mut end = line.len();
        let b = line.as_bytes();
        while end > 0 && (b[end - 1] == b' ' || b[end - 1] == b'\t') { end -= 1; }
        out.push_str(&line[..end]);
        match more { Some(m) => { out.push_str(nl); rest = m; } None => break }
    }
    out
}

/// C28 content clause, strip pass: rendering with strip_trailing_whitespace == raw rendering minus trailing ' ' / '\t' per line
fn check_strip(d: &Doc, o: &RenderOpts) -> Option<String> {
    let raw = render(d, &RenderOpts { strip_trailing_whitespace: false, ..o.clone() });
    let got = render(d, &RenderOpts { strip_trailing_whitespace: true, ..o.clone() });
    let want = strip_oracle(&raw, o.newline);
    if got == want { return None; }
    Some(format!(
        "{{\"fn\":\"strip_trailing_whitespace\",\"why\":\"stripped rendering is not the raw rendering with only trailing ' '/'\\\\t' removed per line\",\"doc\":\"{}\",\"opts\":{{\"max_width\":{},\"indent_width\":{},\"newline\":\"{}\",\"strip_trailing_whitespace\":true}},\"raw\":\"{}\",\"actual\":\"{}\",\"expected\":\"{}\"}}",
        esc(&format!("{:?}", d)), o.max_width, o.indent_width, esc(o.newline), esc(&raw), esc(&got), esc(&want)))
}

fn witness() -> Doc {
    // DESIGN section 7, F-C28-col: a token on the same output line after a block comment containing '\n'
    concat(vec![
        anchored("x", 1, 1),
        comments(vec![CommentDoc { text: "/* a\n   bb */".into(), leading_newlines: 0, is_line_comment: false, src_line: 1, src_column: 3 }]),
        text(" "),
        anchored("tok", 2, 10),
    ])
}

fn main() {
    let excl = std::env::args().nth(2).map(|s| s == "1").unwrap_or(false);
    if std::env::args().nth(3).as_deref() == Some("witness") {
        let o = RenderOpts { max_width: 80, indent_width: 4, newline: "\n", strip_trailing_whitespace: false };
        match check(&witness(), &o, "render_comments") {
            Some(j) => println!("FOUND {}", j),
            None => println!("NONE 1"),
        }
        return;
    }
    let mut gn = Gen { g: Rng(vp_seed()), n: 0, excl, nodes: 0 };
    vp_hook();
    let mut n = 0u64;
    for _ in 0..300_000u64 {
        gn.n = 0;
        gn.nodes = 0;
        let depth = 1 + gn.g.below(4) as u32;
        let d = gn.doc(depth);
        let o = RenderOpts {
            max_width: match gn.g.below(4) { 0 => 4, 1 => 12, 2 => 30, _ => 80 },
            indent_width: gn.g.below(5) as usize,
            newline: if gn.g.below(3) == 0 { "\r\n" } else { "\n" },
            strip_trailing_whitespace: gn.g.below(2) == 0,
        };
        n += 1;
        vp_case(format!("{{\"doc\":\"{}\",\"max_width\":{},\"indent_width\":{},\"newline\":\"{}\"}}", esc(&format!("{:?}", d)), o.max_width, o.indent_width, esc(o.newline)));
        if let Some(j) = check(&d, &o, "render_with_anchors") {
            println!("FOUND {}", j);
            std::process::exit(1);
        }
        if let Some(j) = check_strip(&d, &o) {
            println!("FOUND {}", j);
            std::process::exit(1);
        }
        vp_case("\"if_break structured case\"".to_string());
        if let Some(j) = check_if_break(&mut gn) {
            println!("FOUND {}", j);
            std::process::exit(1);
        }
    }
    println!("NONE {}", n);
}
