"""U10 tokpos — comment token positions (C12). Back end: Verus (unbounded in the number and size of comments)."""
from vp.core import VerusJob
from vp.verus_run import VerusFile

T = "crates/parser/src/veryl_token.rs"
R = "crates/parser/src/resource_table.rs"
X = "crates/parser/src/text_table.rs"

TRUSTED = {
    r"fn vp_token_text": "O9: Token::to_string() (Display via the string table) outlined; its text is text_bytes(token.text)",
    r"struct VpParolToken|struct VpErr": "O9-parol: parol_runtime::lexer::Token and anyhow::Error are opaque external types",
    r"fn vp_loc_|fn vp_ptext|fn vp_insert_path|fn vp_current_text|fn vp_chars_count": "O9-parol: accessors of parol's token/location outlined; ploc()/ptext() are uninterpreted: the location parol "
                                                                     "reports is ASSUMED to be where the text is, and location.len() is assumed to be the byte length of text()",
    r"fn vp_get_text": "O9: resource_table::get_str_value(id).unwrap() outlined; its text is an arbitrary byte string text_bytes(id)",
    r"fn vp_comment_matches": "O9: COMMENT_REGEX.captures_iter outlined; assumed: matches are in bounds, non-empty, ordered, non-overlapping (regex crate contract)",
    r"fn vp_slice": "O9: &text[a..b] outlined; assumed: byte sub-range (char-boundary panics not modelled)",
    r"fn vp_len": "O9: str::len outlined (byte length)",
    r"fn vp_count_nl": "O1: .matches('\\n').count() outlined (number of 0x0A bytes)",
    r"fn vp_char_count": "O2: .chars().count() outlined; assumed: number of non-continuation bytes (UTF-8)",
    r"fn vp_rfind_nl": "O9: str::rfind('\\n') outlined",
    r"fn vp_last_line": "O3: .rsplit('\\n').next().unwrap_or(\"\") outlined (text after the last '\\n')",
    r"fn vp_is_doc_comment": "O9: starts_with(\"///\") outlined (result unconstrained)",
    r"fn vp_new_token_id": "O9: resource_table::new_token_id outlined",
    r"fn vp_insert_str": "O9: resource_table::insert_str outlined",
    r"fn vp_doc_insert": "O9: doc_comment_table::insert outlined",
    r"uninterp spec fn": "byte model of str: utf8()/text_bytes() are uninterpreted",
}

CANARIES = [
    ("vp_canary_token", "proof fn vp_canary_token(t: Token, m: Seq<(usize, usize)>) requires wf_token(t, text_bytes(t.text).len() as int), wf_matches(m, text_bytes(t.text).len() as int), m.len() >= 2 ensures false {}"),
]

INV = """
        invariant
            vp_b == utf8(text@), vp_b == text_bytes(token.text), wf_matches(vp_m@, vp_b.len() as int), wf_token(token, vp_b.len() as int),
            0 <= prev_pos <= vp_b.len(),
            vp_i > 0 ==> prev_pos == vp_m@[vp_i - 1].0,
            vp_i == 0 ==> prev_pos == 0,
            line == true_line(token, vp_b, prev_pos as int),
            column == true_column(token, vp_b, prev_pos as int),
            ret@.len() == vp_i,
            forall|j: int| 0 <= j < vp_i ==> comment_ok(token, vp_b, vp_m@[j], #[trigger] ret@[j]),
"""

POST = """
    requires wf_token(token, text_bytes(token.text).len() as int),
    ensures exists|m: Seq<(usize, usize)>| #![auto] wf_matches(m, text_bytes(token.text).len() as int) && ret@.len() == m.len()
        && forall|j: int| 0 <= j < m.len() ==> comment_ok(token, text_bytes(token.text), m[j], #[trigger] ret@[j]),
"""

COMMENT_OK = """
/// C12 for one split-out comment: line, character column, absolute byte offset and byte length are those of its match
pub open spec fn comment_ok(t: Token, b: Seq<u8>, m: (usize, usize), c: Token) -> bool {
    &&& c.line == true_line(t, b, m.0 as int)
    &&& c.column == true_column(t, b, m.0 as int)
    &&& c.pos == true_pos(t, m.0 as int)
    &&& c.length == m.1 - m.0
    &&& c.source == t.source
}
"""


def build(ctx, res):
    t, r, x = ctx.src(T), ctx.src(R), ctx.src(X)
    vf = VerusFile()
    items = []

    def add(it, label=None):
        items.append(it)
        vf.item(it, label)

    for src, name in [(r, "StrId"), (r, "PathId"), (r, "TokenId"), (x, "TextId")]:
        it = src.item("struct", name)
        it.strip_derive("Debug", "Default", "Hash", "PartialOrd", "Ord", "PartialEq", "Eq")
        add(it)
    it = t.item("enum", "TokenSource")
    it.strip_derive("Debug", "Hash", "PartialOrd", "Ord", "Serialize", "Deserialize", "PartialEq", "Eq")
    add(it)
    it = t.item("struct", "Token")
    it.strip_derive("Debug", "Hash", "PartialOrd", "Ord", "Serialize", "Deserialize", "PartialEq", "Eq")
    add(it)
    vf.raw(ctx.unit_file("tokpos", "spec.rs") + COMMENT_OK, "spec")

    f = t.item("fn", "split_comment_token")
    f.name_return("ret")
    f.replace("resource_table::get_str_value(token.text).unwrap()", "vp_get_text(token.text)", rule="O9")
    f.sub(r"for cap in COMMENT_REGEX\.captures_iter\(&text\) \{\s*let cap = cap\.get\(0\)\.unwrap\(\);\s*let pos = cap\.start\(\);\s*let length = \(cap\.end\(\) - pos\) as u32;",
          "let vp_m = vp_comment_matches(&text);\n    let ghost vp_b = utf8(text@);\n    for vp_i in 0..vp_m.len() {\n        let cap = vp_m[vp_i];\n        let pos = cap.0;\n        let length = (cap.1 - pos) as u32;",
          count=1, rule="O9-loop")
    f.replace("&text[prev_pos..(pos)]", "vp_slice(&text, prev_pos, pos)", rule="O9")
    f.replace("&text[pos..pos + length as usize]", "vp_slice(&text, pos, pos + length as usize)", rule="O9")
    f.replace("prev_text.matches('\\n').count()", "vp_count_nl(prev_text)", rule="O1")
    f.sub_opt(r"prev_text\.len\(\)", "vp_len(prev_text)", rule="O9")
    f.sub_opt(r"prev_text\.rfind\('\\n'\)", "vp_rfind_nl(prev_text)", rule="O9")
    f.sub_opt(r"prev_text\.rsplit\('\\n'\)\.next\(\)\.unwrap_or\(\"\"\)\.chars\(\)\.count\(\)", "vp_char_count(vp_last_line(prev_text))", rule="O3+O2")
    f.sub_opt(r"prev_text\.chars\(\)\.count\(\)", "vp_char_count(prev_text)", rule="O2")
    f.replace('text.starts_with("///")', "vp_is_doc_comment(text)", rule="O9")
    f.replace("resource_table::new_token_id()", "vp_new_token_id()", rule="O9")
    f.replace("resource_table::insert_str(text)", "vp_insert_str(text)", rule="O9")
    f.replace("if is_doc_comment && let TokenSource::File { path, .. } = token.source {", "if is_doc_comment { if let TokenSource::File { path, .. } = token.source {", rule="O10 let-chain split")
    f.replace("            doc_comment_table::insert(path, line, text);\n        }", "            vp_doc_insert(path, line, text);\n        } }", rule="O9 + O10 let-chain split")
    f.spec(POST)
    add(f)
    # TryFrom<&parol_runtime::lexer::Token> for Token: an ordinary token reports exactly parol's location
    tf = t.item("fn", "try_from", impl="TryFrom<&parol_runtime::lexer::Token<'t>> for Token")
    tf.sub(r"fn try_from\(x: &parol_runtime::lexer::Token<'t>\) -> Result<Self, anyhow::Error>",
           "fn vp_token_try_from(x: &VpParolToken) -> (r: Result<Token, VpErr>)", count=1, rule="O9-parol: parol token and anyhow error are opaque external types")
    tf.sub(r"&x\.location\.file_name", "vp_loc_file(x)", rule="O9-parol")
    tf.sub(r"x\.location\.start_line", "vp_loc_start_line(x)", rule="O9-parol")
    tf.sub(r"x\.location\.start_column", "vp_loc_start_column(x)", rule="O9-parol")
    tf.sub(r"x\.location\.start\b(?!_)", "vp_loc_start(x)", rule="O9-parol")
    tf.sub(r"x\.location\.len\(\)", "vp_loc_len(x)", rule="O9-parol")
    tf.sub(r"x\.text\(\)", "vp_ptext(x)", rule="O9-parol")
    tf.sub_opt(r"vp_ptext\(x\)\.chars\(\)\.count\(\)", "vp_char_count(vp_ptext(x))", rule="O2") if False else None
    tf.sub_opt(r"\.chars\(\)\.count\(\)", ".vp_chars_count()", rule="O2m")
    tf.replace("resource_table::new_token_id()", "vp_new_token_id()", rule="O9")
    tf.sub(r"resource_table::insert_str\(", "vp_insert_str(", count=1, rule="O9")
    tf.sub(r"resource_table::insert_path\(", "vp_insert_path(", count=1, rule="O9")
    tf.replace("text_table::get_current_text()", "vp_current_text()", rule="O9")
    tf.spec("    ensures r is Ok,\n"
            "        r->Ok_0.line == ploc(*x).0, r->Ok_0.column == ploc(*x).1, r->Ok_0.pos == ploc(*x).2,\n"
            "        // byte length: pos .. pos + length delimits exactly the token's text\n"
            "        r->Ok_0.length == utf8(ptext(*x)).len(), text_bytes(r->Ok_0.text) == utf8(ptext(*x)),")
    add(tf, "vp_token_try_from")

    # Token::end_line / end_column: position of the token's last character
    vf.raw("impl Token {", "impl")
    e = t.item("fn", "end_line", impl="Token")
    e.name_return("r")
    e.replace("self.to_string()", "vp_token_text(self)", rule="O9")
    e.replace("text.matches('\\n').count()", "vp_count_nl(&text)", rule="O1")
    e.spec("    requires self.line + text_bytes(self.text).len() < 0x7fff_ffff,\n"
           "    ensures r == self.line + count_nl(text_bytes(self.text), 0, text_bytes(self.text).len() as int),")
    e.at_start("        proof { lemma_chars_le(text_bytes(self.text), 0, text_bytes(self.text).len() as int); }")
    add(e, "Token::end_line")
    e = t.item("fn", "end_column", impl="Token")
    e.name_return("r")
    e.replace("self.to_string()", "vp_token_text(self)", rule="O9")
    e.replace("text.matches('\\n').count()", "vp_count_nl(&text)", rule="O1")
    e.sub(r"text\.split\('\\n'\)\s*\.next_back\(\)\s*\.map\(\|x\| x\.chars\(\)\.count\(\) as u32\)\s*\.unwrap\(\)", "(vp_char_count(vp_last_line(&text)) as u32)", count=1, rule="O3+O2")
    e.replace("text.chars().count()", "vp_char_count(&text)", rule="O2")
    e.spec("    requires self.column + text_bytes(self.text).len() < 0x7fff_ffff, self.column + chars_in(text_bytes(self.text), 0, text_bytes(self.text).len() as int) >= 1,\n"
           "    ensures ({ let b = text_bytes(self.text); let n = b.len() as int;\n"
           "        r == if count_nl(b, 0, n) > 0 { chars_in(b, line_start(b, n), n) as int } else { self.column + chars_in(b, 0, n) - 1 } }),")
    e.at_start("        proof { let b = text_bytes(self.text); let n = b.len() as int; lemma_chars_le(b, 0, n); lemma_line_start_le(b, n); lemma_chars_le(b, line_start(b, n), n);\n"
               "            lemma_chars_sub(b, line_start(b, n), n, line_start(b, n), n); }")
    add(e, "Token::end_column")
    vf.raw("}", "impl")
    text = vf.finish()
    # the loop is created by rule O9-loop, so its invariant and ghost code are attached to the rewritten text by anchor
    text = text.replace("    for vp_i in 0..vp_m.len() {\n", "    for vp_i in 0..vp_m.len()" + INV + "    {\n" + GHOST_TOP, 1)
    text = text.replace("        ret.push(token);\n", GHOST_PUSH + "        ret.push(token);\n", 1)
    # second step of rule O2 where the receiver was itself rewritten: E.vp_chars_count() -> vp_char_count(E)
    import re as _re
    text = _re.sub(r"(vp_ptext\(x\))\.vp_chars_count\(\)", r"vp_char_count(\1)", text)
    res.clauses.update({
        "Token::end_line": "ensures r == line + #newlines in the token text",
        "Token::end_column": "ensures r == chars of the text's last line if the text contains a newline, else column + chars - 1 (character column of the last character)",
        "TryFrom<&parol Token> for Token": "ensures Ok; line/column/pos are parol's start_line/start_column/start, length == byte length of the text (so pos..pos+length delimits the text), the interned text is the token's text",
        "split_comment_token": "requires positions fit u32 (file < 2^31 bytes); ensures for the k-th regex match (s,e): line == T.line + #'\\n' in text[..s]; "
                               "column == 1 + chars after the last '\\n' in text[..s] (or T.column + chars of text[..s] if none); length == e-s; pos == T.pos + s; source unchanged; tokens in match order",
    })
    res.samples.append({"obligation": "verus:tokpos:split_comment_token", "contract": POST.strip()})
    return [VerusJob("tokpos", text, vf, ["split_comment_token", "lemma_count_nl_split", "lemma_chars_split", "lemma_count_nl_sub", "lemma_chars_sub",
                                           "lemma_chars_le", "lemma_line_start_sub", "lemma_line_start_prefix", "lemma_count_prefix", "lemma_line_start_le", "Token::end_line", "Token::end_column", "vp_token_try_from"],
                     canaries=CANARIES, items=items, trusted=TRUSTED, rlimit=60)]


GHOST_TOP = """        proof {
            let s0 = prev_pos as int;
            let s1 = vp_m@[vp_i as int].0 as int;
            assert(s0 <= s1) by { if vp_i > 0 { assert(vp_m@[vp_i - 1].1 <= vp_m@[vp_i as int].0); } }
            lemma_count_nl_split(vp_b, 0, s0, s1);
            lemma_chars_split(vp_b, 0, s0, s1);
            lemma_count_nl_sub(vp_b, s0, s1, s1);
            lemma_chars_sub(vp_b, s0, s1, s0, s1);
            lemma_line_start_sub(vp_b, s0, s1);
            lemma_chars_le(vp_b, 0, s1);
            lemma_chars_le(vp_b, s0, s1);
            lemma_chars_le(vp_b, 0, s0);
            lemma_line_start_le(vp_b, s0);
            lemma_chars_le(vp_b, line_start(vp_b, s0), s0);
            lemma_line_start_le(vp_b, s1);
            lemma_chars_le(vp_b, line_start(vp_b, s1), s1);
            lemma_chars_split(vp_b, line_start(vp_b, s0), s0, s1);
            let sub = vp_b.subrange(s0, s1);
            let ls = line_start(sub, s1 - s0);
            lemma_line_start_le(sub, s1 - s0);
            lemma_chars_sub(sub, ls, s1 - s0, ls, s1 - s0);
            lemma_chars_sub(vp_b, s0, s1, s0 + ls, s1);
            lemma_chars_le(sub, ls, s1 - s0);
        }
"""
GHOST_PUSH = ""


def replay(ctx, res, f):
    """seeded native run through the REAL parser crate: parse generated texts with several comments per line, multi-byte
    characters and CRLF, and compare every comment token with the source text"""
    import os
    from vp.core import native_search, NATIVE_RNG
    crate = os.path.join(ctx.repo, "crates", "parser")
    if not os.path.isfile(os.path.join(crate, "Cargo.toml")):
        return None
    body = NATIVE_RNG + r'''
use veryl_parser::Parser;
use veryl_parser::token_collector::TokenCollector;
use veryl_parser::veryl_walker::VerylWalker;
use veryl_parser::resource_table;

fn gen_text(g: &mut Rng) -> String {
    let words = ["a", "é", "日本", "x y", "", "**", "/ /", "ß"];
    let mut s = String::new();
    let n = 1 + g.below(4);
    for _ in 0..g.below(3) { s.push_str(if g.below(2) == 0 { "\n" } else { " " }); }
    // ordinary tokens with multi-byte text: a string literal inside the first module
    if g.below(2) == 0 { s.push_str("module A { const S: string = \"gr\u{fc}\u{df}e \u{2192} ok\"; const T: u32 = 1; }"); } else { s.push_str("module A {}"); }
    for _ in 0..n {
        for _ in 0..g.below(3) { s.push(' '); }
        match g.below(3) {
            0 => { s.push_str("// "); s.push_str(words[g.below(8) as usize]); s.push_str(if g.below(4) == 0 { "\r\n" } else { "\n" }); }
            1 => { s.push_str("/* "); s.push_str(words[g.below(8) as usize]); s.push_str(" */"); }
            _ => { s.push_str("/* "); s.push_str(words[g.below(8) as usize]); s.push_str("\n  "); s.push_str(words[g.below(8) as usize]); s.push_str(" */"); }
        }
    }
    s.push_str(" module B {}\n");
    s
}

fn main() {
    let mut g = Rng(vp_seed());
    vp_hook();
    let mut n = 0u64;
    for it in 0..3000u64 {
        let text = gen_text(&mut g);
        vp_case(format!("{:?}", text));
        let Ok(p) = Parser::parse(&text, &format!("r{it}.veryl")) else { continue };
        let mut c = TokenCollector::new(true);
        c.veryl(&p.veryl);
        let mut last_pos: i64 = -1;
        for t in &c.tokens {
            let s = resource_table::get_str_value(t.text).unwrap_or_default();
            if s.is_empty() { continue; }
            n += 1;
            // every token: end_line / end_column are the position of its last character
            let nl = s.matches('\n').count() as u32;
            let want_end_col = if nl > 0 { s.rsplit('\n').next().unwrap_or("").chars().count() as u32 } else { t.column + s.chars().count() as u32 - 1 };
            if t.end_line() != t.line + nl || t.end_column() != want_end_col {
                println!("FOUND {{\"text\":{:?},\"token\":{:?},\"line\":{},\"column\":{},\"end_line\":{},\"end_column\":{},\"expected_end_line\":{},\"expected_end_column\":{}}}",
                    text, s, t.line, t.column, t.end_line(), t.end_column(), t.line + nl, want_end_col);
                std::process::exit(1);
            }
            let pos = t.pos as usize;
            // the reported byte offset must hold the comment's text, and line / character column must be those of that offset
            let ok_text = text.get(pos..pos + s.len()) == Some(s.as_str());
            let (line, col) = if ok_text {
                (1 + text[..pos].matches('\n').count() as u32, 1 + text[..pos].rsplit('\n').next().unwrap_or("").chars().count() as u32)
            } else { (0, 0) };
            if !ok_text || t.line != line || t.column != col || t.length as usize != s.len() || (pos as i64) <= last_pos {
                println!("FOUND {{\"text\":{:?},\"comment\":{:?},\"reported\":{{\"line\":{},\"column\":{},\"pos\":{},\"length\":{}}},\"expected_at_reported_pos\":{{\"text_matches\":{},\"line\":{},\"column\":{},\"length\":{}}}}}",
                    text, s, t.line, t.column, t.pos, t.length, ok_text, line, col, s.len());
                std::process::exit(1);
            }
            last_pos = pos as i64;
        }
    }
    println!("NONE {}", n);
}
'''
    return native_search(ctx, "tokpos", "tokpos", body, args=[ctx.seed], timeout=1500,
                         deps={"veryl-parser": '{ path = "%s" }' % crate})
