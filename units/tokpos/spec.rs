// ---- unit `tokpos` (C12): byte-level model of &str and what "where a comment really is" means --------

/// UTF-8 encoding of a character sequence (trusted model: Verus' view of str/String is Seq<char>, byte offsets need bytes)
pub uninterp spec fn utf8(s: Seq<char>) -> Seq<u8>;
pub open spec fn bytes_of(s: &str) -> Seq<u8> { utf8(s@) }
/// text registered in the string table under an id
pub uninterp spec fn text_bytes(id: StrId) -> Seq<u8>;

/// number of '\n' bytes in b[lo..hi)
pub open spec fn count_nl(b: Seq<u8>, lo: int, hi: int) -> nat
    decreases hi - lo
{
    if hi <= lo { 0 } else { count_nl(b, lo, hi - 1) + if b[hi - 1] == 0x0Au8 { 1nat } else { 0nat } }
}

/// number of characters in b[lo..hi): every byte that is not a UTF-8 continuation byte (10xxxxxx) starts one
pub open spec fn chars_in(b: Seq<u8>, lo: int, hi: int) -> nat
    decreases hi - lo
{
    if hi <= lo { 0 } else { chars_in(b, lo, hi - 1) + if b[hi - 1] & 0xC0u8 != 0x80u8 { 1nat } else { 0nat } }
}

/// index just after the last '\n' in b[0..hi), or 0 if there is none: start of the line containing offset hi
pub open spec fn line_start(b: Seq<u8>, hi: int) -> int
    decreases hi
{
    if hi <= 0 { 0 } else if b[hi - 1] == 0x0Au8 { hi } else { line_start(b, hi - 1) }
}

/// C12 for a comment starting at byte offset s of a merged comment token `t` whose text has bytes b:
/// line, character column (1-based), absolute byte offset, byte length.
pub open spec fn true_line(t: Token, b: Seq<u8>, s: int) -> int { t.line + count_nl(b, 0, s) }
pub open spec fn true_column(t: Token, b: Seq<u8>, s: int) -> int {
    if count_nl(b, 0, s) == 0 { t.column + chars_in(b, 0, s) } else { 1 + chars_in(b, line_start(b, s), s) as int }
}
pub open spec fn true_pos(t: Token, s: int) -> int { t.pos + s }

/// what the regex iteration is assumed to deliver: in-bounds, non-empty, ordered, non-overlapping matches
pub open spec fn wf_matches(m: Seq<(usize, usize)>, len: int) -> bool {
    &&& forall|i: int| 0 <= i < m.len() ==> (#[trigger] m[i]).0 < m[i].1 && m[i].1 <= len
    &&& forall|i: int, j: int| 0 <= i < j < m.len() ==> (#[trigger] m[i]).1 <= (#[trigger] m[j]).0
}

/// sizes for which the u32 position arithmetic cannot overflow (a source file < 2^31 bytes)
pub open spec fn wf_token(t: Token, len: int) -> bool {
    t.line >= 1 && t.column >= 1 && t.line + len < 0x7fff_ffff && t.column + len < 0x7fff_ffff && t.pos + len < 0x7fff_ffff
}

// ---- outlined std / table calls (assumed contracts, listed in the evidence as trusted) ----------------
#[verifier::external_body]
fn vp_get_text(id: StrId) -> (r: String)
    ensures utf8(r@) == text_bytes(id),
{ unimplemented!() }

// ---- parol's token, opaque: (start_line, start_column, start offset) and text are uninterpreted -----------------
#[verifier::external_body]
pub struct VpParolToken { _p: u8 }
#[verifier::external_body]
pub struct VpErr { _p: u8 }
pub uninterp spec fn ploc(x: VpParolToken) -> (u32, u32, u32);
pub uninterp spec fn ptext(x: VpParolToken) -> Seq<char>;

#[verifier::external_body]
fn vp_loc_start_line(x: &VpParolToken) -> (r: u32) ensures r == ploc(*x).0 { unimplemented!() }
#[verifier::external_body]
fn vp_loc_start_column(x: &VpParolToken) -> (r: u32) ensures r == ploc(*x).1 { unimplemented!() }
#[verifier::external_body]
fn vp_loc_start(x: &VpParolToken) -> (r: u32) ensures r == ploc(*x).2 { unimplemented!() }
/// parol's Location::len(): assumed to be the byte length of the token text
#[verifier::external_body]
fn vp_loc_len(x: &VpParolToken) -> (r: usize) ensures r == utf8(ptext(*x)).len(), r < 0x7fff_ffff { unimplemented!() }
#[verifier::external_body]
fn vp_loc_file(x: &VpParolToken) -> (r: &str) { unimplemented!() }
#[verifier::external_body]
fn vp_ptext(x: &VpParolToken) -> (r: &str) ensures r@ == ptext(*x) { unimplemented!() }
#[verifier::external_body]
fn vp_insert_path(s: &str) -> (r: PathId) { unimplemented!() }
#[verifier::external_body]
fn vp_current_text() -> (r: TextId) { unimplemented!() }

#[verifier::external_body]
fn vp_token_text(t: &Token) -> (r: String)
    ensures utf8(r@) == text_bytes(t.text),
{ unimplemented!() }

#[verifier::external_body]
fn vp_comment_matches(text: &str) -> (r: Vec<(usize, usize)>)
    ensures wf_matches(r@, bytes_of(text).len() as int),
{ unimplemented!() }

#[verifier::external_body]
fn vp_slice<'a>(text: &'a str, a: usize, b: usize) -> (r: &'a str)
    requires a <= b <= bytes_of(text).len(),
    ensures bytes_of(r) == bytes_of(text).subrange(a as int, b as int),
{ unimplemented!() }

#[verifier::external_body]
fn vp_len(s: &str) -> (r: usize)
    ensures r == bytes_of(s).len(),
{ unimplemented!() }

#[verifier::external_body]
fn vp_count_nl(s: &str) -> (r: usize)
    ensures r == count_nl(bytes_of(s), 0, bytes_of(s).len() as int),
{ unimplemented!() }

#[verifier::external_body]
fn vp_char_count(s: &str) -> (r: usize)
    ensures r == chars_in(bytes_of(s), 0, bytes_of(s).len() as int),
{ unimplemented!() }

#[verifier::external_body]
fn vp_rfind_nl(s: &str) -> (r: Option<usize>)
    ensures
        r.is_some() ==> r.unwrap() < bytes_of(s).len() && r.unwrap() + 1 == line_start(bytes_of(s), bytes_of(s).len() as int),
        r.is_none() ==> count_nl(bytes_of(s), 0, bytes_of(s).len() as int) == 0,
{ unimplemented!() }

#[verifier::external_body]
fn vp_last_line<'a>(s: &'a str) -> (r: &'a str)
    ensures bytes_of(r) == bytes_of(s).subrange(line_start(bytes_of(s), bytes_of(s).len() as int), bytes_of(s).len() as int),
{ unimplemented!() }

#[verifier::external_body]
fn vp_is_doc_comment(s: &str) -> (r: bool) { unimplemented!() }
#[verifier::external_body]
fn vp_new_token_id() -> (r: TokenId) { unimplemented!() }
#[verifier::external_body]
fn vp_insert_str(s: &str) -> (r: StrId)
    ensures text_bytes(r) == utf8(s@),
{ unimplemented!() }
#[verifier::external_body]
fn vp_doc_insert(path: PathId, line: u32, text: StrId) { unimplemented!() }

// ---- lemmas about the byte model --------------------------------------------------------------------
proof fn lemma_count_nl_split(b: Seq<u8>, lo: int, mid: int, hi: int)
    requires 0 <= lo <= mid <= hi <= b.len(),
    ensures count_nl(b, lo, hi) == count_nl(b, lo, mid) + count_nl(b, mid, hi),
    decreases hi - mid,
{
    if hi > mid { lemma_count_nl_split(b, lo, mid, hi - 1); }
}

proof fn lemma_chars_split(b: Seq<u8>, lo: int, mid: int, hi: int)
    requires 0 <= lo <= mid <= hi <= b.len(),
    ensures chars_in(b, lo, hi) == chars_in(b, lo, mid) + chars_in(b, mid, hi),
    decreases hi - mid,
{
    if hi > mid { lemma_chars_split(b, lo, mid, hi - 1); }
}

proof fn lemma_count_nl_sub(b: Seq<u8>, lo: int, hi: int, k: int)
    requires 0 <= lo <= k <= hi <= b.len(),
    ensures count_nl(b.subrange(lo, hi), 0, k - lo) == count_nl(b, lo, k),
    decreases k - lo,
{
    if k > lo { lemma_count_nl_sub(b, lo, hi, k - 1); }
}

proof fn lemma_chars_sub(b: Seq<u8>, lo: int, hi: int, a: int, k: int)
    requires 0 <= lo <= a <= k <= hi <= b.len(),
    ensures chars_in(b.subrange(lo, hi), a - lo, k - lo) == chars_in(b, a, k),
    decreases k - a,
{
    if k > a { lemma_chars_sub(b, lo, hi, a, k - 1); }
}

proof fn lemma_chars_le(b: Seq<u8>, lo: int, hi: int)
    requires 0 <= lo <= hi <= b.len(),
    ensures chars_in(b, lo, hi) <= hi - lo, count_nl(b, lo, hi) <= hi - lo,
    decreases hi - lo,
{
    if hi > lo { lemma_chars_le(b, lo, hi - 1); }
}

/// line_start in a sub-slice that contains a newline is line_start of the whole (shifted)
proof fn lemma_line_start_sub(b: Seq<u8>, lo: int, hi: int)
    requires 0 <= lo <= hi <= b.len(),
    ensures
        count_nl(b, lo, hi) > 0 ==> line_start(b.subrange(lo, hi), hi - lo) + lo == line_start(b, hi),
        count_nl(b, lo, hi) == 0 ==> line_start(b.subrange(lo, hi), hi - lo) == 0,
        count_nl(b, lo, hi) == 0 && lo > 0 ==> (line_start(b, hi) == line_start(b, lo)),
        lo <= line_start(b, hi) || count_nl(b, lo, hi) == 0,
        line_start(b, hi) <= hi,
    decreases hi - lo,
{
    lemma_line_start_le(b, hi);
    if hi > lo {
        lemma_line_start_sub(b, lo, hi - 1);
        assert(b.subrange(lo, hi)[hi - lo - 1] == b[hi - 1]);
        if b[hi - 1] != 0x0Au8 {
            assert(b.subrange(lo, hi).subrange(0, hi - lo - 1) =~= b.subrange(lo, hi - 1));
            lemma_line_start_prefix(b.subrange(lo, hi), hi - lo - 1, b.subrange(lo, hi - 1));
            lemma_count_prefix(b.subrange(lo, hi), hi - lo - 1, b.subrange(lo, hi - 1));
        }
    }
}

proof fn lemma_line_start_prefix(b: Seq<u8>, k: int, c: Seq<u8>)
    requires 0 <= k <= b.len(), c.len() >= k, forall|i: int| 0 <= i < k ==> b[i] == c[i],
    ensures line_start(b, k) == line_start(c, k),
    decreases k,
{
    if k > 0 { lemma_line_start_prefix(b, k - 1, c); }
}

proof fn lemma_count_prefix(b: Seq<u8>, k: int, c: Seq<u8>)
    requires 0 <= k <= b.len(), c.len() >= k, forall|i: int| 0 <= i < k ==> b[i] == c[i],
    ensures count_nl(b, 0, k) == count_nl(c, 0, k), chars_in(b, 0, k) == chars_in(c, 0, k),
    decreases k,
{
    if k > 0 { lemma_count_prefix(b, k - 1, c); }
}

proof fn lemma_line_start_le(b: Seq<u8>, hi: int)
    requires 0 <= hi <= b.len(),
    ensures 0 <= line_start(b, hi) <= hi,
    decreases hi,
{
    if hi > 0 { lemma_line_start_le(b, hi - 1); }
}
