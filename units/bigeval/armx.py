"""Generic, mechanical extraction helpers built on vp.extract / vp.rustlex (no hand copying of code):

  match_arm(fn_item, scrutinee, pattern, name, header)   rule EA: one arm `PAT => { .. }` of the unique `match <scrutinee> { .. }`
                                                         in a function item, re-presented as a function item (ArmItem): the tokens
                                                         `PAT =>` are replaced by the given fn header, the arm's block is the body.
  nested_fn(fn_item, name)                               rule EA': a `fn name(..) {..}` item nested in another function's body.
  replace_sub_arm(item, pattern, new_body, count, rule)  rule EB: the block of every match arm (at any depth inside the item) whose
                                                         pattern text is `pattern` is replaced by `new_body`.
  desugar_ops(item, cfg)                                 rule ED: overloaded-operator applications `A op B` / `A op= B` whose operands
                                                         are (syntactically) big-integer typed are rewritten to the trait-method form
                                                         the Rust reference defines them as: `core::ops::Add::add(A, B)` /
                                                         `core::ops::AddAssign::add_assign(&mut A, B)`.  The expression structure is
                                                         found with a precedence-climbing parser over the lexer's token stream; every
                                                         edit is a positional insert / operator-token replacement on the Item.

All of them raise ExtractError (-> exit 2, undecided) on anything they do not recognise.
"""
import re

from vp.extract import Item, ExtractError, _norm
from vp.rustlex import lex, match_close, OPEN


# --------------------------------------------------------------------------------------------------------------------
# arm extraction
# --------------------------------------------------------------------------------------------------------------------
def _code(toks, lo, hi):
    return [i for i in range(lo, hi) if toks[i].kind != "comment"]


def _is_fat_arrow(toks, i):
    return toks[i].kind == "punct" and toks[i].text == "=" and i + 1 < len(toks) and toks[i + 1].text == ">" and toks[i + 1].start == toks[i].end


def _match_bodies(toks, lo, hi):
    """yield (match_kw_index, open_brace_index, close_brace_index, scrutinee_text_tokens) for every `match` in toks[lo:hi]"""
    for i in range(lo, hi):
        t = toks[i]
        if t.kind == "ident" and t.text == "match":
            j = i + 1
            while j < hi:
                u = toks[j]
                if u.kind == "punct" and u.text in ("(", "["):
                    j = match_close(toks, j) + 1
                    continue
                if u.kind == "punct" and u.text == "{":
                    break
                j += 1
            if j >= hi:
                raise ExtractError("match without body")
            yield i, j, match_close(toks, j), (i + 1, j)


def _arms(toks, ob, cb):
    """arms of a match body toks[ob]='{' .. toks[cb]='}': yield (pat_first, pat_last, body_first, body_last, is_block)"""
    i = ob + 1
    while i < cb:
        if toks[i].kind == "comment":
            i += 1
            continue
        # outer attributes on arms
        if toks[i].text == "#" and toks[i + 1].text == "[":
            i = match_close(toks, i + 1) + 1
            continue
        p0 = i
        j = i
        while j < cb and not _is_fat_arrow(toks, j):
            if toks[j].kind == "punct" and toks[j].text in OPEN:
                j = match_close(toks, j) + 1
                continue
            j += 1
        if j >= cb:
            raise ExtractError("match arm without `=>`")
        p1 = j - 1
        while toks[p1].kind == "comment":
            p1 -= 1
        b0 = j + 2
        while toks[b0].kind == "comment":
            b0 += 1
        if toks[b0].text == "{":
            b1 = match_close(toks, b0)
            nxt = b1 + 1
            is_block = True
            # `{ .. }.method()` style arm bodies do not occur in rustfmt output followed by `,`; check the follower
            k = nxt
            while k < cb and toks[k].kind == "comment":
                k += 1
            if k < cb and toks[k].text not in (",",) and not (toks[k].kind in ("ident", "num", "str", "char", "lifetime") or toks[k].text in ("(", "_", "&", "[", "#", "-")):
                raise ExtractError("match arm block followed by `%s`: not a plain block arm" % toks[k].text)
        else:
            k = b0
            while k < cb and not (toks[k].kind == "punct" and toks[k].text == ","):
                if toks[k].kind == "punct" and toks[k].text in OPEN:
                    k = match_close(toks, k) + 1
                    continue
                k += 1
            b1 = k - 1
            nxt = k
            is_block = False
        yield p0, p1, b0, b1, is_block
        i = nxt
        while i < cb and (toks[i].kind == "comment" or toks[i].text == ","):
            i += 1


def _span_text(text, toks, a, b):
    return text[toks[a].start:toks[b].end]


def _scan_loops(toks, body_open, body_close):
    loops = []
    j = body_open + 1
    while j < body_close:
        t = toks[j]
        if t.kind == "ident" and t.text in ("for", "while", "loop"):
            if t.text == "for" and toks[j + 1].text == "<":
                j += 1
                continue
            m = j + 1
            while True:
                u = toks[m]
                if u.kind == "punct" and u.text in ("(", "["):
                    m = match_close(toks, m) + 1
                    continue
                if u.kind == "punct" and u.text == "{":
                    break
                m += 1
            loops.append((j, m, match_close(toks, m)))
        j += 1
    return loops


class ArmItem(Item):
    """`PAT => { .. }` cut out of a function; behaves like a fn Item whose body is the arm's block (rule EA)."""

    def __init__(self, src, name, text, line, header, parent, pattern):
        self._header = header
        self._parent = parent
        self._pattern = pattern
        Item.__init__(self, src, "fn", name, text, 0, line)

    def _analyse(self):
        toks = self._toks
        self.arrow = None
        self.where_kw = None
        j = 0
        while not _is_fat_arrow(toks, j):
            if toks[j].kind == "punct" and toks[j].text in OPEN:
                j = match_close(toks, j)
            j += 1
        b0 = j + 2
        while toks[b0].kind == "comment":
            b0 += 1
        if toks[b0].text != "{":
            raise ExtractError("%s: arm body is not a block" % self.name)
        self.body_open = b0
        self.body_close = match_close(toks, b0)
        if self.body_close != len(toks) - 1:
            raise ExtractError("%s: text after the arm's block" % self.name)
        self.loops = _scan_loops(toks, self.body_open, self.body_close)
        self._repl.append((0, toks[b0].start, self._header.rstrip() + "\n"))
        self.rules.append("EA: match arm `%s` of `%s` wrapped as a function with the enclosing function's parameters "
                          "(sound because `self == %s` selects exactly that arm)" % (self._pattern, self._parent, self._pattern))

    def name_return(self, rname="r"):
        raise ExtractError("ArmItem: name the return value in the header")

    def describe(self):
        return {"file": self.src.rel, "item": "match arm `%s` of fn %s" % (self._pattern, self._parent), "line": self.line, "sha256": self.sha256}


def match_arm(fn_item, scrutinee, pattern, name, header):
    """the arm `pattern` of the unique `match <scrutinee> {` in fn_item's body, as an ArmItem with the given fn header"""
    toks, text = fn_item._toks, fn_item.orig
    want_s, want_p = _norm(scrutinee), _norm(pattern)
    cands = [m for m in _match_bodies(toks, fn_item.body_open + 1, fn_item.body_close)
             if _norm(text[toks[m[3][0]].start:toks[m[3][1] - 1].end]) == want_s]
    # the outermost one: not nested inside another candidate
    outer = [m for m in cands if not any(o[1] < m[0] < o[2] for o in cands if o is not m)]
    if len(outer) != 1:
        raise ExtractError("%s: expected exactly one outer `match %s {`, found %d" % (fn_item.name, scrutinee, len(outer)))
    _, ob, cb, _ = outer[0]
    found = []
    for p0, p1, b0, b1, is_block in _arms(toks, ob, cb):
        if _norm(_span_text(text, toks, p0, p1)) == want_p:
            found.append((p0, b1, is_block))
    if len(found) != 1:
        raise ExtractError("%s: match arm `%s` found %d times" % (fn_item.name, pattern, len(found)))
    p0, b1, is_block = found[0]
    if not is_block:
        raise ExtractError("%s: match arm `%s` is not a block" % (fn_item.name, pattern))
    a, b = toks[p0].start, toks[b1].end
    return ArmItem(fn_item.src, name, text[a:b], fn_item.line + text.count("\n", 0, a), header, fn_item.name, want_p)


def nested_fn(fn_item, name):
    """a `fn name(..) -> .. { .. }` item declared inside fn_item's body (rule EA')"""
    toks, text = fn_item._toks, fn_item.orig
    hits = [i for i in range(fn_item.body_open + 1, fn_item.body_close - 1)
            if toks[i].kind == "ident" and toks[i].text == "fn" and toks[i + 1].text == name]
    if len(hits) != 1:
        raise ExtractError("%s: nested fn %s found %d times" % (fn_item.name, name, len(hits)))
    kw = hits[0]
    j = kw
    while toks[j].text != "{":
        if toks[j].kind == "punct" and toks[j].text in ("(", "["):
            j = match_close(toks, j)
        j += 1
    e = match_close(toks, j)
    a, b = toks[kw].start, toks[e].end
    it = Item(fn_item.src, "fn", "%s::%s" % (fn_item.name, name), text[a:b], 0, fn_item.line + text.count("\n", 0, a))
    it.rules.append("EA': nested fn `%s` of `%s` extracted as a free function (it captures nothing: a nested fn item cannot)" % (name, fn_item.name))
    return it


def replace_sub_arm(item, pattern, new_body, count=1, rule="EB", only_blocks=False):
    """replace the block of every match arm inside `item` whose pattern text equals `pattern`"""
    toks, text = item._toks, item.orig
    want = _norm(pattern)
    hits = []
    for _, ob, cb, _ in _match_bodies(toks, 0, len(toks)):
        for p0, p1, b0, b1, is_block in _arms(toks, ob, cb):
            if _norm(_span_text(text, toks, p0, p1)) == want and (is_block or not only_blocks):
                hits.append((toks[b0].start, toks[b1].end))
    hits = sorted(set(hits))
    if len(hits) != count:
        raise ExtractError("%s: rule %s expects %d arm(s) `%s`, found %d" % (item.name, rule, count, pattern, len(hits)))
    for a, b in hits:
        item._repl.append((a, b, new_body))
    item.rules.append("%s: block of sub-arm `%s` -> `%s` (x%d)" % (rule, want, new_body, len(hits)))
    return hits


# --------------------------------------------------------------------------------------------------------------------
# expression parser (precedence climbing) -> operator desugaring
# --------------------------------------------------------------------------------------------------------------------
ARITH = {"+": ("Add", "add"), "-": ("Sub", "sub"), "*": ("Mul", "mul"), "/": ("Div", "div"), "%": ("Rem", "rem"),
         "&": ("BitAnd", "bitand"), "|": ("BitOr", "bitor"), "^": ("BitXor", "bitxor"), "<<": ("Shl", "shl"), ">>": ("Shr", "shr")}
BINPREC = {"*": 11, "/": 11, "%": 11, "+": 10, "-": 10, "<<": 9, ">>": 9, "&": 8, "^": 7, "|": 6,
           "==": 5, "!=": 5, "<": 5, ">": 5, "<=": 5, ">=": 5, "&&": 4, "||": 3, "..": 2, "..=": 2}
ASSIGN = {"=", "+=", "-=", "*=", "/=", "%=", "&=", "|=", "^=", "<<=", ">>="}
MULTI = ["<<=", ">>=", "..=", "==", "!=", "<=", ">=", "&&", "||", "<<", ">>", "+=", "-=", "*=", "/=", "%=", "^=", "&=", "|=", "->", "=>", "::", ".."]
PROPAGATE_METHODS = {"clone", "as_ref", "unwrap", "into_owned", "borrow", "to_owned", "deref", "as_mut", "unwrap_or"}
PROPAGATE_FNS = {"Box::new", "Some", "Ok", "Cow::Owned", "Cow::Borrowed", "std::borrow::Cow::Owned", "std::borrow::Cow::Borrowed"}


class Node:
    __slots__ = ("kind", "a", "b", "kids", "op", "optok", "name", "big")

    def __init__(self, kind, a, b, kids=(), op=None, optok=None, name=None):
        self.kind, self.a, self.b, self.kids, self.op, self.optok, self.name = kind, a, b, list(kids), op, optok, name
        self.big = False


class Parser:
    """Rust expression / statement parser over code tokens of one item (just enough of the grammar for function bodies;
    anything else raises ExtractError). Node spans are token indexes into self.t (comment-free list)."""

    def __init__(self, item):
        self.item = item
        self.t = [t for t in item._toks if t.kind != "comment"]
        self.i = 0

    # ---- token helpers ----
    def err(self, msg):
        t = self.t[min(self.i, len(self.t) - 1)]
        ctx = self.item.orig[max(0, t.start - 40):t.end + 40].replace("\n", " ")
        raise ExtractError("%s: rule ED parser: %s near `%s`" % (self.item.name, msg, ctx))

    def op_at(self, i):
        """(operator text, number of tokens) at token i, assembling adjacent punctuation"""
        t = self.t
        if i >= len(t) or t[i].kind != "punct":
            return None, 0
        for m in MULTI:
            n = len(m)
            if i + n <= len(t) and all(t[i + k].kind == "punct" and t[i + k].text == m[k] and (k == 0 or t[i + k].start == t[i + k - 1].end) for k in range(n)):
                return m, n
        return t[i].text, 1

    def peek(self, k=0):
        return self.t[self.i + k] if self.i + k < len(self.t) else None

    def at(self, text):
        p = self.peek()
        return p is not None and p.text == text and p.kind in ("punct", "ident")

    def eat(self, text):
        if not self.at(text):
            self.err("expected `%s`" % text)
        self.i += 1

    def close_of(self, i):
        """index (in self.t) of the bracket matching self.t[i]"""
        depth = 0
        for j in range(i, len(self.t)):
            x = self.t[j]
            if x.kind == "punct":
                if x.text in OPEN:
                    depth += 1
                elif x.text in (")", "]", "}"):
                    depth -= 1
                    if depth == 0:
                        return j
        self.err("unbalanced bracket")

    # ---- types / patterns (skipped, not analysed) ----
    def skip_angle(self):
        """self.i at `<`: skip the balanced generic argument list"""
        depth = 0
        while True:
            p = self.peek()
            if p is None:
                self.err("unterminated generic arguments")
            if p.kind == "punct" and p.text in ("(", "["):
                self.i = self.close_of(self.i) + 1
                continue
            if p.text == "<":
                depth += 1
            elif p.text == ">":
                # `->` inside fn types
                if not (self.i > 0 and self.t[self.i - 1].text == "-" and self.t[self.i - 1].end == p.start):
                    depth -= 1
                    if depth == 0:
                        self.i += 1
                        return
            self.i += 1

    def skip_type(self):
        p = self.peek()
        while p is not None and (p.text in ("&", "*") or (p.kind == "ident" and p.text in ("mut", "const", "dyn", "impl")) or p.kind == "lifetime"):
            self.i += 1
            p = self.peek()
        if p.text in ("(", "["):
            self.i = self.close_of(self.i) + 1
            return
        if p.text == "<":
            self.skip_angle()
            p = self.peek()
        if p.kind != "ident" and self.op_at(self.i)[0] != "::":
            self.err("type expected")
        while True:
            if self.op_at(self.i)[0] == "::":
                self.i += 2
                continue
            p = self.peek()
            if p is not None and p.kind == "ident":
                self.i += 1
                if self.at("<"):
                    self.skip_angle()
                if self.op_at(self.i)[0] == "::":
                    continue
            return

    def skip_pattern_until(self, stops):
        """advance over a pattern until one of the operator texts in `stops` at depth 0; returns list of identifier tokens seen"""
        ids = []
        while True:
            p = self.peek()
            if p is None:
                self.err("unterminated pattern")
            if p.kind == "punct" and p.text in OPEN:
                e = self.close_of(self.i)
                ids += [x for x in self.t[self.i:e] if x.kind == "ident"]
                self.i = e + 1
                continue
            op, n = self.op_at(self.i)
            if op in stops or (p.kind == "ident" and p.text in stops):
                return ids
            if p.kind == "ident":
                ids.append(p)
            self.i += max(n, 1)

    # ---- blocks / statements ----
    def parse_block(self):
        a = self.i
        self.eat("{")
        stmts = []
        while not self.at("}"):
            if self.at(";"):
                self.i += 1
                continue
            stmts.append(self.parse_stmt())
        self.eat("}")
        return Node("block", a, self.i - 1, stmts)

    def parse_stmt(self):
        p = self.peek()
        if p.text == "#" and self.peek(1).text == "[":
            self.i = self.close_of(self.i + 1) + 1
            return self.parse_stmt()
        if p.kind == "ident" and p.text == "let":
            a = self.i
            self.i += 1
            ids = self.skip_pattern_until({"=", ":", ";"})
            if self.at(":"):
                self.i += 1
                self.skip_type()
            init = None
            kids = []
            if self.at("="):
                self.i += 1
                init = self.parse_expr()
                kids.append(init)
                if self.at("else"):
                    self.i += 1
                    kids.append(self.parse_block())
            self.eat(";")
            n = Node("let", a, self.i - 1, kids)
            # simple binding `[mut] name` -> name ; anything else: all identifiers, unknown
            names = [x.text for x in ids if x.text not in ("mut", "ref")]
            n.name = ("simple", names[0]) if len(names) == 1 and all(x.kind == "ident" for x in ids) and len([x for x in ids if x.text not in ("mut", "ref")]) == 1 \
                and self._pattern_is_simple(a) else ("multi", names)
            return n
        if p.kind == "ident" and p.text in ("fn", "struct", "enum", "impl", "use", "const", "static", "type", "mod", "trait"):
            # nested items: skip to end (`;` or block)
            while True:
                q = self.peek()
                if q.text == ";":
                    self.i += 1
                    break
                if q.text == "{":
                    self.i = self.close_of(self.i) + 1
                    break
                if q.kind == "punct" and q.text in OPEN:
                    self.i = self.close_of(self.i) + 1
                    continue
                self.i += 1
            return Node("item", 0, 0)
        e = self.parse_expr(stmt=True)
        if self.at(";"):
            self.i += 1
            return Node("exprstmt", e.a, self.i - 1, [e])
        if self.at("}"):
            return Node("tail", e.a, e.b, [e])
        if e.kind in ("if", "match", "block", "loop", "unsafe"):
            return Node("exprstmt", e.a, e.b, [e])
        self.err("expected `;` or `}` after expression")

    def _pattern_is_simple(self, let_idx):
        j = let_idx + 1
        if self.t[j].text == "mut":
            j += 1
        return self.t[j].kind == "ident" and self.t[j + 1].text in ("=", ":", ";")

    # ---- expressions ----
    def parse_expr(self, minp=0, nostruct=False, stmt=False):
        # prefix forms of lowest precedence
        p = self.peek()
        if p.kind == "ident" and p.text in ("return", "break"):
            a = self.i
            self.i += 1
            if p.text == "break" and self.peek().kind == "lifetime":
                self.i += 1
            kids = []
            q = self.peek()
            if not (q.text in (";", "}", ")", ",", "]")):
                kids.append(self.parse_expr(0, nostruct))
            return Node(p.text, a, self.i - 1, kids)
        if p.kind == "ident" and p.text == "continue":
            self.i += 1
            return Node("continue", self.i - 1, self.i - 1)
        if p.text == "|" or (p.kind == "ident" and p.text == "move" and self.peek(1).text == "|"):
            self.err("closures are not supported")
        lhs = self.parse_unary(nostruct)
        # a block-like expression statement ends the statement (`if .. {}` followed by `*x = ..`)
        if stmt and lhs.kind in ("if", "match", "block", "loop", "unsafe") and self.peek().text not in (".", "?"):
            return lhs
        return self.parse_binrest(lhs, minp, nostruct)

    def parse_binrest(self, lhs, minp, nostruct):
        while True:
            op, n = self.op_at(self.i)
            if op is None:
                p = self.peek()
                if p is not None and p.kind == "ident" and p.text == "as":
                    if 12 < minp:
                        return lhs
                    self.i += 1
                    self.skip_type()
                    lhs = Node("cast", lhs.a, self.i - 1, [lhs])
                    continue
                return lhs
            if op in ASSIGN:
                if minp > 1:
                    return lhs
                optok = (self.i, self.i + n - 1)
                self.i += n
                rhs = self.parse_expr(1, nostruct)     # right associative
                lhs = Node("assign", lhs.a, rhs.b, [lhs, rhs], op=op, optok=optok)
                continue
            if op in BINPREC:
                pr = BINPREC[op]
                if pr < minp:
                    return lhs
                # `|` / `||` at the start of a closure never follows a complete operand, so these are binary operators
                optok = (self.i, self.i + n - 1)
                self.i += n
                if op in ("..", "..=") and self.peek().text in (")", "]", "}", ";", ","):
                    lhs = Node("range", lhs.a, self.i - 1, [lhs])
                    continue
                rhs = self.parse_expr_prec(pr + 1, nostruct)
                lhs = Node("bin", lhs.a, rhs.b, [lhs, rhs], op=op, optok=optok)
                continue
            return lhs

    def parse_expr_prec(self, minp, nostruct):
        lhs = self.parse_unary(nostruct)
        return self.parse_binrest(lhs, minp, nostruct)

    def parse_unary(self, nostruct):
        p = self.peek()
        if p is None:
            self.err("expression expected")
        a = self.i
        op, n = self.op_at(self.i)
        if p.kind == "punct" and op in ("-", "!", "*", "&", "&&"):
            self.i += n
            if op in ("&", "&&") and self.at("mut"):
                self.i += 1
            e = self.parse_unary(nostruct)
            # `as` binds tighter than binary operators but looser than unary ones: handled by parse_binrest
            return Node("unary", a, e.b, [e], op=op)
        if p.kind == "ident" and p.text == "let":
            # let-chain operand in an `if` / `while` condition
            self.i += 1
            ids = self.skip_pattern_until({"="})
            self.eat("=")
            e = self.parse_expr_prec(5, True)
            n = Node("letcond", a, e.b, [e])
            n.name = [x.text for x in ids]
            return n
        return self.parse_postfix(self.parse_primary(nostruct), nostruct)

    def parse_postfix(self, e, nostruct):
        while True:
            p = self.peek()
            if p is None:
                return e
            if p.text == "?" and p.kind == "punct":
                self.i += 1
                e = Node("try", e.a, self.i - 1, [e])
                continue
            if p.text == "." and p.kind == "punct" and self.op_at(self.i)[0] != "..":
                q = self.peek(1)
                if q.kind == "ident" and q.text == "await":
                    self.err("await")
                if q.kind == "num":
                    self.i += 2
                    e = Node("field", e.a, self.i - 1, [e], name=q.text)
                    continue
                if q.kind != "ident":
                    self.err("field or method expected")
                self.i += 2
                if self.op_at(self.i)[0] == "::":
                    self.i += 2
                    self.skip_angle()
                if self.at("("):
                    args = self.parse_args()
                    e = Node("mcall", e.a, self.i - 1, [e] + args, name=q.text)
                else:
                    e = Node("field", e.a, self.i - 1, [e], name=q.text)
                continue
            if p.text == "(" and p.kind == "punct":
                args = self.parse_args()
                e = Node("call", e.a, self.i - 1, [e] + args, name=e.name if e.kind == "path" else None)
                continue
            if p.text == "[" and p.kind == "punct":
                self.i += 1
                ix = self.parse_expr()
                self.eat("]")
                e = Node("index", e.a, self.i - 1, [e, ix])
                continue
            return e

    def parse_args(self):
        self.eat("(")
        args = []
        while not self.at(")"):
            args.append(self.parse_expr())
            if self.at(","):
                self.i += 1
        self.eat(")")
        return args

    def parse_primary(self, nostruct):
        p = self.peek()
        a = self.i
        if p.kind in ("num", "str", "char"):
            self.i += 1
            return Node("lit", a, a)
        if p.kind == "lifetime":
            # labelled loop / block
            self.i += 1
            self.eat(":")
            return self.parse_primary(nostruct)
        if p.kind == "punct":
            if p.text == "(":
                self.i += 1
                kids = []
                trailing = False
                while not self.at(")"):
                    kids.append(self.parse_expr())
                    trailing = False
                    if self.at(","):
                        self.i += 1
                        trailing = True
                self.eat(")")
                if len(kids) == 1 and not trailing:
                    return Node("paren", a, self.i - 1, kids)
                return Node("tuple", a, self.i - 1, kids)
            if p.text == "[":
                self.i += 1
                kids = []
                while not self.at("]"):
                    kids.append(self.parse_expr())
                    if self.at(",") or self.at(";"):
                        self.i += 1
                self.eat("]")
                return Node("array", a, self.i - 1, kids)
            if p.text == "{":
                return self.parse_block()
            if p.text == "<":
                # qualified path `<T as Trait>::f`
                self.skip_angle()
                return self.parse_path_rest(a, nostruct)
            if self.op_at(self.i)[0] == "::":
                return self.parse_path_rest(a, nostruct)
            self.err("unexpected `%s`" % p.text)
        # identifiers / keywords
        if p.text == "if":
            self.i += 1
            cond = self.parse_expr(0, True)
            then = self.parse_block()
            kids = [cond, then]
            if self.at("else"):
                self.i += 1
                if self.at("if"):
                    kids.append(self.parse_primary(nostruct))
                else:
                    kids.append(self.parse_block())
            return Node("if", a, self.i - 1, kids)
        if p.text == "match":
            self.i += 1
            scrut = self.parse_expr(0, True)
            kids = [scrut]
            self.eat("{")
            while not self.at("}"):
                if self.at("#") and self.peek(1).text == "[":
                    self.i = self.close_of(self.i + 1) + 1
                    continue
                ids = self.skip_pattern_until({"=>", "if"})
                guard = None
                if self.at("if"):
                    self.i += 1
                    guard = self.parse_expr(0, False)
                if self.op_at(self.i)[0] != "=>":
                    self.err("expected `=>`")
                self.i += 2
                body = self.parse_expr(stmt=False) if not self.at("{") else self.parse_postfix_block()
                arm = Node("arm", body.a, body.b, ([guard] if guard else []) + [body])
                arm.name = [x.text for x in ids]
                kids.append(arm)
                if self.at(","):
                    self.i += 1
            self.eat("}")
            return Node("match", a, self.i - 1, kids)
        if p.text in ("loop", "unsafe"):
            self.i += 1
            b = self.parse_block()
            return Node("loop" if p.text == "loop" else "unsafe", a, b.b, [b])
        if p.text == "while":
            self.i += 1
            cond = self.parse_expr(0, True)
            b = self.parse_block()
            return Node("loop", a, b.b, [cond, b])
        if p.text == "for":
            self.i += 1
            ids = self.skip_pattern_until({"in"})
            self.eat("in")
            it = self.parse_expr(0, True)
            b = self.parse_block()
            n = Node("loop", a, b.b, [it, b])
            n.name = [x.text for x in ids]
            return n
        if p.kind == "ident":
            return self.parse_path_rest(a, nostruct)
        self.err("unexpected token")

    def parse_postfix_block(self):
        """match-arm body that starts with `{`: a block, possibly followed by postfix/binary operators (rare)"""
        b = self.parse_block()
        if self.at(",") or self.at("}"):
            return b
        # rustfmt never emits `{ .. }.foo()` as an arm; a following pattern starts the next arm
        return b

    def parse_path_rest(self, a, nostruct):
        # path segments with optional turbofish
        while True:
            p = self.peek()
            if p is not None and p.kind == "ident":
                self.i += 1
            if self.op_at(self.i)[0] == "::":
                self.i += 2
                if self.at("<"):
                    self.skip_angle()
                    if self.op_at(self.i)[0] == "::":
                        self.i += 2
                continue
            break
        b = self.i - 1
        name = "".join(x.text for x in self.t[a:b + 1])
        if self.at("!") and self.op_at(self.i)[0] == "!" and self.peek(1).text in OPEN:
            e = self.close_of(self.i + 1)
            self.i = e + 1
            return Node("macro", a, e, name=name)
        if self.at("{") and not nostruct and (name[:1].isupper() or "::" in name) and self._looks_like_struct_lit():
            e = self.close_of(self.i)
            # fields: `name: expr` / shorthand / `..base`
            self.i += 1
            kids = []
            while not self.at("}"):
                if self.op_at(self.i)[0] == "..":
                    self.i += 2
                    kids.append(self.parse_expr())
                else:
                    self.i += 1           # field name
                    if self.at(":"):
                        self.i += 1
                        kids.append(self.parse_expr())
                if self.at(","):
                    self.i += 1
            self.eat("}")
            return Node("struct", a, self.i - 1, kids, name=name)
        return Node("path", a, b, name=name)

    def _looks_like_struct_lit(self):
        q1, q2 = self.peek(1), self.peek(2)
        if q1 is None:
            return False
        if q1.text == "}":
            return True
        if q1.kind == "ident" and q2 is not None and (q2.text in (":", ",", "}")) and not (q2.text == ":" and self.peek(3) is not None and self.peek(3).text == ":"):
            return True
        return self.op_at(self.i + 1)[0] == ".."


class DesugarCfg:
    def __init__(self, big_fns=(), big_methods=(), big_fields=(), big_idents=(), big_recv_methods=()):
        self.big_fns = set(big_fns)                    # full path text of calls whose result is a big integer (`b0`, `BigUint::from`)
        self.big_methods = set(big_methods)            # method names whose result is a big integer whatever the receiver
        self.big_fields = set(big_fields)              # field names holding big integers
        self.big_idents = set(big_idents)              # parameters / captured names that are big integers
        self.big_recv_methods = set(big_recv_methods)  # "recv.method" texts, e.g. "mask_cache.get"


def desugar_ops(item, cfg, rule="ED"):
    """rewrite overloaded operators with a big-integer operand into trait-method calls (see module doc). Returns #rewrites."""
    ps = Parser(item)
    # position the parser at the body's opening brace
    bo = item._toks[item.body_open]
    ps.i = next(k for k, t in enumerate(ps.t) if t.start == bo.start)
    root = ps.parse_block()
    if ps.t[root.b].start != item._toks[item.body_close].start:
        raise ExtractError("%s: rule %s: parser did not consume the whole body" % (item.name, rule))
    text = item.orig
    skip = sorted((s, e) for (s, e, _) in item._repl)
    edits = []

    def span(n):
        return ps.t[n.a].start, ps.t[n.b].end

    def src(n):
        s, e = span(n)
        return text[s:e]

    def in_skip(n):
        s, e = span(n)
        for a, b in skip:
            if a <= s and e <= b:
                return True
            if s < b and a < e and not (s <= a and b <= e):
                raise ExtractError("%s: rule %s: expression straddles an earlier rewrite" % (item.name, rule))
        return False

    def letcond_names(n):
        out = list(n.name) if n.kind == "letcond" else []
        for c in n.kids:
            if isinstance(c, Node):
                out += letcond_names(c)
        return out

    def walk(n, env):
        """sets n.big; env: dict name -> bool (copied at block boundaries)"""
        k = n.kind
        if k == "block":
            env = dict(env)
            big = False
            for s in n.kids:
                walk(s, env)
                if s.kind == "tail":
                    big = s.kids[0].big
                elif s.kind == "let":
                    init_big = bool(s.kids) and s.kids[0].big
                    kind, names = s.name
                    if kind == "simple":
                        env[names] = init_big
                    else:
                        for nm in names:
                            env[nm] = False
            n.big = big
            return
        if k in ("let", "exprstmt", "tail", "return", "break", "try", "cast", "range", "letcond", "array", "tuple", "struct", "index", "loop", "unsafe", "item", "continue"):
            for c in n.kids:
                walk(c, env)
            n.big = False
            if k == "try" and n.kids:
                n.big = n.kids[0].big
            if k == "unsafe":
                n.big = n.kids[0].big
            return
        if k == "lit" or k == "macro":
            return
        if k == "path":
            n.big = env.get(n.name, n.name in cfg.big_idents)
            return
        if k in ("paren", "unary"):
            walk(n.kids[0], env)
            n.big = n.kids[0].big and (k == "paren" or n.op in ("*", "&", "&&"))
            return
        if k == "field":
            walk(n.kids[0], env)
            n.big = n.name in cfg.big_fields
            return
        if k == "mcall":
            for c in n.kids:
                walk(c, env)
            recv = n.kids[0]
            n.big = (n.name in cfg.big_methods) or (n.name in PROPAGATE_METHODS and recv.big) or \
                ("%s.%s" % (_norm(src(recv)), n.name) in cfg.big_recv_methods)
            return
        if k == "call":
            for c in n.kids:
                walk(c, env)
            fn = n.name or ""
            n.big = fn in cfg.big_fns or (fn in PROPAGATE_FNS and len(n.kids) > 1 and n.kids[1].big)
            return
        if k == "if":
            walk(n.kids[0], env)
            env2 = dict(env)
            for nm in letcond_names(n.kids[0]):
                env2[nm] = False
            walk(n.kids[1], env2)
            for c in n.kids[2:]:
                walk(c, env)
            n.big = n.kids[1].big
            return
        if k == "match":
            walk(n.kids[0], env)
            for arm in n.kids[1:]:
                e2 = dict(env)
                for nm in arm.name:
                    e2[nm] = False
                for c in arm.kids:
                    walk(c, e2)
            n.big = False
            return
        if k == "bin":
            l, r = n.kids
            walk(l, env)
            walk(r, env)
            if n.op in ARITH and (l.big or r.big):
                n.big = True
                if not in_skip(n):
                    tr, me = ARITH[n.op]
                    edits.append(("bin", n, "core::ops::%s::%s(" % (tr, me)))
            return
        if k == "assign":
            l, r = n.kids
            walk(l, env)
            walk(r, env)
            if n.op != "=" and (l.big or r.big) and not in_skip(n):
                tr, me = ARITH[n.op[:-1]]
                edits.append(("assign", n, "core::ops::%sAssign::%s_assign(&mut " % (tr, me)))
            return
        raise ExtractError("%s: rule %s: unhandled node kind %s" % (item.name, rule, k))

    walk(root, {})
    if not edits:
        return 0
    chosen = {id(n): (kind, prefix) for kind, n, prefix in edits}

    def place_ok(n):
        """assignment targets we hoist the right operand over: a path, field access or dereference thereof (no side effects)"""
        if n.kind == "path":
            return True
        if n.kind in ("field", "paren"):
            return place_ok(n.kids[0])
        if n.kind == "unary" and n.op == "*":
            return place_ok(n.kids[0])
        return False

    def render_span(s, e, subs):
        """original text of [s,e) with the non-overlapping substitutions `subs` and the earlier rewrites inside the gaps applied"""
        out, pos = [], s
        old = [(a, b, t) for (a, b, t) in item._repl if s <= a and b <= e]
        # an earlier rewrite that covers a whole sub-expression wins over the (unchanged) sub-expression text
        subs = [(x, y, t) for (x, y, t) in subs if not any(a <= x and y <= b for (a, b, _) in old)]
        items = sorted(subs + [(a, b, t) for (a, b, t) in old if not any(x <= a and b <= y for (x, y, _) in subs)])
        for a, b, t in items:
            if a < pos:
                raise ExtractError("%s: rule %s: overlapping rewrites" % (item.name, rule))
            out.append(text[pos:a])
            out.append(t)
            pos = b
        out.append(text[pos:e])
        return "".join(out)

    def rewrite(n):
        s, e = span(n)
        kids = [c for c in n.kids if isinstance(c, Node) and c.kind != "item"]
        if id(n) in chosen:
            kind, prefix = chosen[id(n)]
            l, r = n.kids
            o0, o1 = ps.t[n.optok[0]].start, ps.t[n.optok[1]].end
            ls, le = span(l)
            rs, re_ = span(r)
            if kind == "bin":
                return prefix + rewrite(l) + text[le:o0] + "," + text[o1:rs] + rewrite(r) + ")"
            if not place_ok(l):
                raise ExtractError("%s: rule %s: compound assignment to a non-place expression" % (item.name, rule))
            # two-phase borrow of the implicit `&mut` made explicit: the right operand is evaluated into a temporary first
            return "{ let vp_rhs = " + rewrite(r) + "; " + prefix + rewrite(l) + ", vp_rhs) }"
        return render_span(s, e, [(span(c)[0], span(c)[1], rewrite(c)) for c in kids])

    def contains_chosen(n):
        return id(n) in chosen or any(contains_chosen(c) for c in n.kids if isinstance(c, Node))

    tops = []

    def collect(n):
        if id(n) in chosen:
            tops.append(n)
            return
        for c in n.kids:
            if isinstance(c, Node):
                collect(c)

    collect(root)
    for n in tops:
        s, e = span(n)
        new = rewrite(n)
        item._repl = [(a, b, t) for (a, b, t) in item._repl if not (s <= a and b <= e)]
        for (o, k, t) in item._ins:
            if s < o < e:
                raise ExtractError("%s: rule %s: an insertion lies inside a rewritten expression" % (item.name, rule))
        item._repl.append((s, e, new))
    ops = sorted({n.op for _, n, _ in edits})
    item.rules.append("%s: %d overloaded operator application(s) with a big-integer operand (%s) rewritten to the trait-method form the Rust reference "
                      "defines them as: `A op B` -> `core::ops::Tr::op(A, B)`; `A op= B` -> `{ let vp_rhs = B; core::ops::TrAssign::op_assign(&mut A, vp_rhs) }` "
                      "(A a place expression; the temporary makes the two-phase borrow of the implicit `&mut A` explicit)" % (rule, len(edits), " ".join(ops)))
    return len(edits)
