"""bigeval — IEEE 1800 operator evaluation in the big-integer (`Value::BigUint`) representation, ALL widths > 64 (C17 second half, C18).
Back end: Verus (unbounded in the width), with assumed mathematical contracts for the num-bigint operations (stub.rs + OPS below).
The <=64-bit half of the same functions is proved by Kani in units value64 / opeval against the same per-bit / arithmetic definitions."""
import importlib.util
import os
import re

from vp.core import VerusJob
from vp.verus_run import VerusFile
from vp.extract import ExtractError

_spec = importlib.util.spec_from_file_location("vp_bigeval_armx", os.path.join(os.path.dirname(os.path.abspath(__file__)), "armx.py"))
armx = importlib.util.module_from_spec(_spec)
_spec.loader.exec_module(armx)

V = "crates/analyzer/src/value.rs"
OP = "crates/analyzer/src/ir/op.rs"

HEADER = ("use vstd::prelude::*;\nuse vstd::arithmetic::power2::*;\nuse vstd::arithmetic::power::*;\nuse vstd::arithmetic::div_mod::*;\nuse vstd::arithmetic::mul::*;\n"
          "use vstd::std_specs::ops::*;\nuse vstd::std_specs::cmp::*;\nuse vstd::std_specs::convert::*;\n"
          "verus! {\nglobal size_of usize == 8;\n")

# ---------------------------------------------------------------------------------------------------------------------
# assumed contracts of the num-bigint operator impls (one row per operator form the extracted code uses)
# (trait, method, Self, Rhs, Output, precondition over a/b, result as a function of a/b)   a = value of self, b = value of rhs
# ---------------------------------------------------------------------------------------------------------------------
U, RU, I = "BigUint", "&BigUint", "BigInt"
BIN_SEM = {"Sub": ("{a} >= {b}", "({a} - {b}) as nat"), "Add": ("true", "{a} + {b}"), "Mul": ("true", "{a} * {b}"), "Div": ("{b} != 0", "{a} / {b}"), "Rem": ("{b} != 0", "{a} % {b}"),
           "BitAnd": ("true", "band({a}, {b})"), "BitOr": ("true", "bor({a}, {b})"), "BitXor": ("true", "bxor({a}, {b})")}
METHOD = {"Add": "add", "Sub": "sub", "Mul": "mul", "Div": "div", "Rem": "rem", "BitAnd": "bitand", "BitOr": "bitor", "BitXor": "bitxor", "Shl": "shl", "Shr": "shr"}
BIN_FORMS = [
    ("Add", RU, RU), ("Add", RU, U), ("Add", U, U), ("Add", U, RU),
    ("Mul", RU, RU), ("Div", RU, RU), ("Rem", RU, RU), ("Rem", U, RU), ("Sub", RU, RU),
    ("BitAnd", RU, RU), ("BitAnd", U, RU), ("BitAnd", U, U), ("BitAnd", RU, U),
    ("BitOr", RU, RU), ("BitOr", U, U), ("BitOr", U, RU), ("BitOr", RU, U),
    ("BitXor", RU, RU), ("BitXor", U, RU), ("BitXor", U, U), ("BitXor", RU, U),
]
ASSIGN_FORMS = [("BitAnd", RU), ("BitAnd", U), ("BitXor", RU), ("BitOr", RU), ("BitOr", U), ("Add", U)]


def _val(ty, name):
    return "bv(*%s)" % name if ty == RU else "bv(%s)" % name


def ops_text():
    out = ["// ---- assumed contracts of the num-bigint operator impls (generated from unit.py::BIN_FORMS/ASSIGN_FORMS) ----"]
    for tr, st, rt in BIN_FORMS:
        me = METHOD[tr]
        req, sem = BIN_SEM[tr]
        a, b = _val(st, "self"), _val(rt, "rhs")
        out.append("impl %sSpecImpl<%s> for %s {\n    open spec fn obeys_%s_spec() -> bool { false }\n"
                   "    open spec fn %s_req(self, rhs: %s) -> bool { %s }\n"
                   "    open spec fn %s_spec(self, rhs: %s) -> BigUint { arbitrary() }\n}" % (tr, rt, st, me, me, rt, req.format(a=a, b=b), me, rt))
        out.append("impl core::ops::%s<%s> for %s {\n    type Output = BigUint;\n    #[verifier::external_body]\n"
                   "    fn %s(self, rhs: %s) -> (r: BigUint)\n        ensures bv(r) == %s\n    { unimplemented!() }\n}" % (tr, rt, st, me, rt, sem.format(a=a, b=b)))
    for tr, rt in ASSIGN_FORMS:
        me = METHOD[tr]
        req, sem = BIN_SEM[tr]
        a, b = "bv(*old(self))", _val(rt, "rhs")
        out.append("impl %sAssignSpecImpl<%s> for BigUint {\n    open spec fn obeys_%s_assign_spec() -> bool { false }\n"
                   "    open spec fn %s_assign_req(&self, rhs: %s) -> bool { %s }\n"
                   "    open spec fn %s_assign_spec(&self, rhs: %s) -> &BigUint { arbitrary() }\n}" % (tr, rt, me, me, rt, req.format(a="bv(*self)", b=b), me, rt))
        out.append("impl core::ops::%sAssign<%s> for BigUint {\n    #[verifier::external_body]\n"
                   "    fn %s_assign(&mut self, rhs: %s)\n        ensures bv(*final(self)) == %s\n    { unimplemented!() }\n}" % (tr, rt, me, rt, sem.format(a=a, b=b)))
    # shifts: amount is a machine integer
    for tr, st, rt, sem in [("Shr", RU, "u32", "{a} / pow2(rhs as nat)")]:
        me = METHOD[tr]
        a = _val(st, "self")
        out.append("impl %sSpecImpl<%s> for %s {\n    open spec fn obeys_%s_spec() -> bool { false }\n"
                   "    open spec fn %s_req(self, rhs: %s) -> bool { true }\n"
                   "    open spec fn %s_spec(self, rhs: %s) -> BigUint { arbitrary() }\n}" % (tr, rt, st, me, me, rt, me, rt))
        out.append("impl core::ops::%s<%s> for %s {\n    type Output = BigUint;\n    #[verifier::external_body]\n"
                   "    fn %s(self, rhs: %s) -> (r: BigUint)\n        ensures bv(r) == %s\n    { unimplemented!() }\n}" % (tr, rt, st, me, rt, sem.format(a=a)))
    for tr, rt, sem in [("Shr", "usize", "{a} / pow2(rhs as nat)"), ("Shl", "usize", "{a} * pow2(rhs as nat)")]:
        me = METHOD[tr]
        out.append("impl %sAssignSpecImpl<%s> for BigUint {\n    open spec fn obeys_%s_assign_spec() -> bool { false }\n"
                   "    open spec fn %s_assign_req(&self, rhs: %s) -> bool { true }\n"
                   "    open spec fn %s_assign_spec(&self, rhs: %s) -> &BigUint { arbitrary() }\n}" % (tr, rt, me, me, rt, me, rt))
        out.append("impl core::ops::%sAssign<%s> for BigUint {\n    #[verifier::external_body]\n"
                   "    fn %s_assign(&mut self, rhs: %s)\n        ensures bv(*final(self)) == %s\n    { unimplemented!() }\n}" % (tr, rt, me, rt, sem.format(a="bv(*old(self))")))
    # BigInt truncating division / remainder
    for tr, sem in [("Div", "tdiv(iv(self), iv(rhs))"), ("Rem", "trem(iv(self), iv(rhs))")]:
        me = METHOD[tr]
        out.append("impl %sSpecImpl<BigInt> for BigInt {\n    open spec fn obeys_%s_spec() -> bool { false }\n"
                   "    open spec fn %s_req(self, rhs: BigInt) -> bool { iv(rhs) != 0 }\n"
                   "    open spec fn %s_spec(self, rhs: BigInt) -> BigInt { arbitrary() }\n}" % (tr, me, me, me))
        out.append("impl core::ops::%s<BigInt> for BigInt {\n    type Output = BigInt;\n    #[verifier::external_body]\n"
                   "    fn %s(self, rhs: BigInt) -> (r: BigInt)\n        ensures iv(r) == %s\n    { unimplemented!() }\n}" % (tr, me, sem))
    return "\n".join(out) + "\n"


TRUSTED = {
    r"pub struct BigUint": "S0: num_bigint::BigUint declared as an opaque type; its meaning is the uninterpreted natural number bv(b)",
    r"pub struct BigInt": "S0: num_bigint::BigInt declared as an opaque type; its meaning is the uninterpreted integer iv(b)",
    r"uninterp spec fn": "S0: bv / iv: the number a BigUint / BigInt denotes",
    r"fn eq\(&self, o: &Sign\)": "S0: Sign == Sign is constructor equality (derived PartialEq of num_bigint::Sign)",
    r"fn eq\(&self, o: &BigUint\)": "S0: BigUint == / != compares the denoted numbers",
    r"fn partial_cmp\(&self, o: &BigUint\)": "S0: BigUint < <= > >= compares the denoted numbers (total order)",
    r"fn eq\(&self, o: &BigInt\)": "S0: BigInt == compares the denoted integers",
    r"fn partial_cmp\(&self, o: &BigInt\)": "S0: BigInt < <= > >= compares the denoted integers (Option<BigInt> comparisons go through vstd's Option order: None < Some)",
    r"fn clone\(&self\) -> \(r: BigUint\)": "S0: BigUint::clone returns an equal value",
    r"fn clone\(&self\) -> \(r: Value": "E3': #[derive(Clone)] on ValueU64 / ValueBigUint / Value replaced by a trusted spec: the clone equals the original (field-wise clone; BigUint::clone as above)",
    r"fn to_usize\(&self\)": "S0: ToPrimitive::to_usize: u64 -> Some(v) (usize is 64 bit); BigUint -> Some(v) iff v <= usize::MAX",
    r"pub fn zero\(\)": "S0: BigUint::zero() / num_traits::zero() denote 0",
    r"pub fn one\(\)": "S0: BigUint::one() / num_traits::one() denote 1",
    r"pub fn bit\(&self": "S0: BigUint::bit(i) is bit i of the binary representation: (v / 2^i) % 2 == 1",
    r"pub fn from_slice": "S0: BigUint::from_slice(d) = sum d[i] * 2^(32 i) (little-endian base 2^32 digits)",
    r"pub fn count_ones": "S0: BigUint::count_ones = number of one bits",
    r"fn from\(v: u64\)": "S0: BigUint::from(u64) denotes the same number",
    r"pub fn from_biguint": "S0: BigInt::from_biguint(sign, mag) = -mag / 0 / +mag for Minus / NoSign / Plus",
    r"pub fn sign\(&self\)": "S0: BigInt::sign = Minus / NoSign / Plus for negative / zero / positive",
    r"pub fn magnitude": "S0: BigInt::magnitude = absolute value",
    r"pub fn as_ref\(&self\)": "S0: Cow::as_ref returns the borrowed or owned value",
    r"pub fn into_owned": "S0: Cow::into_owned returns the owned value, or a clone (equal value) of the borrowed one",
    r"fn add\(self": "S0: BigUint + BigUint (all reference forms): mathematical sum",
    r"fn mul\(self": "S0: BigUint * BigUint: mathematical product",
    r"fn sub\(self": "S0: &BigUint - &BigUint: natural subtraction; num-bigint panics if the result would be negative: a >= b is a precondition, proved at each use",
    r"pub fn is_zero": "S0: Zero::is_zero on BigUint: the denoted number is 0",
    r"pub fn modpow": "S0: BigUint::modpow(exp, modulus) = self^exp mod modulus (vstd pow), modulus non-zero (precondition)",
    r"fn from\(v: u32\)|fn from\(v: usize\)": "S0: BigUint::from(u32 / usize) denotes the same number",
    r"fn to_i64\(&self\)": "S0: ToPrimitive::to_i64: Some(v) iff v <= i64::MAX",
    r"\[i64::unsigned_abs\]": "O5: i64::unsigned_abs = |x| as u64 (2^63 for i64::MIN)",
    r"fn div\(self, rhs: &BigUint": "S0: BigUint / BigUint: floor division, divisor non-zero (precondition, proved at each use)",
    r"fn rem\(self, rhs: &BigUint": "S0: BigUint % BigUint: remainder of floor division, divisor non-zero (precondition)",
    r"fn div\(self, rhs: BigInt": "S0: BigInt / BigInt: quotient truncated toward zero, divisor non-zero (precondition)",
    r"fn rem\(self, rhs: BigInt": "S0: BigInt % BigInt: remainder with the sign of the dividend, divisor non-zero (precondition)",
    r"fn bitand\(self": "S0: BigUint & BigUint: bitwise and of the binary representations (spec fn band)",
    r"fn bitor\(self": "S0: BigUint | BigUint: bitwise or (spec fn bor)",
    r"fn bitxor\(self": "S0: BigUint ^ BigUint: bitwise exclusive or (spec fn bxor)",
    r"fn shr\(self": "S0: &BigUint >> u32: floor(v / 2^n)",
    r"fn bitand_assign": "S0: BigUint &= : as &",
    r"fn bitor_assign": "S0: BigUint |= : as |",
    r"fn bitxor_assign": "S0: BigUint ^= : as ^",
    r"fn add_assign": "S0: BigUint += : as +",
    r"fn shr_assign": "S0: BigUint >>= usize: floor(v / 2^n)",
    r"fn shl_assign": "S0: BigUint <<= usize: v * 2^n",
    r"pub fn get\(&mut self, width: usize\)": "E9': MaskCache::get outlined (HashMap entry API): returns a BigUint denoting 2^width - 1, i.e. what ValueBigUint::gen_mask(width) "
                                              "is proved to return (the HashMap memoisation is trusted)",
    r"pub struct MaskCache": "E9': MaskCache is opaque (its HashMap field is not modelled)",
    r"fn to_u64\(&self\)": "S0: ToPrimitive::to_u64: u64 -> Some(v); BigUint -> Some(v) iff v <= u64::MAX",
    r"fn default\(\) -> \(r: ValueBigUint\)": "E3': #[derive(Default)] on ValueBigUint replaced by a trusted spec: payload 0, mask 0, width 0, unsigned (BigUint::default() is zero)",
    r"fn vp_bool_to_u64": "O12: u64::from(bool): true -> 1, false -> 0",
    r"\[usize::min\]|\[<usize as Ord>::min\]": "O5: usize::min = the smaller one",
}

# ---------------------------------------------------------------------------------------------------------------------
# Value-level model (needs the extracted type definitions, so it is emitted after them)
# ---------------------------------------------------------------------------------------------------------------------
MODEL = r"""
impl Clone for ValueU64 {
    #[verifier::external_body]
    fn clone(&self) -> (r: ValueU64) ensures r == *self { unimplemented!() }
}
impl Clone for ValueBigUint {
    #[verifier::external_body]
    fn clone(&self) -> (r: ValueBigUint) ensures r == *self { unimplemented!() }
}
impl Clone for Value {
    #[verifier::external_body]
    fn clone(&self) -> (r: Value) ensures r == *self { unimplemented!() }
}
impl Default for ValueBigUint {
    #[verifier::external_body]
    fn default() -> (r: ValueBigUint) ensures bv(*r.payload) == 0, bv(*r.mask_xz) == 0, r.width == 0, !r.signed { unimplemented!() }
}

/// representation invariants (width 0 = the unsized all-bit literal '0 '1 'x 'z, always in the <=64-bit form)
pub open spec fn wf64(v: ValueU64) -> bool {
    if v.width == 0 { !v.signed && v.payload <= 1 && v.mask_xz <= 1 }
    else { v.width <= 64 && (v.payload as nat) < pow2(v.width as nat) && (v.mask_xz as nat) < pow2(v.width as nat) }
}
pub open spec fn wfb(v: ValueBigUint) -> bool {
    v.width > 64 && bv(*v.payload) < pow2(v.width as nat) && bv(*v.mask_xz) < pow2(v.width as nat)
}
pub open spec fn wf(v: Value) -> bool { match v { Value::U64(x) => wf64(x), Value::BigUint(x) => wfb(x) } }

pub open spec fn vp(v: Value) -> nat { match v { Value::U64(x) => x.payload as nat, Value::BigUint(x) => bv(*x.payload) } }
pub open spec fn vm(v: Value) -> nat { match v { Value::U64(x) => x.mask_xz as nat, Value::BigUint(x) => bv(*x.mask_xz) } }
pub open spec fn vw(v: Value) -> nat { match v { Value::U64(x) => x.width as nat, Value::BigUint(x) => x.width as nat } }
pub open spec fn vs(v: Value) -> bool { match v { Value::U64(x) => x.signed, Value::BigUint(x) => x.signed } }

/// IEEE 1800 11.8.2 operand extension of one plane (payload or mask) of a vw-bit vector to w bits; s = sign-extend.
/// vw == 0 is the all-bit literal: its single bit fills every position.
pub open spec fn ext_v(p: nat, vw: nat, w: nat, s: bool) -> nat {
    if vw == 0 { if p != 0 { low(w) } else { 0 } }
    else if vw >= w { p }
    else if s && bit(p, (vw - 1) as nat) { (p + pow2(w) - pow2(vw)) as nat }
    else { p }
}
pub open spec fn ext_p(v: Value, w: nat, sx: bool) -> nat { ext_v(vp(v), vw(v), w, sx && vs(v)) }
pub open spec fn ext_m(v: Value, w: nat, sx: bool) -> nat { ext_v(vm(v), vw(v), w, sx && vs(v)) }

/// the same extension bit by bit (this is opeval's `ext_bit`)
pub open spec fn ext_bit(v: Value, k: nat, sx: bool) -> B4 {
    if vw(v) == 0 { b4(vp(v), vm(v), 0) }
    else if k < vw(v) { b4(vp(v), vm(v), k) }
    else if sx && vs(v) { b4(vp(v), vm(v), (vw(v) - 1) as nat) }
    else { B4::Zero }
}

/// two's complement value of the w-bit pattern p
pub open spec fn sval(p: nat, w: nat) -> int { if w >= 1 && bit(p, (w - 1) as nat) { p - pow2(w) } else { p as int } }

/// a 1-bit result zero-extended to the context width
pub open spec fn is_bit_result(r: Value, w: nat, b: B4) -> bool {
    &&& wf(r) && vw(r) == w && !vs(r)
    &&& (w > 64) == (r is BigUint)
    &&& match b { B4::Zero => vp(r) == 0 && vm(r) == 0, B4::One => vp(r) == 1 && vm(r) == 0, _ => vp(r) == 0 && vm(r) == 1 }
}
/// 11.4.3 power operator: the exponent is negative (signed, sign position a known or z `1` in the payload plane)
pub open spec fn pow_neg_exp(y: Value) -> bool { vs(y) && vw(y) >= 1 && bit(vp(y), (vw(y) - 1) as nat) }
/// the integer the base denotes under the arm's own rule: two's complement if the (extended) base carries the signed flag
pub open spec fn pow_base(x: Value, w: nat, signed: bool) -> int {
    if (if vw(x) >= w { vs(x) } else { signed && vs(x) }) { sval(ext_p(x, w, signed), w) } else { ext_p(x, w, signed) as int }
}
pub open spec fn pow_post(r: Value, x: Value, y: Value, w: nat, signed: bool) -> bool {
    let xe = ext_p(x, w, signed);
    let xm = ext_m(x, w, signed);
    &&& wf(r) && vw(r) == w && ((w > 64) == (r is BigUint))
    &&& if vm(y) != 0 { all_x(r, w) }     // x/z anywhere in the exponent (its sign position included) -> all x (11.4.2)
        else if pow_neg_exp(y) {
            // Table 11-4, negative exponent: 0 -> x; 1 -> 1; -1 (signed expression) -> -1 if the exponent is odd else 1; anything else -> 0
            if xm != 0 || xe == 0 { all_x(r, w) }
            else if xe == 1 { vp(r) == 1 && vm(r) == 0 }
            else if signed && xe == low(w) { vm(r) == 0 && vp(r) == (if bit(vp(y), 0) { low(w) } else { 1 }) }
            else { vp(r) == 0 && vm(r) == 0 }
        } else if xm != 0 { all_x(r, w) }
        else { vp(y) <= usize::MAX ==> vm(r) == 0 && vp(r) as int == pow(pow_base(x, w, signed), vp(y)) % (pow2(w) as int) }
}
pub open spec fn all_x(r: Value, w: nat) -> bool { vw(r) == w && vp(r) == 0 && vm(r) == low(w) }
pub open spec fn bit1(b: B4) -> ValueU64 {
    match b { B4::Zero => ValueU64 { payload: 0, mask_xz: 0, width: 1, signed: false },
              B4::One => ValueU64 { payload: 1, mask_xz: 0, width: 1, signed: false },
              _ => ValueU64 { payload: 0, mask_xz: 1, width: 1, signed: false } }
}
"""

W32 = "width <= 0xffff_ffff"

# contracts of the helper functions: (impl, fn) -> dict(ret, spec, start, loops...)
HELPERS = [
    ("ValueU64", "new", dict(ret="r", spec="    requires %s,\n    ensures r.payload == payload, r.mask_xz == 0, r.width == width, r.signed == signed," % W32)),
    ("ValueU64", "gen_mask", dict(ret="r", spec="    ensures r as nat == low(if width >= 64 { 64 } else { width as nat }),",
                                  start="        proof { lemma_u64_mask(width as nat); }")),
    ("ValueU64", "new_x", dict(ret="r", spec="    requires %s,\n    ensures r.payload == 0, r.mask_xz as nat == low(if width >= 64 { 64 } else { width as nat }), r.width == width, r.signed == signed," % W32)),
    ("ValueU64", "is_xz", dict(ret="r", spec="    ensures r == (self.mask_xz != 0),")),
    ("ValueU64", "new_bit_1x", dict(ret="r", spec="    ensures r == bit1(if is_one { B4::One } else if is_x { B4::X } else { B4::Zero }),", start="        proof { lemma_pow2_small(); }")),
    ("ValueU64", "new_bit_0x", dict(ret="r", spec="    ensures r == bit1(if is_zero { B4::Zero } else if is_x { B4::X } else { B4::One }),", start="        proof { lemma_pow2_small(); }")),
    ("ValueU64", "new_bit_x1", dict(ret="r", spec="    ensures r == bit1(if is_x { B4::X } else if is_one { B4::One } else { B4::Zero }),", start="        proof { lemma_pow2_small(); }")),
    ("ValueU64", "to_usize", dict(ret="r", spec="    ensures r == (if self.mask_xz != 0 { None } else { Some(self.payload as usize) }),")),
    ("ValueU64", "to_i64", dict(ret="r", spec="    requires wf64(*self), self.width >= 1, self.signed,\n"
                                                 "    ensures r == (if self.mask_xz != 0 { None } else { Some(sval(self.payload as nat, self.width as nat) as i64) }),\n"
                                                 "        self.mask_xz == 0 ==> -0x8000_0000_0000_0000 <= sval(self.payload as nat, self.width as nat) <= 0x7fff_ffff_ffff_ffff,",
                                start="        proof { lemma_pow2_small(); lemma_low_lt(self.width as nat); lemma_pow2_le(self.width as nat, 64); lemma_sval_bound(self.payload as nat, self.width as nat); lemma_pow2_le((self.width - 1) as nat, 63); lemma2_to64_rest();\n"
                                      "            lemma_to_i64(self.payload, self.width as u64, low(self.width as nat) as u64); }")),
    ("ValueU64", "trunc", dict(spec="    requires %s,\n    ensures final(self).payload as nat == (old(self).payload as nat) %% pow2(width as nat), final(self).mask_xz as nat == (old(self).mask_xz as nat) %% pow2(width as nat),\n"
                                    "        final(self).width == width, final(self).signed == old(self).signed," % W32,
                               start="        proof { let m = if width >= 64 { 64nat } else { width as nat }; lemma_pow2_small(); lemma_low_lt(m); lemma_pow2_le(m, 64);\n"
                                     "            lemma_agree_bitops(self.payload, low(m) as u64); lemma_agree_bitops(self.mask_xz, low(m) as u64);\n"
                                     "            lemma_band_low(self.payload as nat, m); lemma_band_low(self.mask_xz as nat, m);\n"
                                     "            if width >= 64 { lemma_pow2_le(64, width as nat); lemma_small_mod(self.payload as nat, pow2(width as nat)); lemma_small_mod(self.mask_xz as nat, pow2(width as nat)); } }")),
    ("ValueBigUint", "gen_mask", dict(ret="r", spec="    ensures bv(r) == low(width as nat),", gen_mask=True)),
    ("ValueBigUint", "new_biguint", dict(ret="r", spec="    requires %s,\n    ensures bv(*r.payload) == bv(payload), bv(*r.mask_xz) == 0, r.width == width, r.signed == signed," % W32)),
    ("ValueBigUint", "new_x", dict(ret="r", spec="    requires %s,\n    ensures bv(*r.payload) == 0, bv(*r.mask_xz) == low(width as nat), r.width == width, r.signed == signed," % W32)),
    ("ValueBigUint", "is_xz", dict(ret="r", spec="    ensures r == (bv(*self.mask_xz) != 0),")),
    ("ValueBigUint", "payload", dict(ret="r", spec="    ensures *r == *self.payload,", boxref=1)),
    ("ValueBigUint", "mask_xz", dict(ret="r", spec="    ensures *r == *self.mask_xz,", boxref=1)),
    ("ValueBigUint", "to_bigint", dict(ret="r", spec="    requires wfb(*self),\n    ensures match r { None => bv(*self.mask_xz) != 0, Some(b) => bv(*self.mask_xz) == 0 && iv(b) == sval(bv(*self.payload), self.width as nat) },",
                                       boxref=2, desugar=1, start="        proof { lemma_neg(bv(*self.payload), self.width as nat); lemma_msb(bv(*self.payload), self.width as nat); lemma_pow2_pos((self.width - 1) as nat); }")),
    ("ValueBigUint", "new_bigint", dict(ret="r", spec="    requires %s, abs(iv(payload)) < pow2(width as nat),\n    ensures bv(*r.payload) as int == iv(payload) %% (pow2(width as nat) as int), bv(*r.payload) < pow2(width as nat), bv(*r.mask_xz) == 0, r.width == width, r.signed == signed," % W32,
                                        desugar=1, start="        proof { lemma_neg(abs(iv(payload)), width as nat); lemma_band_low(abs(iv(payload)), width as nat); }")),
    ("ValueBigUint", "gen_mask_range", dict(ret="r", spec="    requires beg < usize::MAX,\n    ensures forall|k: nat| #[trigger] bit(bv(r), k) == (end <= k && k <= beg),", desugar=1,
                                            start="        broadcast use lemma_band_bit, lemma_bxor_bit, lemma_low_bit;")),
    ("ValueBigUint", "trunc", dict(spec="    requires %s,\n    ensures bv(*final(self).payload) == bv(*old(self).payload) %% pow2(width as nat), bv(*final(self).mask_xz) == bv(*old(self).mask_xz) %% pow2(width as nat),\n"
                                        "        bv(*final(self).payload) < pow2(width as nat), bv(*final(self).mask_xz) < pow2(width as nat), final(self).width == width, final(self).signed == old(self).signed," % W32,
                                   desugar=1, start="        proof { lemma_band_low(bv(*self.payload), width as nat); lemma_band_low(bv(*self.mask_xz), width as nat); }")),
    ("ValueBigUint", "select", dict(ret="r", spec="    requires beg >= end ==> beg - end < 0xffff_ffff,\n"
                                                  "    ensures beg < end ==> bv(*r.payload) == 0 && bv(*r.mask_xz) == 0 && r.width == 0 && !r.signed,\n"
                                                  "        beg >= end ==> r.width == beg - end + 1 && !r.signed && bv(*r.payload) < pow2((beg - end + 1) as nat) && bv(*r.mask_xz) < pow2((beg - end + 1) as nat)\n"
                                                  "            && (forall|k: nat| #[trigger] bit(bv(*r.payload), k) == (k <= beg - end && bit(bv(*self.payload), (k + end) as nat)))\n"
                                                  "            && (forall|k: nat| #[trigger] bit(bv(*r.mask_xz), k) == (k <= beg - end && bit(bv(*self.mask_xz), (k + end) as nat))),",
                                    desugar=1, start="        proof { if beg >= end { lemma_select(bv(*self.payload), end as nat, (beg - end + 1) as nat); lemma_select(bv(*self.mask_xz), end as nat, (beg - end + 1) as nat); } }")),
    ("ValueBigUint", "assign", dict(spec="    requires wfb(*old(self)), end <= beg < old(self).width,\n"
                                         "    ensures wfb(*final(self)), final(self).width == old(self).width, final(self).signed == old(self).signed,\n"
                                         "        forall|k: nat| #[trigger] bit(bv(*final(self).payload), k) == (if end <= k && k <= beg { bit(bv(*value.payload), (k - end) as nat) } else { bit(bv(*old(self).payload), k) }),\n"
                                         "        forall|k: nat| #[trigger] bit(bv(*final(self).mask_xz), k) == (if end <= k && k <= beg { bit(bv(*value.mask_xz), (k - end) as nat) } else { bit(bv(*old(self).mask_xz), k) }),",
                                    desugar=1, start="        let ghost vp_p0 = bv(*self.payload); let ghost vp_m0 = bv(*self.mask_xz); let ghost vp_v0 = bv(*value.payload); let ghost vp_w0 = bv(*value.mask_xz);",
                                    ghost=[("        let inv_mask = ", "        proof { lemma_assign(vp_p0, vp_v0, self.width as nat, beg as nat, end as nat, bv(mask_range)); lemma_assign(vp_m0, vp_w0, self.width as nat, beg as nat, end as nat, bv(mask_range)); }\n", 1)])),
    ("ValueBigUint", "to_value_u64", dict(ret="r", spec="    ensures r == (if self.width <= 64 && bv(*self.payload) <= u64::MAX && bv(*self.mask_xz) <= u64::MAX {\n"
                                                        "            Some(ValueU64 { payload: bv(*self.payload) as u64, mask_xz: bv(*self.mask_xz) as u64, width: self.width, signed: self.signed }) } else { None }),")),
    ("ValueBigUint", "to_usize", dict(ret="r", spec="    ensures r == (if bv(*self.mask_xz) != 0 { None } else if bv(*self.payload) <= usize::MAX { Some(bv(*self.payload) as usize) } else { None }),")),
]



CFG = armx.DesugarCfg(
    big_fns={"b0", "b1", "zero", "one", "BigUint::from", "BigUint::zero", "BigUint::one", "ValueBigUint::gen_mask", "Self::gen_mask", "BigUint::from_slice"},
    big_methods={"payload", "mask_xz", "to_bigint", "magnitude", "modpow"}, big_fields={"payload", "mask_xz"}, big_recv_methods={"mask_cache.get"})
# Value::expand holds u64 `x.payload` and Box<BigUint> `ret.payload` side by side: fields are not taken as big there
CFG_NOFIELDS = armx.DesugarCfg(big_fns=CFG.big_fns, big_methods=CFG.big_methods, big_fields=(), big_recv_methods=CFG.big_recv_methods)

EXPAND_SPEC = """    requires wf(*self), width <= 0xffff_ffff,
    ensures ({ let q = r.val();
        &&& wf(q)
        &&& vw(*self) >= width && vw(*self) != 0 ==> q == *self
        &&& vw(q) == (if vw(*self) >= width && vw(*self) != 0 { vw(*self) } else { width as nat })
        &&& vp(q) == ext_p(*self, width as nat, use_sign) && vm(q) == ext_m(*self, width as nat, use_sign)
        &&& !(vw(*self) >= width && vw(*self) != 0) ==> vs(q) == (vw(*self) != 0 && use_sign && vs(*self)) && ((width > 64) == (q is BigUint))
    }),"""
EXPAND_START = """        proof {
            lemma_pow2_small();
            let xw = vw(*self); let w = width as nat;
            lemma_low_lt(w);
            if w <= 64 { lemma_pow2_le(w, 64); }
            if xw >= 1 && xw < w {
                lemma_sext(vp(*self), xw, w); lemma_sext(vm(*self), xw, w);
                lemma_pow2_pos((xw - 1) as nat);
                if let Value::U64(x) = self {
                    lemma_u64_bit(x.payload, (x.width - 1) as u64); lemma_u64_bit(x.mask_xz, (x.width - 1) as u64);
                    if w <= 64 {
                        lemma_low_lt(xw); lemma_pow2_le(xw, 64);
                        lemma_sext_u64(x.payload, xw as u64, w as u64, low(w) as u64, low(xw) as u64);
                        lemma_sext_u64(x.mask_xz, xw as u64, w as u64, low(w) as u64, low(xw) as u64);
                    }
                }
            }
        }"""

VALUE_HELPERS = [
    ("width", dict(ret="r", spec="    ensures r == vw(*self),")),
    ("signed", dict(ret="r", spec="    ensures r == vs(*self),")),
    ("is_xz", dict(ret="r", spec="    ensures r == (vm(*self) != 0),")),
    ("to_shift_amount", dict(ret="r", spec="    ensures r == (if vm(*self) != 0 { None } else if vp(*self) <= usize::MAX { Some(vp(*self) as usize) } else { Some(usize::MAX) }),")),
    ("expand", dict(ret="r", spec=EXPAND_SPEC, start=EXPAND_START, desugar=1, cfg=CFG_NOFIELDS,
                    eo=[("if msb | msb_xz {", "if msb || msb_xz {", 3)])),
]

LIT_P = "(if vp(%s) != 0 { low(%s) } else { 0 })"
LIT_M = "(if vm(%s) != 0 { low(%s) } else { 0 })"
VALUE_HELPERS += [
    ("select", dict(ret="r", kill=("Self::U64(x)", 1),
                    spec="    requires wf(*self), *self is BigUint, beg >= end ==> beg - end < 0xffff_ffff,\n"
                         "    ensures wf(r), beg < end ==> vw(r) == 0 && vp(r) == 0 && vm(r) == 0,\n"
                         "        beg >= end ==> vw(r) == beg - end + 1 && !vs(r) && ((r is U64) == (beg - end + 1 <= 64))\n"
                         "            && (forall|k: nat| k <= beg - end ==> #[trigger] b4(vp(r), vm(r), k) == b4(vp(*self), vm(*self), (k + end) as nat)),",
                    start="        proof { lemma_pow2_small(); if beg >= end && beg - end + 1 <= 64 { lemma_pow2_le((beg - end + 1) as nat, 64); } }")),
    ("trunc", dict(kill=None,
                   spec="    requires wf(*old(self)), 1 <= width <= 0xffff_ffff,\n"
                        "    ensures wf(*final(self)),\n"
                        "        vw(*old(self)) == 0 ==> vw(*final(self)) == width && vp(*final(self)) == %s && vm(*final(self)) == %s && !vs(*final(self)) && ((*final(self) is U64) == (width <= 64)),\n"
                        "        vw(*old(self)) != 0 && vw(*old(self)) <= width ==> *final(self) == *old(self),\n"
                        "        vw(*old(self)) > width ==> vw(*final(self)) == width && vp(*final(self)) == vp(*old(self)) %% pow2(width as nat) && vm(*final(self)) == vm(*old(self)) %% pow2(width as nat)\n"
                        "            && vs(*final(self)) == vs(*old(self)) && ((*final(self) is U64) == (width <= 64)),\n" % (LIT_P % ("*old(self)", "width as nat"), LIT_M % ("*old(self)", "width as nat")),
                   start="        proof { let w = width as nat; lemma_pow2_small(); lemma_low_lt(w); lemma_pow2_pos(w); if w <= 64 { lemma_pow2_le(w, 64); }\n"
                         "            lemma_mod_bound(vp(*self) as int, pow2(w) as int); lemma_mod_bound(vm(*self) as int, pow2(w) as int); }")),
    ("concat", dict(ret="r",
                    spec="    requires wf(*self), wf(*x), vw(*self) >= 1, vw(*x) >= 1, 64 < vw(*self) + vw(*x) <= 0xffff_ffff,\n"
                         "    ensures wf(r), r is BigUint, vw(r) == vw(*self) + vw(*x), !vs(r),\n"
                         "        vp(r) == vp(*self) * pow2(vw(*x)) + vp(*x), vm(r) == vm(*self) * pow2(vw(*x)) + vm(*x),\n"
                         "        forall|k: nat| k < vw(*self) + vw(*x) ==> #[trigger] b4(vp(r), vm(r), k) == (if k < vw(*x) { b4(vp(*x), vm(*x), k) } else { b4(vp(*self), vm(*self), (k - vw(*x)) as nat) }),",
                    start="        proof { lemma_concat(vp(*self), vp(*x), vw(*self), vw(*x)); lemma_concat(vm(*self), vm(*x), vw(*self), vw(*x)); }", desugar=1)),
    ("assign", dict(kill=("Self::U64(x)", 1),
                    spec="    requires wf(*old(self)), *old(self) is BigUint, wf(value), end <= beg < vw(*old(self)),\n"
                         "    ensures wf(*final(self)), *final(self) is BigUint, vw(*final(self)) == vw(*old(self)), vs(*final(self)) == vs(*old(self)),\n"
                         "        forall|k: nat| #[trigger] b4(vp(*final(self)), vm(*final(self)), k) == (if end <= k && k <= beg { b4(vp(value), vm(value), (k - end) as nat) } else { b4(vp(*old(self)), vm(*old(self)), k) }),")),
    ("set_value", dict(kill=("Self::U64(x)", 1),
                       spec="    requires wf(*old(self)), *old(self) is BigUint, wf(value),\n"
                            "    ensures wf(*final(self)), *final(self) is BigUint, vw(*final(self)) == vw(*old(self)), vs(*final(self)) == vs(*old(self)),\n"
                            "        vp(*final(self)) == (if vw(value) == 0 { %s } else { vp(value) %% pow2(vw(*old(self))) }),\n"
                            "        vm(*final(self)) == (if vw(value) == 0 { %s } else { vm(value) %% pow2(vw(*old(self))) }),\n" % (LIT_P % ("value", "vw(*old(self))"), LIT_M % ("value", "vw(*old(self))")),
                       start="        proof { let w = vw(*self); if vw(value) >= 1 && vw(value) <= w { lemma_pow2_le(vw(value), w); lemma_small_mod(vp(value), pow2(w)); lemma_small_mod(vm(value), pow2(w)); } }")),
]

# ---- operator arms --------------------------------------------------------------------------------------------------
BIN_HDR = "fn %s(x: &Value, y: &Value, width: usize, signed: bool, mask_cache: &mut MaskCache) -> (r: Value)"
UN_HDR = "fn %s(x: &Value, width: usize, signed: bool, mask_cache: &mut MaskCache) -> (r: Value)"
CTX_REQ = "    requires wf(*x), wf(*y), 64 < width <= 0xffff_ffff, vw(*x) <= width, vw(*y) <= width,\n"
XE, YE = "ext_p(*x, width as nat, signed)", "ext_p(*y, width as nat, signed)"
XM, YM = "ext_m(*x, width as nat, signed)", "ext_m(*y, width as nat, signed)"
ARITH_POST = ("    ensures r is BigUint, wf(r), vw(r) == width, vs(r) == signed,\n"
              "        (vm(*x) != 0 || vm(*y) != 0) ==> all_x(r, width as nat),\n"
              "        (vm(*x) == 0 && vm(*y) == 0) ==> vm(r) == 0 && %s,\n")
ARITH_START = ("        proof { let w = width as nat; lemma_low_lt(w); lemma_ext_nonzero(vm(*x), vw(*x), w, signed && vs(*x)); lemma_ext_nonzero(vm(*y), vw(*y), w, signed && vs(*y));\n"
               "            lemma_ext_bound(*x, w, signed); lemma_ext_bound(*y, w, signed);\n%s        }")
U64_2 = "(Value::U64(x), Value::U64(y))"
EO_XZ = [(r"if x\.is_xz\(\) \| y\.is_xz\(\) (\{\s*Value::BigUint)", r"if x.is_xz() || y.is_xz() \1", 1)]

ARMS = [
    dict(name="arm_add", fn="eval_value_binary", pat="Op::Add", kill=U64_2, eo=EO_XZ,
         spec=CTX_REQ + ARITH_POST % ("vp(r) == (%s + %s) %% pow2(width as nat)" % (XE, YE)),
         start=ARITH_START % ("            lemma_band_low(%s + %s, w);\n" % (XE, YE)),
         clause="any x/z -> all x; else (xe + ye) mod 2^w on the operands extended to w (11.4.2, 11.8.2)"),
]

SIGNED_REQ = "        signed ==> vs(*x) && vs(*y),\n"
SX, SY = "sval(%s, width as nat)" % XE, "sval(%s, width as nat)" % YE
DIV_START = ARITH_START % ("            lemma_sval_bound(%s, w); lemma_sval_bound(%s, w);\n"
                           "            if %s != 0 { lemma_div_small(%s, %s, w); lemma_tdiv_bound(%s, %s); }\n" % (XE, YE, YE, XE, YE, SX, SY))
ARMS += [
    dict(name="arm_sub", fn="eval_value_binary", pat="Op::Sub", kill=U64_2, eo=EO_XZ,
         spec=CTX_REQ + ARITH_POST % ("vp(r) as int == (%s as int - %s as int) %% (pow2(width as nat) as int)" % (XE, YE)),
         start=ARITH_START % ("            lemma_sub_mod(%s, %s, w);\n" % (XE, YE)),
         clause="any x/z -> all x; else (xe - ye) mod 2^w (11.4.2)"),
    dict(name="arm_mul", fn="eval_value_binary", pat="Op::Mul", kill=U64_2, eo=EO_XZ,
         spec=CTX_REQ + ARITH_POST % ("vp(r) == (%s * %s) %% pow2(width as nat)" % (XE, YE)),
         start=ARITH_START % ("            lemma_band_low(%s * %s, w);\n" % (XE, YE)),
         clause="any x/z -> all x; else (xe * ye) mod 2^w (two's complement product of the sign-extended operands) (11.4.2)"),
    dict(name="arm_div", fn="eval_value_binary", pat="Op::Div", kill=U64_2,
         spec=CTX_REQ + SIGNED_REQ +
         "    ensures r is BigUint, wf(r), vw(r) == width, vs(r) == signed,\n"
         "        (vm(*x) != 0 || vm(*y) != 0 || %s == 0) ==> all_x(r, width as nat),\n"
         "        (vm(*x) == 0 && vm(*y) == 0 && %s != 0) ==> vm(r) == 0 && (if signed { vp(r) as int == tdiv(%s, %s) %% (pow2(width as nat) as int) } else { vp(r) == %s / %s }),\n" % (YE, YE, SX, SY, XE, YE),
         start=DIV_START,
         clause="x/z or zero divisor -> all x; unsigned: floor(xe / ye); signed: quotient of the two's complement values truncated toward zero, modulo 2^w (11.4.2)"),
    dict(name="arm_rem", fn="eval_value_binary", pat="Op::Rem", kill=U64_2,
         spec=CTX_REQ + SIGNED_REQ +
         "    ensures r is BigUint, wf(r), vw(r) == width, vs(r) == signed,\n"
         "        (vm(*x) != 0 || vm(*y) != 0 || %s == 0) ==> all_x(r, width as nat),\n"
         "        (vm(*x) == 0 && vm(*y) == 0 && %s != 0) ==> vm(r) == 0 && (if signed { vp(r) as int == trem(%s, %s) %% (pow2(width as nat) as int) } else { vp(r) == %s %% %s }),\n" % (YE, YE, SX, SY, XE, YE),
         start=DIV_START,
         clause="x/z or zero divisor -> all x; unsigned: xe mod ye; signed: remainder with the sign of the dividend, modulo 2^w (11.4.2)"),
]

BITWISE_START = ("        broadcast use lemma_band_bit, lemma_bor_bit, lemma_bxor_bit, lemma_low_bit, lemma_bit_high;\n        proof { let w = width as nat; lemma_low_lt(w); lemma_ext_bound(*x, w, signed); lemma_ext_bound(*y, w, signed); }")
BITWISE_GHOST = [("                        Value::BigUint(ret)\n",
                  "                        proof { lemma_bits_bound(bv(*ret.mask_xz), width as nat); lemma_bits_bound(bv(*ret.payload), width as nat); }\n", 1)]


def bitwise(name, pat, table, clause):
    return dict(name=name, fn="eval_value_binary", pat=pat, kill=U64_2,
                spec=CTX_REQ + "    ensures r is BigUint, wf(r), vw(r) == width,\n"
                "        forall|k: nat| k < width ==> #[trigger] b4(vp(r), vm(r), k) == %s,\n" % (table % ("b4(%s, %s, k)" % (XE, XM), "b4(%s, %s, k)" % (YE, YM))),
                start=BITWISE_START, ghost=BITWISE_GHOST, clause=clause + " at every position k < w of the extended operands (11.4.8); result flag `signed` not constrained")


ARMS += [
    bitwise("arm_bitand", "Op::BitAnd", "b4_and(%s, %s)", "4-state AND table"),
    bitwise("arm_bitor", "Op::BitOr", "b4_or(%s, %s)", "4-state OR table"),
    bitwise("arm_bitxor", "Op::BitXor", "b4_xor(%s, %s)", "4-state XOR table"),
    bitwise("arm_bitxnor", "Op::BitXnor", "b4_not(b4_xor(%s, %s))", "4-state XNOR table"),
]

# self-determined comparison operators: operands are extended to W = max(widths); at least one operand is wider than 64 bits
CW = "(if vw(*x) >= vw(*y) { vw(*x) } else { vw(*y) })"
SELF_REQ = "    requires wf(*x), wf(*y), %s > 64, 1 <= width <= 0xffff_ffff,\n" % CW


def cmp_args(sx):
    return "ext_p(*x, %s, %s), ext_m(*x, %s, %s), ext_p(*y, %s, %s), ext_m(*y, %s, %s), %s" % (CW, sx, CW, sx, CW, sx, CW, sx, CW)


EQS = "(vs(*x) && vs(*y))"
CMP_START = ("        proof { let w = %s; let sx = %%s; lemma_low_lt(w); lemma_pow2_small(); lemma_pow2_le(1, width as nat);\n"
             "            lemma_ext_bound(*x, w, sx); lemma_ext_bound(*y, w, sx);\n%%s        }" % CW)
EQ_LEMMA = "            lemma_eq_mask(ext_p(*x, w, sx), ext_m(*x, w, sx), ext_p(*y, w, sx), ext_m(*y, w, sx), w); lemma_weq_mask(ext_p(*x, w, sx), ext_m(*x, w, sx), ext_p(*y, w, sx), ext_m(*y, w, sx), w);\n"
ARMS += [
    dict(name="arm_eq", fn="eval_value_binary", pat="Op::Eq", kill=U64_2,
         spec=SELF_REQ + "    ensures is_bit_result(r, width as nat, eq4(%s)),\n" % cmp_args(EQS), start=CMP_START % (EQS, EQ_LEMMA),
         clause="operands extended to max width (sign-extended iff both signed); some position known in both and different -> 0; else any x/z -> x; else 1; zero-extended to w (11.4.5)"),
    dict(name="arm_ne", fn="eval_value_binary", pat="Op::Ne", kill=U64_2,
         spec=SELF_REQ + "    ensures is_bit_result(r, width as nat, b4_not(eq4(%s))),\n" % cmp_args(EQS), start=CMP_START % (EQS, EQ_LEMMA),
         clause="negation of == (x stays x) (11.4.5)"),
    dict(name="arm_eq_wildcard", fn="eval_value_binary", pat="Op::EqWildcard", kill=U64_2,
         spec=SELF_REQ + "    ensures is_bit_result(r, width as nat, weq4(%s)),\n" % cmp_args(EQS), start=CMP_START % (EQS, EQ_LEMMA),
         clause="x/z positions of the right operand are not compared; known mismatch -> 0; else x/z of the left operand at a compared position -> x; else 1 (11.4.6)"),
    dict(name="arm_ne_wildcard", fn="eval_value_binary", pat="Op::NeWildcard", kill=U64_2,
         spec=SELF_REQ + "    ensures is_bit_result(r, width as nat, b4_not(weq4(%s))),\n" % cmp_args(EQS), start=CMP_START % (EQS, EQ_LEMMA),
         clause="negation of ==? (11.4.6)"),
]


def rel(name, pat, op, clause):
    post = ("    ensures is_bit_result(r, width as nat, if ext_m(*x, %s, signed) != 0 || ext_m(*y, %s, signed) != 0 { B4::X } else if "
            "(if signed { sval(ext_p(*x, %s, signed), %s) %s sval(ext_p(*y, %s, signed), %s) } else { ext_p(*x, %s, signed) %s ext_p(*y, %s, signed) }) { B4::One } else { B4::Zero }),\n"
            % (CW, CW, CW, CW, op, CW, CW, CW, op, CW))
    return dict(name=name, fn="eval_value_binary", pat=pat, kill=U64_2, spec=SELF_REQ + SIGNED_REQ + post, start=CMP_START % ("signed", ""),
                clause="operands extended to max width; any x/z -> x; else %s on the two's complement values if the comparison is signed (both operands signed), on the magnitudes otherwise; zero-extended to w (11.4.4)" % clause)


LOGIC_LEMMA = "            lemma_truth_mask(ext_p(*x, w, sx), ext_m(*x, w, sx), w); lemma_truth_mask(ext_p(*y, w, sx), ext_m(*y, w, sx), w);\n"
TX = "truth(ext_p(*x, %s, false), ext_m(*x, %s, false), %s)" % (CW, CW, CW)
TY = "truth(ext_p(*y, %s, false), ext_m(*y, %s, false), %s)" % (CW, CW, CW)
ARMS += [
    rel("arm_greater", "Op::Greater", ">", "x > y"),
    rel("arm_greater_eq", "Op::GreaterEq", ">=", "x >= y"),
    rel("arm_less", "Op::Less", "<", "x < y"),
    rel("arm_less_eq", "Op::LessEq", "<=", "x <= y"),
    dict(name="arm_logic_and", fn="eval_value_binary", pat="Op::LogicAnd", kill=U64_2,
         spec=SELF_REQ + "    ensures is_bit_result(r, width as nat, and4(%s, %s)),\n" % (TX, TY), start=CMP_START % ("false", LOGIC_LEMMA),
         clause="3-valued AND of the operands' truth values (true: some known 1; false: all bits known 0; else x); a definitely-false operand decides (11.4.7)"),
    dict(name="arm_logic_or", fn="eval_value_binary", pat="Op::LogicOr", kill=U64_2,
         spec=SELF_REQ + "    ensures is_bit_result(r, width as nat, or4(%s, %s)),\n" % (TX, TY), start=CMP_START % ("false", LOGIC_LEMMA),
         clause="3-valued OR of the operands' truth values (11.4.7)"),
]

SHIFT_REQ = "    requires wf(*x), wf(*y), 64 < width <= 0xffff_ffff, vw(*x) <= width, vw(*y) >= 1,\n"
SHIFT_START = ("        let ghost vp_s = vp(*y);\n        proof { let w = width as nat; lemma_low_lt(w); lemma_ext_bound(*x, w, signed); lemma_pow2_small();\n"
               "            lemma_msb_test(%s, (w - 1) as nat); lemma_msb_test(%s, (w - 1) as nat); }" % (XE, XM))
SH = "vp(*y)"


def shift(name, pat, body, clause, ghost, extra_req=""):
    return dict(name=name, fn="eval_value_binary", pat=pat, kill="Value::U64(x)",
                spec=SHIFT_REQ + extra_req + "    ensures r is BigUint, wf(r), vw(r) == width,\n        vm(*y) != 0 ==> all_x(r, width as nat),\n"
                "        vm(*y) == 0 ==> forall|k: nat| k < width ==> #[trigger] b4(vp(r), vm(r), k) == (%s),\n" % body,
                start=SHIFT_START,
                ghost=[("                            let ret = Value::BigUint(ret);\n", "                            proof { let w = width as nat; let s = vp_s;\n%s                            }\n" % ghost, 1)],
                clause="left operand extended to w; amount = the right operand read as unsigned, x/z amount -> all x; " + clause + " (11.4.10); result flag `signed` not constrained")


# in the ghost blocks `x` is the extended operand (a &ValueBigUint) and `y` the amount the code uses
G_SHL = ("                                lemma_shl(bv(*x.payload), w, y as nat, s); lemma_shl(bv(*x.mask_xz), w, y as nat, s);\n"
         "                                assert(bv(*ret.payload) == shl_val(bv(*x.payload), w, y as nat)); assert(bv(*ret.mask_xz) == shl_val(bv(*x.mask_xz), w, y as nat));\n")
G_SHR = "                                lemma_shr(bv(*x.payload), w, y as nat, s); lemma_shr(bv(*x.mask_xz), w, y as nat, s);\n"
G_ASHR = ("                                let mp = signed && bit(bv(*x.payload), (w - 1) as nat); let mm = signed && bit(bv(*x.mask_xz), (w - 1) as nat);\n"
          "                                lemma_ashr(bv(*x.payload), w, y as nat, s, mp); lemma_ashr(bv(*x.mask_xz), w, y as nat, s, mm);\n"
          "                                assert(bv(*ret.payload) == ashr_val(bv(*x.payload), w, y as nat, mp)); assert(bv(*ret.mask_xz) == ashr_val(bv(*x.mask_xz), w, y as nat, mm));\n")
LEFT = "if k >= %s { b4(%s, %s, (k - %s) as nat) } else { B4::Zero }" % (SH, XE, XM, SH)
ARMS += [
    shift("arm_shl", "Op::LogicShiftL", LEFT, "bit k = bit k-s of x, 0 below s (amounts >= w clear everything)", G_SHL),
    shift("arm_ashl", "Op::ArithShiftL", LEFT, "as <<", G_SHL),
    shift("arm_shr", "Op::LogicShiftR", "if k + %s < width { b4(%s, %s, k + %s) } else { B4::Zero }" % (SH, XE, XM, SH), "bit k = bit k+s of x, 0 from w-s up", G_SHR),
    shift("arm_ashr", "Op::ArithShiftR", "if k + %s < width { b4(%s, %s, k + %s) } else if signed { b4(%s, %s, (width - 1) as nat) } else { B4::Zero }" % (SH, XE, XM, SH, XE, XM),
          "bit k = bit k+s of x; vacated positions take the sign position (x/z included) when the result type is signed, else 0", G_ASHR, extra_req="        signed ==> vs(*x),\n"),
]

UN_REQ = "    requires wf(*x), 64 < width <= 0xffff_ffff, vw(*x) <= width,\n"
UN_START = "        broadcast use lemma_band_bit, lemma_bxor_bit, lemma_low_bit, lemma_bit_high;\n        proof { let w = width as nat; lemma_low_lt(w); lemma_ext_bound(*x, w, signed); lemma_ext_nonzero(vm(*x), vw(*x), w, signed && vs(*x)); lemma_neg(%s, w); }" % XE
P, M, W = "vp(*x)", "vm(*x)", "vw(*x)"
RED_REQ = "    requires wf(*x), *x is BigUint, 1 <= width <= 0xffff_ffff,\n"
RED_START = "        proof { lemma_low_lt(%s); lemma_pow2_small(); lemma_pow2_le(1, width as nat); lemma_known0_mask(%s, %s, %s); lemma_truth_mask(%s, %s, %s); }" % (W, P, M, W, P, M, W)
RAND = "(if exists|k: nat| k < %s && #[trigger] known0(%s, %s, k) { B4::Zero } else if %s != 0 { B4::X } else { B4::One })" % (W, P, M, M)
ROR = "truth(%s, %s, %s)" % (P, M, W)
RXOR = "(if %s != 0 { B4::X } else if popn(%s) %% 2 == 1 { B4::One } else { B4::Zero })" % (M, P)


def red(name, pat, b, clause):
    return dict(name=name, fn="eval_value_unary", pat=pat, kill="Value::U64(x)", into=("ret.into()" if "Xor" in pat or "Xnor" in pat else None), spec=RED_REQ + "    ensures is_bit_result(r, width as nat, %s),\n" % b, start=RED_START,
                clause="operand self-determined (a big-integer value); " + clause + "; 1-bit result zero-extended to w (11.4.9)")


ARMS += [
    dict(name="arm_u_plus", fn="eval_value_unary", pat="Op::Add", spec=UN_REQ + "    ensures wf(r), r is BigUint, vw(r) == width, vp(r) == %s, vm(r) == %s,\n" % (XE, XM), start=UN_START,
         clause="the operand extended to w (11.4.3)"),
    dict(name="arm_u_minus", fn="eval_value_unary", pat="Op::Sub", kill="Value::U64(x)",
         spec=UN_REQ + "    ensures r is BigUint, wf(r), vw(r) == width, vm(*x) != 0 ==> all_x(r, width as nat),\n"
         "        vm(*x) == 0 ==> vm(r) == 0 && vp(r) as int == (-(%s as int)) %% (pow2(width as nat) as int),\n" % XE, start=UN_START,
         clause="any x/z -> all x; else (-xe) mod 2^w (11.4.3)"),
    dict(name="arm_u_bitnot", fn="eval_value_unary", pat="Op::BitNot", kill="Value::U64(x)",
         spec=UN_REQ + "    ensures r is BigUint, wf(r), vw(r) == width,\n        forall|k: nat| k < width ==> #[trigger] b4(vp(r), vm(r), k) == b4_not(b4(%s, %s, k)),\n" % (XE, XM),
         start=UN_START, ghost=BITWISE_GHOST, clause="4-state NOT at every position of the extended operand (11.4.8)"),
    red("arm_red_and", "Op::BitAnd", RAND, "some known 0 -> 0; else any x/z -> x; else 1"),
    red("arm_red_nand", "Op::BitNand", "b4_not(%s)" % RAND, "negated reduction AND"),
    red("arm_red_or", "Op::BitOr", ROR, "some known 1 -> 1; else any x/z -> x; else 0"),
    red("arm_red_nor", "Op::BitNor | Op::LogicNot", "b4_not(%s)" % ROR, "negated reduction OR (also logical negation `!`)"),
    red("arm_red_xor", "Op::BitXor", RXOR, "any x/z -> x; else parity of the one bits"),
    red("arm_red_xnor", "Op::BitXnor", "b4_not(%s)" % RXOR, "negated parity"),
]

POW_REQ = ("    requires wf(*x), wf(*y), %s, vw(*x) <= width, vw(*y) >= 1, signed ==> vs(*x),\n"
           "    ensures pow_post(r, *x, *y, width as nat, signed),\n")
POW_START = ("        proof { let w = width as nat; lemma_low_lt(w); lemma_pow2_small(); lemma_ext_bound(*x, w, signed); lemma_band_low(%s, w); lemma_small_mod(%s, pow2(w));\n"
             "            lemma_sval_bound(%s, w); if w <= 64 { lemma_pow2_le(w, 64); lemma_pow2_le((w - 1) as nat, 63); lemma2_to64_rest(); lemma_agree_bitops(%s as u64, low(w) as u64); }\n"
             "            if let Value::U64(v) = y { lemma_u64_bit(v.payload, (v.width - 1) as u64); lemma_u64_bit(v.payload, 0); let p = v.payload; assert(p >> 0u64 == p) by (bit_vector); }\n"
             "        }" % (XE, XE, XE, XE))
ARMS += [
    dict(name="arm_pow_big", fn="eval_value_binary", pat="Op::Pow", kills=[("Value::U64(v)", 1), ("Value::U64(x)", 1)], boxref=2, cfg=CFG_NOFIELDS,
         spec=POW_REQ % "64 < width <= 0xffff_ffff", start=POW_START,
         clause="big-integer sub-arms (w > 64): x/z anywhere in the exponent -> all x; negative exponent -> Table 11-4 (0 -> all x, 1 -> 1, -1 in a signed expression -> -1/1 by exponent parity, else 0; x/z base -> all x); x/z exponent or base -> all x; "
                "else payload = (base as the two's complement / unsigned integer the arm uses)^exp mod 2^w for exponents that fit usize, mask 0; always payload < 2^w (11.4.3)"),
    dict(name="arm_pow_u64", fn="eval_value_binary", pat="Op::Pow", kills=[("Value::BigUint(v)", 1), ("Value::BigUint(x)", 1)], cfg=CFG_NOFIELDS,
         spec=POW_REQ % "1 <= width <= 64", start=POW_START,
         clause="the same contract for the <=64-bit sub-arms (which also go through BigUint::modpow): result in U64 form"),
]
# @@MORE_ARMS@@


HELPER_CLAUSES = {
    "representation invariant": "wf(v): U64 form: width 0 (all-bit literal, unsigned, payload/mask <= 1) or 1 <= width <= 64 with payload, mask_xz < 2^width; "
                                "BigUint form: width > 64 and bv(payload), bv(mask_xz) < 2^width. Every contract requires wf of the operands and ensures wf of the result.",
    "Value::expand": "for ALL widths (both representations): unchanged if already at least `width` wide (and sized); otherwise width' = width, payload/mask = ext_v(.., sign-extend iff use_sign && signed) "
                     "(zero / sign / x-z extension, all-bit literal fills every position), signed' = use_sign && signed, BigUint form iff width > 64; lemma_ext_bits: this is opeval's ext_bit position by position",
    "ValueBigUint::gen_mask": "denotes 2^width - 1 (loop over base-2^32 digits proved with the from_slice contract)",
    "ValueBigUint::to_bigint": "None iff any x/z; else the two's complement value sval(payload, width)",
    "ValueBigUint::new_bigint": "requires |v| < 2^width; payload = v mod 2^width (Euclidean), mask 0",
    "ValueBigUint::{new_biguint,new_x,is_xz,payload,mask_xz,to_usize}, ValueU64::{new,new_x,gen_mask,is_xz,new_bit_*,to_usize}, Value::{width,signed,is_xz,to_shift_amount}, b0, b1, resize":
        "field-level meaning (new_x: payload 0, mask 2^width - 1; gen_mask(u64) = 2^min(width,64) - 1; to_shift_amount: None iff x/z, else the value saturated at usize::MAX; resize == expand for operands not wider than the context)",
    "ValueBigUint::gen_mask_range": "bit k of the result is set iff end <= k <= beg (all beg < usize::MAX, all end)",
    "ValueBigUint::trunc / ValueU64::trunc": "payload' = payload mod 2^width, mask' = mask mod 2^width, width' = width, signed unchanged",
    "ValueBigUint::select": "beg < end: the default value (width 0, zero, unsigned); else width beg-end+1, UNSIGNED (11.8.1), payload/mask < 2^width, bit k == bit k+end of self for k <= beg-end (positions beyond the value read 0)",
    "ValueBigUint::assign": "requires wfb(self), end <= beg < width; bits end..=beg come from value bits 0.., every other bit unchanged (frame), width/signed unchanged, wfb preserved",
    "ValueBigUint::to_value_u64": "Some(the same fields as a ValueU64) iff width <= 64 and payload, mask fit 64 bits; else None",
    "Value::select": "self in BigUint form: wf(result); beg < end: width-0 zero; else width beg-end+1, unsigned, 4-state position k == position k+end of self, result in U64 form iff its width <= 64",
    "Value::trunc": "requires wf, width >= 1: all-bit literal -> its bit replicated over `width` positions (unsigned); self not wider than `width` -> unchanged; else payload, mask mod 2^width (position k kept for k < width, lemma_trunc_bits), "
                    "signed unchanged; in both changing cases the result is in U64 form iff width <= 64; wf(result)",
    "Value::concat": "both sized, total width in 65..2^32-1: result BigUint, unsigned, width = sum, {self, x} layout: position k < vw(x) from x, position k >= vw(x) from self at k - vw(x); value = self * 2^vw(x) + x",
    "Value::assign": "self in BigUint form, end <= beg < width, value any wf value: positions end..=beg = value positions 0.. (zero beyond the value's width), all other positions unchanged, width/signed/form unchanged, wf",
    "Value::set_value": "self in BigUint form (width W): width/signed/form of self unchanged; payload, mask = the value truncated to W (mod 2^W), zero-extended if narrower (NOT sign-extended), an all-bit literal replicated over W positions; wf",
    "pow_mod_width": "payload < 2^width and payload == (negative ? -mag : mag)^exp mod 2^width (Euclidean), i.e. the two's complement pattern of the signed power; all mag, exp, width",
    "ValueU64::to_i64": "requires wf, width >= 1, signed: None iff any x/z, else the two's complement value sval(payload, width)",
    "F-C17-pow-xz (fixed in /repo)": "Op::Pow used to apply Table 11-4 to an exponent with its sign position set even when the exponent contained x/z (4'sd2 ** 2'sb1x -> 0); "
                                     "the contract now states the IEEE rule for every exponent: any x/z bit -> all x",
    "agreement lemmas": "lemma_agree_bit / lemma_agree_bitops / lemma_agree_arith: a u64 word and the natural number it denotes have the same bits, nat-level and/or/xor are the machine operations, "
                        "wrapping add/sub/mul are the operations modulo 2^64 - so the contracts here, read at operands that fit 64 bits, are the functions opeval's reference computes on words",
}


def dev_build(ctx, res, only=None):
    return build(ctx, res)


def build(ctx, res):
    v, o = ctx.src(V), ctx.src(OP)
    vf = VerusFile(HEADER)
    items = []

    def add(it, label=None):
        items.append(it)
        vf.item(it, label)

    vf.raw(ctx.unit_file("bigeval", "spec.rs"), "spec")
    vf.raw(ctx.unit_file("bigeval", "stub.rs"), "stub")
    vf.raw(ops_text(), "ops")
    for name in ("ValueU64", "ValueBigUint"):
        s = v.item("struct", name)
        s.strip_derive("Clone", "Debug", "Default", "Hash", "PartialEq", "Eq", "PartialOrd", "Ord", "Serialize", "Deserialize")
        s.drop_attr(r"repr\(C\)", rule="E3")
        add(s)
    s = v.item("enum", "Value")
    s.strip_derive("Clone", "Debug", "Hash", "PartialEq", "Eq", "PartialOrd", "Ord", "Serialize", "Deserialize")
    add(s)
    s = v.item("struct", "MaskCache")
    s.strip_derive("Clone", "Debug", "Default")
    s.prepend("#[verifier::external_body]")
    add(s)
    vf.raw(MODEL, "model")
    vf.raw(ctx.unit_file("bigeval", "lemmas.rs"), "lemmas")
    expect = []
    cur = [None]

    def open_impl(name):
        if cur[0] != name:
            if cur[0] is not None:
                vf.raw("}", "impl")
            if name is not None:
                vf.raw("impl %s {" % name, "impl")
            cur[0] = name

    for impl, fn, c in HELPERS:
        open_impl(impl)
        f = v.item("fn", fn, impl=impl)
        if c.get("ret"):
            f.name_return(c["ret"])
        f.spec(c["spec"])
        for anchor, ghost, n in c.get("ghost", []):
            f.replace(anchor, ghost + anchor, count=n, rule="S-ghost: proof block before `%s`" % anchor.strip())
        if c.get("start"):
            f.at_start(c["start"])
        if c.get("boxref"):
            f.sub(r"self\.(payload|mask_xz)\.as_ref\(\)", r"vp_box_ref(&self.\1)", count=c["boxref"], rule="O11")
        if c.get("desugar"):
            if armx.desugar_ops(f, CFG) == 0:
                raise ExtractError("%s: rule ED found nothing to rewrite" % fn)
        if c.get("gen_mask"):
            f.replace("let mut ret = Vec::new();", "let mut ret: Vec<u32> = Vec::new();", rule="S-type: element type of the digit vector ascribed (it is inferred from from_slice(&[u32]) in the source)")
            f.loop_spec(0, "            invariant_except_break remaining + 32 * ret@.len() == width, digits32(ret@, ret@.len() as int) == low((32 * ret@.len()) as nat),\n"
                           "            ensures digits32(ret@, ret@.len() as int) == low(width as nat),\n"
                           "            decreases remaining,")
            f.before_loop(0, "        proof { lemma_pow2_small(); }")
            f.loop_body_start(0, "            let ghost vp_r0 = ret@;\n            proof { lemma_pow2_small(); if remaining < 32 { lemma_u32_mask(remaining as nat); } }")
            f.replace("                remaining -= 32;", "                remaining -= 32;\n                proof { lemma_digits_push(vp_r0, 0xffffffffu32, 32); }", rule="S-ghost: lemma call after the full-digit push")
            f.replace("                break;", "                proof { lemma_digits_push(vp_r0, ret@[ret@.len() - 1], remaining as nat); }\n                break;", rule="S-ghost: lemma call before `break`")
        add(f, "%s::%s" % (impl, fn))
        expect.append("%s::%s" % (impl, fn))
    # MaskCache::get: outlined
    open_impl("MaskCache")
    f = v.item("fn", "get", impl="MaskCache")
    f.name_return("r")
    f.spec("    ensures bv(*r) == low(width as nat),")
    f.prepend("#[verifier::external_body]")
    add(f, "MaskCache::get")
    open_impl("Value")
    for fn, c in VALUE_HELPERS:
        f = v.item("fn", fn, impl="Value")
        f.drop_attr(r"inline")
        if c.get("ret"):
            f.name_return(c["ret"])
        if c.get("kill"):
            armx.replace_sub_arm(f, c["kill"][0], "{ vp_unreachable() }", count=c["kill"][1],
                                 rule="EB: the <=64-bit arm (proved by Kani in unit value64) is replaced by a call with precondition `false`, which PROVES it unreachable under this contract")
        f.spec(c["spec"])
        if c.get("start"):
            f.at_start(c["start"])
        for old, new, n in c.get("eo", []):
            f.replace(old, new, count=n, rule="EO: non-short-circuit `|` on bools with a side-effect-free right operand -> `||` (Verus has no bool `|`)")
        if c.get("desugar"):
            armx.desugar_ops(f, c.get("cfg", CFG))
        add(f, "Value::%s" % fn)
        expect.append("Value::%s" % fn)
    open_impl(None)
    fns = {"eval_value_binary": o.item("fn", "eval_value_binary", impl="Op"), "eval_value_unary": o.item("fn", "eval_value_unary", impl="Op")}
    for name in ("b0", "b1"):
        f = o.item("fn", name)
        f.name_return("r")
        f.spec("    ensures bv(r) == %s," % name[1])
        add(f)
        expect.append(name)
    f = o.item("fn", "pow_mod_width")
    f.name_return("r")
    f.spec("    ensures bv(r) < pow2(width as nat),\n"
           "        bv(r) as int == pow(if negative { -(bv(*mag) as int) } else { bv(*mag) as int }, exp as nat) % (pow2(width as nat) as int),")
    f.at_start("    proof { lemma_low_lt(width as nat); lemma_pow2_pos(width as nat); lemma_pow_neg(bv(*mag) as int, exp as nat); lemma_pow_width(bv(*mag) as int, exp as nat, pow2(width as nat) as int); }")
    armx.desugar_ops(f, CFG)
    add(f)
    expect.append("pow_mod_width")
    f = armx.nested_fn(fns["eval_value_binary"], "resize")
    f.replace("-> std::borrow::Cow<'_, Value>", "-> (r: Cow<'_, Value>)", rule="E1 + S-ret: fully qualified std::borrow::Cow -> the unit's Cow declaration (stub.rs); return value named `r`")
    f.replace("std::borrow::Cow::Owned(t)", "Cow::Owned(t)", rule="E1: fully qualified std::borrow::Cow -> the unit's Cow declaration (stub.rs)")
    f.spec("    requires wf(*v), width <= 0xffff_ffff, vw(*v) <= width,\n" + EXPAND_SPEC.split("\n", 1)[1].replace("*self", "*v").replace("use_sign", "signed"))
    add(f, "resize")
    expect.append("resize")
    for a in ARMS:
        parent = fns[a["fn"]]
        hdr = (BIN_HDR if a["fn"] == "eval_value_binary" else UN_HDR) % a["name"]
        f = armx.match_arm(parent, "self", a["pat"], a["name"], hdr)
        for kp, kn in a.get("kills", []):
            armx.replace_sub_arm(f, kp, "{ vp_unreachable() }", count=kn, only_blocks=True,
                                 rule="EB: the sub-arm of the other representation is replaced by a call with precondition `false`, which PROVES it unreachable under this contract")
        if a.get("boxref"):
            f.sub(r"\b(v|x)\.payload\.as_ref\(\)", r"vp_box_ref(&\1.payload)", count=a["boxref"], rule="O11")
        if a.get("kill"):
            armx.replace_sub_arm(f, a["kill"], "{ vp_unreachable() }", count=a.get("kill_n", 1),
                                 rule="EB: the <=64-bit sub-arm (proved by Kani in unit opeval) is replaced by a call with precondition `false`, which PROVES it unreachable under this contract")
        for old, new, n in a.get("eo", []):
            f.sub(old, new, count=n, rule="EO: non-short-circuit `|` on bools with a side-effect-free right operand -> `||` (Verus has no bool `|`)")
        armx.desugar_ops(f, a.get("cfg", CFG))
        if a.get("into"):
            f.replace(a["into"], "vp_bool_to_u64(ret)", rule="O12: `b.into()` (bool -> u64) outlined to vp_bool_to_u64(b)")
        f.spec(a["spec"])
        if a.get("start"):
            f.at_start(a["start"])
        for anchor, ghost, n in a.get("ghost", []):
            f.replace(anchor, ghost + anchor, count=n, rule="S-ghost: proof block before `%s`" % anchor.strip())
        add(f, a["name"])
        expect.append(a["name"])
        res.clauses[a["name"]] = "%s (%s): %s" % (a["pat"], a["fn"], a["clause"])
    res.clauses.update(HELPER_CLAUSES)
    res.samples.append({"obligation": "verus:bigeval:arm_div", "contract": [a for a in ARMS if a["name"] == "arm_div"][0]["spec"]})
    res.samples.append({"obligation": "verus:bigeval:Value::expand", "contract": EXPAND_SPEC})
    res.notes.append("bigeval: arms are cut out of Op::eval_value_binary / eval_value_unary by rule EA (units/bigeval/armx.py::match_arm); the <=64-bit sub-arm of every arm is "
                     "proved unreachable (rule EB) under the contract's precondition; operator applications on big integers are rewritten to trait-method calls (rule ED) because "
                     "this Verus version fails internally on overloaded operators with reference operands; Op::Pow and Op::As are not under contract; "
                     "ghost blocks are anchored on statement text (re-indenting those statements makes the run undecided, not a violation)")
    text = vf.finish()
    lemmas = re.findall(r"^(?:pub )?(?:broadcast )?proof fn (lemma_\w+)", text, re.M)
    return [VerusJob("bigeval", text, vf, expect + lemmas, canaries=CANARIES, items=items, trusted=TRUSTED, rlimit=40, extra=["--num-threads", "2"])]


CANARIES = [
    ("vp_canary_wfb", "proof fn vp_canary_wfb(v: Value) requires wf(v), v is BigUint, vm(v) != 0, vp(v) != 0, vs(v) ensures false {}"),
    ("vp_canary_lit", "proof fn vp_canary_lit(v: Value, width: usize) requires wf(v), vw(v) == 0, vp(v) == 1, vm(v) == 1, 64 < width <= 0xffff_ffff ensures false {}"),
    ("vp_canary_ctx", "proof fn vp_canary_ctx(x: Value, y: Value, width: usize, signed: bool) requires wf(x), wf(y), 64 < width <= 0xffff_ffff, vw(x) <= width, vw(y) <= width, "
                      "signed, vs(x), vs(y), x is U64, y is BigUint, vm(x) == 0, vm(y) == 0, ext_p(y, width as nat, signed) != 0, bit(vp(x), (vw(x) - 1) as nat), vw(x) >= 2, vw(y) < width ensures false {}"),
    ("vp_canary_self", "proof fn vp_canary_self(x: Value, y: Value, width: usize, signed: bool) requires wf(x), wf(y), (if vw(x) >= vw(y) { vw(x) } else { vw(y) }) > 64, 1 <= width <= 0xffff_ffff, "
                       "signed, vs(x), vs(y), x is U64, vm(x) != 0, vw(y) > 100, width < 64 ensures false {}"),
    ("vp_canary_shift", "proof fn vp_canary_shift(x: Value, y: Value, width: usize, signed: bool) requires wf(x), wf(y), 64 < width <= 0xffff_ffff, vw(x) <= width, vw(y) >= 1, "
                        "signed, vs(x), vm(y) == 0, vp(y) > usize::MAX, vm(x) != 0 ensures false {}"),
    ("vp_canary_red", "proof fn vp_canary_red(x: Value, width: usize) requires wf(x), x is BigUint, 1 <= width <= 0xffff_ffff, vm(x) != 0, vp(x) != 0 ensures false {}"),
    ("vp_canary_bigint", "proof fn vp_canary_bigint(b: BigInt, width: usize) requires width <= 0xffff_ffff, abs(iv(b)) < pow2(width as nat), iv(b) < 0 ensures false {}"),
    ("vp_canary_select", "proof fn vp_canary_select(v: Value, beg: usize, end: usize) requires wf(v), v is BigUint, beg >= end, beg - end < 0xffff_ffff, beg - end + 1 <= 64, beg >= vw(v), vm(v) != 0, vs(v) ensures false {}"),
    ("vp_canary_trunc", "proof fn vp_canary_trunc(v: Value, width: usize) requires wf(v), v is BigUint, 1 <= width <= 64, vm(v) >= pow2(width as nat), vs(v) ensures false {}"),
    ("vp_canary_concat", "proof fn vp_canary_concat(a: Value, b: Value) requires wf(a), wf(b), a is U64, b is U64, vw(a) >= 1, vw(b) >= 1, 64 < vw(a) + vw(b) <= 0xffff_ffff, vm(a) != 0, vp(b) != 0 ensures false {}"),
    ("vp_canary_assign", "proof fn vp_canary_assign(v: Value, x: Value, beg: usize, end: usize) requires wf(v), v is BigUint, wf(x), x is U64, end <= beg < vw(v), vm(x) != 0, vw(x) > beg - end + 1 ensures false {}"),
    ("vp_canary_set_value", "proof fn vp_canary_set_value(v: Value, x: Value) requires wf(v), v is BigUint, wf(x), vw(x) == 0, vp(x) == 1, vm(x) == 1 ensures false {}"),
    ("vp_canary_pow", "proof fn vp_canary_pow(x: Value, y: Value, width: usize, signed: bool) requires wf(x), wf(y), 64 < width <= 0xffff_ffff, vw(x) <= width, vw(y) >= 1, signed ==> vs(x), "
                      "signed, !pow_neg_exp(y), vm(y) == 0, vm(x) == 0, vp(y) % 2 == 1, vp(y) > 64, bit(ext_p(x, width as nat, signed), (width - 1) as nat) ensures false {}"),
    ("vp_canary_pow_neg", "proof fn vp_canary_pow_neg(x: Value, y: Value, width: usize, signed: bool) requires wf(x), wf(y), 1 <= width <= 64, vw(x) <= width, vw(y) >= 1, signed ==> vs(x), "
                          "pow_neg_exp(y), vm(y) != 0, signed, ext_p(x, width as nat, signed) == low(width as nat), width >= 2 ensures false {}"),
    ("vp_canary_stub", "proof fn vp_canary_stub(a: BigUint, b: BigUint) requires bv(a) == 5, bv(b) == 3 ensures false { broadcast use lemma_band_bit, lemma_bor_bit, lemma_bxor_bit, lemma_low_bit, lemma_bit_high, lemma_mod_bit, lemma_shl_bit, lemma_shr_bit, lemma_bit0; }"),
]


def replay(ctx, res, f):
    """seeded native differential run: the ORIGINAL text of value.rs / op.rs (real num-bigint) against a bit-serial Vec<u8> reference"""
    from vp.core import native_search, NATIVE_RNG
    from units.common import valuelib as VL
    vtext, _ = VL.value_module(ctx)
    otext, _ = VL.op_module(ctx)
    body = "#![allow(unused, unexpected_cfgs, dead_code)]\n" + NATIVE_RNG + VL.PRELUDE + vtext + otext + ctx.unit_file("bigeval", "replay.rs")
    fn = getattr(f.get("obl"), "fn", None) or ""
    sel = fn if fn else "all"          # an arm: that operator only; a value primitive: the primitive tests; any other function: everything
    n = 6000 if sel.startswith("arm_") else 1500
    return native_search(ctx, "bigeval", "bigeval", body, args=[ctx.seed, sel, n], timeout=1500, deps=VL.DEPS)
