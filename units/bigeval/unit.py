"""bigeval — IEEE 1800 operator evaluation in the big-integer (`Value::BigUint`) representation, ALL widths > 64 (C17 second half, C18).
Back end: Verus (unbounded in the width), with assumed mathematical contracts for the num-bigint operations (stub.rs + OPS below).
The <=64-bit half of the same functions is proved by Kani in units value64 / opeval against the same per-bit / arithmetic definitions."""
import importlib.util
import os
import re

from vp.core import VerusJob
from vp.verus_run import VerusFile
from vp.extract import ExtractError

_spec = importlib.util.spec_from_file_location("vp_bigeval_armx", os.path.join(os.path.dirname(os.path.abspath(__file__)), "armx.py"))
armx = importlib.util.module_from_spec(_spec)
_spec.loader.exec_module(armx)

V = "crates/analyzer/src/value.rs"
OP = "crates/analyzer/src/ir/op.rs"

HEADER = ("use vstd::prelude::*;\nuse vstd::arithmetic::power2::*;\nuse vstd::arithmetic::div_mod::*;\nuse vstd::arithmetic::mul::*;\n"
          "use vstd::std_specs::ops::*;\nuse vstd::std_specs::cmp::*;\nuse vstd::std_specs::convert::*;\n"
          "verus! {\nglobal size_of usize == 8;\n")

# ---------------------------------------------------------------------------------------------------------------------
# assumed contracts of the num-bigint operator impls (one row per operator form the extracted code uses)
# (trait, method, Self, Rhs, Output, precondition over a/b, result as a function of a/b)   a = value of self, b = value of rhs
# ---------------------------------------------------------------------------------------------------------------------
U, RU, I = "BigUint", "&BigUint", "BigInt"
BIN_SEM = {"Add": ("true", "{a} + {b}"), "Mul": ("true", "{a} * {b}"), "Div": ("{b} != 0", "{a} / {b}"), "Rem": ("{b} != 0", "{a} % {b}"),
           "BitAnd": ("true", "band({a}, {b})"), "BitOr": ("true", "bor({a}, {b})"), "BitXor": ("true", "bxor({a}, {b})")}
METHOD = {"Add": "add", "Sub": "sub", "Mul": "mul", "Div": "div", "Rem": "rem", "BitAnd": "bitand", "BitOr": "bitor", "BitXor": "bitxor", "Shl": "shl", "Shr": "shr"}
BIN_FORMS = [
    ("Add", RU, RU), ("Add", RU, U), ("Add", U, U), ("Add", U, RU),
    ("Mul", RU, RU), ("Div", RU, RU), ("Rem", RU, RU),
    ("BitAnd", RU, RU), ("BitAnd", U, RU), ("BitAnd", U, U), ("BitAnd", RU, U),
    ("BitOr", RU, RU), ("BitOr", U, U), ("BitOr", U, RU), ("BitOr", RU, U),
    ("BitXor", RU, RU), ("BitXor", U, RU), ("BitXor", U, U), ("BitXor", RU, U),
]
ASSIGN_FORMS = [("BitAnd", RU), ("BitAnd", U), ("BitXor", RU), ("BitOr", RU), ("BitOr", U), ("Add", U)]


def _val(ty, name):
    return "bv(*%s)" % name if ty == RU else "bv(%s)" % name


def ops_text():
    out = ["// ---- assumed contracts of the num-bigint operator impls (generated from unit.py::BIN_FORMS/ASSIGN_FORMS) ----"]
    for tr, st, rt in BIN_FORMS:
        me = METHOD[tr]
        req, sem = BIN_SEM[tr]
        a, b = _val(st, "self"), _val(rt, "rhs")
        out.append("impl %sSpecImpl<%s> for %s {\n    open spec fn obeys_%s_spec() -> bool { false }\n"
                   "    open spec fn %s_req(self, rhs: %s) -> bool { %s }\n"
                   "    open spec fn %s_spec(self, rhs: %s) -> BigUint { arbitrary() }\n}" % (tr, rt, st, me, me, rt, req.format(a=a, b=b), me, rt))
        out.append("impl core::ops::%s<%s> for %s {\n    type Output = BigUint;\n    #[verifier::external_body]\n"
                   "    fn %s(self, rhs: %s) -> (r: BigUint)\n        ensures bv(r) == %s\n    { unimplemented!() }\n}" % (tr, rt, st, me, rt, sem.format(a=a, b=b)))
    for tr, rt in ASSIGN_FORMS:
        me = METHOD[tr]
        req, sem = BIN_SEM[tr]
        a, b = "bv(*old(self))", _val(rt, "rhs")
        out.append("impl %sAssignSpecImpl<%s> for BigUint {\n    open spec fn obeys_%s_assign_spec() -> bool { false }\n"
                   "    open spec fn %s_assign_req(&self, rhs: %s) -> bool { %s }\n"
                   "    open spec fn %s_assign_spec(&self, rhs: %s) -> &BigUint { arbitrary() }\n}" % (tr, rt, me, me, rt, req.format(a="bv(*self)", b=b), me, rt))
        out.append("impl core::ops::%sAssign<%s> for BigUint {\n    #[verifier::external_body]\n"
                   "    fn %s_assign(&mut self, rhs: %s)\n        ensures bv(*final(self)) == %s\n    { unimplemented!() }\n}" % (tr, rt, me, rt, sem.format(a=a, b=b)))
    # shifts: amount is a machine integer
    for tr, st, rt, sem in [("Shr", RU, "u32", "{a} / pow2(rhs as nat)")]:
        me = METHOD[tr]
        a = _val(st, "self")
        out.append("impl %sSpecImpl<%s> for %s {\n    open spec fn obeys_%s_spec() -> bool { false }\n"
                   "    open spec fn %s_req(self, rhs: %s) -> bool { true }\n"
                   "    open spec fn %s_spec(self, rhs: %s) -> BigUint { arbitrary() }\n}" % (tr, rt, st, me, me, rt, me, rt))
        out.append("impl core::ops::%s<%s> for %s {\n    type Output = BigUint;\n    #[verifier::external_body]\n"
                   "    fn %s(self, rhs: %s) -> (r: BigUint)\n        ensures bv(r) == %s\n    { unimplemented!() }\n}" % (tr, rt, st, me, rt, sem.format(a=a)))
    for tr, rt, sem in [("Shr", "usize", "{a} / pow2(rhs as nat)"), ("Shl", "usize", "{a} * pow2(rhs as nat)")]:
        me = METHOD[tr]
        out.append("impl %sAssignSpecImpl<%s> for BigUint {\n    open spec fn obeys_%s_assign_spec() -> bool { false }\n"
                   "    open spec fn %s_assign_req(&self, rhs: %s) -> bool { true }\n"
                   "    open spec fn %s_assign_spec(&self, rhs: %s) -> &BigUint { arbitrary() }\n}" % (tr, rt, me, me, rt, me, rt))
        out.append("impl core::ops::%sAssign<%s> for BigUint {\n    #[verifier::external_body]\n"
                   "    fn %s_assign(&mut self, rhs: %s)\n        ensures bv(*final(self)) == %s\n    { unimplemented!() }\n}" % (tr, rt, me, rt, sem.format(a="bv(*old(self))")))
    # BigInt truncating division / remainder
    for tr, sem in [("Div", "tdiv(iv(self), iv(rhs))"), ("Rem", "trem(iv(self), iv(rhs))")]:
        me = METHOD[tr]
        out.append("impl %sSpecImpl<BigInt> for BigInt {\n    open spec fn obeys_%s_spec() -> bool { false }\n"
                   "    open spec fn %s_req(self, rhs: BigInt) -> bool { iv(rhs) != 0 }\n"
                   "    open spec fn %s_spec(self, rhs: BigInt) -> BigInt { arbitrary() }\n}" % (tr, me, me, me))
        out.append("impl core::ops::%s<BigInt> for BigInt {\n    type Output = BigInt;\n    #[verifier::external_body]\n"
                   "    fn %s(self, rhs: BigInt) -> (r: BigInt)\n        ensures iv(r) == %s\n    { unimplemented!() }\n}" % (tr, me, sem))
    return "\n".join(out) + "\n"


TRUSTED = {
    r"pub struct BigUint": "S0: num_bigint::BigUint declared as an opaque type; its meaning is the uninterpreted natural number bv(b)",
    r"pub struct BigInt": "S0: num_bigint::BigInt declared as an opaque type; its meaning is the uninterpreted integer iv(b)",
    r"uninterp spec fn": "S0: bv / iv: the number a BigUint / BigInt denotes",
    r"fn eq\(&self, o: &Sign\)": "S0: Sign == Sign is constructor equality (derived PartialEq of num_bigint::Sign)",
    r"fn eq\(&self, o: &BigUint\)": "S0: BigUint == / != compares the denoted numbers",
    r"fn partial_cmp\(&self, o: &BigUint\)": "S0: BigUint < <= > >= compares the denoted numbers (total order)",
    r"fn eq\(&self, o: &BigInt\)": "S0: BigInt == compares the denoted integers",
    r"fn partial_cmp\(&self, o: &BigInt\)": "S0: BigInt < <= > >= compares the denoted integers (Option<BigInt> comparisons go through vstd's Option order: None < Some)",
    r"fn clone\(&self\) -> \(r: BigUint\)": "S0: BigUint::clone returns an equal value",
    r"fn clone\(&self\) -> \(r: Value": "E3': #[derive(Clone)] on ValueU64 / ValueBigUint / Value replaced by a trusted spec: the clone equals the original (field-wise clone; BigUint::clone as above)",
    r"fn to_usize\(&self\)": "S0: ToPrimitive::to_usize: u64 -> Some(v) (usize is 64 bit); BigUint -> Some(v) iff v <= usize::MAX",
    r"pub fn zero\(\)": "S0: BigUint::zero() / num_traits::zero() denote 0",
    r"pub fn one\(\)": "S0: BigUint::one() / num_traits::one() denote 1",
    r"pub fn bit\(&self": "S0: BigUint::bit(i) is bit i of the binary representation: (v / 2^i) % 2 == 1",
    r"pub fn from_slice": "S0: BigUint::from_slice(d) = sum d[i] * 2^(32 i) (little-endian base 2^32 digits)",
    r"pub fn count_ones": "S0: BigUint::count_ones = number of one bits",
    r"fn from\(v: u64\)": "S0: BigUint::from(u64) denotes the same number",
    r"pub fn from_biguint": "S0: BigInt::from_biguint(sign, mag) = -mag / 0 / +mag for Minus / NoSign / Plus",
    r"pub fn sign\(&self\)": "S0: BigInt::sign = Minus / NoSign / Plus for negative / zero / positive",
    r"pub fn magnitude": "S0: BigInt::magnitude = absolute value",
    r"pub fn as_ref\(&self\)": "S0: Cow::as_ref returns the borrowed or owned value",
    r"pub fn into_owned": "S0: Cow::into_owned returns the owned value, or a clone (equal value) of the borrowed one",
    r"fn add\(self": "S0: BigUint + BigUint (all reference forms): mathematical sum",
    r"fn mul\(self": "S0: BigUint * BigUint: mathematical product",
    r"fn div\(self, rhs: &BigUint": "S0: BigUint / BigUint: floor division, divisor non-zero (precondition, proved at each use)",
    r"fn rem\(self, rhs: &BigUint": "S0: BigUint % BigUint: remainder of floor division, divisor non-zero (precondition)",
    r"fn div\(self, rhs: BigInt": "S0: BigInt / BigInt: quotient truncated toward zero, divisor non-zero (precondition)",
    r"fn rem\(self, rhs: BigInt": "S0: BigInt % BigInt: remainder with the sign of the dividend, divisor non-zero (precondition)",
    r"fn bitand\(self": "S0: BigUint & BigUint: bitwise and of the binary representations (spec fn band)",
    r"fn bitor\(self": "S0: BigUint | BigUint: bitwise or (spec fn bor)",
    r"fn bitxor\(self": "S0: BigUint ^ BigUint: bitwise exclusive or (spec fn bxor)",
    r"fn shr\(self": "S0: &BigUint >> u32: floor(v / 2^n)",
    r"fn bitand_assign": "S0: BigUint &= : as &",
    r"fn bitor_assign": "S0: BigUint |= : as |",
    r"fn bitxor_assign": "S0: BigUint ^= : as ^",
    r"fn add_assign": "S0: BigUint += : as +",
    r"fn shr_assign": "S0: BigUint >>= usize: floor(v / 2^n)",
    r"fn shl_assign": "S0: BigUint <<= usize: v * 2^n",
    r"pub fn get\(&mut self, width: usize\)": "E9': MaskCache::get outlined (HashMap entry API): returns a BigUint denoting 2^width - 1, i.e. what ValueBigUint::gen_mask(width) "
                                              "is proved to return (the HashMap memoisation is trusted)",
    r"pub struct MaskCache": "E9': MaskCache is opaque (its HashMap field is not modelled)",
    r"\[usize::min\]|\[<usize as Ord>::min\]": "O5: usize::min = the smaller one",
}

# ---------------------------------------------------------------------------------------------------------------------
# Value-level model (needs the extracted type definitions, so it is emitted after them)
# ---------------------------------------------------------------------------------------------------------------------
MODEL = r"""
impl Clone for ValueU64 {
    #[verifier::external_body]
    fn clone(&self) -> (r: ValueU64) ensures r == *self { unimplemented!() }
}
impl Clone for ValueBigUint {
    #[verifier::external_body]
    fn clone(&self) -> (r: ValueBigUint) ensures r == *self { unimplemented!() }
}
impl Clone for Value {
    #[verifier::external_body]
    fn clone(&self) -> (r: Value) ensures r == *self { unimplemented!() }
}

/// representation invariants (width 0 = the unsized all-bit literal '0 '1 'x 'z, always in the <=64-bit form)
pub open spec fn wf64(v: ValueU64) -> bool {
    if v.width == 0 { !v.signed && v.payload <= 1 && v.mask_xz <= 1 }
    else { v.width <= 64 && (v.payload as nat) < pow2(v.width as nat) && (v.mask_xz as nat) < pow2(v.width as nat) }
}
pub open spec fn wfb(v: ValueBigUint) -> bool {
    v.width > 64 && bv(*v.payload) < pow2(v.width as nat) && bv(*v.mask_xz) < pow2(v.width as nat)
}
pub open spec fn wf(v: Value) -> bool { match v { Value::U64(x) => wf64(x), Value::BigUint(x) => wfb(x) } }

pub open spec fn vp(v: Value) -> nat { match v { Value::U64(x) => x.payload as nat, Value::BigUint(x) => bv(*x.payload) } }
pub open spec fn vm(v: Value) -> nat { match v { Value::U64(x) => x.mask_xz as nat, Value::BigUint(x) => bv(*x.mask_xz) } }
pub open spec fn vw(v: Value) -> nat { match v { Value::U64(x) => x.width as nat, Value::BigUint(x) => x.width as nat } }
pub open spec fn vs(v: Value) -> bool { match v { Value::U64(x) => x.signed, Value::BigUint(x) => x.signed } }

/// IEEE 1800 11.8.2 operand extension of one plane (payload or mask) of a vw-bit vector to w bits; s = sign-extend.
/// vw == 0 is the all-bit literal: its single bit fills every position.
pub open spec fn ext_v(p: nat, vw: nat, w: nat, s: bool) -> nat {
    if vw == 0 { if p != 0 { low(w) } else { 0 } }
    else if vw >= w { p }
    else if s && bit(p, (vw - 1) as nat) { (p + pow2(w) - pow2(vw)) as nat }
    else { p }
}
pub open spec fn ext_p(v: Value, w: nat, sx: bool) -> nat { ext_v(vp(v), vw(v), w, sx && vs(v)) }
pub open spec fn ext_m(v: Value, w: nat, sx: bool) -> nat { ext_v(vm(v), vw(v), w, sx && vs(v)) }

/// the same extension bit by bit (this is opeval's `ext_bit`)
pub open spec fn ext_bit(v: Value, k: nat, sx: bool) -> B4 {
    if vw(v) == 0 { b4(vp(v), vm(v), 0) }
    else if k < vw(v) { b4(vp(v), vm(v), k) }
    else if sx && vs(v) { b4(vp(v), vm(v), (vw(v) - 1) as nat) }
    else { B4::Zero }
}

/// two's complement value of the w-bit pattern p
pub open spec fn sval(p: nat, w: nat) -> int { if w >= 1 && bit(p, (w - 1) as nat) { p - pow2(w) } else { p as int } }

/// a 1-bit result zero-extended to the context width
pub open spec fn is_bit_result(r: Value, w: nat, b: B4) -> bool {
    &&& wf(r) && vw(r) == w && !vs(r)
    &&& (w > 64) == (r is BigUint)
    &&& match b { B4::Zero => vp(r) == 0 && vm(r) == 0, B4::One => vp(r) == 1 && vm(r) == 0, _ => vp(r) == 0 && vm(r) == 1 }
}
pub open spec fn all_x(r: Value, w: nat) -> bool { vw(r) == w && vp(r) == 0 && vm(r) == low(w) }
pub open spec fn bit1(b: B4) -> ValueU64 {
    match b { B4::Zero => ValueU64 { payload: 0, mask_xz: 0, width: 1, signed: false },
              B4::One => ValueU64 { payload: 1, mask_xz: 0, width: 1, signed: false },
              _ => ValueU64 { payload: 0, mask_xz: 1, width: 1, signed: false } }
}
"""

W32 = "width <= 0xffff_ffff"

# contracts of the helper functions: (impl, fn) -> dict(ret, spec, start, loops...)
HELPERS = [
    ("ValueU64", "new", dict(ret="r", spec="    requires %s,\n    ensures r.payload == payload, r.mask_xz == 0, r.width == width, r.signed == signed," % W32)),
    ("ValueU64", "gen_mask", dict(ret="r", spec="    ensures r as nat == low(if width >= 64 { 64 } else { width as nat }),",
                                  start="        proof { lemma_u64_mask(width as nat); }")),
    ("ValueU64", "new_x", dict(ret="r", spec="    requires %s,\n    ensures r.payload == 0, r.mask_xz as nat == low(if width >= 64 { 64 } else { width as nat }), r.width == width, r.signed == signed," % W32)),
    ("ValueU64", "is_xz", dict(ret="r", spec="    ensures r == (self.mask_xz != 0),")),
    ("ValueU64", "new_bit_1x", dict(ret="r", spec="    ensures r == bit1(if is_one { B4::One } else if is_x { B4::X } else { B4::Zero }),", start="        proof { lemma_pow2_small(); }")),
    ("ValueU64", "new_bit_0x", dict(ret="r", spec="    ensures r == bit1(if is_zero { B4::Zero } else if is_x { B4::X } else { B4::One }),", start="        proof { lemma_pow2_small(); }")),
    ("ValueU64", "new_bit_x1", dict(ret="r", spec="    ensures r == bit1(if is_x { B4::X } else if is_one { B4::One } else { B4::Zero }),", start="        proof { lemma_pow2_small(); }")),
    ("ValueU64", "to_usize", dict(ret="r", spec="    ensures r == (if self.mask_xz != 0 { None } else { Some(self.payload as usize) }),")),
    ("ValueBigUint", "gen_mask", dict(ret="r", spec="    ensures bv(r) == low(width as nat),", gen_mask=True)),
    ("ValueBigUint", "new_biguint", dict(ret="r", spec="    requires %s,\n    ensures bv(*r.payload) == bv(payload), bv(*r.mask_xz) == 0, r.width == width, r.signed == signed," % W32)),
    ("ValueBigUint", "new_x", dict(ret="r", spec="    requires %s,\n    ensures bv(*r.payload) == 0, bv(*r.mask_xz) == low(width as nat), r.width == width, r.signed == signed," % W32)),
    ("ValueBigUint", "is_xz", dict(ret="r", spec="    ensures r == (bv(*self.mask_xz) != 0),")),
    ("ValueBigUint", "payload", dict(ret="r", spec="    ensures *r == *self.payload,", boxref=1)),
    ("ValueBigUint", "mask_xz", dict(ret="r", spec="    ensures *r == *self.mask_xz,", boxref=1)),
    ("ValueBigUint", "to_bigint", dict(ret="r", spec="    requires wfb(*self),\n    ensures match r { None => bv(*self.mask_xz) != 0, Some(b) => bv(*self.mask_xz) == 0 && iv(b) == sval(bv(*self.payload), self.width as nat) },",
                                       boxref=2, desugar=1, start="        proof { lemma_neg(bv(*self.payload), self.width as nat); lemma_msb(bv(*self.payload), self.width as nat); lemma_pow2_pos((self.width - 1) as nat); }")),
    ("ValueBigUint", "new_bigint", dict(ret="r", spec="    requires %s, abs(iv(payload)) < pow2(width as nat),\n    ensures bv(*r.payload) as int == iv(payload) %% (pow2(width as nat) as int), bv(*r.payload) < pow2(width as nat), bv(*r.mask_xz) == 0, r.width == width, r.signed == signed," % W32,
                                        desugar=1, start="        proof { lemma_neg(abs(iv(payload)), width as nat); lemma_band_low(abs(iv(payload)), width as nat); }")),
    ("ValueBigUint", "to_usize", dict(ret="r", spec="    ensures r == (if bv(*self.mask_xz) != 0 { None } else if bv(*self.payload) <= usize::MAX { Some(bv(*self.payload) as usize) } else { None }),")),
]


CFG = armx.DesugarCfg(
    big_fns={"b0", "b1", "zero", "one", "BigUint::from", "BigUint::zero", "BigUint::one", "ValueBigUint::gen_mask", "Self::gen_mask", "BigUint::from_slice"},
    big_methods={"payload", "mask_xz", "to_bigint", "magnitude"}, big_fields={"payload", "mask_xz"}, big_recv_methods={"mask_cache.get"})


def dev_build(ctx, res, only=None):
    return build(ctx, res)


def build(ctx, res):
    v, o = ctx.src(V), ctx.src(OP)
    vf = VerusFile(HEADER)
    items = []

    def add(it, label=None):
        items.append(it)
        vf.item(it, label)

    vf.raw(ctx.unit_file("bigeval", "spec.rs"), "spec")
    vf.raw(ctx.unit_file("bigeval", "stub.rs"), "stub")
    vf.raw(ops_text(), "ops")
    for name in ("ValueU64", "ValueBigUint"):
        s = v.item("struct", name)
        s.strip_derive("Clone", "Debug", "Default", "Hash", "PartialEq", "Eq", "PartialOrd", "Ord", "Serialize", "Deserialize")
        s.drop_attr(r"repr\(C\)", rule="E3")
        add(s)
    s = v.item("enum", "Value")
    s.strip_derive("Clone", "Debug", "Hash", "PartialEq", "Eq", "PartialOrd", "Ord", "Serialize", "Deserialize")
    add(s)
    s = v.item("struct", "MaskCache")
    s.strip_derive("Clone", "Debug", "Default")
    s.prepend("#[verifier::external_body]")
    add(s)
    vf.raw(MODEL, "model")
    vf.raw(ctx.unit_file("bigeval", "lemmas.rs"), "lemmas")
    expect = []
    cur = [None]

    def open_impl(name):
        if cur[0] != name:
            if cur[0] is not None:
                vf.raw("}", "impl")
            if name is not None:
                vf.raw("impl %s {" % name, "impl")
            cur[0] = name

    for impl, fn, c in HELPERS:
        open_impl(impl)
        f = v.item("fn", fn, impl=impl)
        f.name_return(c["ret"])
        f.spec(c["spec"])
        if c.get("start"):
            f.at_start(c["start"])
        if c.get("boxref"):
            f.sub(r"self\.(payload|mask_xz)\.as_ref\(\)", r"vp_box_ref(&self.\1)", count=c["boxref"], rule="O11")
        if c.get("desugar"):
            if armx.desugar_ops(f, CFG) == 0:
                raise ExtractError("%s: rule ED found nothing to rewrite" % fn)
        if c.get("gen_mask"):
            f.replace("let mut ret = Vec::new();", "let mut ret: Vec<u32> = Vec::new();", rule="S-type: element type of the digit vector ascribed (it is inferred from from_slice(&[u32]) in the source)")
            f.loop_spec(0, "            invariant_except_break remaining + 32 * ret@.len() == width, digits32(ret@, ret@.len() as int) == low((32 * ret@.len()) as nat),\n"
                           "            ensures digits32(ret@, ret@.len() as int) == low(width as nat),\n"
                           "            decreases remaining,")
            f.before_loop(0, "        proof { lemma_pow2_small(); }")
            f.loop_body_start(0, "            let ghost vp_r0 = ret@;\n            proof { lemma_pow2_small(); if remaining < 32 { lemma_u32_mask(remaining as nat); } }")
            f.replace("                remaining -= 32;", "                remaining -= 32;\n                proof { lemma_digits_push(vp_r0, 0xffffffffu32, 32); }", rule="S-ghost: lemma call after the full-digit push")
            f.replace("                break;", "                proof { lemma_digits_push(vp_r0, ret@[ret@.len() - 1], remaining as nat); }\n                break;", rule="S-ghost: lemma call before `break`")
        add(f, "%s::%s" % (impl, fn))
        expect.append("%s::%s" % (impl, fn))
    # MaskCache::get: outlined
    open_impl("MaskCache")
    f = v.item("fn", "get", impl="MaskCache")
    f.name_return("r")
    f.spec("    ensures bv(*r) == low(width as nat),")
    f.prepend("#[verifier::external_body]")
    add(f, "MaskCache::get")
    open_impl(None)
    text = vf.finish()
    lemmas = re.findall(r"^(?:pub )?(?:broadcast )?proof fn (lemma_\w+)", text, re.M)
    return [VerusJob("bigeval", text, vf, expect + lemmas, canaries=CANARIES, items=items, trusted=TRUSTED, rlimit=40, extra=["--num-threads", "2"])]


CANARIES = [
    ("vp_canary_wfb", "proof fn vp_canary_wfb(v: Value) requires wf(v), v is BigUint, vm(v) != 0, vp(v) != 0, vs(v) ensures false {}"),
]
