// ---- S0: the dependencies num-bigint / num-traits / std::borrow::Cow / the mask HashMap as opaque declarations ----------
// Verus verifies one file and cannot link crates, so every dependency type is declared here as an opaque (external_body)
// type and every operation the extracted code uses is declared with its ASSUMED contract (each one is listed in the
// unit's `trusted` table with the contract in words). The natively compiled replay program (unit.py::replay) compiles the
// ORIGINAL text against the real crates, so a signature that does not exist in the real crate cannot go unnoticed.

#[verifier::external_body]
pub struct BigUint { vp_opaque: Vec<u32> }
#[verifier::external_body]
pub struct BigInt { vp_opaque: Vec<u32> }

/// the natural number a BigUint denotes / the integer a BigInt denotes
pub uninterp spec fn bv(b: BigUint) -> nat;
pub uninterp spec fn iv(b: BigInt) -> int;

pub enum Sign { Minus, NoSign, Plus }

pub open spec fn sign_of(i: int) -> Sign { if i < 0 { Sign::Minus } else if i == 0 { Sign::NoSign } else { Sign::Plus } }
pub open spec fn abs(i: int) -> nat { if i < 0 { (-i) as nat } else { i as nat } }
/// truncating division / remainder (quotient rounds toward zero, remainder has the sign of the dividend)
pub open spec fn tdiv(a: int, b: int) -> int { let q = (abs(a) / abs(b)) as int; if (a < 0) != (b < 0) { -q } else { q } }
pub open spec fn trem(a: int, b: int) -> int { let r = (abs(a) % abs(b)) as int; if a < 0 { -r } else { r } }

/// little-endian base-2^32 digits
pub open spec fn digits32(s: Seq<u32>, k: int) -> nat
    decreases k
{
    if k <= 0 { 0 } else { digits32(s, k - 1) + (s[k - 1] as nat) * pow2(32 * (k - 1) as nat) }
}

impl PartialEqSpecImpl for Sign {
    open spec fn obeys_eq_spec() -> bool { true }
    open spec fn eq_spec(&self, o: &Sign) -> bool { *self == *o }
}
impl PartialEq for Sign {
    #[verifier::external_body]
    fn eq(&self, o: &Sign) -> (r: bool) { unimplemented!() }
}

impl PartialEqSpecImpl for BigUint {
    open spec fn obeys_eq_spec() -> bool { true }
    open spec fn eq_spec(&self, o: &BigUint) -> bool { bv(*self) == bv(*o) }
}
impl PartialEq for BigUint {
    #[verifier::external_body]
    fn eq(&self, o: &BigUint) -> (r: bool) { unimplemented!() }
}
impl PartialOrdSpecImpl for BigUint {
    open spec fn obeys_partial_cmp_spec() -> bool { true }
    open spec fn partial_cmp_spec(&self, o: &BigUint) -> Option<core::cmp::Ordering> {
        if bv(*self) < bv(*o) { Some(core::cmp::Ordering::Less) } else if bv(*self) == bv(*o) { Some(core::cmp::Ordering::Equal) } else { Some(core::cmp::Ordering::Greater) }
    }
}
impl PartialOrd for BigUint {
    #[verifier::external_body]
    fn partial_cmp(&self, o: &BigUint) -> (r: Option<core::cmp::Ordering>) { unimplemented!() }
}
impl PartialEqSpecImpl for BigInt {
    open spec fn obeys_eq_spec() -> bool { true }
    open spec fn eq_spec(&self, o: &BigInt) -> bool { iv(*self) == iv(*o) }
}
impl PartialEq for BigInt {
    #[verifier::external_body]
    fn eq(&self, o: &BigInt) -> (r: bool) { unimplemented!() }
}
impl PartialOrdSpecImpl for BigInt {
    open spec fn obeys_partial_cmp_spec() -> bool { true }
    open spec fn partial_cmp_spec(&self, o: &BigInt) -> Option<core::cmp::Ordering> {
        if iv(*self) < iv(*o) { Some(core::cmp::Ordering::Less) } else if iv(*self) == iv(*o) { Some(core::cmp::Ordering::Equal) } else { Some(core::cmp::Ordering::Greater) }
    }
}
impl PartialOrd for BigInt {
    #[verifier::external_body]
    fn partial_cmp(&self, o: &BigInt) -> (r: Option<core::cmp::Ordering>) { unimplemented!() }
}

impl Clone for BigUint {
    #[verifier::external_body]
    fn clone(&self) -> (r: BigUint) ensures r == *self { unimplemented!() }
}

pub trait ToPrimitive {
    spec fn to_usize_spec(&self) -> Option<usize>;
    fn to_usize(&self) -> (r: Option<usize>) ensures r == self.to_usize_spec();
    spec fn to_u64_spec(&self) -> Option<u64>;
    fn to_u64(&self) -> (r: Option<u64>) ensures r == self.to_u64_spec();
    spec fn to_i64_spec(&self) -> Option<i64>;
    fn to_i64(&self) -> (r: Option<i64>) ensures r == self.to_i64_spec();
}
impl ToPrimitive for u64 {
    open spec fn to_usize_spec(&self) -> Option<usize> { Some(*self as usize) }
    #[verifier::external_body]
    fn to_usize(&self) -> (r: Option<usize>) { unimplemented!() }
    open spec fn to_u64_spec(&self) -> Option<u64> { Some(*self) }
    #[verifier::external_body]
    fn to_u64(&self) -> (r: Option<u64>) { unimplemented!() }
    open spec fn to_i64_spec(&self) -> Option<i64> { if *self <= i64::MAX as u64 { Some(*self as i64) } else { None } }
    #[verifier::external_body]
    fn to_i64(&self) -> (r: Option<i64>) { unimplemented!() }
}
impl ToPrimitive for BigUint {
    open spec fn to_usize_spec(&self) -> Option<usize> { if bv(*self) <= usize::MAX { Some(bv(*self) as usize) } else { None } }
    #[verifier::external_body]
    fn to_usize(&self) -> (r: Option<usize>) { unimplemented!() }
    open spec fn to_u64_spec(&self) -> Option<u64> { if bv(*self) <= u64::MAX { Some(bv(*self) as u64) } else { None } }
    #[verifier::external_body]
    fn to_u64(&self) -> (r: Option<u64>) { unimplemented!() }
    open spec fn to_i64_spec(&self) -> Option<i64> { if bv(*self) <= i64::MAX { Some(bv(*self) as i64) } else { None } }
    #[verifier::external_body]
    fn to_i64(&self) -> (r: Option<i64>) { unimplemented!() }
}

impl BigUint {
    #[verifier::external_body]
    pub fn zero() -> (r: BigUint) ensures bv(r) == 0 { unimplemented!() }
    #[verifier::external_body]
    pub fn one() -> (r: BigUint) ensures bv(r) == 1 { unimplemented!() }
    #[verifier::external_body]
    pub fn bit(&self, i: u64) -> (r: bool) ensures r == bit(bv(*self), i as nat) { unimplemented!() }
    #[verifier::external_body]
    pub fn from_slice(s: &[u32]) -> (r: BigUint) ensures bv(r) == digits32(s@, s@.len() as int) { unimplemented!() }
    /// num_traits::Zero::is_zero
    #[verifier::external_body]
    pub fn is_zero(&self) -> (r: bool) ensures r == (bv(*self) == 0) { unimplemented!() }
    /// self^exp mod modulus (num-bigint panics on a zero modulus: precondition, proved at the use)
    #[verifier::external_body]
    pub fn modpow(&self, exp: &BigUint, modulus: &BigUint) -> (r: BigUint)
        requires bv(*modulus) != 0
        ensures bv(r) as int == pow(bv(*self) as int, bv(*exp)) % (bv(*modulus) as int)
    { unimplemented!() }
    #[verifier::external_body]
    pub fn count_ones(&self) -> (r: u64) ensures r as nat == popn(bv(*self)) { unimplemented!() }
}
impl FromSpecImpl<u64> for BigUint {
    open spec fn obeys_from_spec() -> bool { false }
    open spec fn from_spec(v: u64) -> BigUint { arbitrary() }
}
impl From<u64> for BigUint {
    #[verifier::external_body]
    fn from(v: u64) -> (r: BigUint) ensures bv(r) == v as nat { unimplemented!() }
}
impl FromSpecImpl<u32> for BigUint {
    open spec fn obeys_from_spec() -> bool { false }
    open spec fn from_spec(v: u32) -> BigUint { arbitrary() }
}
impl From<u32> for BigUint {
    #[verifier::external_body]
    fn from(v: u32) -> (r: BigUint) ensures bv(r) == v as nat { unimplemented!() }
}
impl FromSpecImpl<usize> for BigUint {
    open spec fn obeys_from_spec() -> bool { false }
    open spec fn from_spec(v: usize) -> BigUint { arbitrary() }
}
impl From<usize> for BigUint {
    #[verifier::external_body]
    fn from(v: usize) -> (r: BigUint) ensures bv(r) == v as nat { unimplemented!() }
}
pub assume_specification [i64::unsigned_abs] (x: i64) -> (r: u64)
    ensures r as int == (if x < 0 { -(x as int) } else { x as int });
/// num_traits::zero() / one() at type BigUint
#[verifier::external_body]
pub fn zero() -> (r: BigUint) ensures bv(r) == 0 { unimplemented!() }
#[verifier::external_body]
pub fn one() -> (r: BigUint) ensures bv(r) == 1 { unimplemented!() }

impl BigInt {
    #[verifier::external_body]
    pub fn from_biguint(sign: Sign, mag: BigUint) -> (r: BigInt)
        ensures iv(r) == (match sign { Sign::Minus => -(bv(mag) as int), Sign::NoSign => 0int, Sign::Plus => bv(mag) as int })
    { unimplemented!() }
    #[verifier::external_body]
    pub fn sign(&self) -> (r: Sign) ensures r == sign_of(iv(*self)) { unimplemented!() }
    #[verifier::external_body]
    pub fn magnitude(&self) -> (r: &BigUint) ensures bv(*r) == abs(iv(*self)) { unimplemented!() }
}

/// std::borrow::Cow restricted to Sized + Clone payloads (Owned = T)
pub enum Cow<'a, T> { Borrowed(&'a T), Owned(T) }
impl<'a, T: Clone> Cow<'a, T> {
    pub open spec fn val(self) -> T { match self { Cow::Borrowed(r) => *r, Cow::Owned(t) => t } }
    #[verifier::external_body]
    pub fn as_ref(&self) -> (r: &T) ensures *r == self.val() { unimplemented!() }
    #[verifier::external_body]
    pub fn into_owned(self) -> (r: T) ensures r == self.val() { unimplemented!() }
}

pub type HashMap<K, V> = std::collections::HashMap<K, V>;

// ---- verified helpers introduced by rewrite rules (not trusted) ---------------------------------------------------
/// rule O11: `E.as_ref()` on a Box<T> -> vp_box_ref(&E)
fn vp_box_ref<T>(b: &Box<T>) -> (r: &T) ensures *r == **b { &**b }
/// rule EB: the <=64-bit sub-arm is replaced by a call whose precondition is `false` (proves it unreachable)
fn vp_unreachable<T>() -> (r: T) requires false { vstd::pervasive::unreached() }
/// rule O12: `b.into()` with b: bool and target u64 (assumed contract of <u64 as From<bool>>::from)
#[verifier::external_body]
fn vp_bool_to_u64(b: bool) -> (r: u64) ensures r == (if b { 1u64 } else { 0u64 }) { b.into() }
