// ---- lemmas that connect the machine-integer code paths and the Value model to the nat/bit toolkit -------------------

proof fn lemma_pow2_small()
    ensures pow2(0) == 1, pow2(1) == 2, pow2(32) == 0x1_0000_0000, pow2(64) == 0x1_0000_0000_0000_0000
{
    lemma2_to64();
    lemma2_to64_rest();
}

/// ValueU64::gen_mask: `(1u64 << width) - 1` is 2^width - 1 and cannot underflow
proof fn lemma_u64_mask(width: nat)
    ensures width < 64 ==> (1u64 << (width as u64)) >= 1 && ((1u64 << (width as u64)) - 1) as nat == low(width),
            u64::MAX as nat == low(64)
{
    lemma_pow2_small();
    if width < 64 {
        lemma_pow2_strictly_increases(width, 64);
        lemma_pow2_pos(width);
        assert(1 * pow2(width) <= u64::MAX);
        vstd::bits::lemma_u64_shl_is_mul(1, width as u64);
    }
}

proof fn lemma_u32_mask(r: nat)
    requires r < 32
    ensures (1u32 << (r as u32)) >= 1, ((1u32 << (r as u32)) - 1) as nat == low(r)
{
    lemma_pow2_small();
    lemma_pow2_strictly_increases(r, 32);
    lemma_pow2_pos(r);
    assert(1 * pow2(r) <= u32::MAX);
    vstd::bits::lemma_u32_shl_is_mul(1, r as u32);
}

proof fn lemma_digits_ext(s: Seq<u32>, t: Seq<u32>, k: int)
    requires 0 <= k <= s.len(), k <= t.len(), forall|i: int| 0 <= i < k ==> s[i] == t[i]
    ensures digits32(s, k) == digits32(t, k)
    decreases k
{
    if k > 0 { lemma_digits_ext(s, t, k - 1); }
}

/// appending the digit 2^r - 1 (r <= 32) to the all-ones number of 32*len bits gives the all-ones number of 32*len + r bits
proof fn lemma_digits_push(s0: Seq<u32>, x: u32, r: nat)
    requires digits32(s0, s0.len() as int) == low((32 * s0.len()) as nat), x as nat == low(r), r <= 32
    ensures digits32(s0.push(x), s0.len() as int + 1) == low((32 * s0.len() + r) as nat)
{
    let n = s0.len() as int;
    let s1 = s0.push(x);
    lemma_digits_ext(s0, s1, n);
    let b = (32 * n) as nat;
    lemma_pow2_adds(b, r);
    lemma_pow2_pos(b);
    lemma_pow2_pos(r);
    assert(digits32(s1, n + 1) == digits32(s1, n) + (s1[n] as nat) * pow2(b));
    assert((pow2(b) - 1) + (pow2(r) - 1) * pow2(b) == pow2(b) * pow2(r) - 1) by (nonlinear_arith);
    assert((32 * s0.len() + r) as nat == b + r);
}

proof fn lemma_bxor_comm(a: nat, b: nat)
    ensures bxor(a, b) == bxor(b, a)
    decreases a + b
{
    if a != 0 || b != 0 { lemma_bxor_comm(a / 2, b / 2); }
}

/// sign extension of a vw-bit plane p to w bits, as the code computes it: p | (mask(w) ^ mask(vw))
proof fn lemma_sext(p: nat, xw: nat, w: nat)
    requires 1 <= xw < w, p < pow2(xw)
    ensures bxor(low(w), low(xw)) == pow2(w) - pow2(xw),
            bor(p, bxor(low(w), low(xw))) == p + pow2(w) - pow2(xw),
            p + pow2(w) - pow2(xw) < pow2(w), pow2(xw) < pow2(w), p < pow2(w)
{
    lemma_pow2_strictly_increases(xw, w);
    lemma_pow2_pos(xw);
    lemma_bxor_comm(low(w), low(xw));
    lemma_bxor_low(low(xw), w);
    let d = (w - xw) as nat;
    lemma_pow2_adds(xw, d);
    let mk = (pow2(w) - pow2(xw)) as nat;
    assert(mk == pow2(xw) * (pow2(d) - 1)) by (nonlinear_arith) requires pow2(w) == pow2(xw) * pow2(d), mk == pow2(w) - pow2(xw);
    lemma_pow2_pos(d);
    lemma_mod_multiples_basic((pow2(d) - 1) as int, pow2(xw) as int);
    assert(mk == (pow2(d) - 1) * pow2(xw)) by (nonlinear_arith) requires mk == pow2(xw) * (pow2(d) - 1);
    lemma_bor_add(p, mk, xw);
}

/// `(p >> k) & 1 == 1` on a machine word is bit k
proof fn lemma_u64_bit(p: u64, k: u64)
    requires k < 64
    ensures (((p >> k) & 1) == 1) == bit(p as nat, k as nat)
{
    vstd::bits::lemma_u64_shr_is_div(p, k);
    let q = p >> k;
    assert(q & 1 == q % 2) by (bit_vector);
}

/// the <=64-bit sign extension `payload | (mask(w) ^ mask(vw))`
proof fn lemma_sext_u64(p: u64, xw: u64, w: u64, m0: u64, m1: u64)
    requires 1 <= xw < w <= 64, (p as nat) < pow2(xw as nat), m0 as nat == low(w as nat), m1 as nat == low(xw as nat)
    ensures (p | (m0 ^ m1)) as nat == p as nat + pow2(w as nat) - pow2(xw as nat)
{
    lemma_u64_mask(xw as nat);
    lemma_u64_mask(w as nat);
    lemma_pow2_pos(xw as nat);
    lemma_pow2_pos(w as nat);
    let d = m0 ^ m1;
    assert(d == m0 - m1 && p & d == 0) by (bit_vector)
        requires d == m0 ^ m1, xw < w, w <= 64, 1 <= xw, m1 == ((1u64 << xw) - 1) as u64, (w < 64 ==> m0 == ((1u64 << w) - 1) as u64), (w == 64 ==> m0 == 0xffff_ffff_ffff_ffffu64), p <= m1;
    assert(p | d == p + d && p <= 0xffff_ffff_ffff_ffffu64 - d) by (bit_vector) requires p & d == 0;
}

/// two's complement negation as the code computes it: ((p ^ mask) + 1) & mask
proof fn lemma_neg(p: nat, w: nat)
    requires p < pow2(w)
    ensures band(bxor(p, low(w)) + 1, low(w)) == (if p == 0 { 0 } else { pow2(w) - p }),
            band(bxor(p, low(w)) + 1, low(w)) as int == (-(p as int)) % (pow2(w) as int),
            band(bxor(p, low(w)) + 1, low(w)) < pow2(w)
{
    lemma_bxor_low(p, w);
    lemma_pow2_pos(w);
    let n = (pow2(w) - p) as nat;
    assert(bxor(p, low(w)) + 1 == n);
    lemma_band_low(n, w);
    if p == 0 {
        lemma_mod_self_0(pow2(w) as int);
        lemma_small_mod(0, pow2(w));
    } else {
        lemma_small_mod(n, pow2(w));
        lemma_mod_unique(n as int, -(p as int), -1, pow2(w) as int);
    }
}

proof fn lemma_ext_nonzero(p: nat, xw: nat, w: nat, s: bool)
    requires w >= 1
    ensures (ext_v(p, xw, w, s) != 0) == (p != 0)
{
    lemma_pow2_step((w - 1) as nat);
    if xw >= 1 && xw < w { lemma_pow2_strictly_increases(xw, w); lemma_bit_zero((xw - 1) as nat); }
}

/// the extension of a well-formed operand to a context width >= its own width fits the context width
proof fn lemma_ext_bound(v: Value, w: nat, sx: bool)
    requires wf(v), vw(v) <= w
    ensures ext_p(v, w, sx) < pow2(w), ext_m(v, w, sx) < pow2(w)
{
    lemma_low_lt(w);
    let xw = vw(v);
    if xw >= 1 && xw < w { lemma_sext(vp(v), xw, w); lemma_sext(vm(v), xw, w); }
}

/// subtraction as the code computes it: (x + (((y ^ mask) + 1) & mask)) & mask
proof fn lemma_sub_mod(x: nat, y: nat, w: nat)
    requires x < pow2(w), y < pow2(w)
    ensures band(x + band(bxor(y, low(w)) + 1, low(w)), low(w)) as int == (x as int - y as int) % (pow2(w) as int),
            band(x + band(bxor(y, low(w)) + 1, low(w)), low(w)) < pow2(w)
{
    lemma_neg(y, w);
    let ny = band(bxor(y, low(w)) + 1, low(w));
    lemma_band_low(x + ny, w);
    let m = pow2(w) as int;
    let r = ((x + ny) % pow2(w)) as int;
    lemma_fundamental_div_mod((x + ny) as int, m);
    let q = ((x + ny) as int) / m;
    if y == 0 {
        assert(r + q * m == x as int - y as int) by (nonlinear_arith) requires x + ny == m * q + r, ny == 0, y == 0;
        lemma_mod_unique(r, x as int - y as int, q, m);
    } else {
        assert(r + (q - 1) * m == x as int - y as int) by (nonlinear_arith) requires x + ny == m * q + r, ny == m - y;
        lemma_mod_unique(r, x as int - y as int, q - 1, m);
    }
}

proof fn lemma_div_small(x: nat, y: nat, w: nat)
    requires x < pow2(w), y != 0
    ensures band(x / y, low(w)) == x / y, x / y < pow2(w), band(x % y, low(w)) == x % y, x % y < pow2(w)
{
    lemma_div_nonincreasing(x as int, y as int);
    lemma_div_pos_is_pos(x as int, y as int);
    lemma_mod_decreases(x, y);
    lemma_band_low(x / y, w);
    lemma_band_low(x % y, w);
    lemma_small_mod(x / y, pow2(w));
    lemma_small_mod(x % y, pow2(w));
}

/// the two's complement value of a w-bit pattern
proof fn lemma_sval_bound(p: nat, w: nat)
    requires w >= 1, p < pow2(w)
    ensures abs(sval(p, w)) <= pow2((w - 1) as nat), pow2((w - 1) as nat) < pow2(w), (sval(p, w) == 0) == (p == 0),
            -(pow2((w - 1) as nat) as int) <= sval(p, w) < pow2((w - 1) as nat)
{
    lemma_msb(p, w);
    lemma_pow2_step((w - 1) as nat);
}

proof fn lemma_tdiv_bound(a: int, b: int)
    requires b != 0
    ensures abs(tdiv(a, b)) <= abs(a), abs(trem(a, b)) <= abs(a)
{
    lemma_div_nonincreasing(abs(a) as int, abs(b) as int);
    lemma_div_pos_is_pos(abs(a) as int, abs(b) as int);
    lemma_mod_decreases(abs(a), abs(b));
}

// ---- equality / wildcard / logical / reduction: what the mask arithmetic of the code means, position by position ----
pub open spec fn known_diff(xp: nat, xm: nat, yp: nat, ym: nat, k: nat) -> bool { !bit(xm, k) && !bit(ym, k) && bit(xp, k) != bit(yp, k) }
/// some position is known in both operands and differs
pub open spec fn mismatch(xp: nat, xm: nat, yp: nat, ym: nat, w: nat) -> bool { exists|k: nat| k < w && #[trigger] known_diff(xp, xm, yp, ym, k) }
/// 11.4.5: definite mismatch -> 0; else any x/z -> x; else 1
pub open spec fn eq4(xp: nat, xm: nat, yp: nat, ym: nat, w: nat) -> B4 {
    if mismatch(xp, xm, yp, ym, w) { B4::Zero } else if xm != 0 || ym != 0 { B4::X } else { B4::One }
}
pub open spec fn left_unknown(xm: nat, ym: nat, k: nat) -> bool { bit(xm, k) && !bit(ym, k) }
/// 11.4.6: x/z of the RIGHT operand are don't-care positions; an x/z of the left operand at a compared position makes the result x
pub open spec fn weq4(xp: nat, xm: nat, yp: nat, ym: nat, w: nat) -> B4 {
    if mismatch(xp, xm, yp, ym, w) { B4::Zero } else if exists|k: nat| k < w && #[trigger] left_unknown(xm, ym, k) { B4::X } else { B4::One }
}
pub open spec fn known1(p: nat, m: nat, k: nat) -> bool { bit(p, k) && !bit(m, k) }
pub open spec fn known0(p: nat, m: nat, k: nat) -> bool { !bit(p, k) && !bit(m, k) }
/// 3-valued truth of a vector (11.4.7): One if some bit is a known 1, Zero if all bits are known 0, else X
pub open spec fn truth(p: nat, m: nat, w: nat) -> B4 {
    if exists|k: nat| k < w && #[trigger] known1(p, m, k) { B4::One } else if m == 0 { B4::Zero } else { B4::X }
}
pub open spec fn and4(a: B4, b: B4) -> B4 { if a == B4::Zero || b == B4::Zero { B4::Zero } else if a == B4::One && b == B4::One { B4::One } else { B4::X } }
pub open spec fn or4(a: B4, b: B4) -> B4 { if a == B4::One || b == B4::One { B4::One } else if a == B4::Zero && b == B4::Zero { B4::Zero } else { B4::X } }

/// n < 2^w is non-zero iff it has a one bit below w
proof fn lemma_nonzero_low(n: nat, w: nat)
    requires n < pow2(w)
    ensures (n != 0) == (exists|k: nat| k < w && #[trigger] bit(n, k))
{
    lemma_nonzero_bit(n);
    if n != 0 {
        let k = choose|k: nat| bit(n, k);
        if k >= w { lemma_bit_high(n, w, k); }
    }
}

proof fn lemma_eq_mask(xp: nat, xm: nat, yp: nat, ym: nat, w: nat)
    requires xp < pow2(w), xm < pow2(w), yp < pow2(w), ym < pow2(w)
    ensures (band(band(bxor(xp, yp), bxor(xm, low(w))), bxor(ym, low(w))) != 0) == mismatch(xp, xm, yp, ym, w),
            (band(xm, bxor(ym, low(w))) != 0) == (exists|k: nat| k < w && #[trigger] left_unknown(xm, ym, k)),
{
    broadcast use lemma_band_bit, lemma_bxor_bit, lemma_low_bit;
    let n = band(band(bxor(xp, yp), bxor(xm, low(w))), bxor(ym, low(w)));
    lemma_band_le(band(bxor(xp, yp), bxor(xm, low(w))), bxor(ym, low(w)));
    lemma_bxor_low(ym, w);
    lemma_nonzero_low(n, w);
    if n != 0 {
        let k = choose|k: nat| k < w && bit(n, k);
        assert(known_diff(xp, xm, yp, ym, k));
    }
    if mismatch(xp, xm, yp, ym, w) {
        let k = choose|k: nat| k < w && known_diff(xp, xm, yp, ym, k);
        assert(bit(n, k));
    }
    let u = band(xm, bxor(ym, low(w)));
    lemma_band_le(xm, bxor(ym, low(w)));
    lemma_nonzero_low(u, w);
    if u != 0 {
        let k = choose|k: nat| k < w && bit(u, k);
        assert(left_unknown(xm, ym, k));
    }
    if exists|k: nat| k < w && #[trigger] left_unknown(xm, ym, k) {
        let k = choose|k: nat| k < w && left_unknown(xm, ym, k);
        assert(bit(u, k));
    }
}

/// the wildcard arm computes the same mismatch with the factors in another order
proof fn lemma_weq_mask(xp: nat, xm: nat, yp: nat, ym: nat, w: nat)
    requires xp < pow2(w), xm < pow2(w), yp < pow2(w), ym < pow2(w)
    ensures (band(band(bxor(xp, yp), bxor(ym, low(w))), bxor(xm, low(w))) != 0) == mismatch(xp, xm, yp, ym, w)
{
    broadcast use lemma_band_bit;
    lemma_eq_mask(xp, xm, yp, ym, w);
    let a = band(band(bxor(xp, yp), bxor(ym, low(w))), bxor(xm, low(w)));
    let b = band(band(bxor(xp, yp), bxor(xm, low(w))), bxor(ym, low(w)));
    assert forall|i: nat| #[trigger] bit(a, i) == bit(b, i) by {}
    lemma_bit_ext(a, b);
}

proof fn lemma_truth_mask(p: nat, m: nat, w: nat)
    requires p < pow2(w), m < pow2(w)
    ensures (band(p, bxor(m, low(w))) != 0) == (exists|k: nat| k < w && #[trigger] known1(p, m, k)),
            (bor(p, m) == 0) == (p == 0 && m == 0),
            (p != 0 && m == 0) ==> (exists|k: nat| k < w && #[trigger] known1(p, m, k)),
{
    broadcast use lemma_band_bit, lemma_bxor_bit, lemma_low_bit, lemma_bor_bit;
    let n = band(p, bxor(m, low(w)));
    lemma_band_le(p, bxor(m, low(w)));
    lemma_nonzero_low(n, w);
    if n != 0 {
        let k = choose|k: nat| k < w && bit(n, k);
        assert(known1(p, m, k));
    }
    if exists|k: nat| k < w && #[trigger] known1(p, m, k) {
        let k = choose|k: nat| k < w && known1(p, m, k);
        assert(bit(n, k));
    }
    lemma_nonzero_bit(bor(p, m)); lemma_nonzero_bit(p); lemma_nonzero_bit(m);
    if p != 0 { let k = choose|k: nat| bit(p, k); assert(bit(bor(p, m), k)); }
    if m != 0 { let k = choose|k: nat| bit(m, k); assert(bit(bor(p, m), k)); }
    if bor(p, m) != 0 { let k = choose|k: nat| bit(bor(p, m), k); assert(bit(p, k) || bit(m, k)); }
    if p != 0 && m == 0 {
        lemma_nonzero_low(p, w);
        let k = choose|k: nat| k < w && bit(p, k);
        lemma_bit_zero(k);
        assert(known1(p, m, k));
    }
}

/// (p | m) != all-ones  <=>  some position is a known 0
proof fn lemma_known0_mask(p: nat, m: nat, w: nat)
    requires p < pow2(w), m < pow2(w)
    ensures (bor(p, m) != low(w)) == (exists|k: nat| k < w && #[trigger] known0(p, m, k))
{
    broadcast use lemma_bor_bit, lemma_low_bit, lemma_bit_high;
    let n = bor(p, m);
    if exists|k: nat| k < w && #[trigger] known0(p, m, k) {
        let k = choose|k: nat| k < w && known0(p, m, k);
        assert(!bit(n, k) && bit(low(w), k));
    } else {
        assert forall|i: nat| #[trigger] bit(n, i) == bit(low(w), i) by {
            if i < w { assert(!known0(p, m, i)); }
        }
        lemma_bit_ext(n, low(w));
    }
}

/// the value form of operand extension and its bit form (opeval's `ext_bit`) are the same vector
proof fn lemma_ext_bits(v: Value, w: nat, sx: bool, k: nat)
    requires wf(v), vw(v) <= w, k < w
    ensures b4(ext_p(v, w, sx), ext_m(v, w, sx), k) == ext_bit(v, k, sx)
{
    broadcast use lemma_bor_bit, lemma_bxor_bit, lemma_low_bit, lemma_bit_high;
    let xw = vw(v);
    lemma_pow2_small();
    if xw == 0 {
        lemma_half(vp(v), 0); lemma_half(vm(v), 0); lemma_bit_zero(k);
    } else if xw < w {
        lemma_sext(vp(v), xw, w); lemma_sext(vm(v), xw, w);
        lemma_bit_zero(k);
        assert(bit(bxor(low(w), low(xw)), k) == (k >= xw));
    }
}

pub broadcast proof fn lemma_bit0(i: nat)
    ensures !#[trigger] bit(0, i)
{
    lemma_bit_zero(i);
}

/// `((p >> s) & 1) == 1` on big integers is bit s
proof fn lemma_msb_test(p: nat, s: nat)
    ensures (band(p / pow2(s), 1) == 1) == bit(p, s)
{
    let n = p / pow2(s);
    lemma_pow2_small();
    lemma_band_low(n, 1);
    assert(low(1) == 1);
    lemma_shr_bit(p, s, 0);
    lemma_half(n, 0);
    assert(0 + s == s);
}

// ---- "the two representations agree" (C17, second sentence) -----------------------------------------------------------
// The <=64-bit arms are proved by Kani (units value64 / opeval) against a reference over u64 words; the arms above are
// proved against the functions of this file over nat. The lemmas below show that these are the same functions on every
// value both representations can hold: a u64 word read as a natural number has the same bits, and the nat-level
// and / or / xor are the machine operations. (Extension is already one function for both: Value::expand's single
// contract ext_p / ext_m covers its u64 and its big-integer paths; lemma_ext_bits ties it to opeval's `ext_bit`.)
proof fn lemma_agree_bit(a: u64, k: nat)
    ensures bit(a as nat, k) == (k < 64 && ((a >> (k as u64)) & 1) == 1)
{
    lemma_pow2_small();
    if k < 64 { lemma_u64_bit(a, k as u64); } else { lemma_pow2_le(64, k); lemma_bit_high(a as nat, 64, k); }
}

proof fn lemma_agree_bitops(a: u64, b: u64)
    ensures band(a as nat, b as nat) == (a & b) as nat, bor(a as nat, b as nat) == (a | b) as nat, bxor(a as nat, b as nat) == (a ^ b) as nat
{
    broadcast use lemma_band_bit, lemma_bor_bit, lemma_bxor_bit;
    assert forall|k: nat| #[trigger] bit(band(a as nat, b as nat), k) == bit((a & b) as nat, k) by {
        lemma_agree_bit(a, k); lemma_agree_bit(b, k); lemma_agree_bit(a & b, k);
        if k < 64 { let s = k as u64; assert(((a & b) >> s) & 1 == ((a >> s) & 1) & ((b >> s) & 1)) by (bit_vector); let (u, v) = ((a >> s) & 1, (b >> s) & 1); assert(u <= 1 && v <= 1) by (bit_vector) requires u == (a >> s) & 1, v == (b >> s) & 1; assert((u & v == 1) == (u == 1 && v == 1)) by (bit_vector) requires u <= 1, v <= 1; }
    }
    lemma_bit_ext(band(a as nat, b as nat), (a & b) as nat);
    assert forall|k: nat| #[trigger] bit(bor(a as nat, b as nat), k) == bit((a | b) as nat, k) by {
        lemma_agree_bit(a, k); lemma_agree_bit(b, k); lemma_agree_bit(a | b, k);
        if k < 64 { let s = k as u64; assert(((a | b) >> s) & 1 == ((a >> s) & 1) | ((b >> s) & 1)) by (bit_vector); let (u, v) = ((a >> s) & 1, (b >> s) & 1); assert(u <= 1 && v <= 1) by (bit_vector) requires u == (a >> s) & 1, v == (b >> s) & 1; assert((u | v == 1) == (u == 1 || v == 1)) by (bit_vector) requires u <= 1, v <= 1; }
    }
    lemma_bit_ext(bor(a as nat, b as nat), (a | b) as nat);
    assert forall|k: nat| #[trigger] bit(bxor(a as nat, b as nat), k) == bit((a ^ b) as nat, k) by {
        lemma_agree_bit(a, k); lemma_agree_bit(b, k); lemma_agree_bit(a ^ b, k);
        if k < 64 { let s = k as u64; assert(((a ^ b) >> s) & 1 == ((a >> s) & 1) ^ ((b >> s) & 1)) by (bit_vector); let (u, v) = ((a >> s) & 1, (b >> s) & 1); assert(u <= 1 && v <= 1) by (bit_vector) requires u == (a >> s) & 1, v == (b >> s) & 1; assert((u ^ v == 1) == ((u == 1) != (v == 1))) by (bit_vector) requires u <= 1, v <= 1; }
    }
    lemma_bit_ext(bxor(a as nat, b as nat), (a ^ b) as nat);
}

/// wrap-around arithmetic on words is arithmetic modulo 2^64 on the numbers they denote (w = 64; narrower widths mask further)
proof fn lemma_agree_arith(a: u64, b: u64)
    ensures a.wrapping_add(b) as nat == (a as nat + b as nat) % pow2(64),
            a.wrapping_sub(b) as int == (a as int - b as int) % (pow2(64) as int),
            a.wrapping_mul(b) as nat == (a as nat * b as nat) % pow2(64),
{
    lemma_pow2_small();
    let m = pow2(64) as int;
    if a as int + b as int >= m { lemma_mod_unique(a.wrapping_add(b) as int, a as int + b as int, 1, m); } else { lemma_small_mod((a + b) as nat, pow2(64)); }
    if (a as int) < b as int { lemma_mod_unique(a.wrapping_sub(b) as int, a as int - b as int, -1, m); } else { lemma_small_mod((a - b) as nat, pow2(64)); }
}

// ---- shifts: the values the shift arms compute, and what they mean position by position ------------------------------
pub open spec fn shl_val(p: nat, w: nat, y: nat) -> nat { band(p * pow2(if y <= w { y } else { w }), low(w)) }
pub open spec fn ashr_fill(w: nat, y: nat) -> nat { bxor(low(if y >= w { 0 } else { (w - y) as nat }), low(w)) }
pub open spec fn ashr_val(p: nat, w: nat, y: nat, msb: bool) -> nat { bor(p / pow2(y), if msb { ashr_fill(w, y) } else { 0 }) }

/// y is the amount the code uses (saturated at usize::MAX), s the true amount: equal, or both at least w
proof fn lemma_shl(p: nat, w: nat, y: nat, s: nat)
    requires y == s || (y >= w && s >= w)
    ensures shl_val(p, w, y) < pow2(w),
            forall|k: nat| k < w ==> #[trigger] bit(shl_val(p, w, y), k) == (k >= s && bit(p, (k - s) as nat))
{
    broadcast use lemma_band_bit, lemma_low_bit, lemma_shl_bit;
    let yy = if y <= w { y } else { w };
    lemma_band_low(p * pow2(yy), w);
    assert forall|k: nat| k < w implies #[trigger] bit(shl_val(p, w, y), k) == (k >= s && bit(p, (k - s) as nat)) by {}
}

proof fn lemma_shr(p: nat, w: nat, y: nat, s: nat)
    requires p < pow2(w), y == s || (y >= w && s >= w)
    ensures p / pow2(y) < pow2(w),
            forall|k: nat| k < w ==> #[trigger] bit(p / pow2(y), k) == (k + s < w && bit(p, k + s))
{
    lemma_pow2_pos(y);
    lemma_div_nonincreasing(p as int, pow2(y) as int);
    lemma_div_pos_is_pos(p as int, pow2(y) as int);
    assert forall|k: nat| k < w implies #[trigger] bit(p / pow2(y), k) == (k + s < w && bit(p, k + s)) by {
        lemma_shr_bit(p, y, k);
        if k + y >= w { lemma_bit_high(p, w, k + y); }
    }
}

proof fn lemma_ashr(p: nat, w: nat, y: nat, s: nat, msb: bool)
    requires p < pow2(w), w >= 1, y == s || (y >= w && s >= w)
    ensures ashr_val(p, w, y, msb) < pow2(w),
            forall|k: nat| k < w ==> #[trigger] bit(ashr_val(p, w, y, msb), k) == (if k + s < w { bit(p, k + s) } else { msb })
{
    lemma_shr(p, w, y, s);
    let f = if msb { ashr_fill(w, y) } else { 0 };
    assert forall|k: nat| #[trigger] bit(ashr_val(p, w, y, msb), k) == (bit(p / pow2(y), k) || (msb && k < w && k + y >= w)) by {
        lemma_bor_bit(p / pow2(y), f, k);
        lemma_bit_zero(k);
        lemma_bxor_bit(low(if y >= w { 0 } else { (w - y) as nat }), low(w), k);
        lemma_low_bit(if y >= w { 0 } else { (w - y) as nat }, k);
        lemma_low_bit(w, k);
    }
    assert forall|k: nat| k >= w implies !#[trigger] bit(ashr_val(p, w, y, msb), k) by {
        lemma_pow2_pos(y);
        lemma_bit_high(p / pow2(y), w, k);
    }
    lemma_bits_bound(ashr_val(p, w, y, msb), w);
}

// ---- value primitives: select / trunc / concat / assign -------------------------------------------------------------
proof fn lemma_bor_comm(a: nat, b: nat)
    ensures bor(a, b) == bor(b, a)
    decreases a + b
{
    if a != 0 || b != 0 { lemma_bor_comm(a / 2, b / 2); }
}

/// part select as the code computes it: (p >> end) & mask(width)
proof fn lemma_select(p: nat, end: nat, width: nat)
    ensures band(p / pow2(end), low(width)) < pow2(width),
            forall|k: nat| #[trigger] bit(band(p / pow2(end), low(width)), k) == (k < width && bit(p, k + end))
{
    lemma_band_low(p / pow2(end), width);
    assert forall|k: nat| #[trigger] bit(band(p / pow2(end), low(width)), k) == (k < width && bit(p, k + end)) by {
        lemma_band_bit(p / pow2(end), low(width), k);
        lemma_low_bit(width, k);
        lemma_shr_bit(p, end, k);
    }
}

/// concatenation {a, b} as the code computes it: (a << wb) | b
proof fn lemma_concat(a: nat, b: nat, wa: nat, wb: nat)
    requires a < pow2(wa), b < pow2(wb)
    ensures bor(a * pow2(wb), b) == a * pow2(wb) + b, a * pow2(wb) + b < pow2(wa + wb),
            forall|k: nat| #[trigger] bit(a * pow2(wb) + b, k) == (if k < wb { bit(b, k) } else { bit(a, (k - wb) as nat) })
{
    let hi = a * pow2(wb);
    lemma_pow2_pos(wb);
    lemma_pow2_adds(wa, wb);
    lemma_mod_multiples_basic(a as int, pow2(wb) as int);
    lemma_bor_add(b, hi, wb);
    lemma_bor_comm(hi, b);
    assert(hi + b < pow2(wa) * pow2(wb)) by (nonlinear_arith) requires hi == a * pow2(wb), a + 1 <= pow2(wa), b < pow2(wb);
    assert forall|k: nat| #[trigger] bit(hi + b, k) == (if k < wb { bit(b, k) } else { bit(a, (k - wb) as nat) }) by {
        lemma_bor_bit(hi, b, k);
        lemma_shl_bit(a, wb, k);
        if k >= wb { lemma_bit_high(b, wb, k); }
    }
}

/// field write as the code computes it: (p & (mask(w) ^ R)) | ((v << end) & R), R = the ones at positions end..=beg
proof fn lemma_assign(p: nat, v: nat, w: nat, beg: nat, end: nat, r: nat)
    requires p < pow2(w), end <= beg < w, forall|k: nat| #[trigger] bit(r, k) == (end <= k && k <= beg)
    ensures bor(band(p, bxor(low(w), r)), band(v * pow2(end), r)) < pow2(w),
            forall|k: nat| #[trigger] bit(bor(band(p, bxor(low(w), r)), band(v * pow2(end), r)), k)
                == (if end <= k && k <= beg { bit(v, (k - end) as nat) } else { bit(p, k) })
{
    let res = bor(band(p, bxor(low(w), r)), band(v * pow2(end), r));
    assert forall|k: nat| #[trigger] bit(res, k) == (if end <= k && k <= beg { bit(v, (k - end) as nat) } else { bit(p, k) }) by {
        lemma_bor_bit(band(p, bxor(low(w), r)), band(v * pow2(end), r), k);
        lemma_band_bit(p, bxor(low(w), r), k);
        lemma_band_bit(v * pow2(end), r, k);
        lemma_bxor_bit(low(w), r, k);
        lemma_low_bit(w, k);
        lemma_shl_bit(v, end, k);
        if k >= w { lemma_bit_high(p, w, k); }
    }
    assert forall|k: nat| k >= w implies !#[trigger] bit(res, k) by { lemma_bit_high(p, w, k); }
    lemma_bits_bound(res, w);
}

/// truncation bit by bit
proof fn lemma_trunc_bits(p: nat, m: nat, w: nat, k: nat)
    ensures b4(p % pow2(w), m % pow2(w), k) == (if k < w { b4(p, m, k) } else { B4::Zero })
{
    lemma_mod_bit(p, w, k); lemma_mod_bit(m, w, k);
}

// ---- power -------------------------------------------------------------------------------------------------------------
proof fn lemma_pow_neg(a: int, e: nat)
    ensures pow(-a, e) == (if e % 2 == 1 { -pow(a, e) } else { pow(a, e) })
    decreases e
{
    reveal(pow);
    if e > 0 {
        lemma_pow_neg(a, (e - 1) as nat);
        let x = pow(a, (e - 1) as nat);
        assert((-a) * (-x) == a * x) by (nonlinear_arith);
        assert((-a) * x == -(a * x)) by (nonlinear_arith);
    }
}

proof fn lemma_pow_nonneg(a: int, e: nat)
    requires a >= 0
    ensures pow(a, e) >= 0
    decreases e
{
    reveal(pow);
    if e > 0 {
        lemma_pow_nonneg(a, (e - 1) as nat);
        assert(a * pow(a, (e - 1) as nat) >= 0) by (nonlinear_arith) requires a >= 0, pow(a, (e - 1) as nat) >= 0;
    }
}

/// pow_mod_width: r0 = mag^e mod m; the code returns r0, or (m - r0) mod m for an odd power of a negative base
proof fn lemma_pow_width(a: int, e: nat, m: int)
    requires a >= 0, m > 0
    ensures 0 <= pow(a, e) % m < m,
            pow(a, e) % m != 0 ==> (m - pow(a, e) % m) % m == (-pow(a, e)) % m && 0 <= (m - pow(a, e) % m) % m < m,
            pow(a, e) % m == 0 ==> (-pow(a, e)) % m == 0,
{
    let p = pow(a, e);
    lemma_pow_nonneg(a, e);
    lemma_mod_bound(p, m);
    lemma_fundamental_div_mod(p, m);
    let r0 = p % m;
    let q = p / m;
    if r0 != 0 {
        lemma_small_mod((m - r0) as nat, m as nat);
        assert((m - r0) + (-(q + 1)) * m == -p) by (nonlinear_arith) requires p == m * q + r0;
        lemma_mod_unique(m - r0, -p, -(q + 1), m);
    } else {
        assert(0 + (-q) * m == -p) by (nonlinear_arith) requires p == m * q + r0, r0 == 0;
        lemma_mod_unique(0, -p, -q, m);
    }
}

/// ValueU64::to_i64: `(payload | !mask) as i64` is the two's complement value
proof fn lemma_to_i64(p: u64, w: u64, mask: u64)
    requires 1 <= w <= 64, (p as nat) < pow2(w as nat), mask as nat == low(w as nat)
    ensures bit(p as nat, (w - 1) as nat) ==> ((p | !mask) as i64) as int == p as int - pow2(w as nat),
            !bit(p as nat, (w - 1) as nat) ==> (p as i64) as int == p as int && (p as nat) < pow2((w - 1) as nat),
            (((p >> ((w - 1) as u64)) & 1) == 1) == bit(p as nat, (w - 1) as nat)
{
    lemma_u64_mask(w as nat);
    lemma_pow2_small();
    lemma_u64_bit(p, (w - 1) as u64);
    lemma_msb(p as nat, w as nat);
    lemma_pow2_step((w - 1) as nat);
    lemma_pow2_le((w - 1) as nat, 63);
    lemma2_to64_rest();
    if bit(p as nat, (w - 1) as nat) {
        let t = p | !mask;
        assert(t == p + (0xffff_ffff_ffff_ffffu64 - mask) && t >= 0x8000_0000_0000_0000u64) by (bit_vector)
            requires t == p | !mask, 1 <= w, w <= 64, (w < 64 ==> mask == ((1u64 << w) - 1) as u64), (w == 64 ==> mask == 0xffff_ffff_ffff_ffffu64), p <= mask,
                     (p >> ((w - 1) as u64)) & 1 == 1;
        assert((t as i64) == t - 0x1_0000_0000_0000_0000) by (bit_vector) requires t >= 0x8000_0000_0000_0000u64;
    }
}
