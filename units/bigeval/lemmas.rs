// ---- lemmas that connect the machine-integer code paths and the Value model to the nat/bit toolkit -------------------

proof fn lemma_pow2_small()
    ensures pow2(0) == 1, pow2(1) == 2, pow2(32) == 0x1_0000_0000, pow2(64) == 0x1_0000_0000_0000_0000
{
    lemma2_to64();
    lemma2_to64_rest();
}

/// ValueU64::gen_mask: `(1u64 << width) - 1` is 2^width - 1 and cannot underflow
proof fn lemma_u64_mask(width: nat)
    ensures width < 64 ==> (1u64 << (width as u64)) >= 1 && ((1u64 << (width as u64)) - 1) as nat == low(width),
            u64::MAX as nat == low(64)
{
    lemma_pow2_small();
    if width < 64 {
        lemma_pow2_strictly_increases(width, 64);
        lemma_pow2_pos(width);
        assert(1 * pow2(width) <= u64::MAX);
        vstd::bits::lemma_u64_shl_is_mul(1, width as u64);
    }
}

proof fn lemma_u32_mask(r: nat)
    requires r < 32
    ensures (1u32 << (r as u32)) >= 1, ((1u32 << (r as u32)) - 1) as nat == low(r)
{
    lemma_pow2_small();
    lemma_pow2_strictly_increases(r, 32);
    lemma_pow2_pos(r);
    assert(1 * pow2(r) <= u32::MAX);
    vstd::bits::lemma_u32_shl_is_mul(1, r as u32);
}

proof fn lemma_digits_ext(s: Seq<u32>, t: Seq<u32>, k: int)
    requires 0 <= k <= s.len(), k <= t.len(), forall|i: int| 0 <= i < k ==> s[i] == t[i]
    ensures digits32(s, k) == digits32(t, k)
    decreases k
{
    if k > 0 { lemma_digits_ext(s, t, k - 1); }
}

/// appending the digit 2^r - 1 (r <= 32) to the all-ones number of 32*len bits gives the all-ones number of 32*len + r bits
proof fn lemma_digits_push(s0: Seq<u32>, x: u32, r: nat)
    requires digits32(s0, s0.len() as int) == low((32 * s0.len()) as nat), x as nat == low(r), r <= 32
    ensures digits32(s0.push(x), s0.len() as int + 1) == low((32 * s0.len() + r) as nat)
{
    let n = s0.len() as int;
    let s1 = s0.push(x);
    lemma_digits_ext(s0, s1, n);
    let b = (32 * n) as nat;
    lemma_pow2_adds(b, r);
    lemma_pow2_pos(b);
    lemma_pow2_pos(r);
    assert(digits32(s1, n + 1) == digits32(s1, n) + (s1[n] as nat) * pow2(b));
    assert((pow2(b) - 1) + (pow2(r) - 1) * pow2(b) == pow2(b) * pow2(r) - 1) by (nonlinear_arith);
    assert((32 * s0.len() + r) as nat == b + r);
}

proof fn lemma_bxor_comm(a: nat, b: nat)
    ensures bxor(a, b) == bxor(b, a)
    decreases a + b
{
    if a != 0 || b != 0 { lemma_bxor_comm(a / 2, b / 2); }
}

/// sign extension of a vw-bit plane p to w bits, as the code computes it: p | (mask(w) ^ mask(vw))
proof fn lemma_sext(p: nat, xw: nat, w: nat)
    requires 1 <= xw < w, p < pow2(xw)
    ensures bxor(low(w), low(xw)) == pow2(w) - pow2(xw),
            bor(p, bxor(low(w), low(xw))) == p + pow2(w) - pow2(xw),
            p + pow2(w) - pow2(xw) < pow2(w), pow2(xw) < pow2(w), p < pow2(w)
{
    lemma_pow2_strictly_increases(xw, w);
    lemma_pow2_pos(xw);
    lemma_bxor_comm(low(w), low(xw));
    lemma_bxor_low(low(xw), w);
    let d = (w - xw) as nat;
    lemma_pow2_adds(xw, d);
    let mk = (pow2(w) - pow2(xw)) as nat;
    assert(mk == pow2(xw) * (pow2(d) - 1)) by (nonlinear_arith) requires pow2(w) == pow2(xw) * pow2(d), mk == pow2(w) - pow2(xw);
    lemma_pow2_pos(d);
    lemma_mod_multiples_basic((pow2(d) - 1) as int, pow2(xw) as int);
    assert(mk == (pow2(d) - 1) * pow2(xw)) by (nonlinear_arith) requires mk == pow2(xw) * (pow2(d) - 1);
    lemma_bor_add(p, mk, xw);
}

/// `(p >> k) & 1 == 1` on a machine word is bit k
proof fn lemma_u64_bit(p: u64, k: u64)
    requires k < 64
    ensures (((p >> k) & 1) == 1) == bit(p as nat, k as nat)
{
    vstd::bits::lemma_u64_shr_is_div(p, k);
    let q = p >> k;
    assert(q & 1 == q % 2) by (bit_vector);
}

/// the <=64-bit sign extension `payload | (mask(w) ^ mask(vw))`
proof fn lemma_sext_u64(p: u64, xw: u64, w: u64, m0: u64, m1: u64)
    requires 1 <= xw < w <= 64, (p as nat) < pow2(xw as nat), m0 as nat == low(w as nat), m1 as nat == low(xw as nat)
    ensures (p | (m0 ^ m1)) as nat == p as nat + pow2(w as nat) - pow2(xw as nat)
{
    lemma_u64_mask(xw as nat);
    lemma_u64_mask(w as nat);
    lemma_pow2_pos(xw as nat);
    lemma_pow2_pos(w as nat);
    let d = m0 ^ m1;
    assert(d == m0 - m1 && p & d == 0) by (bit_vector)
        requires d == m0 ^ m1, xw < w, w <= 64, 1 <= xw, m1 == ((1u64 << xw) - 1) as u64, (w < 64 ==> m0 == ((1u64 << w) - 1) as u64), (w == 64 ==> m0 == 0xffff_ffff_ffff_ffffu64), p <= m1;
    assert(p | d == p + d && p <= 0xffff_ffff_ffff_ffffu64 - d) by (bit_vector) requires p & d == 0;
}

/// two's complement negation as the code computes it: ((p ^ mask) + 1) & mask
proof fn lemma_neg(p: nat, w: nat)
    requires p < pow2(w)
    ensures band(bxor(p, low(w)) + 1, low(w)) == (if p == 0 { 0 } else { pow2(w) - p }),
            band(bxor(p, low(w)) + 1, low(w)) as int == (-(p as int)) % (pow2(w) as int),
            band(bxor(p, low(w)) + 1, low(w)) < pow2(w)
{
    lemma_bxor_low(p, w);
    lemma_pow2_pos(w);
    let n = (pow2(w) - p) as nat;
    assert(bxor(p, low(w)) + 1 == n);
    lemma_band_low(n, w);
    if p == 0 {
        lemma_mod_self_0(pow2(w) as int);
    } else {
        lemma_small_mod(n, pow2(w));
        lemma_mod_unique(n as int, -(p as int), -1, pow2(w) as int);
    }
}
