// ---- native differential replay for unit `bigeval` -------------------------------------------------------------------
// Above this file unit.py::replay pastes the ORIGINAL text of value.rs / op.rs items (modules `value` and `op`, real
// num-bigint / num-traits / fxhash). Every operator is compared, on random 4-state operands of 65..200 bits (boundary
// heavy), with an independent reference that works on Vec<u8> bit vectors (0,1,2=x,3=z; index 0 = LSB), bit-serially.
// Output: `FOUND {json}` for the first mismatch (or panic), else `NONE <cases>`.
use crate::op::Op;
use crate::value::{MaskCache, Value, ValueBigUint, ValueU64};

#[derive(Clone, Debug)]
struct V4 { bits: Vec<u8>, signed: bool }           // width = bits.len(); width 0 literal: see Lit

#[derive(Clone, Debug)]
enum Opd { Sized(V4), Lit(u8) }                     // Lit = unsized all-bit literal '0 '1 'x 'z

fn unk(b: u8) -> bool { b >= 2 }
fn fmt4(v: &[u8]) -> String { v.iter().rev().map(|b| match b { 0 => '0', 1 => '1', 2 => 'x', _ => 'z' }).collect() }

fn to_value(o: &Opd) -> Value {
    match o {
        Opd::Lit(b) => Value::U64(ValueU64 { payload: (*b & 1) as u64, mask_xz: (*b >> 1) as u64, width: 0, signed: false }),
        Opd::Sized(v) => {
            let w = v.bits.len();
            if w <= 64 {
                let (mut p, mut m) = (0u64, 0u64);
                for (i, b) in v.bits.iter().enumerate() { if b & 1 == 1 { p |= 1 << i; } if *b >= 2 { m |= 1 << i; } }
                Value::U64(ValueU64 { payload: p, mask_xz: m, width: w as u32, signed: v.signed })
            } else {
                let mut pb = vec![0u8; (w + 7) / 8];
                let mut mb = vec![0u8; (w + 7) / 8];
                for (i, b) in v.bits.iter().enumerate() { if b & 1 == 1 { pb[i / 8] |= 1 << (i % 8); } if *b >= 2 { mb[i / 8] |= 1 << (i % 8); } }
                Value::BigUint(ValueBigUint { payload: Box::new(crate::BigUint::from_bytes_le(&pb)), mask_xz: Box::new(crate::BigUint::from_bytes_le(&mb)), width: w as u32, signed: v.signed })
            }
        }
    }
}

/// (bits, width, is_big, bits beyond the width that are set)
fn from_value(v: &Value) -> (Vec<u8>, bool, bool) {
    let w = v.width();
    let (p, m) = (v.payload().into_owned(), v.mask_xz().into_owned());
    let bits: Vec<u8> = (0..w).map(|i| (p.bit(i as u64) as u8) | ((m.bit(i as u64) as u8) << 1)).collect();
    let junk = p.bits() as usize > w || m.bits() as usize > w;
    (bits, matches!(v, Value::BigUint(_)), junk)
}

// ---- reference ---------------------------------------------------------------------------------------------------------
fn ext(o: &Opd, w: usize, sx: bool) -> Vec<u8> {
    match o {
        Opd::Lit(b) => vec![*b; w],
        Opd::Sized(v) => {
            let n = v.bits.len();
            (0..w.max(n)).map(|k| if k < n { v.bits[k] } else if sx && v.signed { v.bits[n - 1] } else { 0 }).collect()
        }
    }
}
fn owidth(o: &Opd) -> usize { match o { Opd::Lit(_) => 0, Opd::Sized(v) => v.bits.len() } }
fn osigned(o: &Opd) -> bool { match o { Opd::Lit(_) => false, Opd::Sized(v) => v.signed } }
fn anyx(v: &[u8]) -> bool { v.iter().any(|b| unk(*b)) }
fn allx(w: usize) -> Vec<u8> { vec![2; w] }
fn add2(a: &[u8], b: &[u8], mut c: u8) -> Vec<u8> {
    (0..a.len()).map(|i| { let s = a[i] + b[i] + c; c = s >> 1; s & 1 }).collect()
}
fn inv(a: &[u8]) -> Vec<u8> { a.iter().map(|b| 1 - b).collect() }
fn neg2(a: &[u8]) -> Vec<u8> { add2(&inv(a), &vec![0; a.len()], 1) }
fn is_zero(a: &[u8]) -> bool { a.iter().all(|b| *b == 0) }
fn mul2(a: &[u8], b: &[u8]) -> Vec<u8> {
    let w = a.len();
    let mut acc = vec![0u8; w];
    for i in 0..w { if b[i] == 1 { let sh: Vec<u8> = (0..w).map(|k| if k >= i { a[k - i] } else { 0 }).collect(); acc = add2(&acc, &sh, 0); } }
    acc
}
fn ge2(a: &[u8], b: &[u8]) -> bool { for k in (0..a.len()).rev() { if a[k] != b[k] { return a[k] > b[k]; } } true }
/// restoring division on magnitudes (b != 0): (quotient, remainder)
fn divmod2(a: &[u8], b: &[u8]) -> (Vec<u8>, Vec<u8>) {
    let w = a.len();
    let mut q = vec![0u8; w];
    let mut r = vec![0u8; w + 1];
    let mut bb = b.to_vec(); bb.push(0);
    for i in (0..w).rev() {
        r.rotate_right(1); r[0] = a[i];                  // r = r << 1 | a[i]   (top bit of r is always 0 before the shift)
        if ge2(&r, &bb) { r = add2(&r, &inv(&bb), 1); q[i] = 1; }
    }
    r.truncate(w);
    (q, r)
}
fn sign_lt(a: &[u8], b: &[u8], signed: bool) -> bool {   // a < b
    let w = a.len();
    if signed && a[w - 1] != b[w - 1] { return a[w - 1] == 1; }
    a != b && !ge2(a, b)
}
fn bit1(b: u8, w: usize) -> Vec<u8> { let mut v = vec![0u8; w]; if w > 0 { v[0] = if b >= 2 { 2 } else { b }; } v }
fn b_and(a: u8, b: u8) -> u8 { if a == 0 || b == 0 { 0 } else if a == 1 && b == 1 { 1 } else { 2 } }
fn b_or(a: u8, b: u8) -> u8 { if a == 1 || b == 1 { 1 } else if a == 0 && b == 0 { 0 } else { 2 } }
fn b_xor(a: u8, b: u8) -> u8 { if unk(a) || unk(b) { 2 } else { a ^ b } }
fn b_not(a: u8) -> u8 { match a { 0 => 1, 1 => 0, _ => 2 } }
fn truth(v: &[u8]) -> u8 { if v.iter().any(|b| *b == 1) { 1 } else if anyx(v) { 2 } else { 0 } }
/// shift amount: None = x/z, Some(min(value, cap))
fn amount(o: &Opd, cap: usize) -> Option<usize> {
    let v = match o { Opd::Lit(b) => vec![*b], Opd::Sized(v) => v.bits.clone() };
    if anyx(&v) { return None; }
    let mut s = 0usize;
    for (i, b) in v.iter().enumerate() { if *b == 1 { if i >= 40 { return Some(cap); } s += 1usize << i; } }
    Some(s.min(cap))
}

fn reference(op: Op, unary: bool, x: &Opd, y: &Opd, w: usize, signed: bool) -> Vec<u8> {
    if unary {
        return match op {
            Op::Add => ext(x, w, signed),
            Op::Sub => { let a = ext(x, w, signed); if anyx(&a) { allx(w) } else { neg2(&a) } }
            Op::BitNot => ext(x, w, signed).iter().map(|b| b_not(*b)).collect(),
            _ => {
                let a = ext(x, owidth(x), false);
                let and = if a.iter().any(|b| *b == 0) { 0 } else if anyx(&a) { 2 } else { 1 };
                let or = truth(&a);
                let xor = if anyx(&a) { 2 } else { (a.iter().filter(|b| **b == 1).count() % 2) as u8 };
                let b = match op { Op::BitAnd => and, Op::BitNand => b_not(and), Op::BitOr => or, Op::BitNor | Op::LogicNot => b_not(or), Op::BitXor => xor, _ => b_not(xor) };
                bit1(b, w)
            }
        };
    }
    match op {
        Op::Add | Op::Sub | Op::Mul | Op::Div | Op::Rem => {
            let (a, b) = (ext(x, w, signed), ext(y, w, signed));
            if anyx(&a) || anyx(&b) { return allx(w); }
            match op {
                Op::Add => add2(&a, &b, 0),
                Op::Sub => add2(&a, &inv(&b), 1),
                Op::Mul => mul2(&a, &b),
                _ => {
                    if is_zero(&b) { return allx(w); }
                    let (na, nb) = (signed && a[w - 1] == 1, signed && b[w - 1] == 1);
                    let (ma, mb) = (if na { neg2(&a) } else { a.clone() }, if nb { neg2(&b) } else { b.clone() });
                    let (q, r) = divmod2(&ma, &mb);
                    if op == Op::Div { if na != nb { neg2(&q) } else { q } } else if na { neg2(&r) } else { r }
                }
            }
        }
        Op::BitAnd | Op::BitOr | Op::BitXor | Op::BitXnor => {
            let (a, b) = (ext(x, w, signed), ext(y, w, signed));
            (0..w).map(|k| match op { Op::BitAnd => b_and(a[k], b[k]), Op::BitOr => b_or(a[k], b[k]), Op::BitXor => b_xor(a[k], b[k]), _ => b_not(b_xor(a[k], b[k])) }).collect()
        }
        Op::Eq | Op::Ne | Op::EqWildcard | Op::NeWildcard => {
            let cw = owidth(x).max(owidth(y));
            let sx = osigned(x) && osigned(y);
            let (a, b) = (ext(x, cw, sx), ext(y, cw, sx));
            let wild = matches!(op, Op::EqWildcard | Op::NeWildcard);
            let mism = (0..cw).any(|k| !unk(a[k]) && !unk(b[k]) && a[k] != b[k]);
            let amb = if wild { (0..cw).any(|k| unk(a[k]) && !unk(b[k])) } else { anyx(&a) || anyx(&b) };
            let e = if mism { 0 } else if amb { 2 } else { 1 };
            bit1(if matches!(op, Op::Eq | Op::EqWildcard) { e } else { b_not(e) }, w)
        }
        Op::Less | Op::LessEq | Op::Greater | Op::GreaterEq => {
            let cw = owidth(x).max(owidth(y));
            let (a, b) = (ext(x, cw, signed), ext(y, cw, signed));
            if anyx(&a) || anyx(&b) { return bit1(2, w); }
            let t = match op { Op::Less => sign_lt(&a, &b, signed), Op::LessEq => !sign_lt(&b, &a, signed), Op::Greater => sign_lt(&b, &a, signed), _ => !sign_lt(&a, &b, signed) };
            bit1(t as u8, w)
        }
        Op::LogicAnd | Op::LogicOr => {
            let (a, b) = (truth(&ext(x, owidth(x).max(1), false)), truth(&ext(y, owidth(y).max(1), false)));
            bit1(if op == Op::LogicAnd { b_and(a, b) } else { b_or(a, b) }, w)
        }
        Op::LogicShiftL | Op::ArithShiftL | Op::LogicShiftR | Op::ArithShiftR => {
            let a = ext(x, w, signed);
            let Some(s) = amount(y, w) else { return allx(w) };
            let fill = if op == Op::ArithShiftR && signed { a[w - 1] } else { 0 };
            (0..w).map(|k| match op {
                Op::LogicShiftL | Op::ArithShiftL => if k >= s { a[k - s] } else { 0 },
                _ => if k + s < w { a[k + s] } else { fill },
            }).collect()
        }
        _ => unreachable!(),
    }
}

// ---- generator -------------------------------------------------------------------------------------------------------------
fn gen_bits(g: &mut Rng, w: usize, fourstate: bool) -> Vec<u8> {
    let mut v: Vec<u8> = match g.below(8) {
        0 => vec![0; w],
        1 => vec![1; w],
        2 => { let mut v = vec![0; w]; v[w - 1] = 1; v }                                  // most negative
        3 => { let mut v = vec![1; w]; v[w - 1] = 0; v }                                  // most positive
        4 => { let mut v = vec![0; w]; let k = g.below(w as u64) as usize; v[k] = 1; v }  // one-hot
        5 => { let k = g.below(w as u64 + 1) as usize; (0..w).map(|i| (i < k) as u8).collect() } // low ones
        _ => (0..w).map(|_| (g.next() >> 33 & 1) as u8).collect(),
    };
    if fourstate {
        match g.below(6) {
            0 => { let k = g.below(w as u64) as usize; v[k] = 2 + (g.below(2) as u8); }
            1 => { v[w - 1] = 2 + (g.below(2) as u8); }
            2 => { for b in v.iter_mut() { if g.below(5) == 0 { *b = 2 + (g.below(2) as u8); } } }
            _ => {}
        }
    }
    v
}
fn gen_opd(g: &mut Rng, maxw: usize, minw: usize, fourstate: bool, allow_lit: bool) -> Opd {
    if allow_lit && g.below(12) == 0 { return Opd::Lit(g.below(4) as u8); }
    let w = match g.below(8) {
        0 => maxw,
        1 => minw.max(1),
        2 => 64.clamp(minw.max(1), maxw),
        3 => 65.clamp(minw.max(1), maxw),
        _ => minw.max(1) + g.below((maxw - minw.max(1) + 1) as u64) as usize,
    };
    Opd::Sized(V4 { bits: gen_bits(g, w, fourstate), signed: g.below(2) == 0 })
}
fn opd_str(o: &Opd) -> String {
    match o { Opd::Lit(b) => format!("'{}", fmt4(&[*b])), Opd::Sized(v) => format!("{}'{}b{}", v.bits.len(), if v.signed { "s" } else { "" }, fmt4(&v.bits)) }
}

const BINARY: [(&str, Op); 23] = [
    ("arm_add", Op::Add), ("arm_sub", Op::Sub), ("arm_mul", Op::Mul), ("arm_div", Op::Div), ("arm_rem", Op::Rem),
    ("arm_bitand", Op::BitAnd), ("arm_bitor", Op::BitOr), ("arm_bitxor", Op::BitXor), ("arm_bitxnor", Op::BitXnor),
    ("arm_eq", Op::Eq), ("arm_ne", Op::Ne), ("arm_eq_wildcard", Op::EqWildcard), ("arm_ne_wildcard", Op::NeWildcard),
    ("arm_less", Op::Less), ("arm_less_eq", Op::LessEq), ("arm_greater", Op::Greater), ("arm_greater_eq", Op::GreaterEq),
    ("arm_logic_and", Op::LogicAnd), ("arm_logic_or", Op::LogicOr),
    ("arm_shl", Op::LogicShiftL), ("arm_ashl", Op::ArithShiftL), ("arm_shr", Op::LogicShiftR), ("arm_ashr", Op::ArithShiftR),
];
const UNARY: [(&str, Op); 9] = [
    ("arm_u_plus", Op::Add), ("arm_u_minus", Op::Sub), ("arm_u_bitnot", Op::BitNot), ("arm_red_and", Op::BitAnd), ("arm_red_nand", Op::BitNand),
    ("arm_red_or", Op::BitOr), ("arm_red_nor", Op::BitNor), ("arm_red_xor", Op::BitXor), ("arm_red_xnor", Op::BitXnor),
];

fn run_case(g: &mut Rng, name: &str, op: Op, unary: bool) -> bool {
    let ctx = if unary { matches!(op, Op::Add | Op::Sub | Op::BitNot) } else { matches!(op, Op::Add | Op::Sub | Op::Mul | Op::Div | Op::Rem | Op::BitAnd | Op::BitOr | Op::BitXor | Op::BitXnor) };
    let shift = !unary && matches!(op, Op::LogicShiftL | Op::ArithShiftL | Op::LogicShiftR | Op::ArithShiftR);
    let wide = 65 + match g.below(6) { 0 => 0, 1 => 63, 2 => 64, 3 => 135, _ => g.below(136) } as usize;        // 65..=200
    let fourstate = g.below(3) != 0;
    let (x, y, w, signed);
    if ctx {
        w = wide;
        x = gen_opd(g, w, 1, fourstate, true);
        y = if unary { Opd::Lit(0) } else { gen_opd(g, w, 1, fourstate, true) };
        let can = osigned(&x) && (unary || osigned(&y));
        signed = can && g.below(4) != 0;
    } else if shift {
        w = wide;
        x = gen_opd(g, w, 1, fourstate, false);
        let yw = 1 + g.below(90) as usize;
        y = match g.below(4) { 0 => Opd::Sized(V4 { bits: gen_bits(g, yw, fourstate), signed: false }),
                               _ => { let s = g.below(w as u64 + 70); Opd::Sized(V4 { bits: (0..8 + g.below(70) as usize).map(|i| if i < 64 { (s >> i & 1) as u8 } else { 0 }).collect(), signed: g.below(2) == 0 }) } };
        signed = osigned(&x) && g.below(3) != 0;
    } else if unary {
        w = if g.below(2) == 0 { wide } else { 1 + g.below(64) as usize };
        x = Opd::Sized(V4 { bits: gen_bits(g, wide, fourstate), signed: g.below(2) == 0 });
        y = Opd::Lit(0);
        signed = false;
    } else {
        // self-determined comparison / logical operators: at least one operand wider than 64 bits
        w = if g.below(2) == 0 { wide } else { 1 + g.below(64) as usize };
        let a = Opd::Sized(V4 { bits: gen_bits(g, wide, fourstate), signed: g.below(2) == 0 });
        let mut b = gen_opd(g, 200, 1, fourstate, true);
        if g.below(3) == 0 {
            // nearly equal operands
            if let (Opd::Sized(va), true) = (&a, g.below(2) == 0) { let mut vb = va.clone(); if g.below(2) == 0 { let k = g.below(wide as u64) as usize; vb.bits[k] = (vb.bits[k] + 1) % 4; } b = Opd::Sized(vb); }
        }
        if g.below(2) == 0 { x = a; y = b; } else { x = b; y = a; }
        let rel = matches!(op, Op::Less | Op::LessEq | Op::Greater | Op::GreaterEq);
        signed = rel && osigned(&x) && osigned(&y) && g.below(4) != 0;
    }
    let case = format!("{{\"fn\":\"{}\",\"op\":\"{:?}\",\"unary\":{},\"x\":\"{}\",\"y\":\"{}\",\"width\":{},\"signed\":{}", name, op, unary, opd_str(&x), opd_str(&y), w, signed);
    vp_case(format!("{}}}", case));
    let expect = reference(op, unary, &x, &y, w, signed);
    let mut cache = MaskCache::default();
    let (vx, vy) = (to_value(&x), to_value(&y));
    let r = if unary { op.eval_value_unary(&vx, w, signed, &mut cache) } else { op.eval_value_binary(&vx, &vy, w, signed, &mut cache) };
    let (bits, big, junk) = from_value(&r);
    // unknown result bits are x, never z (operator results); representation: big iff width > 64, nothing beyond the width
    let ok = bits == expect && big == (w > 64) && !junk;
    if !ok {
        println!("FOUND {},\"expected\":\"{}'b{}\",\"actual\":\"{}'b{}\",\"actual_is_biguint\":{},\"actual_bits_beyond_width\":{}}}", case, w, fmt4(&expect), bits.len(), fmt4(&bits), big, junk);
    }
    ok
}


// ---- value primitives (select / trunc / concat / assign / set_value) with at least one big-integer side ----------------
fn obits(o: &Opd) -> Vec<u8> { match o { Opd::Lit(b) => vec![*b], Opd::Sized(v) => v.bits.clone() } }
fn check_value(case: &str, r: &Value, expect: &[u8], signed: bool, big: bool) -> bool {
    let (bits, is_big, junk) = from_value(r);
    let ok = bits == expect && r.signed() == signed && is_big == big && !junk;
    if !ok {
        println!("FOUND {},\"expected\":\"{}'{}b{}\",\"expected_is_biguint\":{},\"actual\":\"{}'{}b{}\",\"actual_is_biguint\":{},\"actual_bits_beyond_width\":{}}}",
                 case, expect.len(), if signed { "s" } else { "" }, fmt4(expect), big, bits.len(), if r.signed() { "s" } else { "" }, fmt4(&bits), is_big, junk);
    }
    ok
}
fn wide_opd(g: &mut Rng, fourstate: bool) -> Opd {
    let w = 65 + match g.below(6) { 0 => 0, 1 => 63, 2 => 64, 3 => 135, _ => g.below(136) } as usize;
    Opd::Sized(V4 { bits: gen_bits(g, w, fourstate), signed: g.below(2) == 0 })
}
fn run_prim(g: &mut Rng, which: u64) -> bool {
    let fourstate = g.below(4) != 0;
    match which {
        0 => {
            let v = wide_opd(g, fourstate);
            let w = owidth(&v);
            let (beg, end) = match g.below(8) {
                0 => { let e = 1 + g.below(w as u64) as usize; (e - 1 - g.below(e as u64) as usize % e, e) }            // beg < end
                1 => (w - 1, 0),
                2 => { let e = g.below(w as u64) as usize; (e, e) }
                3 => { let e = g.below(w as u64) as usize; (e + 63, e) }                                                  // exactly 64 bits
                4 => { let e = g.below(w as u64) as usize; (e + 64, e) }                                                  // 65 bits, may run past the value
                5 => { let e = g.below(w as u64 + 40) as usize; (e + g.below(100) as usize, e) }
                _ => { let e = g.below(w as u64) as usize; (e + g.below((w - e) as u64) as usize, e) }
            };
            let case = format!("{{\"fn\":\"Value::select\",\"self\":\"{}\",\"beg\":{},\"end\":{}", opd_str(&v), beg, end);
            vp_case(format!("{}}}", case));
            let r = to_value(&v).select(beg, end);
            let vb = obits(&v);
            let expect: Vec<u8> = if beg < end { vec![] } else { (0..beg - end + 1).map(|k| if k + end < w { vb[k + end] } else { 0 }).collect() };
            check_value(&case, &r, &expect, false, expect.len() > 64)
        }
        1 => {
            let v = match g.below(4) { 0 => gen_opd(g, 200, 1, fourstate, true), _ => wide_opd(g, fourstate) };
            let nw = match g.below(6) { 0 => 64, 1 => 65, 2 => 1 + g.below(64) as usize, 3 => owidth(&v).max(1), _ => 1 + g.below(200) as usize };
            let case = format!("{{\"fn\":\"Value::trunc\",\"self\":\"{}\",\"width\":{}", opd_str(&v), nw);
            vp_case(format!("{}}}", case));
            let mut r = to_value(&v);
            r.trunc(nw);
            let vb = obits(&v);
            let (expect, signed, big): (Vec<u8>, bool, bool) = match &v {
                Opd::Lit(b) => (vec![*b; nw], false, nw > 64),
                Opd::Sized(s) => if vb.len() <= nw { (vb.clone(), s.signed, vb.len() > 64) } else { (vb[..nw].to_vec(), s.signed, nw > 64) },
            };
            check_value(&case, &r, &expect, signed, big)
        }
        2 => {
            let a = gen_opd(g, 150, 1, fourstate, false);
            let b = if owidth(&a) <= 64 && g.below(4) != 0 { wide_opd(g, fourstate) } else { gen_opd(g, 150, 1, fourstate, false) };
            let case = format!("{{\"fn\":\"Value::concat\",\"self\":\"{}\",\"x\":\"{}\"", opd_str(&a), opd_str(&b));
            vp_case(format!("{}}}", case));
            let r = to_value(&a).concat(&to_value(&b));
            let mut expect = obits(&b); expect.extend(obits(&a));
            let big = expect.len() > 64;
            check_value(&case, &r, &expect, false, big)
        }
        3 => {
            let v = wide_opd(g, fourstate);
            let w = owidth(&v);
            let val = gen_opd(g, 200, 1, fourstate, false);
            let end = g.below(w as u64) as usize;
            let beg = match g.below(4) { 0 => w - 1, 1 => end, _ => end + g.below((w - end) as u64) as usize };
            let case = format!("{{\"fn\":\"Value::assign\",\"self\":\"{}\",\"value\":\"{}\",\"beg\":{},\"end\":{}", opd_str(&v), opd_str(&val), beg, end);
            vp_case(format!("{}}}", case));
            let mut r = to_value(&v);
            r.assign(to_value(&val), beg, end);
            let (vb, xb) = (obits(&v), obits(&val));
            let expect: Vec<u8> = (0..w).map(|k| if k >= end && k <= beg { if k - end < xb.len() { xb[k - end] } else { 0 } } else { vb[k] }).collect();
            check_value(&case, &r, &expect, osigned(&v), true)
        }
        _ => {
            let v = match g.below(4) { 0 => gen_opd(g, 64, 1, fourstate, false), _ => wide_opd(g, fourstate) };
            let w = owidth(&v);
            let val = match g.below(3) { 0 => wide_opd(g, fourstate), _ => gen_opd(g, 200, 1, fourstate, true) };
            let case = format!("{{\"fn\":\"Value::set_value\",\"self\":\"{}\",\"value\":\"{}\"", opd_str(&v), opd_str(&val));
            vp_case(format!("{}}}", case));
            let mut r = to_value(&v);
            r.set_value(to_value(&val));
            let xb = obits(&val);
            let expect: Vec<u8> = match &val { Opd::Lit(b) => vec![*b; w], _ => (0..w).map(|k| if k < xb.len() { xb[k] } else { 0 }).collect() };
            check_value(&case, &r, &expect, osigned(&v), w > 64)
        }
    }
}

// ---- power operator (both representations; exponents that fit usize; negative exponents with and without x/z) ----------
fn ref_pow(x: &Opd, y: &Opd, w: usize, signed: bool) -> Vec<u8> {
    let a = ext(x, w, signed);
    let yb = obits(y);
    if anyx(&yb) { return allx(w); }                                   // x/z anywhere in the exponent, sign position included
    let y_neg = osigned(y) && yb[yb.len() - 1] == 1;
    if y_neg {
        let one: Vec<u8> = (0..w).map(|k| (k == 0) as u8).collect();
        if anyx(&a) || is_zero(&a) { return allx(w); }
        if a == one { return one; }
        if signed && a.iter().all(|b| *b == 1) { return if yb[0] == 1 { vec![1; w] } else { one }; }
        return vec![0; w];
    }
    if anyx(&yb) || anyx(&a) { return allx(w); }
    // square and multiply, everything modulo 2^w (the sign of the base does not matter modulo 2^w)
    let mut acc: Vec<u8> = (0..w).map(|k| (k == 0) as u8).collect();
    for i in (0..yb.len()).rev() {
        acc = mul2(&acc, &acc);
        if yb[i] == 1 { acc = mul2(&acc, &a); }
    }
    acc
}
fn run_pow(g: &mut Rng, small: bool) -> bool {
    let w = if small { 1 + match g.below(5) { 0 => 63, 1 => 7, _ => g.below(64) } as usize } else { 65 + match g.below(5) { 0 => 0, 1 => 63, _ => g.below(100) } as usize };
    let fourstate = g.below(4) == 0;
    let (x, mut e): (Opd, u64) = match g.below(4) {
        // -(2^k): the magnitude power vanishes modulo 2^w once k*e >= w
        0 if w >= 2 => { let k = 1 + g.below((w - 1) as u64) as usize; (Opd::Sized(V4 { bits: (0..w).map(|i| (i >= k) as u8).collect(), signed: true }), ((w / k) as u64 + g.below(3)) | 1) }
        1 => (gen_opd(g, w, 1, fourstate, false), g.below(70)),
        2 => (gen_opd(g, w, 1, fourstate, false), g.below(2 * w as u64 + 3)),
        _ => (gen_opd(g, w, 1, fourstate, false), g.next() >> (24 + g.below(40))),
    };
    if g.below(6) == 0 { e |= 1; }
    let signed = osigned(&x) && g.below(4) != 0;
    // exponent operand: e in ew bits, unsigned or signed-but-non-negative, or a negative exponent (sign position set, no x/z)
    let need = (64 - e.leading_zeros() as usize).max(1);
    let y = match g.below(6) {
        0 => { let ew = 1 + g.below(70) as usize; let fs = g.below(3) == 0; let mut b = gen_bits(g, ew, fs); b[ew - 1] = if g.below(6) == 0 { 3 } else { 1 }; Opd::Sized(V4 { bits: b, signed: true }) }   // negative(-looking) exponent, sometimes with x/z
        1 => { let ew = 1 + g.below(70) as usize; let b = gen_bits(g, ew, true); Opd::Sized(V4 { bits: b, signed: g.below(2) == 0 }) }
        _ => { let ew = need + 1 + g.below(20) as usize; Opd::Sized(V4 { bits: (0..ew).map(|i| if i < 64 { (e >> i & 1) as u8 } else { 0 }).collect(), signed: g.below(2) == 0 }) }
    };
    // keep the exponent within usize (63 bits): the code saturates beyond that
    if let Opd::Sized(v) = &y { if !anyx(&v.bits) && !(osigned(&y) && v.bits[v.bits.len() - 1] == 1) && v.bits.iter().enumerate().any(|(i, b)| i >= 63 && *b == 1) { return true; } }
    let case = format!("{{\"fn\":\"{}\",\"op\":\"Pow\",\"x\":\"{}\",\"y\":\"{}\",\"width\":{},\"signed\":{}", if small { "arm_pow_u64" } else { "arm_pow_big" }, opd_str(&x), opd_str(&y), w, signed);
    vp_case(format!("{}}}", case));
    let expect = ref_pow(&x, &y, w, signed);
    let mut cache = MaskCache::default();
    let r = Op::Pow.eval_value_binary(&to_value(&x), &to_value(&y), w, signed, &mut cache);
    let (bits, big, junk) = from_value(&r);
    let ok = bits == expect && big == (w > 64) && !junk;
    if !ok {
        println!("FOUND {},\"expected\":\"{}'b{}\",\"actual\":\"{}'b{}\",\"actual_is_biguint\":{},\"actual_bits_beyond_width\":{}}}", case, w, fmt4(&expect), bits.len(), fmt4(&bits), big, junk);
    }
    ok
}

fn main() {
    let mut g = Rng(vp_seed());
    vp_hook();
    let sel = std::env::args().nth(2).unwrap_or("all".to_string());
    let n: u64 = std::env::args().nth(3).and_then(|s| s.parse().ok()).unwrap_or(3000);
    let mut cases = 0u64;
    let pow_sel = matches!(sel.as_str(), "arm_pow_big" | "arm_pow_u64" | "pow_mod_width" | "ValueU64::to_i64");
    if pow_sel || sel == "all" {
        for i in 0..(if pow_sel { 6 * n } else { 2 * n }) {
            cases += 1;
            if !run_pow(&mut g, if sel == "arm_pow_big" { false } else if sel == "arm_pow_u64" || sel == "ValueU64::to_i64" { true } else { i % 2 == 0 }) { std::process::exit(1); }
        }
        if pow_sel { println!("NONE {}", cases); return; }
    }
    let known = BINARY.iter().chain(UNARY.iter()).any(|(nm, _)| *nm == sel);
    // value primitives: run for a failed primitive (any non-arm function name) and in the full run
    let prims = !known;
    if prims {
        for i in 0..(if sel == "all" { 4 * n } else { 12 * n }) {
            cases += 1;
            if !run_prim(&mut g, i % 5) { std::process::exit(1); }
        }
    }
    let arms_too = known || sel == "all" || !(sel.starts_with("Value::") || sel.starts_with("ValueBigUint::"))
        || matches!(sel.as_str(), "Value::expand" | "Value::to_shift_amount" | "ValueBigUint::to_bigint" | "ValueBigUint::new_bigint" | "ValueBigUint::gen_mask" | "ValueBigUint::new_x" | "ValueBigUint::new_biguint");
    if !arms_too { println!("NONE {}", cases); return; }
    let mut cases_arms = 0u64;
    for _ in 0..n {
        for (nm, op) in BINARY.iter() {
            if known && *nm != sel { continue; }
            cases += 1;
            if !run_case(&mut g, nm, *op, false) { std::process::exit(1); }
        }
        for (nm, op) in UNARY.iter() {
            if known && *nm != sel { continue; }
            cases += 1;
            if !run_case(&mut g, nm, *op, true) { std::process::exit(1); }
        }
        cases_arms = cases;
        if !known && cases_arms > 40 * n / 3 + 4 * n { break; }
    }
    println!("NONE {}", cases);
}
