// ---- spec side of unit `bigeval` (C17 second half / C18): IEEE 1800 operator semantics over unbounded widths ----
// A big-integer payload / mask is the natural number it denotes (bv); bit i of a natural number n is (n / 2^i) % 2.
// A 4-state vector of width w is a pair (payload p, mask m) with p, m < 2^w; position k is
//   0 (p=0,m=0)   1 (p=1,m=0)   X (p=0,m=1)   Z (p=1,m=1)            -- exactly opeval's `b4`.

pub open spec fn bit(n: nat, i: nat) -> bool { (n / pow2(i)) % 2 == 1 }

/// 2^w - 1: the all-ones pattern of width w
pub open spec fn low(w: nat) -> nat { (pow2(w) - 1) as nat }

pub open spec fn band(a: nat, b: nat) -> nat
    decreases a
{
    if a == 0 { 0 } else { 2 * band(a / 2, b / 2) + (if a % 2 == 1 && b % 2 == 1 { 1nat } else { 0nat }) }
}

pub open spec fn bor(a: nat, b: nat) -> nat
    decreases a + b
{
    if a == 0 && b == 0 { 0 } else { 2 * bor(a / 2, b / 2) + (if a % 2 == 1 || b % 2 == 1 { 1nat } else { 0nat }) }
}

pub open spec fn bxor(a: nat, b: nat) -> nat
    decreases a + b
{
    if a == 0 && b == 0 { 0 } else { 2 * bxor(a / 2, b / 2) + (if (a % 2 == 1) != (b % 2 == 1) { 1nat } else { 0nat }) }
}

/// number of one bits
pub open spec fn popn(n: nat) -> nat
    decreases n
{
    if n == 0 { 0 } else { (n % 2) + popn(n / 2) }
}

#[derive(PartialEq, Eq)]
pub enum B4 { Zero, One, X, Z }

pub open spec fn b4(p: nat, m: nat, k: nat) -> B4 {
    if bit(m, k) { if bit(p, k) { B4::Z } else { B4::X } } else { if bit(p, k) { B4::One } else { B4::Zero } }
}
pub open spec fn unk(b: B4) -> bool { b == B4::X || b == B4::Z }
pub open spec fn b4_and(a: B4, b: B4) -> B4 { if a == B4::Zero || b == B4::Zero { B4::Zero } else if a == B4::One && b == B4::One { B4::One } else { B4::X } }
pub open spec fn b4_or(a: B4, b: B4) -> B4 { if a == B4::One || b == B4::One { B4::One } else if a == B4::Zero && b == B4::Zero { B4::Zero } else { B4::X } }
pub open spec fn b4_xor(a: B4, b: B4) -> B4 { if unk(a) || unk(b) { B4::X } else if a != b { B4::One } else { B4::Zero } }
pub open spec fn b4_not(a: B4) -> B4 { match a { B4::Zero => B4::One, B4::One => B4::Zero, _ => B4::X } }

// ---- arithmetic toolkit ---------------------------------------------------------------------------------------------
proof fn lemma_pow2_step(i: nat)
    ensures pow2(i + 1) == 2 * pow2(i), pow2(i) > 0, pow2(0) == 1
{
    lemma_pow2_unfold(i + 1);
    lemma_pow2_pos(i);
    lemma2_to64();
}

proof fn lemma_pow2_le(a: nat, b: nat)
    requires a <= b
    ensures pow2(a) <= pow2(b), pow2(a) > 0
{
    lemma_pow2_pos(a);
    if a < b { lemma_pow2_strictly_increases(a, b); }
}

/// x + c * m == y with 0 <= x < m  ==>  x == y mod m
proof fn lemma_mod_unique(x: int, y: int, c: int, m: int)
    requires 0 <= x < m, x + c * m == y
    ensures x == y % m
{
    lemma_fundamental_div_mod_converse(y, m, c, x);
}

proof fn lemma_half(n: nat, i: nat)
    ensures bit(n, 0) == (n % 2 == 1), bit(n, i + 1) == bit(n / 2, i)
{
    lemma_pow2_step(i);
    lemma_pow2_step(0);
    lemma_div_denominator(n as int, 2, pow2(i) as int);
    assert(2 * pow2(i) == pow2(i + 1));
    assert(n / 1 == n);
}

proof fn lemma_bit_zero(i: nat)
    ensures !bit(0, i)
{
    lemma_pow2_pos(i);
    lemma_div_basics_1(pow2(i) as int);
}

pub broadcast proof fn lemma_band_bit(a: nat, b: nat, i: nat)
    ensures #[trigger] bit(band(a, b), i) == (bit(a, i) && bit(b, i))
    decreases i
{
    lemma_half(a, 0); lemma_half(b, 0); lemma_half(band(a, b), 0);
    if a == 0 {
        lemma_bit_zero(i);
    } else {
        assert(band(a, b) / 2 == band(a / 2, b / 2));
        assert(band(a, b) % 2 == (if a % 2 == 1 && b % 2 == 1 { 1nat } else { 0nat }));
        if i > 0 {
            let j = (i - 1) as nat;
            lemma_half(a, j); lemma_half(b, j); lemma_half(band(a, b), j);
            lemma_band_bit(a / 2, b / 2, j);
        }
    }
}

pub broadcast proof fn lemma_bor_bit(a: nat, b: nat, i: nat)
    ensures #[trigger] bit(bor(a, b), i) == (bit(a, i) || bit(b, i))
    decreases i
{
    lemma_half(a, 0); lemma_half(b, 0); lemma_half(bor(a, b), 0);
    if a == 0 && b == 0 {
        lemma_bit_zero(i);
    } else {
        assert(bor(a, b) / 2 == bor(a / 2, b / 2));
        assert(bor(a, b) % 2 == (if a % 2 == 1 || b % 2 == 1 { 1nat } else { 0nat }));
        if i > 0 {
            let j = (i - 1) as nat;
            lemma_half(a, j); lemma_half(b, j); lemma_half(bor(a, b), j);
            lemma_bor_bit(a / 2, b / 2, j);
        }
    }
}

pub broadcast proof fn lemma_bxor_bit(a: nat, b: nat, i: nat)
    ensures #[trigger] bit(bxor(a, b), i) == (bit(a, i) != bit(b, i))
    decreases i
{
    lemma_half(a, 0); lemma_half(b, 0); lemma_half(bxor(a, b), 0);
    if a == 0 && b == 0 {
        lemma_bit_zero(i);
    } else {
        assert(bxor(a, b) / 2 == bxor(a / 2, b / 2));
        assert(bxor(a, b) % 2 == (if (a % 2 == 1) != (b % 2 == 1) { 1nat } else { 0nat }));
        if i > 0 {
            let j = (i - 1) as nat;
            lemma_half(a, j); lemma_half(b, j); lemma_half(bxor(a, b), j);
            lemma_bxor_bit(a / 2, b / 2, j);
        }
    }
}

/// two naturals with the same bits are equal
proof fn lemma_bit_ext(a: nat, b: nat)
    requires forall|i: nat| #[trigger] bit(a, i) == bit(b, i)
    ensures a == b
    decreases a + b
{
    lemma_half(a, 0); lemma_half(b, 0);
    assert(bit(a, 0) == bit(b, 0));
    if a != 0 || b != 0 {
        assert forall|i: nat| #[trigger] bit(a / 2, i) == bit(b / 2, i) by {
            lemma_half(a, i); lemma_half(b, i);
            assert(bit(a, i + 1) == bit(b, i + 1));
        }
        lemma_bit_ext(a / 2, b / 2);
    }
}

pub broadcast proof fn lemma_bit_high(n: nat, w: nat, i: nat)
    requires n < pow2(w), w <= i
    ensures !#[trigger] bit(n, i), #[trigger] pow2(w) > 0
{
    lemma_pow2_le(w, i);
    assert(n / pow2(i) == 0) by { lemma_basic_div(n as int, pow2(i) as int); }
}

/// no bit at or above w  ==>  n < 2^w
proof fn lemma_bits_bound(n: nat, w: nat)
    requires forall|i: nat| i >= w ==> !#[trigger] bit(n, i)
    ensures n < pow2(w)
    decreases w
{
    lemma_pow2_step(0);
    if w == 0 {
        assert forall|i: nat| #[trigger] bit(n, i) == bit(0, i) by { lemma_bit_zero(i); }
        lemma_bit_ext(n, 0);
    } else {
        let v = (w - 1) as nat;
        assert forall|i: nat| i >= v implies !#[trigger] bit(n / 2, i) by { lemma_half(n, i); assert(!bit(n, i + 1)); }
        lemma_bits_bound(n / 2, v);
        lemma_pow2_step(v);
    }
}

pub broadcast proof fn lemma_low_bit(w: nat, i: nat)
    ensures #[trigger] bit(low(w), i) == (i < w)
    decreases w
{
    lemma_pow2_step(0);
    if w == 0 {
        lemma_bit_zero(i);
    } else {
        let v = (w - 1) as nat;
        lemma_pow2_step(v);
        assert(low(w) == 2 * low(v) + 1);
        assert(low(w) / 2 == low(v) && low(w) % 2 == 1);
        lemma_half(low(w), 0);
        if i > 0 {
            lemma_half(low(w), (i - 1) as nat);
            lemma_low_bit(v, (i - 1) as nat);
        }
    }
}

proof fn lemma_low_lt(w: nat)
    ensures low(w) < pow2(w), low(w) + 1 == pow2(w)
{
    lemma_pow2_pos(w);
}

/// bit i of n mod 2^w
pub broadcast proof fn lemma_mod_bit(n: nat, w: nat, i: nat)
    ensures #[trigger] bit(n % pow2(w), i) == (i < w && bit(n, i))
    decreases w
{
    lemma_pow2_step(0);
    lemma_pow2_pos(w);
    if w == 0 {
        assert(n % 1 == 0);
        lemma_bit_zero(i);
    } else {
        let v = (w - 1) as nat;
        lemma_pow2_step(v);
        lemma_pow2_pos(v);
        let r = n % pow2(w);
        lemma_mod_breakdown(n as int, 2, pow2(v) as int);
        assert(r == 2 * ((n / 2) % pow2(v)) + n % 2);
        assert(r % 2 == n % 2 && r / 2 == (n / 2) % pow2(v));
        lemma_half(r, 0); lemma_half(n, 0);
        if i > 0 {
            let j = (i - 1) as nat;
            lemma_half(r, j); lemma_half(n, j);
            lemma_mod_bit(n / 2, v, j);
        }
    }
}

pub broadcast proof fn lemma_shr_bit(n: nat, s: nat, i: nat)
    ensures #[trigger] bit(n / pow2(s), i) == bit(n, i + s)
{
    lemma_pow2_pos(s); lemma_pow2_pos(i);
    lemma_pow2_adds(s, i);
    lemma_div_denominator(n as int, pow2(s) as int, pow2(i) as int);
    assert(s + i == i + s);
}

pub broadcast proof fn lemma_shl_bit(n: nat, s: nat, i: nat)
    ensures #[trigger] bit(n * pow2(s), i) == (i >= s && bit(n, (i - s) as nat))
{
    lemma_pow2_pos(s); lemma_pow2_pos(i);
    let m = n * pow2(s);
    if i >= s {
        let d = (i - s) as nat;
        lemma_pow2_adds(s, d);
        lemma_pow2_pos(d);
        assert(s + d == i);
        // m / (2^s * 2^d) == (m / 2^s) / 2^d == n / 2^d
        lemma_div_denominator(m as int, pow2(s) as int, pow2(d) as int);
        lemma_div_multiples_vanish(n as int, pow2(s) as int);
        assert(m == pow2(s) * n) by (nonlinear_arith) requires m == n * pow2(s);
    } else {
        // m = n * 2^i * 2^(s-i): m / 2^i = n * 2^(s-i), even
        let d = (s - i) as nat;
        lemma_pow2_adds(i, d);
        assert(i + d == s);
        lemma_pow2_step((d - 1) as nat);
        let k = n * pow2((d - 1) as nat);
        assert(m == pow2(i) * (2 * k)) by (nonlinear_arith)
            requires m == n * pow2(s), pow2(s) == pow2(i) * pow2(d), pow2(d) == 2 * pow2((d - 1) as nat), k == n * pow2((d - 1) as nat);
        lemma_div_multiples_vanish((2 * k) as int, pow2(i) as int);
        assert(m / pow2(i) == 2 * k);
    }
}

proof fn lemma_band_low(n: nat, w: nat)
    ensures band(n, low(w)) == n % pow2(w), n % pow2(w) < pow2(w)
{
    broadcast use lemma_band_bit, lemma_low_bit, lemma_mod_bit;
    lemma_pow2_pos(w);
    assert forall|i: nat| #[trigger] bit(band(n, low(w)), i) == bit(n % pow2(w), i) by {}
    lemma_bit_ext(band(n, low(w)), n % pow2(w));
    lemma_mod_bound(n as int, pow2(w) as int);
}

proof fn lemma_band_le(a: nat, b: nat)
    ensures band(a, b) <= a, band(a, b) <= b
    decreases a
{
    if a != 0 { lemma_band_le(a / 2, b / 2); }
}

proof fn lemma_bxor_low(a: nat, w: nat)
    requires a < pow2(w)
    ensures bxor(a, low(w)) == low(w) - a
    decreases w
{
    lemma_pow2_step(0);
    if w == 0 {
    } else {
        let v = (w - 1) as nat;
        lemma_pow2_step(v);
        assert(low(w) == 2 * low(v) + 1);
        assert(low(w) / 2 == low(v) && low(w) % 2 == 1);
        lemma_bxor_low(a / 2, v);
    }
}

proof fn lemma_bor_zero(b: nat)
    ensures bor(0, b) == b, bor(b, 0) == b
    decreases b
{
    if b != 0 { lemma_bor_zero(b / 2); }
}

/// a below 2^k and b a multiple of 2^k: or == plus
proof fn lemma_bor_add(a: nat, b: nat, k: nat)
    requires a < pow2(k), b % pow2(k) == 0
    ensures bor(a, b) == a + b
    decreases k
{
    lemma_pow2_step(0);
    if k == 0 {
        lemma_bor_zero(b);
    } else if a == 0 && b == 0 {
    } else {
        let v = (k - 1) as nat;
        lemma_pow2_step(v);
        lemma_mod_breakdown(b as int, 2, pow2(v) as int);
        assert(b % 2 == 0 && (b / 2) % pow2(v) == 0);
        lemma_bor_add(a / 2, b / 2, v);
    }
}

proof fn lemma_nonzero_bit(n: nat)
    ensures (n != 0) == (exists|i: nat| #[trigger] bit(n, i))
{
    if n != 0 {
        if forall|i: nat| !#[trigger] bit(n, i) {
            assert forall|i: nat| #[trigger] bit(n, i) == bit(0, i) by { lemma_bit_zero(i); }
            lemma_bit_ext(n, 0);
        }
    } else {
        assert forall|i: nat| !#[trigger] bit(n, i) by { lemma_bit_zero(i); }
    }
}

/// for p < 2^w, w >= 1: the top bit is set iff p >= 2^(w-1)
proof fn lemma_msb(p: nat, w: nat)
    requires w >= 1, p < pow2(w)
    ensures bit(p, (w - 1) as nat) == (p >= pow2((w - 1) as nat))
{
    let v = (w - 1) as nat;
    lemma_pow2_step(v);
    if p >= pow2(v) {
        lemma_fundamental_div_mod_converse(p as int, pow2(v) as int, 1, p - pow2(v));
    } else {
        lemma_basic_div(p as int, pow2(v) as int);
    }
}
