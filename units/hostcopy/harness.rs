    // Unit `hostcopy`, Kani job `value`: crates/component/src/value.rs on the REAL smallvec crate. This text is placed INSIDE
    // `pub mod value { .. }` next to the extracted items (private fns reachable without visibility rewrites).
    // Word counts are concrete per instantiation (const generics: CBMC keeps allocations concrete), contents and widths symbolic.

    pub mod harness {
        use super::*;

        // ---- independent statement of the layout: LSB-first 64-bit words -------------------------------------------------------
        fn bit(x: u64, b: u32) -> bool { b < 64 && (x >> b) & 1 == 1 }
        /// max(1, ceil(w / 64)) in 64-bit arithmetic
        fn nwords(w: u32) -> usize { let q = (w as u64 + 63) / 64; if q == 0 { 1 } else { q as usize } }
        /// bit b of word k lies inside a `width`-bit value
        fn in_width(k: usize, b: u32, width: u32) -> bool { 64 * (k as u64) + (b as u64) < width as u64 }
        fn any_kb<const N: usize>() -> (usize, u32) {
            let k: usize = kani::any();
            let b: u32 = kani::any();
            if N > 0 { kani::assume(k < N); }
            kani::assume(b < 64);
            (k, b)
        }
        fn sv<const N: usize>(a: &[u64; N]) -> SmallVec<[u64; 2]> { SmallVec::from_slice(&a[..]) }

        /// words_for(w) == max(1, ceil(w/64)) for every u32 (value.rs); also validates the div_ceil contract assumed by the Verus job
        #[cfg_attr(kani, kani::proof)]
        pub fn words_for_value() {
            let w: u32 = kani::any();
            assert!(words_for(w) == nwords(w));
            let x: usize = kani::any();
            kani::assume(x <= u32::MAX as usize);
            assert!(x.div_ceil(64) as u64 == (x as u64 + 63) / 64);
        }
        /// the same for the copy in simulator/src/component/host.rs
        #[cfg_attr(kani, kani::proof)]
        pub fn words_for_host() {
            let w: u32 = kani::any();
            assert!(crate::host::words_for(w) == nwords(w));
        }

        // ---- mask_top_word ----------------------------------------------------------------------------------------------------
        fn mask_top_n<const N: usize>() {
            let mut a: [u64; N] = kani::any();
            let old = a;
            let width: u32 = kani::any();
            let (k, b) = any_kb::<N>();
            mask_top_word(&mut a, width);
            if N > 0 {
                let rem = width % 64;
                let keep = if k + 1 < N { true } else { width != 0 && (rem == 0 || b < rem) };
                assert!(bit(a[k], b) == (bit(old[k], b) && keep), "mask_top_word: a bit below width was cleared or a bit of the top word at/above width % 64 survived");
                if N == nwords(width) {
                    assert!(bit(a[k], b) == (bit(old[k], b) && in_width(k, b, width)), "mask_top_word: not exactly the bits >= width cleared");
                }
            }
        }
        /// all contents, all u32 widths, every (word, bit) position; slices of 0..=3 words
        #[cfg_attr(kani, kani::proof)]
        pub fn mask_top_word_bits() {
            let width: u32 = kani::any();
            let mut e: [u64; 0] = [];
            mask_top_word(&mut e, width);      // an empty slice: nothing to do, no panic
            mask_top_n::<1>(); mask_top_n::<2>(); mask_top_n::<3>();
        }

        // ---- as_i64 -----------------------------------------------------------------------------------------------------------
        fn as_i64_n<const N: usize>() {
            let w: [u64; N] = kani::any();
            let m: [u64; N] = kani::any();
            let width: u32 = kani::any();
            let v = Value::Bits { words: sv(&w), mask_xz: sv(&m), width };
            let raw: u64 = w.first().copied().unwrap_or(0);
            let r = v.as_i64();
            if width == 0 || width > 64 {
                assert!(r.is_err(), "as_i64 must refuse widths outside 1..=64");
            } else {
                let low: u128 = (raw as u128) & ((1u128 << width) - 1);
                let want: i128 = if (low >> (width - 1)) & 1 == 1 { low as i128 - (1i128 << width) } else { low as i128 };
                assert!(r.is_ok(), "as_i64 refused a width in 1..=64");
                assert!(r.unwrap() as i128 == want, "as_i64 is not the two's-complement value of the low `width` bits");
            }
        }
        /// all payloads / masks / u32 widths; 0..=2 words. NOTE: as coded as_i64 does not look at mask_xz (X/Z bits convert silently).
        #[cfg_attr(kani, kani::proof)]
        #[cfg_attr(kani, kani::unwind(6))]
        pub fn as_i64_contract() {
            as_i64_n::<0>(); as_i64_n::<1>(); as_i64_n::<2>();
            assert!(Value::Str(String::new()).as_i64().is_err());
            assert!(Value::Unit.as_i64().is_err());
        }

        // ---- unknown_at -------------------------------------------------------------------------------------------------------
        fn unknown_at_n<const N: usize>() {
            let p: [u64; N] = kani::any();
            let m: [u64; N] = kani::any();
            let width: u32 = kani::any();
            let i: u32 = kani::any();
            let v = Value::Bits { words: sv(&p), mask_xz: sv(&m), width };
            let (w, b) = ((i / 64) as usize, i % 64);
            let want = match (m.get(w), p.get(w)) { (Some(mw), Some(pw)) if bit(*mw, b) => Some(bit(*pw, b)), _ => None };
            let got = v.unknown_at(i);
            assert!(got == want, "unknown_at(i) is not Some(payload bit i) iff mask bit i is set");
            // representation invariant of Value::Bits ("excess high bits are zero", len == words_for(width)): bits outside the width are None
            if N > 0 && N == nwords(width) {
                let rem = width % 64;
                let top = m.last().copied().unwrap_or(0);
                let top_clean = if width == 0 { top == 0 } else if rem == 0 { true } else { top >> rem == 0 };
                if top_clean && i >= width { assert!(got.is_none(), "unknown_at outside the width must be None"); }
            }
        }
        #[cfg_attr(kani, kani::proof)]
        #[cfg_attr(kani, kani::unwind(6))]
        pub fn unknown_at_contract() {
            unknown_at_n::<0>(); unknown_at_n::<1>(); unknown_at_n::<2>(); unknown_at_n::<3>();
            let i: u32 = kani::any();
            assert!(Value::Str(String::new()).unknown_at(i).is_none());
            assert!(Value::Unit.unknown_at(i).is_none());
        }

        // ---- constructors / port resizing: every bit inside the width survives, everything outside is zero -----------------------
        // SmallVec growth (resize to words_for(width)) is what CBMC pays for here: a symbolic width (even <= 128) ran out of memory,
        // several calls in one harness or a heap-spilled SmallVec (3 words) did not finish in 10-15 min. So: ONE call per harness at a
        // CONCRETE width with at most 2 words (inline SmallVec), contents fully symbolic. The widths cover width 0, a partial top
        // word, both sides of the word boundary, zero-extension (source shorter than the port) and truncation (source longer).

        /// `out` is nwords(width) long and bit (k,b) equals `src` bit (k,b) inside min(width, 64*src.len()), zero outside
        fn check_resized(out: &[u64], src: &[u64], width: u32) {
            assert!(out.len() == nwords(width));
            let k: usize = kani::any();
            let b: u32 = kani::any();
            kani::assume(k < 3 && b < 64);
            if k < out.len() {
                let s = k < src.len() && bit(src[k], b);
                assert!(bit(out[k], b) == (s && in_width(k, b, width)), "a bit inside the width changed or a bit outside the width (or beyond the source) survived");
            }
        }

        fn from_u64_w(width: u32) {
            let v: u64 = kani::any();
            match Value::from_u64(v, width) {
                Value::Bits { words, mask_xz, width: w2 } => {
                    assert!(w2 == width);
                    check_resized(&words, &[v], width);
                    check_resized(&mask_xz, &[], width);
                }
                _ => panic!("from_u64 did not build Bits"),
            }
        }
        fn from_bits_n<const N: usize, const M: usize>(width: u32) {
            let p: [u64; N] = kani::any();
            let m: [u64; M] = kani::any();
            match Value::from_bits(sv(&p), sv(&m), width) {
                Value::Bits { words, mask_xz, width: w2 } => {
                    assert!(w2 == width);
                    check_resized(&words, &p, width);
                    check_resized(&mask_xz, &m, width);
                }
                _ => panic!("from_bits did not build Bits"),
            }
        }
        fn to_port_n<const N: usize>(width: u32) {
            let p: [u64; N] = kani::any();
            let m: [u64; N] = kani::any();
            let vw: u32 = kani::any();
            let v = Value::Bits { words: sv(&p), mask_xz: sv(&m), width: vw };
            let w = v.to_port_words(width);
            assert!(w.is_ok());
            check_resized(&w.unwrap(), &p, width);
            let x = v.to_port_mask_xz(width);
            assert!(x.is_ok());
            check_resized(&x.unwrap(), &m, width);
        }
        macro_rules! one { ($name:ident, $call:expr) => {
            #[cfg_attr(kani, kani::proof)]
            #[cfg_attr(kani, kani::unwind(6))]
            pub fn $name() { $call; }
        } }
        one!(from_u64_w0, from_u64_w(0));
        one!(from_u64_w1, from_u64_w(1));
        one!(from_u64_w63, from_u64_w(63));
        one!(from_u64_w64, from_u64_w(64));
        one!(from_u64_w65, from_u64_w(65));
        one!(from_u64_w128, from_u64_w(128));
        one!(from_bits_2_2_w1, from_bits_n::<2, 2>(1));
        one!(from_bits_2_2_w64, from_bits_n::<2, 2>(64));
        one!(from_bits_2_2_w100, from_bits_n::<2, 2>(100));
        one!(from_bits_2_2_w128, from_bits_n::<2, 2>(128));
        one!(from_bits_1_2_w65, from_bits_n::<1, 2>(65));
        one!(to_port_2_w1, to_port_n::<2>(1));
        one!(to_port_2_w64, to_port_n::<2>(64));
        one!(to_port_2_w100, to_port_n::<2>(100));
        one!(to_port_2_w128, to_port_n::<2>(128));
        one!(to_port_1_w100, to_port_n::<1>(100));
        #[cfg_attr(kani, kani::proof)]
        pub fn to_port_non_bits() { assert!(Value::Unit.to_port_words(8).is_err() && Value::Unit.to_port_mask_xz(8).is_err()); }

        /// canary: mask_top_word does change something (must FAIL)
        #[cfg_attr(kani, kani::proof)]
        pub fn canary_mask_top_word() {
            let mut a: [u64; 2] = kani::any();
            let old = a;
            let width: u32 = kani::any();
            kani::assume(width <= 128);
            mask_top_word(&mut a, width);
            assert!(a == old);
        }
        /// canary: from_u64 at a multi-word width with a partial top word is not the identity on one word (must FAIL)
        #[cfg_attr(kani, kani::proof)]
        #[cfg_attr(kani, kani::unwind(6))]
        pub fn canary_from_u64() {
            let v: u64 = kani::any();
            if let Value::Bits { words, .. } = Value::from_u64(v, 100) { assert!(words.len() == 1 && words[0] == v); }
        }
    }
