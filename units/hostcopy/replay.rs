// Unit `hostcopy`, native seeded run (replay + thorough tier): the REAL text of the functions under contract (prepended by unit.py:
// Item.orig of PortDir, PortRole, HostPort, HostTraceVar, HostValue, HostContext, words_for, add_port_role, set_input, set_input_masked,
// svc_port_words_len, svc_write_output from host.rs and, in `mod value`, words_for / mask_top_word from value.rs) against an executable
// form of the postconditions of unit.py. `FOUND {json}` = a concrete failing input (a panic inside the real code is reported, too).

fn nwords(w: u32) -> usize { let q = (w as u64 + 63) / 64; if q == 0 { 1 } else { q as usize } }
fn bit(x: u64, b: u32) -> bool { (x >> b) & 1 == 1 }

#[derive(Clone, PartialEq, Debug)]
struct Snap { name: String, dir: PortDir, role: PortRole, width: u32, words: Vec<u64>, mask: Vec<u64>, dirty: bool }
fn snap(c: &HostContext) -> Vec<Snap> {
    c.ports.iter().map(|p| Snap { name: p.name.clone(), dir: p.dir, role: p.role, width: p.width, words: p.words.clone(), mask: p.mask_xz.clone(), dirty: p.dirty }).collect()
}
fn rest(c: &HostContext) -> String {
    format!("{:?}|{:?}|{}|{:?}|{}|{}|{}|{}|{}|{}|{:?}|{:?}|{}|{:?}|{}", c.params.len(), c.failures, c.finish_requested, c.logs, c.cycle, c.time, c.seed, c.fired_clock,
            c.use_4state, c.label, c.touched, c.resolved_role, c.files.len(), c.touched_files, c.in_create)
}
fn fail(what: &str, case: String, got: String, want: String) -> ! {
    println!("FOUND {{\"fn\":\"{}\",\"case\":{},\"actual\":{:?},\"expected\":{:?}}}", what, case, got, want);
    std::process::exit(1);
}
fn gen_width(g: &mut Rng) -> u32 {
    match g.below(10) { 0 => 0, 1 => 1, 2 => 63, 3 => 64, 4 => 65, 5 => 127, 6 => 128, 7 => 129, 8 => 1 + g.below(64) as u32, _ => g.below(400) as u32 }
}
fn gen_words(g: &mut Rng, n: usize) -> Vec<u64> { (0..n).map(|_| g.edge()).collect() }

fn main() {
    let mut g = Rng(vp_seed());
    vp_hook();
    let mut n_cases = 0u64;
    for _ in 0..60_000u64 {
        // ---- words_for (both copies) --------------------------------------------------------------------------------------
        let w = if g.below(2) == 0 { g.edge() as u32 } else { gen_width(&mut g) };
        vp_case(format!("{{\"width\":{}}}", w));
        if words_for(w) != nwords(w) { fail("host::words_for", format!("{{\"width\":{}}}", w), words_for(w).to_string(), nwords(w).to_string()); }
        if value::words_for(w) != nwords(w) { fail("value::words_for", format!("{{\"width\":{}}}", w), value::words_for(w).to_string(), nwords(w).to_string()); }

        // ---- mask_top_word ------------------------------------------------------------------------------------------------------
        let width = gen_width(&mut g);
        let len = if g.below(4) == 0 { g.below(5) as usize } else { nwords(width) };
        let old = gen_words(&mut g, len);
        let mut a = old.clone();
        let case = format!("{{\"words\":{:?},\"width\":{}}}", old, width);
        vp_case(case.clone());
        value::mask_top_word(&mut a, width);
        n_cases += 1;
        let mut want = old.clone();
        if len > 0 {
            let rem = width % 64;
            for b in 0..64u32 { let keep = width != 0 && (rem == 0 || b < rem); if !keep { want[len - 1] &= !(1u64 << b); } }
        }
        if a != want { fail("value::mask_top_word", case, format!("{:x?}", a), format!("{:x?}", want)); }
        if len == nwords(width) {
            for k in 0..len { for b in 0..64u32 {
                let inw = 64 * (k as u64) + (b as u64) < width as u64;
                if bit(a[k], b) != (bit(old[k], b) && inw) { fail("value::mask_top_word", case.clone(), format!("bit ({k},{b}) = {}", bit(a[k], b)), format!("{}", bit(old[k], b) && inw)); }
            } }
        }

        // ---- a context with 1..4 ports ------------------------------------------------------------------------------------------------
        let mut c = HostContext::new();
        c.cycle = g.next(); c.seed = g.next(); c.label = "L".to_string();
        let np = 1 + g.below(4) as usize;
        for i in 0..np {
            let dir = if g.below(2) == 0 { PortDir::Input } else { PortDir::Output };
            let pw = gen_width(&mut g);
            let before = snap(&c);
            let r = c.add_port_role(&format!("p{i}"), dir, PortRole::Data, pw);
            let after = snap(&c);
            let p = &after[i];
            if r as usize != i || after.len() != i + 1 || after[..i] != before[..] || p.words != vec![0u64; nwords(pw)] || p.mask != vec![0u64; nwords(pw)] || p.dirty || p.width != pw || p.dir != dir {
                fail("HostContext::add_port_role", format!("{{\"width\":{}}}", pw), format!("{:?}", p), "a clean port with words_for(width) zero words".into());
            }
            // stale content, so that "cleared" and "overwritten" are observable
            let n = nwords(pw);
            c.ports[i].words = gen_words(&mut g, n);
            c.ports[i].mask_xz = gen_words(&mut g, n);
            c.ports[i].dirty = g.below(2) == 0;
        }
        let idx = g.below(np as u64) as usize;
        let op = g.below(3);
        // set_input / set_input_masked are for input ports (debug_assert_eq!(port.dir, PortDir::Input) = precondition of the contract)
        if op < 2 { c.ports[idx].dir = PortDir::Input; }
        let before = snap(&c);
        let rest0 = rest(&c);
        let n = before[idx].words.len();
        match op {
            0 => {
                let extra = if g.below(3) == 0 { 1 + g.below(3) as usize } else { 0 };
                let src = gen_words(&mut g, n + extra);
                let case = format!("{{\"port_width\":{},\"idx\":{},\"words\":{:?}}}", before[idx].width, idx, src);
                vp_case(case.clone());
                c.set_input(idx as u32, &src);
                let after = snap(&c);
                let mut want = before.clone();
                want[idx].words = src[..n].to_vec();
                want[idx].mask = vec![0; n];
                if after != want || rest(&c) != rest0 { fail("HostContext::set_input", case, format!("{:x?}", after[idx]), format!("{:x?}", want[idx])); }
            }
            1 => {
                let extra = if g.below(3) == 0 { 1 + g.below(3) as usize } else { 0 };
                let src = gen_words(&mut g, n + extra);
                let mextra = if g.below(3) == 0 { 2 } else { 0 };
                let msk = gen_words(&mut g, n + mextra);
                let case = format!("{{\"port_width\":{},\"idx\":{},\"words\":{:?},\"mask_xz\":{:?}}}", before[idx].width, idx, src, msk);
                vp_case(case.clone());
                c.set_input_masked(idx as u32, &src, &msk);
                let after = snap(&c);
                let mut want = before.clone();
                want[idx].words = src[..n].to_vec();
                want[idx].mask = msk[..n].to_vec();
                if after != want || rest(&c) != rest0 { fail("HostContext::set_input_masked", case, format!("{:x?}", after[idx]), format!("{:x?}", want[idx])); }
            }
            _ => {
                let oob = g.below(5) == 0;
                let i = if oob { np as u32 + g.below(3) as u32 } else { idx as u32 };
                let len = c.svc_port_words_len(i);
                if len != (if oob { None } else { Some(n) }) { fail("HostContext::svc_port_words_len", format!("{{\"idx\":{},\"ports\":{}}}", i, np), format!("{:?}", len), format!("{:?}", if oob { None } else { Some(n) })); }
                let m = if oob { 1 + g.below(3) as usize } else { n };
                let src = gen_words(&mut g, m);
                let msk = if g.below(2) == 0 { Some(gen_words(&mut g, m)) } else { None };
                let case = format!("{{\"ports\":{},\"idx\":{},\"dir\":\"{:?}\",\"port_width\":{},\"words\":{:?},\"mask_xz\":{:?},\"stale_mask\":{:?}}}", np, i,
                                   if oob { None } else { Some(before[idx].dir) }, if oob { 0 } else { before[idx].width }, src, msk, if oob { vec![] } else { before[idx].mask.clone() });
                vp_case(case.clone());
                c.svc_write_output(i, &src, msk.as_deref());
                let after = snap(&c);
                let mut want = before.clone();
                if !oob && before[idx].dir == PortDir::Output {
                    want[idx].words = src.clone();
                    want[idx].mask = match &msk { Some(x) => x.clone(), None => vec![0; n] };
                    want[idx].dirty = true;
                }
                if after != want || rest(&c) != rest0 {
                    let k = if oob { 0 } else { idx };
                    fail("HostContext::svc_write_output", case, format!("{:x?}", after.get(k)), format!("{:x?}", want.get(k)));
                }
            }
        }
    }
    println!("NONE {}", n_cases);
}
