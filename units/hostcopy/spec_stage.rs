// ---- unit `hostcopy`, call-site glue (C35): RuntimeComponent::stage_inputs of simulator/src/component/runtime.rs ---------------------
// E1: the types runtime.rs imports and stage_inputs never looks into are opaque stand-ins here; the analyzer's Value / ValueU64 /
// ValueBigUint are the REAL definitions (cut from crates/analyzer/src/value.rs), only num_bigint::BigUint is opaque.

#[verifier::external_body]
pub struct ExternalInstance { _p: core::marker::PhantomData<()> }
#[verifier::external_body]
pub struct OutputBinding { _p: core::marker::PhantomData<()> }
#[verifier::external_body]
pub struct Event { _p: core::marker::PhantomData<()> }
#[verifier::external_body]
pub struct MaskCache { _p: core::marker::PhantomData<()> }
#[verifier::external_body]
pub struct BigUint { _p: core::marker::PhantomData<()> }
#[verifier::external_body]
pub struct Expression { _p: core::marker::PhantomData<()> }
pub mod resource_table {
    pub struct StrId { pub id: usize }
}

/// the LSB-first 64-bit digits of a BigUint (what `iter_u64_digits` yields)
pub uninterp spec fn digits(b: BigUint) -> Seq<u64>;
/// the value an interpreter expression evaluates to at this instant (eval is treated as a function of the expression)
pub uninterp spec fn eval_spec(e: Expression) -> Value;

impl Expression {
    /// O17: `Expression::eval` (the interpreter) outlined
    #[verifier::external_body]
    pub fn eval(&self, mask_cache: &mut MaskCache) -> (r: Value)
        ensures r == eval_spec(*self),
    { unimplemented!() }
}

/// O17: `out.extend(b.iter_u64_digits())`
#[verifier::external_body]
fn vp_extend_digits(out: &mut Vec<u64>, b: &BigUint)
    ensures final(out)@ == old(out)@ + digits(*b),
{ unimplemented!() }

/// O17: `*b != BigUint::zero()`: some digit is non-zero
#[verifier::external_body]
fn vp_big_nonzero(b: &BigUint) -> (r: bool)
    ensures r == !all_zero(digits(*b)),
{ unimplemented!() }

/// O16: the two direct-copy arms of stage_inputs (`unsafe`: raw pointers from DUT storage into the cached buffers of host port `idx`,
/// see cache_port_buffers). ASSUMED: they write nothing but the payload / mask words of that port. Their content is not under contract here.
#[verifier::external_body]
fn vp_direct_copy(host: &mut HostContext, idx: u32, use_4state: bool)
    requires (idx as int) < old(host).ports@.len(),
    ensures
        rest_same(*final(host), *old(host)), others_same(final(host).ports@, old(host).ports@, idx as int),
        same_decl(final(host).ports@[idx as int], old(host).ports@[idx as int]), final(host).ports@[idx as int].dirty == old(host).ports@[idx as int].dirty,
        final(host).ports@[idx as int].words@.len() == old(host).ports@[idx as int].words@.len(),
        final(host).ports@[idx as int].mask_xz@.len() == old(host).ports@[idx as int].mask_xz@.len(),
{ unimplemented!() }

// ---- what "the words of a value" means -----------------------------------------------------------------------------------------------
pub open spec fn val_words(v: Value) -> Seq<u64> {
    match v { Value::U64(x) => seq![x.payload], Value::BigUint(x) => digits(*x.payload) }
}
pub open spec fn val_mask(v: Value) -> Seq<u64> {
    match v { Value::U64(x) => seq![x.mask_xz], Value::BigUint(x) => digits(*x.mask_xz) }
}
/// `s` zero-extended / truncated to n words
pub open spec fn fit(s: Seq<u64>, n: int) -> Seq<u64> {
    Seq::new(n as nat, |i: int| if i < s.len() { s[i] } else { 0u64 })
}
pub open spec fn zeros(n: int) -> Seq<u64> { Seq::new(n as nat, |i: int| 0u64) }

/// precondition on one staged input (host port idx, source, width): an input port of that width with well-formed buffers
pub open spec fn stage_ok(h: HostContext, inp: (u32, InputSource, u32)) -> bool {
    &&& (inp.0 as int) < h.ports@.len()
    &&& h.ports@[inp.0 as int].dir == PortDir::Input
    &&& h.ports@[inp.0 as int].width == inp.2
    &&& wf_port(h.ports@[inp.0 as int])
}

/// postcondition for one staged input: an expression input ends with port.words == the value's payload words and
/// port.mask_xz == the value's X/Z mask words (all zero in a two-state run), whichever of set_input / set_input_masked was chosen
pub open spec fn staged(h: HostContext, inp: (u32, InputSource, u32)) -> bool {
    match inp.1 {
        InputSource::Expr(e) => {
            let p = h.ports@[inp.0 as int];
            &&& p.words@ =~= fit(val_words(eval_spec(e)), nwords(inp.2))
            &&& p.mask_xz@ =~= (if h.use_4state { fit(val_mask(eval_spec(e)), nwords(inp.2)) } else { zeros(nwords(inp.2)) })
        }
        _ => true,
    }
}

pub open spec fn addressed(inputs: Seq<(u32, InputSource, u32)>, p: int) -> bool {
    exists|j: int| 0 <= j < inputs.len() && #[trigger] inputs[j].0 as int == p
}

pub broadcast proof fn lemma_fit_all_zero(s: Seq<u64>, n: int)
    requires all_zero(s),
    ensures #[trigger] fit(s, n) =~= zeros(n),
{}

/// the fields of a RuntimeComponent that staging never touches (the two scratch buffers are working storage)
pub open spec fn rc_rest_same(a: RuntimeComponent, b: RuntimeComponent) -> bool {
    &&& a.name == b.name && a.name_id == b.name_id && a.instance == b.instance && a.file_declared == b.file_declared
    &&& a.inputs == b.inputs && a.outputs == b.outputs && a.clock_events == b.clock_events && a.reset_events == b.reset_events
    &&& a.fire_count == b.fire_count
}
