// ---- unit `hostcopy` (C35): values cross the host/component boundary with every bit and every X/Z mask bit intact ----------
// Hand-written: only this file and the contracts in unit.py. Function bodies are cut from
// /repo/crates/simulator/src/component/host.rs and /repo/crates/component/src/value.rs on every run.

// ---- std types without a Verus model (fields of HostContext that the functions under contract never touch) -------------------
#[verifier::external_type_specification]
#[verifier::external_body]
pub struct ExFile(std::fs::File);
#[verifier::external_type_specification]
#[verifier::external_body]
pub struct ExPathBuf(std::path::PathBuf);
#[verifier::external_type_specification]
#[verifier::external_body]
pub struct ExPath(std::path::Path);

/// number of 64-bit words of a `width`-bit port / value: max(1, ceil(width / 64))
pub open spec fn nwords(width: u32) -> int {
    if width == 0 { 1 } else { (width as int + 63) / 64 }
}

/// representation invariant of a port as `add_port_role` builds it: payload and mask buffers have nwords(width) words each
pub open spec fn wf_port(p: HostPort) -> bool {
    p.words@.len() == nwords(p.width) && p.mask_xz@.len() == nwords(p.width)
}

pub open spec fn all_zero(s: Seq<u64>) -> bool { forall|i: int| 0 <= i < s.len() ==> s[i] == 0u64 }

/// every field of the context except `ports` is untouched (frame)
pub open spec fn rest_same(a: HostContext, b: HostContext) -> bool {
    &&& a.params == b.params && a.failures == b.failures && a.finish_requested == b.finish_requested && a.logs == b.logs
    &&& a.cycle == b.cycle && a.time == b.time && a.seed == b.seed && a.fired_clock == b.fired_clock && a.use_4state == b.use_4state
    &&& a.label == b.label && a.touched == b.touched && a.resolved_role == b.resolved_role && a.files == b.files
    &&& a.touched_files == b.touched_files && a.read_base == b.read_base && a.write_base == b.write_base
    &&& a.trace_vars == b.trace_vars && a.in_create == b.in_create
}

/// all ports but `idx` are untouched, none is added or removed (frame)
pub open spec fn others_same(a: Seq<HostPort>, b: Seq<HostPort>, idx: int) -> bool {
    a.len() == b.len() && forall|j: int| 0 <= j < a.len() && j != idx ==> a[j] == b[j]
}

/// the identity of a port (everything but its buffers and dirty flag) is untouched
pub open spec fn same_decl(p: HostPort, q: HostPort) -> bool {
    p.name == q.name && p.dir == q.dir && p.role == q.role && p.width == q.width
}

// ---- bits ---------------------------------------------------------------------------------------------------------------------
pub open spec fn bit(x: u64, b: int) -> bool { 0 <= b < 64 && (x >> (b as u64)) & 1 == 1 }

/// bit `b` of word `k` of a `width`-bit value lies inside the value
pub open spec fn in_width(k: int, b: int, width: u32) -> bool { 64 * k + b < width as int }

/// which bits of the TOP word mask_top_word keeps, as coded: none for width 0, all if width is a multiple of 64, else those below width % 64
pub open spec fn keep_top(width: u32, b: int) -> bool { width != 0 && (width % 64 == 0 || b < (width % 64) as int) }

pub broadcast proof fn lemma_bit_zero(b: int)
    ensures !#[trigger] bit(0u64, b),
{
    if 0 <= b < 64 {
        let c = b as u64;
        assert((0u64 >> c) & 1 == 0) by (bit_vector);
    }
}

/// for the top word of a buffer of nwords(width) words, "kept by mask_top_word" is "position below width"; all lower words lie inside
pub proof fn lemma_keep_top(width: u32, k: int, b: int)
    requires 0 <= k < nwords(width), 0 <= b < 64,
    ensures
        k == nwords(width) - 1 ==> (keep_top(width, b) <==> in_width(k, b, width)),
        k < nwords(width) - 1 ==> in_width(k, b, width),
{}

proof fn lemma_mask_low(x: u64, rem: u32, b: u64)
    requires 1 <= rem <= 63, b < 64,
    ensures bit(x & (u64::MAX >> ((64 - rem) as u32)), b as int) == (bit(x, b as int) && b < rem as u64),
{
    let s = (64 - rem) as u32;
    assert(((x & (0xffff_ffff_ffff_ffffu64 >> s)) >> b) & 1 == (if b < rem as u64 { (x >> b) & 1 } else { 0u64 })) by (bit_vector)
        requires 1 <= rem <= 63, b < 64, s == 64 - rem;
}

// ---- outlined std calls ---------------------------------------------------------------------------------------------------------
/// O5: usize::div_ceil = ceiling of the quotient
pub assume_specification [usize::div_ceil] (x: usize, y: usize) -> (r: usize)
    requires y > 0,
    ensures r as int == (x as int + y as int - 1) / (y as int);

/// O6: `v.iter_mut().for_each(|m| *m = 0)`: every element becomes 0, the length stays
#[verifier::external_body]
fn vp_zero_fill(v: &mut Vec<u64>)
    ensures final(v)@.len() == old(v)@.len(), all_zero(final(v)@),
{ v.iter_mut().for_each(|m| *m = 0) }
