"""U12 hostcopy — values crossing the host/component boundary (C35, clause "every bit and every X/Z mask bit intact at every width").
Back ends: Verus (unbounded widths / word counts: the port copies of simulator/src/component/host.rs, words_for, mask_top_word)
         + Kani (real smallvec: Value::{as_i64, unknown_at, from_u64, from_bits, to_port_words, to_port_mask_xz}, all u64/u32 contents,
           word counts <= 3; cross-check of words_for and mask_top_word)."""
import re
from vp.core import VerusJob, KaniJob
from vp.verus_run import VerusFile
from vp.kani_run import Harness
from vp.extract import ExtractError

H = "crates/simulator/src/component/host.rs"
V = "crates/component/src/value.rs"
R = "crates/simulator/src/component/runtime.rs"
A = "crates/analyzer/src/value.rs"

TRUSTED = {
    r"pub struct Ex(File|PathBuf|Path)": "opaque std types fs::File / PathBuf: element types of HostContext fields the functions under contract never touch",
    r"\[usize::div_ceil\]": "O5: usize::div_ceil(x, y) = ceil(x / y) for y > 0 (checked against the real std function by the Kani job, harness words_for_*)",
    r"pub struct (ExternalInstance|OutputBinding|Event|MaskCache|BigUint|Expression)": "E1: opaque stand-ins for types runtime.rs imports (ExternalInstance, OutputBinding, Event, MaskCache, num_bigint::BigUint, ir::Expression)",
    r"pub fn eval\(": "O17: Expression::eval (the interpreter) outlined: returns eval_spec(expr), treated as a function of the expression at this instant",
    r"fn vp_extend_digits": "O17: out.extend(b.iter_u64_digits()) outlined: appends the LSB-first 64-bit digits of the BigUint",
    r"fn vp_big_nonzero": "O17: *b != BigUint::zero() outlined: some digit is non-zero",
    r"fn vp_direct_copy": "O16: the two unsafe direct-copy arms of stage_inputs outlined; ASSUMED to write only the payload/mask words of host port idx (pointers cached by cache_port_buffers)",
    r"uninterp spec fn": "uninterpreted: digits(BigUint), eval_spec(Expression)",
    r"fn vp_zero_fill": "O6: `v.iter_mut().for_each(|m| *m = 0)` outlined: same length, every element 0",
}

CANARIES = [
    ("vp_canary_set_input", "proof fn vp_canary_set_input(c: HostContext, idx: u32, w: Seq<u64>) requires (idx as int) < c.ports@.len(), c.ports@[idx as int].dir == PortDir::Input, wf_port(c.ports@[idx as int]), "
                            "w.len() >= c.ports@[idx as int].words@.len(), c.ports@[idx as int].width > 128, c.ports@.len() > 2 ensures false {}"),
    ("vp_canary_write_output", "proof fn vp_canary_write_output(c: HostContext, idx: u32, w: Seq<u64>, m: Option<Seq<u64>>) requires (idx as int) < c.ports@.len(), "
                               "c.ports@[idx as int].dir == PortDir::Output, wf_port(c.ports@[idx as int]), w.len() == c.ports@[idx as int].words@.len(), "
                               "m is Some, m.unwrap().len() == w.len(), w.len() > 1 ensures false {}"),
    ("vp_canary_stage", "proof fn vp_canary_stage(c: RuntimeComponent) requires c.inputs@.len() >= 2, c.host.use_4state, c.inputs@[0].0 != c.inputs@[1].0, c.inputs@[0].2 > 64, "
                        "forall|j: int| 0 <= j < c.inputs@.len() ==> stage_ok(c.host, #[trigger] c.inputs@[j]), c.inputs@[0].1 is Expr, c.inputs@[1].1 is DirectWide ensures false {}"),
    ("vp_canary_mask_top", "proof fn vp_canary_mask_top(w: Seq<u64>, width: u32) requires w.len() == nwords(width), width % 64 == 3, width > 64 ensures false {}"),
]

# the dropped `debug_assert_eq!(port.dir, PortDir::Input)` is kept as a precondition
PORT_PRE = "(idx as int) < old(self).ports@.len(), old(self).ports@[idx as int].dir == PortDir::Input,"
P0 = "old(self).ports@[idx as int]"
P1 = "final(self).ports@[idx as int]"


def only_jobs(jobs):
    """VP_ONLY=verus|kani restricts a dry run (`./check --unit`) to one back end: a convenience for mutation smoke tests only;
    `./check <property>` then reports the other job's baseline obligations as not attempted (undecided), never as passed"""
    import os
    only = os.environ.get("VP_ONLY", "")
    if only == "verus":
        return [j for j in jobs if isinstance(j, VerusJob)]
    if only == "kani":
        return [j for j in jobs if isinstance(j, KaniJob)]
    return jobs


def build(ctx, res):
    """the two back ends are built independently: a lost anchor (ExtractError) in one job makes that job undecided and keeps the other's verdict"""
    jobs = []
    for mk in (verus_job, kani_job):
        try:
            jobs.append(mk(ctx, res))
        except ExtractError as e:
            res.undecided.append("extraction (%s): %s" % (mk.__name__, e))
    return only_jobs(jobs)


def verus_job(ctx, res):
    h, v = ctx.src(H), ctx.src(V)
    vf = VerusFile()
    items = []

    def add(it, label=None):
        items.append(it)
        vf.item(it, label)

    it = h.item("enum", "PortDir")
    it.replace("#[derive(Clone, Copy, PartialEq, Eq, Debug)]", "#[derive(Clone, Copy, PartialEq, Eq, Debug, Structural)]",
               rule="E3s `Structural` added to the derive list of the field-less enum (Verus marker: the derived == is structural equality; Verus checks the claim)")
    add(it)
    it = h.item("enum", "PortRole")
    it.replace("#[derive(Clone, Copy, PartialEq, Eq, Debug, Default)]", "#[derive(Clone, Copy, PartialEq, Eq, Debug, Structural)]", rule="E3s + E3 (Default derive dropped)")
    it.drop_attr(r"default", rule="E3 #[default] dropped with the Default derive")
    add(it)
    it = h.item("struct", "HostPort")
    it.replace("struct HostPort", "pub struct HostPort", rule="V1 visibility only: struct and fields made pub so that open spec functions may read them")
    it.sub(r"\n    (name|dir|role|width|words|mask_xz|dirty):", r"\n    pub \1:", count=7, rule="V1")
    add(it)
    add(h.item("struct", "HostTraceVar"))
    it = h.item("enum", "HostValue")
    it.strip_derive("Clone", "PartialEq", "Eq", "Debug")
    add(it)
    it = h.item("struct", "HostContext")
    it.strip_derive("Default")
    it.sub(r"\n    (ports|params|failures|finish_requested|logs|touched|resolved_role|files|in_create):", r"\n    pub \1:", count=9, rule="V1")
    add(it)

    vf.raw(ctx.unit_file("hostcopy", "spec.rs"), "spec")

    f = h.item("fn", "words_for")
    f.name_return("r")
    f.spec("    ensures r as int == nwords(width),")
    add(f, "words_for")

    vf.raw("impl HostContext {", "impl")

    f = h.item("fn", "add_port_role", impl="HostContext")
    f.name_return("r")
    f.spec("""    requires old(self).ports@.len() < u32::MAX,
    ensures
        rest_same(HostContext { touched: old(self).touched, resolved_role: old(self).resolved_role, ..*final(self) }, *old(self)),
        final(self).ports@.len() == old(self).ports@.len() + 1, r as int == old(self).ports@.len(),
        forall|j: int| 0 <= j < old(self).ports@.len() ==> final(self).ports@[j] == old(self).ports@[j],
        ({ let p = final(self).ports@[r as int];
           wf_port(p) && p.name@ == name@ && p.dir == dir && p.role == role && p.width == width && !p.dirty && all_zero(p.words@) && all_zero(p.mask_xz@) }),
        final(self).touched@ == old(self).touched@.push(false), final(self).resolved_role@ == old(self).resolved_role@.push(None),""")
    add(f, "HostContext::add_port_role")

    f = h.item("fn", "set_input", impl="HostContext")
    f.drop_stmt_macro("debug_assert_eq")
    f.sub_opt(r"port\.mask_xz\.iter_mut\(\)\.for_each\(\|m\| \*m = 0\)", "vp_zero_fill(&mut port.mask_xz)", rule="O6")
    f.spec("    requires " + PORT_PRE + """
        // a source shorter than the port's buffer makes `&words[..n]` panic: the caller must deliver at least n words
        words@.len() >= %(p0)s.words@.len(),
    ensures
        rest_same(*final(self), *old(self)), others_same(final(self).ports@, old(self).ports@, idx as int),
        same_decl(%(p1)s, %(p0)s), %(p1)s.dirty == %(p0)s.dirty,
        // every payload word i < n is copied unchanged; a longer source is truncated to the port's n words
        %(p1)s.words@ == words@.subrange(0, %(p0)s.words@.len() as int),
        // a two-state write clears the whole mask
        %(p1)s.mask_xz@.len() == %(p0)s.mask_xz@.len(), all_zero(%(p1)s.mask_xz@),
        wf_port(%(p0)s) ==> wf_port(%(p1)s),""" % {"p0": P0, "p1": P1})
    add(f, "HostContext::set_input")

    f = h.item("fn", "set_input_masked", impl="HostContext")
    f.drop_stmt_macro("debug_assert_eq")
    f.spec("    requires " + PORT_PRE + """
        words@.len() >= %(p0)s.words@.len(), mask_xz@.len() >= %(p0)s.words@.len(),
        // copy_from_slice panics unless the mask buffer has exactly n words (wf_port)
        %(p0)s.mask_xz@.len() == %(p0)s.words@.len(),
    ensures
        rest_same(*final(self), *old(self)), others_same(final(self).ports@, old(self).ports@, idx as int),
        same_decl(%(p1)s, %(p0)s), %(p1)s.dirty == %(p0)s.dirty,
        %(p1)s.words@ == words@.subrange(0, %(p0)s.words@.len() as int),
        // every mask word i < n is copied unchanged
        %(p1)s.mask_xz@ == mask_xz@.subrange(0, %(p0)s.words@.len() as int),
        wf_port(%(p0)s) ==> wf_port(%(p1)s),""" % {"p0": P0, "p1": P1})
    add(f, "HostContext::set_input_masked")

    f = h.item("fn", "svc_port_words_len", impl="HostContext")
    f.name_return("r")
    f.replace("|p| p.words.len()", "|p: &HostPort| -> (n: usize) ensures n == p.words@.len() { p.words.len() }", rule="O8 closure contract")
    f.spec("    ensures\n        (idx as int) < self.ports@.len() ==> r == Some(self.ports@[idx as int].words@.len() as usize),\n        (idx as int) >= self.ports@.len() ==> r is None,")
    add(f, "HostContext::svc_port_words_len")

    f = h.item("fn", "svc_write_output", impl="HostContext")
    f.sub_opt(r"port\.mask_xz\.iter_mut\(\)\.for_each\(\|m\| \*m = 0\)", "vp_zero_fill(&mut port.mask_xz)", rule="O6")
    f.spec("""    requires
        // copy_from_slice panics on a length mismatch: both transports pass exactly svc_port_words_len(idx) words (host_write_output, wasm write_output)
        ((idx as int) < old(self).ports@.len() && %(p0)s.dir == PortDir::Output) ==> {
            &&& words@.len() == %(p0)s.words@.len()
            &&& mask_xz is Some ==> mask_xz.unwrap()@.len() == %(p0)s.mask_xz@.len()
        },
    ensures
        rest_same(*final(self), *old(self)),
        // out-of-range index or not an output port: ignored, nothing changes
        !((idx as int) < old(self).ports@.len() && %(p0)s.dir == PortDir::Output) ==> final(self).ports@ =~= old(self).ports@,
        ((idx as int) < old(self).ports@.len() && %(p0)s.dir == PortDir::Output) ==> {
            &&& others_same(final(self).ports@, old(self).ports@, idx as int)
            &&& same_decl(%(p1)s, %(p0)s)
            &&& %(p1)s.dirty
            &&& %(p1)s.words@ == words@
            &&& mask_xz is Some ==> %(p1)s.mask_xz@ == mask_xz.unwrap()@
            // no mask passed (two-state writer): the stale mask is cleared, not kept
            &&& mask_xz is None ==> %(p1)s.mask_xz@.len() == %(p0)s.mask_xz@.len() && all_zero(%(p1)s.mask_xz@)
            &&& wf_port(%(p0)s) ==> wf_port(%(p1)s)
        },""" % {"p0": P0, "p1": P1})
    add(f, "HostContext::svc_write_output")

    vf.raw("}", "impl")

    stage_inputs_items(ctx, res, vf, add)

    # ---- crates/component/src/value.rs: the two slice-level helpers (no SmallVec involved) ------------------------------------------
    vf.raw("pub mod value {\nuse super::*;", "mod")
    f = v.item("fn", "words_for")
    f.name_return("r")
    f.spec("    ensures r as int == nwords(width),")
    add(f, "value::words_for")
    f = v.item("fn", "mask_top_word")
    f.sub(r"if ([^\n{}]*?)\s*&& let Some\(last\) = words\.last_mut\(\)\s*\{", r"if \1 { if let Some(last) = words.last_mut() {", count=1,
          rule="O10 let-chain split `if C && let P = E { S }` -> `if C { if let P = E { S } }` (Verus runs edition 2021)")
    f.sub(r"(\*last &= [^;\n]*;)\s*\}", r"\1\n    } }", count=1, rule="O10 let-chain split (closing brace)")
    f.spec("""    ensures
        final(words)@.len() == old(words)@.len(),
        // nothing but the top word is touched
        forall|k: int| 0 <= k < old(words)@.len() - 1 ==> final(words)@[k] == old(words)@[k],
        // as coded: width 0 clears the top word; width % 64 == 0 keeps it; else the bits >= width % 64 are cleared and no other
        old(words)@.len() > 0 ==> forall|b: int| 0 <= b < 64 ==>
            bit(final(words)@[old(words)@.len() - 1], b) == (bit(old(words)@[old(words)@.len() - 1], b) && keep_top(width, b)),
        // hence, for a buffer of nwords(width) words: exactly the bits at positions >= width are cleared and nothing else
        old(words)@.len() == nwords(width) ==> forall|k: int, b: int| 0 <= k < old(words)@.len() && 0 <= b < 64 ==>
            bit(final(words)@[k], b) == (bit(old(words)@[k], b) && in_width(k, b, width)),""")
    f.at_start("    broadcast use lemma_bit_zero;\n    let ghost vp_n = words@.len() as int;")
    f.at_end(MASK_GHOST)
    add(f, "value::mask_top_word")
    vf.raw("}", "mod")

    text = vf.finish()
    anchor = "        while vp_i < self.inputs.len() {\n"
    if text.count(anchor) != 1:
        raise ExtractError("stage_inputs: anchor of the rewritten loop not found")
    text = text.replace(anchor, "        while vp_i < self.inputs.len()\n" + STAGE_INV + "        {\n            broadcast use lemma_fit_all_zero;\n", 1)
    res.clauses.update({
        "words_for (host.rs, value.rs)": "ensures r == max(1, ceil(width/64)) for every u32 width",
        "HostContext::add_port_role": "ensures the new port is wf (payload and mask have words_for(width) zero words), dirty=false; all other ports and fields untouched",
        "HostContext::set_input": "requires idx in range, an input port (the debug_assert), words.len() >= n (n = port word count; a shorter source panics in `&words[..n]`); ensures port.words == words[..n] "
                                  "(a longer source is truncated), mask all zero (length kept), name/dir/role/width/dirty unchanged, every other port and field unchanged. NO dirty flag is maintained for inputs.",
        "HostContext::set_input_masked": "requires additionally mask_xz.len() >= n and port.mask_xz.len() == n; ensures port.words == words[..n], port.mask_xz == mask_xz[..n], frame as set_input",
        "HostContext::svc_write_output": "requires for an in-range output port: words.len() == n and mask (if Some) has the port's mask length (else copy_from_slice panics; both transports "
                                         "pass svc_port_words_len(idx) words); ensures out-of-range idx or non-output port: no change at all; else port.words == words, mask == given mask or all zero when None, dirty = true, frame",
        "HostContext::svc_port_words_len": "ensures Some(port.words.len()) in range, None otherwise (the transfer size both transports use)",
        "value::mask_top_word": "ensures only the top word changes; bit b of it survives iff width != 0 && (width%64 == 0 || b < width%64); for len == words_for(width): bit (k,b) survives iff 64k+b < width",
    })
    res.samples.append({"obligation": "verus:hostcopy:HostContext::svc_write_output", "contract": "see contract_clauses"})
    expect = ["words_for", "HostContext::add_port_role", "HostContext::set_input", "HostContext::set_input_masked", "HostContext::svc_port_words_len",
              "HostContext::svc_write_output", "value::words_for", "value::mask_top_word", "lemma_mask_low", "lemma_bit_zero", "lemma_keep_top",
              "value_to_words_into", "value_to_mask_xz_into", "RuntimeComponent::stage_inputs", "lemma_fit_all_zero"]
    if "is_xz" in ctx.src(R).item("fn", "stage_inputs", impl="RuntimeComponent").orig:
        expect += ["ValueU64::is_xz", "ValueBigUint::is_xz", "Value::is_xz"]
    return VerusJob("hostcopy", text, vf, expect, canaries=CANARIES, items=items, trusted=TRUSTED, rlimit=60)


# E1: the `use` lines of value.rs (`use crate::{Result, bail, sys}; use smallvec::SmallVec;`) are replaced by this prelude: the real smallvec
# crate; anyhow's Result / bail! become a unit error (O4: the message text is dropped, the early `return Err(..)` is kept)
KANI_PRELUDE = """    use smallvec::SmallVec;
    #[derive(Debug)]
    pub struct VpError;
    pub type Result<T> = core::result::Result<T, VpError>;
    macro_rules! bail { ($($t:tt)*) => { return Err(VpError) }; }
"""

KANI_TRUSTED = {
    r"kani::assume\(k < N\)|kani::assume\(b < 64\)|kani::assume\(k < 3 && b < 64\)": "the (word, bit) position at which results are compared ranges over all positions",
    r"kani::assume\(width <= 128\)": "canary only: widths up to 2 words",
    r"kani::assume\(x <= u32::MAX as usize\)": "div_ceil is only applied to `width as usize` with width: u32",
}

KANI_HARNESSES = [
    ("words_for_value", "proof", "value::words_for", None),
    ("words_for_host", "proof", "host::words_for", None),
    ("mask_top_word_bits", "bounded", "value::mask_top_word", "words.len()<=3 (all contents, all u32 widths); the Verus job proves it for every length"),
    ("as_i64_contract", "bounded", "Value::as_i64", "words.len()<=2 (all contents, all u32 widths; the function reads only words.first())"),
    ("unknown_at_contract", "bounded", "Value::unknown_at", "words.len()<=3 (all contents, all u32 bit indices)"),
    ("from_u64_w0", "bounded", "Value::from_u64", "width == 0 (concrete), all v"),
    ("from_u64_w1", "bounded", "Value::from_u64", "width == 1 (concrete), all v"),
    ("from_u64_w63", "bounded", "Value::from_u64", "width == 63 (concrete), all v"),
    ("from_u64_w64", "bounded", "Value::from_u64", "width == 64 (concrete), all v"),
    ("from_u64_w65", "bounded", "Value::from_u64", "width == 65 (concrete), all v"),
    ("from_u64_w128", "bounded", "Value::from_u64", "width == 128 (concrete), all v"),
    ("from_bits_2_2_w1", "bounded", "Value::from_bits", "width == 1 (concrete), 2 payload / 2 mask words, all contents"),
    ("from_bits_2_2_w64", "bounded", "Value::from_bits", "width == 64 (concrete), 2 payload / 2 mask words, all contents"),
    ("from_bits_2_2_w100", "bounded", "Value::from_bits", "width == 100 (concrete), 2 payload / 2 mask words, all contents"),
    ("from_bits_2_2_w128", "bounded", "Value::from_bits", "width == 128 (concrete), 2 payload / 2 mask words, all contents"),
    ("from_bits_1_2_w65", "bounded", "Value::from_bits", "width == 65 (concrete), 1 payload / 2 mask words, all contents"),
    ("to_port_2_w1", "bounded", "Value::to_port_words / Value::to_port_mask_xz", "port width == 1 (concrete), 2 source words, all contents"),
    ("to_port_2_w64", "bounded", "Value::to_port_words / Value::to_port_mask_xz", "port width == 64 (concrete), 2 source words, all contents"),
    ("to_port_2_w100", "bounded", "Value::to_port_words / Value::to_port_mask_xz", "port width == 100 (concrete), 2 source words, all contents"),
    ("to_port_2_w128", "bounded", "Value::to_port_words / Value::to_port_mask_xz", "port width == 128 (concrete), 2 source words, all contents"),
    ("to_port_1_w100", "bounded", "Value::to_port_words / Value::to_port_mask_xz", "port width == 100 (concrete), 1 source words, all contents"),
    ("to_port_non_bits", "proof", "Value::to_port_words / Value::to_port_mask_xz", None),
    ("canary_mask_top_word", "canary", "value::mask_top_word", None),
    ("canary_from_u64", "canary", "Value::from_u64", None),
]


def kani_job(ctx, res):
    h, v = ctx.src(H), ctx.src(V)
    items, parts = [], []

    def add(it):
        items.append(it)
        parts.append(it.render())

    add(v.item("enum", "Value"))
    add(v.item("fn", "words_for"))
    add(v.item("fn", "mask_top_word"))
    parts.append("impl Value {")
    for name in ("from_u64", "from_bits", "mask_xz", "unknown_at", "as_u64", "as_i64", "to_port_words", "to_port_mask_xz"):
        add(v.item("fn", name, impl="Value"))
    parts.append("}")
    hw = h.item("fn", "words_for")
    hw.replace("fn words_for", "pub fn words_for", rule="V1 visibility only")
    items.append(hw)
    lib = ("pub mod value {\n" + KANI_PRELUDE + "\n".join(parts) + "\n" + ctx.unit_file("hostcopy", "harness.rs") + "}\n"
           "pub mod host {\n" + hw.render() + "\n}\n")
    hs = [Harness("value::harness::" + n, kind=k, fn=fn, bound=b) for n, k, fn, b in KANI_HARNESSES]
    res.clauses.update({
        "Value::as_i64": "width in 1..=64 => Ok(two's-complement value of the low `width` bits of words[0] (0 if empty)); width 0 or > 64, Str, Unit => Err. As coded it does NOT look at mask_xz.",
        "Value::unknown_at": "Some(payload bit i) iff mask bit i is set (i/64 inside the buffers), else None; None for Str/Unit; None for i >= width under the representation invariant",
        "Value::{from_u64,from_bits,to_port_words,to_port_mask_xz}": "result has words_for(width) words; bit (k,b) == source bit (k,b) if 64k+b < width and inside the source, else 0 (payload and mask_xz alike)",
    })
    return KaniJob("value", lib, hs, deps={"smallvec": '"1.15"'}, items=items, trusted=KANI_TRUSTED, jobs=2, timeout=2400, per_harness_timeout=900)


STAGE_INV = """        invariant
            vp_i <= self.inputs.len(),
            rc_rest_same(*self, *old(self)), use_4state == old(self).host.use_4state,
            rest_same(self.host, old(self).host), self.host.ports@.len() == old(self).host.ports@.len(),
            forall|i: int, j: int| 0 <= i < j < self.inputs@.len() ==> self.inputs@[i].0 != self.inputs@[j].0,
            forall|j: int| 0 <= j < self.inputs@.len() ==> stage_ok(self.host, #[trigger] self.inputs@[j]),
            forall|j: int| 0 <= j < vp_i ==> staged(self.host, #[trigger] self.inputs@[j]),
            forall|p: int| 0 <= p < self.host.ports@.len() && !addressed(self.inputs@, p) ==> self.host.ports@[p] == old(self).host.ports@[p],
        decreases self.inputs.len() - vp_i,
"""

STAGE_SPEC = """    requires
        // every staged input addresses an input port of its width with well-formed buffers (add_port_role), each port at most once
        forall|j: int| 0 <= j < old(self).inputs@.len() ==> stage_ok(old(self).host, #[trigger] old(self).inputs@[j]),
        forall|i: int, j: int| 0 <= i < j < old(self).inputs@.len() ==> old(self).inputs@[i].0 != old(self).inputs@[j].0,
    ensures
        rc_rest_same(*final(self), *old(self)), rest_same(final(self).host, old(self).host),
        final(self).host.ports@.len() == old(self).host.ports@.len(),
        // every expression input ends with port.words == value words and port.mask_xz == value mask words (zero in a two-state run)
        forall|j: int| 0 <= j < old(self).inputs@.len() ==> staged(final(self).host, #[trigger] old(self).inputs@[j]) && stage_ok(final(self).host, old(self).inputs@[j]),
        // ports no input addresses are untouched
        forall|p: int| 0 <= p < old(self).host.ports@.len() && !addressed(old(self).inputs@, p) ==> final(self).host.ports@[p] == old(self).host.ports@[p],
"""

DERIVES = ("Clone", "Debug", "Default", "Hash", "PartialEq", "Eq", "PartialOrd", "Ord", "Serialize", "Deserialize")


def stage_inputs_items(ctx, res, vf, add):
    """call-site glue: RuntimeComponent::stage_inputs (runtime.rs) with the real Value types of the analyzer; interpreter, BigUint and the
    raw-pointer arms are outlined"""
    a, r = ctx.src(A), ctx.src(R)
    for kind, name in (("struct", "ValueU64"), ("struct", "ValueBigUint"), ("enum", "Value")):
        it = a.item(kind, name)
        it.strip_derive(*DERIVES)
        add(it)
    it = r.item("enum", "InputSource")
    it.replace("enum InputSource", "pub enum InputSource", rule="V1 visibility only")
    add(it)
    it = r.item("struct", "RuntimeComponent")
    it.sub(r"\n    (file_declared|inputs|outputs|fire_count|words_scratch|mask_scratch):", r"\n    pub \1:", count=6, rule="V1")
    add(it)
    vf.raw(ctx.unit_file("hostcopy", "spec_stage.rs"), "spec")

    f = r.item("fn", "value_to_words_into")
    f.replace("out.extend(x.payload.iter_u64_digits())", "vp_extend_digits(out, &x.payload)", rule="O17 BigUint digit iteration outlined")
    f.spec("    ensures final(out)@ =~= fit(val_words(*value), nwords as int),")
    add(f, "value_to_words_into")
    f = r.item("fn", "value_to_mask_xz_into")
    f.replace("out.extend(x.mask_xz.iter_u64_digits())", "vp_extend_digits(out, &x.mask_xz)", rule="O17 BigUint digit iteration outlined")
    f.spec("    ensures final(out)@ =~= fit(val_mask(*value), nwords as int),")
    add(f, "value_to_mask_xz_into")

    st = r.item("fn", "stage_inputs", impl="RuntimeComponent")
    if "is_xz" in st.orig:
        # only if the call site consults Value::is_xz: the three real definitions of the analyzer
        vf.raw("impl ValueU64 {", "impl")
        f = a.item("fn", "is_xz", impl="ValueU64"); f.name_return("r"); f.spec("    ensures r == (self.mask_xz != 0),"); add(f, "ValueU64::is_xz")
        vf.raw("}\nimpl ValueBigUint {", "impl")
        f = a.item("fn", "is_xz", impl="ValueBigUint"); f.name_return("r")
        f.replace("*self.mask_xz != BigUint::zero()", "vp_big_nonzero(&self.mask_xz)", rule="O17 BigUint comparison with zero outlined")
        f.spec("    ensures r == !all_zero(digits(*self.mask_xz)),"); add(f, "ValueBigUint::is_xz")
        vf.raw("}\nimpl Value {", "impl")
        f = a.item("fn", "is_xz", impl="Value"); f.name_return("r"); f.spec("    ensures r == !all_zero(val_mask(*self)),")
        f.at_start("    proof { assert(val_mask(*self).len() > 0 ==> val_mask(*self)[0] == val_mask(*self)[0]); if self is U64 { assert(val_mask(*self)[0] == self->U64_0.mask_xz); } }")
        add(f, "Value::is_xz")
        vf.raw("}", "impl")

    vf.raw("impl RuntimeComponent {", "impl")
    st.replace("for (idx, source, width) in &self.inputs {",
               "let mut vp_i: usize = 0;\n        while vp_i < self.inputs.len() {\n            let (idx, source, width) = &self.inputs[vp_i];\n            vp_i += 1;",
               rule="E7' `for x in &V { S }` -> `let mut k = 0; while k < V.len() { let x = &V[k]; k += 1; S }` (the invariant needs the position)")
    st.sub(r"(InputSource::Direct(?:Scalar|Wide) \{[^}]*\} => )\{.*?\n                \}", r"\1{ vp_direct_copy(&mut self.host, *idx, use_4state); }", count=2, flags=re.S,
           rule="O16 the two raw-pointer direct-copy arms (unsafe) outlined: they write only the buffers of host port idx")
    st.spec(STAGE_SPEC)
    st.at_start("    broadcast use lemma_fit_all_zero;")
    add(st, "RuntimeComponent::stage_inputs")
    vf.raw("}", "impl")
    res.clauses["RuntimeComponent::stage_inputs"] = ("requires every staged input addresses a distinct well-formed input port of its width; ensures for every expression input: "
        "port.words == the value's payload words and port.mask_xz == the value's X/Z mask words (all zero in a two-state run), zero-extended/truncated to words_for(width), "
        "whichever of set_input / set_input_masked was chosen; unaddressed ports and all other fields untouched. Outlined: Expression::eval, BigUint digits, the unsafe direct-copy arms")


MASK_GHOST = """    proof {
        if vp_n > 0 {
            let x = old(words)@[vp_n - 1];
            let y = words@[vp_n - 1];
            if width != 0 && width % 64 != 0 {
                let rem = (width % 64) as u32;
                assert forall|b: int| 0 <= b < 64 implies bit(y, b) == (bit(x, b) && keep_top(width, b)) by { lemma_mask_low(x, rem, b as u64); }
            }
            if vp_n == nwords(width) {
                assert forall|k: int, b: int| 0 <= k < vp_n && 0 <= b < 64 implies bit(words@[k], b) == (bit(old(words)@[k], b) && in_width(k, b, width)) by {
                    lemma_keep_top(width, k, b);
                }
            }
        }
    }"""


def replay(ctx, res, failure):
    """seeded native run of the Item.orig text of the functions under contract (Verus job) against the executable postconditions of replay.rs"""
    from vp.core import native_search, NATIVE_RNG
    h, v = ctx.src(H), ctx.src(V)
    o = lambda src, kind, name, impl=None: src.item(kind, name, impl=impl).orig
    body = NATIVE_RNG + "\n" + "\n".join([
        o(h, "enum", "PortDir"), o(h, "enum", "PortRole"), o(h, "struct", "HostPort"), o(h, "struct", "HostTraceVar"), o(h, "enum", "HostValue"),
        o(h, "struct", "HostContext"), o(h, "fn", "words_for"),
        "impl HostContext {", o(h, "fn", "new", "HostContext"), o(h, "fn", "add_port_role", "HostContext"), o(h, "fn", "set_input", "HostContext"),
        o(h, "fn", "set_input_masked", "HostContext"), o(h, "fn", "svc_port_words_len", "HostContext"), o(h, "fn", "svc_write_output", "HostContext"), "}",
        "mod value {", o(v, "fn", "words_for"), o(v, "fn", "mask_top_word").replace("fn mask_top_word", "pub fn mask_top_word", 1), "}",
    ]) + "\n" + ctx.unit_file("hostcopy", "replay.rs")
    return native_search(ctx, "hostcopy", "hostcopy", "#![allow(dead_code)]\n" + body, args=[ctx.seed], timeout=900)
