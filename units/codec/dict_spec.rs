// ---- unit `codec`, job `dict` (C06): interned ids travel as dictionary indices and are re-interned on decode ----

/// text interned under an id in the live string table (trusted model of resource_table::get_str_value)
pub uninterp spec fn str_value(id: StrId) -> Option<Seq<char>>;

pub open spec fn opt_view(o: Option<String>) -> Option<Seq<char>> {
    match o { Some(s) => Some(s@), None => None }
}

#[verifier::external_body]
fn vp_get_str_value(id: StrId) -> (r: Option<String>)
    ensures opt_view(r) == str_value(id),
{ unimplemented!() }

#[verifier::external_body]
fn vp_msg() -> (r: String) { String::new() }

#[verifier::external_type_specification]
#[verifier::external_body]
pub struct ExPathBuf(PathBuf);

/// the hashing of StrId/PathId (derived Hash on a usize newtype) is deterministic - assumed
pub broadcast proof fn axiom_strid_key_model()
    ensures #[trigger] vstd::std_specs::hash::obeys_key_model::<StrId>(),
{ admit(); }

/// dictionary invariant: every cached id points at its own text, and the dictionary fits the u32 wire index
spec fn dict_wf(s: EncodeSession) -> bool {
    &&& s.str_dict@.len() < 0x1_0000_0000
    &&& forall|id: StrId| #[trigger] s.str_map@.contains_key(id) ==> {
            &&& (s.str_map@[id] as int) < s.str_dict@.len()
            &&& str_value(id) == Some(s.str_dict@[s.str_map@[id] as int]@)
        }
}

/// decode side: a dictionary re-interned into the live table
spec fn strs_wf(d: DecodeSession, dict: Seq<Seq<char>>) -> bool {
    &&& d.strs@.len() == dict.len()
    &&& forall|i: int| 0 <= i < dict.len() ==> str_value(#[trigger] d.strs@[i]) == Some(dict[i])
}

pub open spec fn res_opt<T>(r: Result<T, String>) -> Option<T> {
    match r { Ok(v) => Some(v), Err(_) => None }
}

/// C06 for interned ids: an id encoded at capture time decodes, in a session whose `strs` re-interned the captured dictionary,
/// to an id with the same text
proof fn lemma_str_roundtrip(e: EncodeSession, d: DecodeSession, id: StrId, local: u64)
    requires
        dict_wf(e), e.str_map@.contains_key(id), local == e.str_map@[id] as u64,
        strs_wf(d, e.str_dict@.map_values(|s: String| s@)),
    ensures
        (local as int) < d.strs@.len(),
        str_value(d.strs@[local as int]) == str_value(id),
{
}

pub assume_specification<'a, T: Copy> [Option::<&'a T>::copied] (o: Option<&'a T>) -> (r: Option<T>)
    ensures r == (match o { Some(x) => Some(*x), None => None });
