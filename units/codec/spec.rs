// ---- spec side of unit `codec` (C06): what "window-relative ID" means -------------------------
// (start, end] is a file's ID window; local ids are 0-based offsets; the analyzer-side wire format
// shifts by one so that wire value 0 stays the unresolved-reference sentinel.

pub open spec fn wf_window(w: IdWindow) -> bool { w.start <= w.end }
pub open spec fn in_window(w: IdWindow, id: usize) -> bool { w.start < id && id <= w.end }
pub open spec fn wf_rebase(r: IdRebase) -> bool { r.base + r.count <= usize::MAX }

pub open spec fn enc(w: IdWindow, id: usize) -> Option<u64> {
    if in_window(w, id) { Some((id - w.start - 1) as u64) } else { None }
}
pub open spec fn dec(r: IdRebase, local: u64) -> Option<usize> {
    if local < r.count { Some((r.base + local + 1) as usize) } else { None }
}
pub open spec fn enc_s(w: IdWindow, id: usize) -> Option<u64> {
    if id == 0 { Some(0u64) } else if in_window(w, id) { Some((id - w.start) as u64) } else { None }
}
pub open spec fn dec_s(r: IdRebase, v: u64) -> Option<usize> {
    if v == 0 { Some(0usize) } else if v - 1 < r.count { Some((r.base + v) as usize) } else { None }
}
pub open spec fn res_opt<T>(r: Result<T, String>) -> Option<T> {
    match r { Ok(v) => Some(v), Err(_) => None }
}

#[verifier::external_body]
fn vp_msg() -> (r: String) { String::new() }

// ---- C06 as lemmas over the contracts ---------------------------------------------------------
// restore reserves exactly `count()` ids, so r.count == w.end - w.start.

/// round trip: a captured id comes back at the same offset inside the reserved range
proof fn lemma_roundtrip(w: IdWindow, r: IdRebase, id: usize)
    requires wf_window(w), wf_rebase(r), r.count == w.end - w.start, in_window(w, id),
    ensures enc(w, id).is_some(), dec(r, enc(w, id).unwrap()) == Some((r.base + (id - w.start)) as usize),
{}

/// order preserving and injective
proof fn lemma_order(w: IdWindow, r: IdRebase, a: usize, b: usize)
    requires wf_window(w), wf_rebase(r), r.count == w.end - w.start, in_window(w, a), in_window(w, b),
    ensures (a < b) == (dec(r, enc(w, a).unwrap()).unwrap() < dec(r, enc(w, b).unwrap()).unwrap()),
            (a == b) == (dec(r, enc(w, a).unwrap()).unwrap() == dec(r, enc(w, b).unwrap()).unwrap()),
{}

/// onto the reserved range (base, base+count]
proof fn lemma_onto(w: IdWindow, r: IdRebase, x: usize)
    requires wf_window(w), wf_rebase(r), r.count == w.end - w.start, r.base < x, x <= r.base + r.count,
    ensures exists|id: usize| in_window(w, id) && dec(r, enc(w, id).unwrap()) == Some(x),
{
    let id = (w.start + (x - r.base)) as usize;
    assert(in_window(w, id) && dec(r, enc(w, id).unwrap()) == Some(x));
}

/// refusal: nothing outside the file's own window is ever stored, nothing out of range is ever restored
proof fn lemma_refuse(w: IdWindow, r: IdRebase, id: usize, local: u64)
    ensures !in_window(w, id) ==> enc(w, id).is_none(),
            local >= r.count ==> dec(r, local).is_none(),
            (id != 0 && !in_window(w, id)) ==> enc_s(w, id).is_none(),
{}

/// sentinel codec: 0 <-> 0, real ids never collide with the sentinel, round trip as above
proof fn lemma_sentinel(w: IdWindow, r: IdRebase, id: usize)
    requires wf_window(w), wf_rebase(r), r.count == w.end - w.start, id == 0 || in_window(w, id),
    ensures enc_s(w, id).is_some(),
            (enc_s(w, id).unwrap() == 0) == (id == 0),
            dec_s(r, enc_s(w, id).unwrap()) == Some(if id == 0 { 0usize } else { (r.base + (id - w.start)) as usize }),
            id != 0 ==> dec_s(r, enc_s(w, id).unwrap()).unwrap() != 0,
{}

/// exec composition: the caller sees only the callee contracts (modular check of the round trip)
fn vp_roundtrip(w: &IdWindow, r: &IdRebase, id: usize) -> (out: Option<usize>)
    requires wf_window(*w), wf_rebase(*r), r.count == w.end - w.start,
    ensures in_window(*w, id) ==> out == Some((r.base + (id - w.start)) as usize),
            !in_window(*w, id) ==> out.is_none(),
{
    match w.encode(id, "TokenId") {
        Ok(local) => match r.decode(local, "TokenId") { Ok(x) => Some(x), Err(_) => None },
        Err(_) => None,
    }
}

fn vp_roundtrip_sentinel(w: &IdWindow, r: &IdRebase, id: usize) -> (out: Option<usize>)
    requires wf_window(*w), wf_rebase(*r), r.count == w.end - w.start,
    ensures id == 0 ==> out == Some(0usize),
            in_window(*w, id) ==> out == Some((r.base + (id - w.start)) as usize),
            (id != 0 && !in_window(*w, id)) ==> out.is_none(),
{
    match encode_sentinel(w, id, "SymbolId") {
        Ok(v) => match decode_sentinel(r, v, "SymbolId") { Ok(x) => Some(x), Err(_) => None },
        Err(_) => None,
    }
}
