"""U1 codec — fragment ID window/rebase codec (C06). Back end: Verus (unbounded)."""
from vp.core import VerusJob
from vp.verus_run import VerusFile

P = "crates/parser/src/fragment_codec.rs"
A = "crates/analyzer/src/fragment_codec.rs"

TRUSTED = {
    r"fn vp_msg": "O4: error-message construction `format!(..)` outlined to an uninterpreted String (vp_msg, external_body)",
}

CANARIES = [
    ("vp_canary_count", "proof fn vp_canary_count(w: IdWindow) requires wf_window(w) ensures false {}"),
    ("vp_canary_decode", "proof fn vp_canary_decode(r: IdRebase, local: u64) requires wf_rebase(r), local < r.count ensures false {}"),
    ("vp_canary_roundtrip", "proof fn vp_canary_roundtrip(w: IdWindow, r: IdRebase, id: usize) requires wf_window(w), wf_rebase(r), r.count == w.end - w.start, in_window(w, id) ensures false {}"),
]


def build(ctx, res):
    p, a = ctx.src(P), ctx.src(A)
    vf = VerusFile()
    items = []

    def add(it, label=None):
        items.append(it)
        vf.item(it, label)

    s = p.item("struct", "IdWindow"); s.strip_derive("Default", "Debug"); add(s)
    s = p.item("struct", "IdRebase"); s.strip_derive("Default", "Debug"); add(s)

    vf.raw("impl IdWindow {", "impl")
    f = p.item("fn", "count", impl="IdWindow")
    f.name_return("r")
    f.spec("    requires wf_window(*self),\n    ensures r == self.end - self.start,")
    add(f, "IdWindow::count")
    f = p.item("fn", "encode", impl="IdWindow")
    f.name_return("r")
    f.replace_macro("format", "vp_msg()")
    f.spec("    ensures res_opt(r) == enc(*self, id),")
    add(f, "IdWindow::encode")
    vf.raw("}", "impl")

    vf.raw("impl IdRebase {", "impl")
    f = p.item("fn", "decode", impl="IdRebase")
    f.name_return("r")
    f.replace_macro("format", "vp_msg()")
    f.spec("    requires wf_rebase(*self),\n    ensures res_opt(r) == dec(*self, local),")
    add(f, "IdRebase::decode")
    vf.raw("}", "impl")

    f = a.item("fn", "encode_sentinel")
    f.name_return("r")
    f.replace("|v| v + 1", "|v: u64| -> (o: u64) requires v < u64::MAX ensures o == v + 1 { v + 1 }", rule="O8")
    f.spec("    ensures res_opt(r) == enc_s(*window, id),")
    add(f)
    f = a.item("fn", "decode_sentinel")
    f.name_return("r")
    f.spec("    requires wf_rebase(*rebase),\n    ensures res_opt(r) == dec_s(*rebase, value),")
    add(f)

    vf.raw(ctx.unit_file("codec", "spec.rs"), "spec")
    text = vf.finish()
    res.clauses.update({
        "IdWindow::count": "requires start<=end ensures r == end-start",
        "IdWindow::encode": "ensures Ok(v) <=> start<id<=end, v == id-start-1 (as Option == enc(self,id))",
        "IdRebase::decode": "requires base+count<=usize::MAX ensures Ok(x) <=> local<count, x == base+local+1",
        "encode_sentinel": "ensures 0->Ok(0); id in window -> Ok(id-start) (>=1); else Err",
        "decode_sentinel": "ensures 0->Ok(0); 1<=v<=count -> Ok(base+v); else Err",
        "lemmas": "round trip, order preserving + injective, onto (base,base+count], refusal outside window, sentinel never collides",
    })
    res.samples.append({"obligation": "verus:codec:IdWindow::encode", "contract": "ensures res_opt(r) == enc(*self, id)"})
    expect = ["IdWindow::count", "IdWindow::encode", "IdRebase::decode", "encode_sentinel", "decode_sentinel",
              "lemma_roundtrip", "lemma_order", "lemma_onto", "lemma_refuse", "lemma_sentinel", "vp_roundtrip", "vp_roundtrip_sentinel"]
    jobs = [VerusJob("codec", text, vf, expect, canaries=CANARIES, items=items, trusted=TRUSTED)]
    jobs.append(build_dict(ctx, res))
    return jobs


DICT_TRUSTED = {
    r"fn vp_get_str_value": "O9: resource_table::get_str_value outlined; str_value(id) is the uninterpreted content of the live string table",
    r"fn vp_msg": "O4: error-message construction outlined to an uninterpreted String",
    r"struct ExPathBuf": "PathBuf is an opaque external type (path dictionary fields are carried, not interpreted)",
    r"axiom_strid_key_model|admit\(\)": "assumed: the derived Hash/Eq of the usize newtype StrId obeys vstd's key model (deterministic hashing)",
    r"uninterp spec fn": "str_value() is uninterpreted",
    r"assume_specification<'a, T: Copy> \[Option": "std: Option<&T>::copied() has no vstd spec; assumed: maps Some(&x) to Some(x)",
    r"assume_specification.*ok_or_else": "std: Option::ok_or_else has no vstd spec; assumed: Some(v) -> Ok(v), None -> Err(f())",
}

DICT_CANARIES = [
    ("vp_canary_dict", "proof fn vp_canary_dict(s: EncodeSession, id: StrId) requires dict_wf(s), s.str_map@.contains_key(id), s.str_dict@.len() >= 2, s.str_dict@.len() < 0xffff_ffff ensures false {}"),
]


def build_dict(ctx, res):
    """job `codec_dict`: EncodeSession::encode_str / DecodeSession::decode_str (dictionary indices for interned ids)"""
    p = ctx.src(P)
    r = ctx.src("crates/parser/src/resource_table.rs")
    hdr = ("use vstd::prelude::*;\nuse std::collections::HashMap;\nuse std::path::PathBuf;\nverus! {\nglobal size_of usize == 8;\n"
           "broadcast use vstd::std_specs::hash::group_hash_axioms;\n")
    vf = VerusFile(header=hdr)
    items = []

    def add(it, label=None):
        items.append(it)
        vf.item(it, label)

    for name in ("StrId", "PathId"):
        it = r.item("struct", name)
        it.strip_derive("Debug", "Default", "PartialOrd", "Ord")
        add(it)
    for name in ("IdWindow", "IdRebase"):
        it = p.item("struct", name); it.strip_derive("Default", "Debug"); add(it)
    it = p.item("struct", "EncodeSession"); it.strip_derive("Default"); add(it)
    it = p.item("struct", "DecodeSession"); add(it)
    vf.raw(ctx.unit_file("codec", "dict_spec.rs"), "spec")
    vf.raw("impl EncodeSession {", "impl")
    f = p.item("fn", "encode_str", impl="EncodeSession")
    f.name_return("r")
    f.replace("resource_table::get_str_value(id)", "vp_get_str_value(id)", rule="O9")
    f.replace_macro("format", "vp_msg()")
    f.spec("    requires dict_wf(*old(self)), old(self).str_dict@.len() < 0xffff_ffff,\n"
           "    ensures dict_wf(*final(self)),\n"
           "        // refusal at capture time: an id whose text is unknown is an error and nothing is stored\n"
           "        res_opt(r).is_none() <==> (!old(self).str_map@.contains_key(id) && str_value(id).is_none()),\n"
           "        res_opt(r).is_none() ==> *final(self) == *old(self),\n"
           "        // success: the wire index points at the id's own text, earlier entries keep their index and text (frame)\n"
           "        res_opt(r).is_some() ==> final(self).str_map@.contains_key(id) && res_opt(r).unwrap() == final(self).str_map@[id] as u64\n"
           "            && (res_opt(r).unwrap() as int) < final(self).str_dict@.len() && str_value(id) == Some(final(self).str_dict@[res_opt(r).unwrap() as int]@),\n"
           "        forall|k: StrId| old(self).str_map@.contains_key(k) ==> final(self).str_map@.contains_key(k) && final(self).str_map@[k] == old(self).str_map@[k],\n"
           "        forall|i: int| 0 <= i < old(self).str_dict@.len() ==> final(self).str_dict@[i] == old(self).str_dict@[i],\n"
           "        final(self).str_dict@.len() >= old(self).str_dict@.len(),\n"
           "        final(self).path_map == old(self).path_map, final(self).path_dict == old(self).path_dict,\n"
           "        final(self).token_window == old(self).token_window, final(self).text_window == old(self).text_window,")
    f.at_start("        broadcast use axiom_strid_key_model;\n        let ghost vp_old = *self;")
    f.before_tail("        proof {\n"
                  "            assert forall|k: StrId| #[trigger] self.str_map@.contains_key(k) implies (self.str_map@[k] as int) < self.str_dict@.len()\n"
                  "                && str_value(k) == Some(self.str_dict@[self.str_map@[k] as int]@) by {\n"
                  "                if k != id { assert(vp_old.str_map@.contains_key(k)); }\n"
                  "            }\n"
                  "        }")
    add(f, "EncodeSession::encode_str")
    vf.raw("}", "impl")
    vf.raw("impl DecodeSession {", "impl")
    f = p.item("fn", "decode_str", impl="DecodeSession")
    f.name_return("r")
    f.replace_macro("format", "vp_msg()")
    f.spec("    ensures res_opt(r).is_some() <==> (local as int) < self.strs@.len(),\n"
           "        res_opt(r).is_some() ==> res_opt(r).unwrap() == self.strs@[local as int],")
    add(f, "DecodeSession::decode_str")
    vf.raw("}", "impl")
    text = vf.finish()
    res.clauses.update({
        "EncodeSession::encode_str": "requires dict_wf; ensures dict_wf, Err <=> id unknown and not cached (nothing stored), Ok(i): dict[i] is the id's text, all earlier entries unchanged",
        "DecodeSession::decode_str": "ensures Ok(strs[local]) <=> local < strs.len()",
        "lemma_str_roundtrip": "an encoded StrId decodes (in a session that re-interned the captured dictionary) to an id with the same text",
    })
    return VerusJob("codec_dict", text, vf, ["EncodeSession::encode_str", "DecodeSession::decode_str", "lemma_str_roundtrip"],
                    canaries=DICT_CANARIES, items=items, trusted=DICT_TRUSTED, rlimit=40)


def replay(ctx, res, f):
    """seeded native run of the real function text against the executable form of enc/dec"""
    from vp.core import native_search, NATIVE_RNG
    global REAL_ROUNDTRIP
    REAL_ROUNDTRIP = REAL_ROUNDTRIP.replace("NATIVE_RNG_PLACEHOLDER", "") if "NATIVE_RNG_PLACEHOLDER" in REAL_ROUNDTRIP else REAL_ROUNDTRIP
    if not REAL_ROUNDTRIP.lstrip().startswith("struct Rng"):
        REAL_ROUNDTRIP = NATIVE_RNG + REAL_ROUNDTRIP
    p, a = ctx.src(P), ctx.src(A)
    def o(src, kind, name, impl=None):
        return src.item(kind, name, impl=impl).orig
    body = NATIVE_RNG + "\n".join([
        o(p, "struct", "IdWindow"), o(p, "struct", "IdRebase"),
        "impl IdWindow {", o(p, "fn", "count", "IdWindow"), o(p, "fn", "encode", "IdWindow"), "}",
        "impl IdRebase {", o(p, "fn", "decode", "IdRebase"), "}",
        o(a, "fn", "encode_sentinel"), o(a, "fn", "decode_sentinel"),
    ]) + r'''
fn in_window(w: &IdWindow, id: usize) -> bool { w.start < id && id <= w.end }
fn main() {
    let mut g = Rng(vp_seed());
    vp_hook();
    let mut n = 0u64;
    for _ in 0..2_000_000u64 {
        let start = if g.below(4) == 0 { g.edge() as usize } else { g.below(1000) as usize };
        let len = g.below(50) as usize;
        let Some(end) = start.checked_add(len) else { continue };
        let w = IdWindow { start, end };
        let base = if g.below(4) == 0 { (g.edge() as usize).min(usize::MAX - len) } else { g.below(1000) as usize };
        let r = IdRebase { base, count: len };
        let id = match g.below(6) { 0 => start, 1 => end, 2 => start.wrapping_add(1), 3 => end.wrapping_add(1), 4 => g.edge() as usize, _ => start.wrapping_add(g.below(len as u64 + 2) as usize) };
        n += 1;
        vp_case(format!("{{\"start\":{},\"end\":{},\"base\":{},\"count\":{},\"id\":{}}}", start, end, base, len, id));
        let fail = |what: &str, got: String, want: String| {
            println!("FOUND {{\"fn\":\"{}\",\"start\":{},\"end\":{},\"base\":{},\"count\":{},\"id\":{},\"actual\":\"{}\",\"expected\":\"{}\"}}", what, start, end, base, len, id, got, want);
            std::process::exit(1);
        };
        if w.count() != end - start { fail("IdWindow::count", format!("{}", w.count()), format!("{}", end - start)); }
        let e = w.encode(id, "TokenId").ok();
        let want = if in_window(&w, id) { Some((id - start - 1) as u64) } else { None };
        if e != want { fail("IdWindow::encode", format!("{:?}", e), format!("{:?}", want)); }
        let local = if g.below(2) == 0 { e.unwrap_or(g.below(len as u64 + 2)) } else { g.below(len as u64 + 2) };
        let d = r.decode(local, "TokenId").ok();
        let want = if (local as usize) < len { Some(base + local as usize + 1) } else { None };
        if d != want { fail("IdRebase::decode", format!("{:?}", d), format!("{:?} (local={})", want, local)); }
        let es = encode_sentinel(&w, id, "SymbolId").ok();
        let want = if id == 0 { Some(0) } else if in_window(&w, id) { Some((id - start) as u64) } else { None };
        if es != want { fail("encode_sentinel", format!("{:?}", es), format!("{:?}", want)); }
        let v = if g.below(2) == 0 { es.unwrap_or(g.below(len as u64 + 3)) } else { g.below(len as u64 + 3) };
        let ds = decode_sentinel(&r, v, "SymbolId").ok();
        let want = if v == 0 { Some(0) } else if ((v - 1) as usize) < len { Some(base + v as usize) } else { None };
        if ds != want { fail("decode_sentinel", format!("{:?}", ds), format!("{:?} (wire={})", want, v)); }
    }
    println!("NONE {}", n);
}
'''
    r = native_search(ctx, "codec", "codec", body, args=[ctx.seed])
    if r.get("found_input"):
        return r
    # second program: the REAL parser crate (sessions, dictionaries, serde impls) round-trips tokens through postcard
    import os
    crate = os.path.join(ctx.repo, "crates", "parser")
    if not os.path.isfile(os.path.join(crate, "Cargo.toml")):
        return r
    r2 = native_search(ctx, "codec", "codec_real", REAL_ROUNDTRIP, args=[ctx.seed], timeout=1500,
                       deps={"veryl-parser": '{ path = "%s" }' % crate, "postcard": '{ version = "1", features = ["alloc"] }'})
    return r2 if r2.get("found_input") else r


REAL_ROUNDTRIP = r'''
use veryl_parser::fragment_codec::{begin_decode, begin_encode, end_decode, end_encode, DecodeSession, EncodeSession, IdRebase, IdWindow};
use veryl_parser::resource_table;
use veryl_parser::text_table::{self, TextInfo};
use veryl_parser::veryl_token::{Token, TokenSource};
use std::path::Path;

fn main() {
    let mut g = Rng(vp_seed());
    vp_hook();
    let words = ["alpha", "r#inst", "r#proto", "beta_1", "gr\u{fc}n", "x", "r#x", "_", "a.b"];
    let mut n = 0u64;
    for round in 0..300u64 {
        let token_start = resource_table::peek_token_id();
        let text_start = text_table::peek_text_id();
        let path = resource_table::insert_path(Path::new(&format!("f{}.veryl", round % 3)));
        let text = text_table::set_current_text(TextInfo { text: "module A {}".to_string(), path });
        let source = TokenSource::File { path, text };
        let k = 1 + g.below(5) as usize;
        let toks: Vec<Token> = (0..k).map(|i| Token::new(words[g.below(words.len() as u64) as usize], 1 + i as u32, 2, 5, 10 * i as u32, source)).collect();
        let token_end = resource_table::peek_token_id();
        let text_end = text_table::peek_text_id();
        begin_encode(EncodeSession::new(IdWindow { start: token_start, end: token_end }, IdWindow { start: text_start, end: text_end }));
        let bytes = postcard::to_allocvec(&toks);
        let dicts = end_encode().unwrap();
        let Ok(bytes) = bytes else { println!("FOUND {{\"what\":\"in-window tokens refused at capture\"}}"); std::process::exit(1) };
        // unrelated tokens in between: the restore happens at another id offset
        for _ in 0..g.below(4) { let _ = Token::new("pad", 0, 0, 1, 0, TokenSource::External); }
        let tc = token_end - token_start;
        let token_base = resource_table::reserve_token_ids(tc);
        let text_base = text_table::reserve_text_ids(text_end - text_start);
        begin_decode(DecodeSession::new(&dicts.strings, &dicts.paths, IdRebase { base: token_base, count: tc }, IdRebase { base: text_base, count: text_end - text_start }));
        let back: Result<Vec<Token>, _> = postcard::from_bytes(&bytes);
        end_decode();
        let Ok(back) = back else { println!("FOUND {{\"what\":\"stored fragment does not decode\"}}"); std::process::exit(1) };
        for (a, b) in toks.iter().zip(back.iter()) {
            n += 1;
            let (sa, sb) = (resource_table::get_str_value(a.text), resource_table::get_str_value(b.text));
            if sa != sb || b.id.0 != token_base + (a.id.0 - token_start) || (a.line, a.column, a.length, a.pos) != (b.line, b.column, b.length, b.pos) {
                println!("FOUND {{\"what\":\"restored token differs\",\"text\":{:?},\"restored_text\":{:?},\"id\":{},\"restored_id\":{},\"expected_id\":{}}}", sa, sb, a.id.0, b.id.0, token_base + (a.id.0 - token_start));
                std::process::exit(1);
            }
        }
    }
    println!("NONE {}", n);
}
'''
