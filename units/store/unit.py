"""U11 store — cache blob header codec and store view (C29).
Back ends: Verus (unbounded: view of the BTreeMaps, ghost file system, header codec over byte sequences of any length)
         + Kani (bounded in payload length, complete in content: the header codec on the REAL std slice functions)."""
import re
from vp.core import VerusJob, KaniJob
from vp.verus_run import VerusFile
from vp.kani_run import Harness
from vp.extract import ExtractError

L = "crates/cache/src/lib.rs"

HEADER = ("use vstd::prelude::*;\nuse std::collections::BTreeMap;\nuse std::path::{Path, PathBuf};\nuse std::fs;\n"
          "verus! {\nglobal size_of usize == 8;\n")

FS = "Tracked(fs): Tracked<&mut VpFs>"

TRUSTED = {
    r"pub struct Ex(PathBuf|Path|File)": "opaque std types PathBuf / Path / fs::File (external_type_specification, no fields visible)",
    r"axiom_string_ext": "A1: a String is determined by its characters (spec-level extensionality of String's view)",
    r"axiom_key_of": "A0: every character sequence is the view of some String",
    r"axiom_str_contains|axiom_str_maps|axiom_str_mutated|axiom_str_ordering": "A2: BTreeMap<String,_> looked up through &str (String: Borrow<str>) finds the key with the same characters; "
        "str and String are ordered alike (the analogue for &str of vstd's axioms for deref keys)",
    r"axiom_hash_inj": "A3: BLAKE3 is collision free (cryptographic assumption the content addressing of the real code rests on)",
    r"axiom_blob_rel_inj": "A4: the path fragments/<name[..2]>/<name>.frag determines <name>",
    r"fn clone\(&self\)": "E3': #[derive(Clone)] on FileEntry / Manifest replaced by a trusted spec: the clone has the same view (field-wise copy)",
    r"fn default\(\)": "E3': #[derive(Default)] on Manifest replaced by a trusted spec: schema 0, empty key, no files",
    r"\[std::mem::take\]": "O5: mem::take returns the old value and leaves T::default()",
    r"fn vp_u32_to_be_bytes|fn vp_u32_from_be_bytes": "O5: big-endian counterparts (only reached if the source switches byte order)",
    r"fn vp_u32_to_le_bytes": "O5: u32::to_le_bytes = the four bytes, least significant first (checked against the real std function by the Kani job)",
    r"fn vp_u32_from_le_bytes": "O5: u32::from_le_bytes = b0 | b1<<8 | b2<<16 | b3<<24 (checked against the real std function by the Kani job)",
    r"split_first_chunk": "O5: <[T]>::split_first_chunk::<N> = None if shorter than N, else (first N, rest)",
    r"\]::to_vec\]|to_vec": "O5: <[T]>::to_vec = element-wise clone",
    r"fn vp_strip_prefix": "O12: <[u8]>::strip_prefix outlined: Some(rest) iff the slice starts with the prefix",
    r"fn vp_files_eq": "O13: BTreeMap<String,FileEntry> == outlined: equal iff same keys and field-wise equal entries",
    r"fn vp_str_eq": "O13: String == &str outlined: equal characters",
    r"fn vp_create_dir_all_fragments|fn vp_create_parent_dir": "O14: fs::create_dir_all outlined (result ignored by the code; directories are not modelled)",
    r"fn acquire_lock": "O14: lock file acquisition (fs4) outlined, result unconstrained",
    r"fn vp_to_path_buf": "O14: Path::to_path_buf outlined",
    r"fn vp_read_manifest": "O14: read_to_string(manifest.toml) + toml::from_str outlined: may fail; a delivered text is the text on disk; result = toml_parse(text) (uninterpreted)",
    r"fn vp_toml_to_string": "O14: toml::to_string outlined. ASSUMED: toml_parse(toml::to_string(m)) == Some(m) (serde/toml round trip) - needed for `wf` after save and for the reopen lemma",
    r"fn vp_atomic_write_manifest|fn vp_atomic_write_blob": "O14: veryl_path::atomic_write outlined: Ok => the file holds exactly the bytes, Err => disk unchanged (temp file + rename)",
    r"fn vp_content_hash": "O14: content_hash (blake3) outlined to the uninterpreted spec_hash",
    r"fn vp_blob_rel": "O4: format!(\"fragments/{}/{}.frag\", &name[..2], name) outlined to the uninterpreted blob_rel(name)",
    r"fn vp_join": "O14: PathBuf::join outlined; path_rel(result) = the joined relative path",
    r"fn vp_exists": "O14: Path::exists outlined: true iff the ghost disk has a file at that path",
    r"fn vp_fs_read": "O14: fs::read(..).ok() outlined: may fail; delivered bytes are the file's bytes (recorded in the history variable last_blob_read)",
    r"fn vp_read_fragment_dirs|fn vp_read_dir_files|fn vp_referenced|fn vp_has_fragment_ext|fn vp_entry_path|fn vp_remove_file|fn vp_set_contains": "O15: gc's directory walk / path set outlined (see gc clause)",
    r"pub struct VpPathSet|pub struct VpDirEntry": "O15: opaque stand-ins for HashSet<PathBuf> / fs::DirEntry",
    r"uninterp spec fn": "uninterpreted models: toml_parse, spec_hash, blob_rel, path_rel",
}

CANARIES = [
    ("vp_canary_consistent", "proof fn vp_canary_consistent() ensures false { broadcast use group_store_axioms; lemma_blob_decode_steps(Seq::<u8>::empty()); }"),
    ("vp_canary_view", "proof fn vp_canary_view(a: String, b: String, m: Map<String, FileEntry>, k: &str) requires a@ != b@, m.contains_key(a), !m.contains_key(b), k@ == a@ ensures false "
                       "{ broadcast use group_store_axioms; assert(key_of(k@) == a); assert(fv(m).contains_key(a@)); assert(!fv(m).contains_key(b@)); }"),
    ("vp_canary_save_pre", "proof fn vp_canary_save_pre(s: Store, fs: VpFs) requires laws(), wf(s, fs), s.on_disk_current, !save_skips(sv(s)), blobs_addressed(fs) ensures false { broadcast use group_store_axioms; }"),
    ("vp_canary_wf", "proof fn vp_canary_wf(s: Store, fs: VpFs) requires laws(), wf(s, fs), s.on_disk_current, blobs_addressed(fs), fv(s.next_files@).len() > 0 ensures false {}"),
    ("vp_canary_decode", "proof fn vp_canary_decode(d: Seq<u8>) requires blob_decode(d) is Some, d.len() > 12 ensures false {}"),
    ("vp_canary_axioms", "proof fn vp_canary_axioms(a: String, b: String, m: Map<String, FileEntry>, k: &str) requires a@ != b@, m.contains_key(a), !m.contains_key(b), k@ == a@ ensures false {}"),
]

FRAME = "same_handles(*final(self), *old(self)), sv(*final(self)).saved == sv(*old(self)).saved, sv(*final(self)).current == sv(*old(self)).current,"


def upd_contract(field_expr):
    return ("    requires laws(),\n    ensures " + FRAME + "\n"
            "        sv(*final(self)).next =~= (if sv(*old(self)).next.contains_key(src@) { sv(*old(self)).next.insert(src@, %s) } else { sv(*old(self)).next }),\n"
            % field_expr)


OLD_E = "sv(*old(self)).next[src@]"
UPD_GHOST = """    proof {
        let k = key_of(src@);
        lemma_fv_contains(old(self).next_files@, k);
        if old(self).next_files@.contains_key(k) { lemma_fv_insert(old(self).next_files@, k, self.next_files@[k]); }
    }"""


SAVE_SPEC = """    requires laws(), wf(*old(self), *old(fs)),
    ensures
        same_handles(*final(self), *old(self)),
        sv(*final(self)).saved.schema == sv(*old(self)).saved.schema, sv(*final(self)).saved.key == sv(*old(self)).saved.key,
        sv(*final(self)).next == IMap::<Seq<char>, EntryV>::empty(),
        // unchanged re-scan: manifest untouched, no serializer / write / gc call at all (the history counters are part of *fs)
        save_skips(sv(*old(self))) ==> sv(*final(self)).saved == sv(*old(self)).saved && sv(*final(self)).current && *final(fs) == *old(fs),
        // otherwise the saved entries are exactly the entries of the build in progress ...
        !save_skips(sv(*old(self))) ==> sv(*final(self)).saved.files == sv(*old(self)).next,
        // ... and, unless the serializer or the write returned Err, exactly one manifest write happened, the manifest on disk parses to the
        // saved manifest, the flag is set, and gc removed only unreferenced blobs
        (!save_skips(sv(*old(self))) && final(fs).io_failures == old(fs).io_failures) ==> {
            &&& sv(*final(self)).current && parse_opt(final(fs).manifest) == Some(sv(*final(self)).saved)
            &&& final(fs).manifest_writes == old(fs).manifest_writes + 1
            &&& gc_post(VpFs { manifest: final(fs).manifest, manifest_writes: final(fs).manifest_writes, ..*old(fs) }, *final(fs), sv(*final(self)).saved.files)
        },
        // a failed serialization / write leaves the disk files as they were and the store NOT marked current
        // (regression F-C29-save-failed-write, fixed in /repo by dc216b9: the flag used to keep its old value here)
        (!save_skips(sv(*old(self))) && final(fs).io_failures != old(fs).io_failures) ==> !sv(*final(self)).current && fs_same_files(*final(fs), *old(fs)),
        // the representation invariant survives on EVERY exit (no exception class)
        wf(*final(self), *final(fs)),
"""


def only_jobs(jobs):
    """VP_ONLY=verus|kani restricts a dry run (`./check --unit`) to one back end: a convenience for mutation smoke tests only;
    `./check <property>` then reports the other job's baseline obligations as not attempted (undecided), never as passed"""
    import os
    only = os.environ.get("VP_ONLY", "")
    if only == "verus":
        return [j for j in jobs if isinstance(j, VerusJob)]
    if only == "kani":
        return [j for j in jobs if isinstance(j, KaniJob)]
    return jobs


def build(ctx, res):
    """the two back ends are built independently: a lost anchor (ExtractError) in one job makes that job undecided and keeps the other's verdict"""
    jobs = []
    for mk in (verus_job, kani_job):
        try:
            jobs.append(mk(ctx, res))
        except ExtractError as e:
            res.undecided.append("extraction (%s): %s" % (mk.__name__, e))
    return only_jobs(jobs)


def verus_job(ctx, res):
    s = ctx.src(L)
    vf = VerusFile(HEADER)
    items = []

    def add(it, label=None):
        if it.kind == "fn":
            it.at_start("    broadcast use group_store_axioms;")
        items.append(it)
        vf.item(it, label)

    for name in ("MANIFEST", "FRAGMENT_DIR", "FRAGMENT_EXT"):
        it = s.item("const", name)
        it.replace(": &str", ": &'static str", rule="E10 const reference types get the 'static lifetime Verus asks for")
        add(it)
    add(s.item("const", "SCHEMA_VERSION"))
    it = s.item("const", "BLOB_MAGIC")
    it.replace(": &[u8; 4]", ": &'static [u8; 4]", rule="E10 const reference types get the 'static lifetime Verus asks for")
    it.replace("const BLOB_MAGIC", "pub const BLOB_MAGIC", rule="V1 visibility only")
    add(it)

    it = s.item("struct", "FileEntry")
    it.strip_derive("Clone", "Debug", "Default", "PartialEq", "Eq", "Serialize", "Deserialize")
    it.drop_attr(r"serde\(")
    add(it)
    it = s.item("struct", "Manifest")
    it.strip_derive("Clone", "Debug", "Default", "Serialize", "Deserialize")
    it.replace("struct Manifest", "pub struct Manifest", rule="V1 visibility only: struct and fields made pub so that open spec functions may read them")
    it.sub(r"\n    (schema|global_key|files):", r"\n    pub \1:", count=3, rule="V1")
    add(it)
    it = s.item("struct", "Store")
    it.sub(r"\n    (root|manifest|next_files|on_disk_current|_lock):", r"\n    pub \1:", count=5, rule="V1")
    add(it)
    it = s.item("enum", "LockResult")
    add(it)

    vf.raw(ctx.unit_file("store", "spec.rs"), "spec")
    vf.raw("impl Store {", "impl")

    # ---- open_with_lock --------------------------------------------------------------------------------------
    f = s.item("fn", "open_with_lock", impl="Store")
    f.name_return("r")
    f.replace("blocking: bool)", "blocking: bool, %s)" % FS, rule="G1 ghost disk parameter")
    f.replace("let _ = fs::create_dir_all(root.join(FRAGMENT_DIR));", "vp_create_dir_all_fragments(root);", rule="O14")
    f.sub(r"fs::read_to_string\(root\.join\(MANIFEST\)\)\s*\.ok\(\)\s*\.and_then\(\|x\| toml::from_str::<Manifest>\(&x\)\.ok\(\)\)",
          "vp_read_manifest(root, Tracked(fs))", count=1, rule="O14")
    # O11: `let v = E.is_some_and(|x| B);` desugared to the std definition `match E { Some(x) => B, None => false }` (only if the construct
    # is there; Verus has no spec for is_some_and and a closure would need a hand-written contract).
    # O13: every `<path>.global_key == global_key` (String == &str) becomes vp_str_eq(..), wherever the body compares the key.
    # Edits are positional on the original text, so a comparison inside a desugared closure is rewritten together with it.
    O13 = r"\b([\w\.]+)\.global_key == global_key\b"
    O13_NEW = r"vp_str_eq(&\1.global_key, global_key)"
    spans, n13 = [], 0
    for m in re.finditer(r"=\s*([\w\s\.\(\)&]+?)\s*\.is_some_and\(\|(\w+)\| ([^;\n]*?)\);", f.orig):
        new, k = re.subn(O13, O13_NEW, m.expand(r"= match \1 { Some(\2) => \3, None => false };"))
        n13 += k
        f.replace(m.group(0), new, rule="O11 is_some_and desugared (+O13 inside)")
        spans.append(m.span())
    outside = {m.group(0) for m in re.finditer(O13, f.orig) if not any(a <= m.start() < b for a, b in spans)}
    for old in sorted(outside):
        f.replace(old, re.sub(O13, O13_NEW, old), count=f.orig.count(old), rule="O13")
        n13 += 1
    if n13 == 0:
        raise ExtractError("Store::open_with_lock: rule O13 found no `<path>.global_key == global_key`")
    f.sub(r"log::debug!\([^;]*\);", "", count=1, rule="E6 log::debug! statements dropped")
    f.replace("root.to_path_buf()", "vp_to_path_buf(root)", rule="O14")
    f.spec("""    requires laws(),
    ensures
        fs_same_files(*final(fs), *old(fs)), final(fs).last_blob_read == old(fs).last_blob_read, hist_same(*final(fs), *old(fs)),
        blocking ==> r is Some,
        r is Some ==> open_post(*old(fs), *final(fs), r.unwrap(), global_key@),""")
    f.at_start("    proof { lemma_fv_empty(); }")
    add(f, "Store::open_with_lock")

    f = s.item("fn", "open", impl="Store")
    f.name_return("r")
    f.replace("global_key: &str)", "global_key: &str, %s)" % FS, rule="G1 ghost disk parameter")
    f.replace("Self::open_with_lock(root, global_key, true)", "Self::open_with_lock(root, global_key, true, Tracked(fs))", rule="G1")
    f.spec("    requires laws(),\n    ensures open_post(*old(fs), *final(fs), r, global_key@),")
    add(f, "Store::open")
    f = s.item("fn", "try_open", impl="Store")
    f.name_return("r")
    f.replace("global_key: &str)", "global_key: &str, %s)" % FS, rule="G1 ghost disk parameter")
    f.replace("Self::open_with_lock(root, global_key, false)", "Self::open_with_lock(root, global_key, false, Tracked(fs))", rule="G1")
    f.spec("    requires laws(),\n    ensures fs_same_files(*final(fs), *old(fs)), r is Some ==> open_post(*old(fs), *final(fs), r.unwrap(), global_key@),")
    add(f, "Store::try_open")

    # ---- entry / load ----------------------------------------------------------------------------------------
    f = s.item("fn", "entry", impl="Store")
    f.name_return("r")
    f.spec("""    requires laws(),
    ensures
        r is Some <==> sv(*self).saved.files.contains_key(src@),
        r is Some ==> ev(*r.unwrap()) == sv(*self).saved.files[src@],""")
    f.at_start("    proof { lemma_fv_contains(self.manifest.files@, key_of(src@)); }")
    add(f, "Store::entry")

    READ_POST = "        read_post(*old(fs), *final(fs), r, %s),"

    f = s.item("fn", "read_blob", impl="Store")
    f.name_return("r")
    f.replace("rel: &str)", "rel: &str, %s)" % FS, rule="G1 ghost disk parameter")
    f.replace("fs::read(self.root.join(rel)).ok()?", "vp_fs_read(&self.root, rel, Tracked(fs))?", rule="O14")
    f.replace("data.strip_prefix(BLOB_MAGIC.as_slice())?", "vp_strip_prefix(data.as_slice(), BLOB_MAGIC.as_slice())?", rule="O12")
    f.sub(r"u32::from_(le|be)_bytes\(", r"vp_u32_from_\1_bytes(", count=1, rule="O5")
    f.spec("    ensures\n" + READ_POST % "rel@")
    f.at_start("    broadcast use lemma_blob_decode_steps;")
    add(f, "Store::read_blob")

    f = s.item("fn", "write_blob", impl="Store")
    f.name_return("r")
    f.replace("payload: &[u8])", "payload: &[u8], %s)" % FS, rule="G1 ghost disk parameter")
    f.sub(r"SCHEMA_VERSION\.to_(le|be)_bytes\(\)", r"vp_u32_to_\1_bytes(SCHEMA_VERSION)", count=1, rule="O5")
    f.replace("content_hash(&data)", "vp_content_hash(&data)", rule="O14")
    f.sub(r"format!\(\"\{FRAGMENT_DIR\}/\{\}/\{\}\.\{FRAGMENT_EXT\}\", &name\[\.\.2\], name\)", "vp_blob_rel(&name)", count=1, rule="O4")
    f.replace("self.root.join(&rel)", "vp_join(&self.root, &rel)", rule="O14")
    f.replace("!path.exists()", "!vp_exists(&path, Tracked(fs))", rule="O14")
    f.sub(r"if let Some\(parent\) = path\.parent\(\) \{\s*let _ = fs::create_dir_all\(parent\);\s*\}", "vp_create_parent_dir(&path);", count=1, rule="O14")
    f.replace("veryl_path::atomic_write(&path, &data)", "vp_atomic_write_blob(&path, &data, Tracked(fs))", rule="O14")
    f.sub(r"log::debug!\([^;]*\);", "", count=1, rule="E6 log::debug! statements dropped")
    f.spec("""    requires blobs_addressed(*old(fs)), payload@.len() + 8 <= usize::MAX,
    ensures
        blobs_addressed(*final(fs)), final(fs).manifest == old(fs).manifest,
        final(fs).last_manifest_read == old(fs).last_manifest_read, final(fs).last_blob_read == old(fs).last_blob_read, hist_same(*final(fs), *old(fs)),
        r is None ==> final(fs).blobs == old(fs).blobs,
        r is Some ==> {
            &&& final(fs).blobs.contains_key(r.unwrap()@)
            &&& final(fs).blobs[r.unwrap()@] == blob_encode(payload@)
            &&& (final(fs).blobs == old(fs).blobs || final(fs).blobs == old(fs).blobs.insert(r.unwrap()@, blob_encode(payload@)))
            &&& r.unwrap()@ == blob_rel(spec_hash(blob_encode(payload@)))
        },""")
    add(f, "Store::write_blob")

    f = s.item("fn", "load", impl="Store")
    f.name_return("r")
    f.replace("entry: &FileEntry)", "entry: &FileEntry, %s)" % FS, rule="G1 ghost disk parameter")
    f.replace("self.read_blob(entry.fragment.as_ref()?)", "self.read_blob(entry.fragment.as_ref()?, Tracked(fs))", rule="G1")
    f.spec("    ensures\n        entry.fragment is None ==> r is None && *final(fs) == *old(fs),\n"
           "        entry.fragment is Some ==> read_post(*old(fs), *final(fs), r, entry.fragment.unwrap()@),")
    add(f, "Store::load")

    f = s.item("fn", "load_diagnostics", impl="Store")
    f.name_return("r")
    f.replace("entry: &FileEntry)", "entry: &FileEntry, %s)" % FS, rule="G1 ghost disk parameter")
    f.replace("self.read_blob(entry.diagnostics.as_ref()?)", "self.read_blob(entry.diagnostics.as_ref()?, Tracked(fs))", rule="G1")
    f.spec("    ensures\n        entry.diagnostics is None ==> r is None && *final(fs) == *old(fs),\n"
           "        entry.diagnostics is Some ==> read_post(*old(fs), *final(fs), r, entry.diagnostics.unwrap()@),")
    add(f, "Store::load_diagnostics")

    # ---- put / set_diagnostics ---------------------------------------------------------------------------------
    BLOB_POST = """        blobs_addressed(*final(fs)), final(fs).manifest == old(fs).manifest,
        final(fs).last_manifest_read == old(fs).last_manifest_read, final(fs).last_blob_read == old(fs).last_blob_read, hist_same(*final(fs), *old(fs)),
        forall|p: Seq<char>| old(fs).blobs.contains_key(p) ==> #[trigger] final(fs).blobs.contains_key(p) && final(fs).blobs[p] == old(fs).blobs[p],"""
    f = s.item("fn", "put", impl="Store")
    f.replace("blob: Option<&[u8]>)", "blob: Option<&[u8]>, %s)" % FS, rule="G1 ghost disk parameter")
    f.replace("blob.and_then(|payload| self.write_blob(payload))", "match blob { Some(payload) => self.write_blob(payload, Tracked(fs)), None => None }",
              rule="O11 `X.and_then(|p| E)` desugared to `match X { Some(p) => E, None => None }` (std definition) so that E can take the ghost disk")
    f.spec("""    requires laws(), blobs_addressed(*old(fs)), blob is Some ==> blob.unwrap()@.len() + 8 <= usize::MAX,
    ensures """ + FRAME + "\n" + BLOB_POST + """
        sv(*final(self)).next.contains_key(src@),
        sv(*final(self)).next.remove(src@) =~= sv(*old(self)).next.remove(src@),
        ({ let e = sv(*final(self)).next[src@];
           &&& e.hash == hash@ && e.dependents == Seq::<Seq<char>>::empty() && e.tests == Seq::<Seq<char>>::empty() && e.diagnostics is None
           &&& blob is None ==> e.fragment is None && final(fs).blobs == old(fs).blobs
           &&& e.fragment is Some ==> blob is Some && final(fs).blobs.contains_key(e.fragment.unwrap()) && final(fs).blobs[e.fragment.unwrap()] == blob_encode(blob.unwrap()@)
           &&& e.fragment is None ==> final(fs).blobs == old(fs).blobs
        }),""")
    f.at_end("""    proof {
        let k = key_of(src@);
        lemma_fv_insert(old(self).next_files@, k, self.next_files@[k]);
        assert(vsv(self.next_files@[k].dependents) =~= Seq::<Seq<char>>::empty());
        assert(vsv(self.next_files@[k].tests) =~= Seq::<Seq<char>>::empty());
    }""")
    add(f, "Store::put")

    f = s.item("fn", "set_diagnostics", impl="Store")
    f.replace("blob: &[u8])", "blob: &[u8], %s)" % FS, rule="G1 ghost disk parameter")
    f.sub(r"if self\s*\.next_files\s*\.get\(src\)\s*\.is_none_or\(\|x\| x\.fragment\.is_none\(\)\)",
          "if vp_is_none_or(self.next_files.get(src), |x: &FileEntry| -> (b: bool) ensures b == x.fragment.is_none() { x.fragment.is_none() })",
          count=1, rule="O11 `E.is_none_or(c)` -> `vp_is_none_or(E, c)` (verified copy of the std definition) + O8 closure contract")
    f.replace("self.write_blob(blob)", "self.write_blob(blob, Tracked(fs))", rule="G1")
    f.spec("""    requires laws(), blobs_addressed(*old(fs)), blob@.len() + 8 <= usize::MAX,
    ensures """ + FRAME + "\n" + BLOB_POST + """
        (!sv(*old(self)).next.contains_key(src@) || sv(*old(self)).next[src@].fragment is None) ==> sv(*final(self)).next == sv(*old(self)).next && *final(fs) == *old(fs),
        (sv(*old(self)).next.contains_key(src@) && sv(*old(self)).next[src@].fragment is Some) ==> {
            &&& sv(*final(self)).next.contains_key(src@)
            &&& sv(*final(self)).next =~= sv(*old(self)).next.insert(src@, EntryV { diagnostics: sv(*final(self)).next[src@].diagnostics, ..sv(*old(self)).next[src@] })
            &&& ({ let d = sv(*final(self)).next[src@].diagnostics;
                   &&& d is Some ==> final(fs).blobs.contains_key(d.unwrap()) && final(fs).blobs[d.unwrap()] == blob_encode(blob@)
                   &&& d is None ==> final(fs).blobs == old(fs).blobs })
        },""")
    f.at_start("    proof { lemma_fv_contains(old(self).next_files@, key_of(src@)); }")
    f.at_end(UPD_GHOST)
    add(f, "Store::set_diagnostics")

    # ---- keep / invalidate / set_dependents / set_tests ----------------------------------------------------------
    f = s.item("fn", "keep", impl="Store")
    f.spec("    requires laws(),\n    ensures " + FRAME + """
        sv(*final(self)).next =~= (if sv(*old(self)).saved.files.contains_key(src@) { sv(*old(self)).next.insert(src@, sv(*old(self)).saved.files[src@]) } else { sv(*old(self)).next }),""")
    f.at_end("""    proof {
        let k = key_of(src@);
        lemma_fv_contains(old(self).manifest.files@, k);
        if old(self).manifest.files@.contains_key(k) { lemma_fv_insert(old(self).next_files@, k, self.next_files@[k]); }
    }""")
    add(f, "Store::keep")

    f = s.item("fn", "invalidate", impl="Store")
    f.spec(upd_contract("EntryV { fragment: None, ..%s }" % OLD_E))
    f.at_end(UPD_GHOST)
    add(f, "Store::invalidate")

    f = s.item("fn", "set_dependents", impl="Store")
    f.spec(upd_contract("EntryV { dependents: vsv(dependents), ..%s }" % OLD_E))
    f.at_end(UPD_GHOST)
    add(f, "Store::set_dependents")

    f = s.item("fn", "set_tests", impl="Store")
    f.spec(upd_contract("EntryV { tests: vsv(tests), ..%s }" % OLD_E))
    f.at_end(UPD_GHOST)
    add(f, "Store::set_tests")

    # ---- save / gc -----------------------------------------------------------------------------------------------
    f = s.item("fn", "save", impl="Store")
    f.replace("pub fn save(&mut self)", "pub fn save(&mut self, %s)" % FS, rule="G1 ghost disk parameter")
    f.replace("self.next_files == self.manifest.files", "vp_files_eq(&self.next_files, &self.manifest.files)", rule="O13")
    f.replace("toml::to_string(&self.manifest)", "vp_toml_to_string(&self.manifest, Tracked(fs))", rule="O14")
    f.sub(r"log::debug!\([^;]*\);", "", count=2, rule="E6 log::debug! statements dropped")
    f.replace("veryl_path::atomic_write(self.root.join(MANIFEST), manifest.as_bytes())", "vp_atomic_write_manifest(&self.root, &manifest, Tracked(fs))", rule="O14")
    f.replace("self.gc();", "self.gc(Tracked(fs));", rule="G1")
    f.spec(SAVE_SPEC)
    f.at_start("    proof { lemma_fv_empty(); }")
    add(f, "Store::save")

    f = s.item("fn", "gc", impl="Store")
    f.replace("fn gc(&self)", "fn gc(&self, %s)" % FS, rule="G1 ghost disk parameter")
    f.sub(r"let referenced: HashSet<PathBuf> = self\s*\.manifest\s*\.files\s*\.values\(\)\s*\.flat_map\(\|x\| x\.fragment\.iter\(\)\.chain\(x\.diagnostics\.iter\(\)\)\)\s*\.map\(\|x\| self\.root\.join\(x\)\)\s*\.collect\(\);",
          "let referenced: VpPathSet = vp_referenced(&self.manifest.files, &self.root);", count=1, rule="O15")
    f.replace("fs::read_dir(self.root.join(FRAGMENT_DIR))", "vp_read_fragment_dirs(&self.root)", rule="O15")
    f.replace("fs::read_dir(dir.path())", "vp_read_dir_files(&dir)", rule="O15")
    f.replace("for dir in dirs.flatten() {", "let mut vp_i: usize = 0;\n        while vp_i < dirs.len() {\n            let dir = &dirs[vp_i];\n            vp_i += 1;",
              rule="O15 (.flatten() is part of the outlined read_dir) + E7' `for x in V { S }` -> `let mut k = 0; while k < V.len() { let x = &V[k]; k += 1; S }` "
                   "(Verus for-loops do not support `continue`; the increment precedes S, so `continue` keeps its meaning)")
    f.replace("files.flatten()", "files", rule="O15 (.flatten() is part of the outlined read_dir)")
    f.replace("file.path()", "vp_entry_path(&file)", rule="O15")
    f.replace("path.extension().is_some_and(|x| x == FRAGMENT_EXT)", "vp_has_fragment_ext(&path)", rule="O15")
    f.replace("referenced.contains(&path)", "vp_set_contains(&referenced, &path)", rule="O15")
    f.replace("let _ = fs::remove_file(&path);", "vp_remove_file(&path, Tracked(fs));", rule="O15")
    f.spec("    requires laws(),\n    ensures gc_post(*old(fs), *final(fs), fv(self.manifest.files@)),")
    GC_INV = "        invariant gc_post(*old(fs), *fs, fv(self.manifest.files@)), forall|p: Seq<char>| referenced@.contains(p) <==> is_referenced(fv(self.manifest.files@), p),"
    f.loop_spec(1, GC_INV)
    add(f, "Store::gc")

    vf.raw("}", "impl")
    text = vf.finish()
    # the outer loop header is created by rule E7', so its invariant is attached to the rewritten text by anchor (as in units/tokpos)
    anchor = "        while vp_i < dirs.len() {\n"
    if text.count(anchor) != 1:
        raise ExtractError("gc: anchor of the rewritten outer loop not found")
    text = text.replace(anchor, "        while vp_i < dirs.len()\n" + GC_INV + "\n            vp_i <= dirs.len(),\n        decreases dirs.len() - vp_i,\n        {\n", 1)
    res.clauses.update({
        "view": "sv(store) = (saved manifest (schema, key, files: path -> entry view), next files, on_disk_current); ghost disk VpFs = (manifest text, blob files, "
                "history of the last read); wf(store, disk) = schema is current && (on_disk_current ==> toml_parse(disk.manifest) == saved manifest)",
        "Store::open_with_lock / open / try_open": "requires laws; ensures disk files untouched; blocking ==> Some; for the returned store: next empty, schema/key current, "
                "(entries, on_disk_current) == open_spec(text read, key): the parsed entries iff parse ok && schema == SCHEMA_VERSION && key equal, else (empty, false); wf",
        "Store::entry": "ensures Some(entry) iff the saved manifest has src, and it is that entry",
        "Store::keep": "ensures next == (saved has src ? next.insert(src, saved[src]) : next); saved, flag, root, lock untouched",
        "Store::invalidate": "ensures next == (next has src ? next.insert(src, {fragment: None, ..next[src]}) : next); everything else untouched",
        "Store::set_dependents / set_tests": "ensures only that field of only next[src] changes (no-op if src absent); everything else untouched",
        "Store::set_diagnostics": "ensures no-op (store and disk) if src absent or its fragment is None; else only next[src].diagnostics changes: Some(rel) with disk.blobs[rel] == header++blob, "
                "or None if the blob write failed; disk only grows",
        "Store::put": "ensures next.remove(src) unchanged, next[src] == {hash, fragment, [], [], None}; fragment Some(rel) ==> disk.blobs[rel] == header++blob; blob None ==> fragment None; "
                "disk only grows, manifest file untouched; saved/flag untouched",
        "Store::write_blob": "requires content-addressed disk; ensures Some(rel) ==> disk.blobs[rel] == MAGIC++le32(SCHEMA)++payload, rel == blob_rel(hash(file)), at most that file added; None ==> disk unchanged",
        "Store::read_blob / load / load_diagnostics": "ensures disk untouched; result == blob_decode(bytes read) if the read delivered the file's bytes, None otherwise; "
                "blob_decode(d) == Some(p) iff d == MAGIC++le32(SCHEMA)++p (lemma_blob_roundtrip, lemma_blob_decode_only_encoded)",
        "Store::save": "requires wf; ensures next empty, schema/key kept; if on_disk_current && next == saved.files: manifest, flag and disk untouched (write skipped); else saved.files == old next and "
                "either (flag true, disk manifest parses to the saved manifest, gc_post) or (flag unchanged, disk unchanged: serializer / write failed); "
                "either (flag true, ...) or (serializer / write failed: flag FALSE, disk unchanged); wf holds afterwards on every exit "
                "(regression of F-C29-save-failed-write: lemma_regression_save_failed_write shows the pre-fix behaviour, flag kept, breaks wf)",
        "Store::gc": "ensures manifest file untouched, blob files only removed (never changed/created), every blob referenced (fragment or diagnostics) by the saved manifest is still there. "
                "The set of referenced paths (iterator chain) is outlined and ASSUMED (vp_referenced); verified: the walk removes nothing in that set",
        "client": "vp_scenario_roundtrip: open; put; save; reopen; entry; load composes to `what was put is what comes back` when wf survived the save and the reads succeed",
    })
    res.samples.append({"obligation": "verus:store:Store::save", "contract": SAVE_SPEC.strip()[:1500]})
    expect = ["Store::open_with_lock", "Store::open", "Store::try_open", "lemma_reopen_same_key", "lemma_reopen_other_key", "lemma_regression_save_failed_write",
              "vp_scenario_roundtrip", "Store::entry", "Store::read_blob", "Store::write_blob", "Store::load", "Store::load_diagnostics",
              "Store::save", "Store::gc", "Store::put", "Store::set_diagnostics", "Store::keep", "Store::invalidate", "Store::set_dependents", "Store::set_tests",
              "lemma_le32_roundtrip", "lemma_from_le32_inj", "lemma_blob_roundtrip", "lemma_blob_decode_only_encoded",
              "lemma_blob_decode_steps", "lemma_fv_insert", "lemma_fv_contains", "vp_is_none_or"]
    return VerusJob("store", text, vf, expect, canaries=CANARIES, items=items, trusted=TRUSTED, rlimit=60)


KANI_USE = """    use std::collections::{BTreeMap, HashSet};
    use std::fs;
    use std::path::{Path, PathBuf};
    use self::env::*;
"""

KANI_TRUSTED = {
    r"kani::assume\(i < N\)": "the byte index at which payload bytes are compared ranges over the whole payload (i < N)",
    r"kani::assume\(len <= MAX[PD]\)": "bound of the codec stand-ins: payload <= 16 bytes, file <= 24 bytes (content unconstrained)",
}

KANI_HARNESSES = [
    ("blob_roundtrip_len0", "bounded", "Store::write_blob + Store::read_blob", "payload.len()==0, all contents"),
    ("blob_roundtrip_len1", "bounded", "Store::write_blob + Store::read_blob", "payload.len()==1, all contents"),
    ("blob_roundtrip_len2", "bounded", "Store::write_blob + Store::read_blob", "payload.len()==2, all contents"),
    ("blob_roundtrip_len3", "bounded", "Store::write_blob + Store::read_blob", "payload.len()==3, all contents"),
    ("blob_roundtrip_len4", "bounded", "Store::write_blob + Store::read_blob", "payload.len()==4, all contents"),
    ("blob_roundtrip_len5", "bounded", "Store::write_blob + Store::read_blob", "payload.len()==5, all contents"),
    ("blob_roundtrip_len8", "bounded", "Store::write_blob + Store::read_blob", "payload.len()==8, all contents"),
    ("blob_roundtrip_len16", "bounded", "Store::write_blob + Store::read_blob", "payload.len()==16, all contents"),
    ("blob_reuse_skips_write", "bounded", "Store::write_blob", "payload.len()==4"),
    ("blob_reject_other_shapes", "bounded", "Store::read_blob", "file.len()<=24"),
    ("blob_missing_is_miss", "proof", "Store::read_blob", None),
    ("le_bytes_contract", "proof", "u32::to_le_bytes / u32::from_le_bytes (the contracts assumed by the Verus job)", None),
    ("canary_blob_shapes", "canary", "Store::read_blob", None),
]


def kani_job(ctx, res):
    """header codec on the real std functions; the fs / hash / path calls are outlined by the same O14/O4 rules as in the Verus job
    (without the ghost disk) into the one-file stub disk of harness.rs::env"""
    s = ctx.src(L)
    items, parts = [], []

    def add(it):
        items.append(it)
        parts.append(it.render())

    for name in ("MANIFEST", "FRAGMENT_DIR", "FRAGMENT_EXT", "SCHEMA_VERSION", "BLOB_MAGIC"):
        add(s.item("const", name))
    it = s.item("struct", "FileEntry")
    it.strip_derive("Serialize", "Deserialize")
    it.drop_attr(r"serde\(")
    add(it)
    it = s.item("struct", "Manifest")
    it.strip_derive("Serialize", "Deserialize")
    add(it)
    add(s.item("struct", "Store"))
    parts.append("impl Store {")
    f = s.item("fn", "read_blob", impl="Store")
    f.replace("fs::read(self.root.join(rel)).ok()?", "vp_fs_read(&self.root, rel)?", rule="O14")
    add(f)
    f = s.item("fn", "write_blob", impl="Store")
    f.replace("content_hash(&data)", "vp_content_hash(&data)", rule="O14")
    f.sub(r"format!\(\"\{FRAGMENT_DIR\}/\{\}/\{\}\.\{FRAGMENT_EXT\}\", &name\[\.\.2\], name\)", "vp_blob_rel(&name)", count=1, rule="O4")
    f.replace("self.root.join(&rel)", "vp_join(&self.root, &rel)", rule="O14")
    f.replace("!path.exists()", "!vp_exists(&path)", rule="O14")
    f.sub(r"if let Some\(parent\) = path\.parent\(\) \{\s*let _ = fs::create_dir_all\(parent\);\s*\}", "vp_create_parent_dir(&path);", count=1, rule="O14")
    f.replace("veryl_path::atomic_write(&path, &data)", "vp_atomic_write_blob(&path, &data)", rule="O14")
    f.sub(r"log::debug!\([^;]*\);", "", count=1, rule="E6 log::debug! statements dropped")
    add(f)
    parts.append("}")
    lib = "pub mod cache {\n" + KANI_USE + "\n".join(parts) + "\n" + ctx.unit_file("store", "harness.rs") + "}\n"
    hs = [Harness("cache::harness::" + n, kind=k, fn=fn, bound=b) for n, k, fn, b in KANI_HARNESSES]
    return KaniJob("codec", lib, hs, items=items, trusted=KANI_TRUSTED, jobs=2, timeout=2400, per_harness_timeout=900)



def native_body(ctx):
    """NATIVE_RNG + `mod veryl_path` (atomic_write from crates/path if the tree has it) + `mod cache` = the REAL text of crates/cache/src/lib.rs"""
    import os
    from vp.core import NATIVE_RNG
    text = ctx.src(L).text
    cut = text.find("#[cfg(test)]\nmod tests")
    if cut > 0:
        text = text[:cut]
    text = re.sub(r"(?m)^//![^\n]*\n", "", text)    # E2: inner doc comments dropped
    aw = None
    pp = os.path.join(ctx.repo, "crates", "path", "src", "lib.rs")
    if os.path.isfile(pp):
        m = re.search(r"(?s)#\[cfg\(not\(target_family = \"wasm\"\)\)\]\npub fn atomic_write.*?\n}\n", open(pp, encoding="utf-8").read())
        aw = m.group(0) if m else None
    if aw is None:
        aw = "pub fn atomic_write<P: AsRef<Path>>(path: P, contents: &[u8]) -> std::io::Result<()> { std::fs::write(path, contents) }\n"
    return (NATIVE_RNG + "\n#[allow(dead_code)]\nmod veryl_path {\n    use std::path::Path;\n" + aw + "}\n"
            "#[allow(dead_code, unused_imports)]\nmod cache {\n    use super::veryl_path;\n" + text + "}\n")


NATIVE_DEPS = {"blake3": '"1.5"', "log": '"0.4"', "serde": '{ version = "1.0", features = ["derive"] }', "toml": '"1.1.2"',
               "fs4": '{ version = "1.1.0", features = ["sync"] }', "tempfile": '"3.20"'}


def replay(ctx, res, failure):
    """seeded native run of the REAL text of crates/cache/src/lib.rs (whole file minus its test module) on a temp directory against an
    executable form of the view contracts (units/store/replay.rs). veryl_path::atomic_write is taken from crates/path if the tree has it."""
    from vp.core import native_search
    # finding_witness.rs = the deterministic failed-write regression (F-C29-save-failed-write), run first by replay.rs::main
    body = native_body(ctx) + ctx.unit_file("store", "finding_witness.rs") + ctx.unit_file("store", "replay.rs")
    return native_search(ctx, "store", "store", body, args=[ctx.seed], timeout=1500, deps=NATIVE_DEPS)
