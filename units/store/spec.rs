// ---- unit `store` (C29): ghost file system, abstract view of the store, outlined std / io calls ---------------
// Only this file and the contracts in unit.py are hand-written; every function body under contract is cut from
// /repo/crates/cache/src/lib.rs on every run.

// ---- types of std that Verus has no model for (opaque) -------------------------------------------------------
#[verifier::external_type_specification]
#[verifier::external_body]
pub struct ExPathBuf(PathBuf);
#[verifier::external_type_specification]
#[verifier::external_body]
pub struct ExPath(Path);
#[verifier::external_type_specification]
#[verifier::external_body]
pub struct ExFile(fs::File);

/// error value of an outlined io / serializer call (its content is never inspected by the code under contract)
pub struct VpErr { pub code: u8 }

// ---- ghost model of the directory `.build/cache` ------------------------------------------------------------
/// What is on disk under the store root, as far as the store can observe it, plus history variables recording the
/// outcome of the most recent outlined read (reads may fail at any time: "every failure degrades to a miss").
pub tracked struct VpFs {
    /// text of `<root>/manifest.toml`; None = absent
    pub ghost manifest: Option<Seq<char>>,
    /// store-relative path -> bytes of the regular files below `<root>/fragments`
    pub ghost blobs: IMap<Seq<char>, Seq<u8>>,
    /// history: what the last `read_to_string(manifest.toml)` delivered (None = io error / absent)
    pub ghost last_manifest_read: Option<Seq<char>>,
    /// history: what the last `fs::read(blob)` delivered (None = io error / absent)
    pub ghost last_blob_read: Option<Seq<u8>>,
    /// history: number of manifest write attempts (atomic_write on manifest.toml) so far
    pub ghost manifest_writes: nat,
    /// history: number of manifest serializations / manifest writes that returned Err so far
    pub ghost io_failures: nat,
}

/// the save-related history counters are untouched
pub open spec fn hist_same(a: VpFs, b: VpFs) -> bool { a.manifest_writes == b.manifest_writes && a.io_failures == b.io_failures }

pub open spec fn fs_same_files(a: VpFs, b: VpFs) -> bool { a.manifest == b.manifest && a.blobs == b.blobs }

// ---- abstract values ----------------------------------------------------------------------------------------
pub struct EntryV {
    pub hash: Seq<char>,
    pub fragment: Option<Seq<char>>,
    pub dependents: Seq<Seq<char>>,
    pub tests: Seq<Seq<char>>,
    pub diagnostics: Option<Seq<char>>,
}

pub open spec fn osv(o: Option<String>) -> Option<Seq<char>> {
    match o { Some(s) => Some(s@), None => None }
}
pub open spec fn vsv(v: Vec<String>) -> Seq<Seq<char>> { Seq::new(v@.len(), |i: int| v@[i]@) }

pub open spec fn ev(e: FileEntry) -> EntryV {
    EntryV { hash: e.hash@, fragment: osv(e.fragment), dependents: vsv(e.dependents), tests: vsv(e.tests), diagnostics: osv(e.diagnostics) }
}

/// the String whose characters are `s` (Strings are determined by their characters: axiom_string_ext)
pub open spec fn key_of(s: Seq<char>) -> String { choose|k: String| k@ == s }

/// view of a `BTreeMap<String, FileEntry>`: source path (as characters) -> entry view
pub open spec fn fv(m: Map<String, FileEntry>) -> IMap<Seq<char>, EntryV> {
    IMap::new(|k: Seq<char>| m.contains_key(key_of(k)), |k: Seq<char>| ev(m[key_of(k)]))
}

pub struct ManifestV { pub schema: u32, pub key: Seq<char>, pub files: IMap<Seq<char>, EntryV> }
pub open spec fn mv(m: Manifest) -> ManifestV { ManifestV { schema: m.schema, key: m.global_key@, files: fv(m.files@) } }
pub open spec fn omv(o: Option<Manifest>) -> Option<ManifestV> { match o { Some(m) => Some(mv(m)), None => None } }
pub open spec fn default_mv() -> ManifestV { ManifestV { schema: 0, key: Seq::empty(), files: IMap::empty() } }

/// abstract view of a Store: (saved manifest, entries of the build in progress, flag) — the fields of the real struct
pub struct StoreV { pub saved: ManifestV, pub next: IMap<Seq<char>, EntryV>, pub current: bool }
pub open spec fn sv(s: Store) -> StoreV { StoreV { saved: mv(s.manifest), next: fv(s.next_files@), current: s.on_disk_current } }
/// the fields that no operation after `open` may touch
pub open spec fn same_handles(a: Store, b: Store) -> bool { a.root == b.root && a._lock == b._lock }

/// `save` skips the write: nothing changed since the manifest on disk was written / read
pub open spec fn save_skips(v: StoreV) -> bool { v.current && v.next == v.saved.files }

/// laws of std assumed for the key type (String is totally ordered; str and String order alike)
pub open spec fn laws() -> bool {
    vstd::std_specs::btree::key_obeys_cmp_spec::<String>()
}

// ---- toml model ---------------------------------------------------------------------------------------------
/// what `toml::from_str::<Manifest>` makes of a text (None = parse error)
pub uninterp spec fn toml_parse(text: Seq<char>) -> Option<ManifestV>;
pub open spec fn parse_opt(t: Option<Seq<char>>) -> Option<ManifestV> { match t { Some(x) => toml_parse(x), None => None } }

/// REPRESENTATION INVARIANT of (store, disk): the flag `on_disk_current` tells the truth
/// ("True when the on-disk manifest matches `manifest` in memory") and the in-memory manifest is for the current schema.
pub open spec fn wf(s: Store, fs: VpFs) -> bool {
    &&& s.manifest.schema == SCHEMA_VERSION
    &&& (s.on_disk_current ==> parse_opt(fs.manifest) == Some(mv(s.manifest)))
}

/// what a (re)open of a disk holding manifest text `t` with key `key` must deliver: (entries, on_disk_current)
pub open spec fn open_spec(t: Option<Seq<char>>, key: Seq<char>) -> (IMap<Seq<char>, EntryV>, bool) {
    match parse_opt(t) {
        Some(m) => if m.schema == SCHEMA_VERSION && m.key == key { (m.files, true) } else { (IMap::empty(), false) },
        None => (IMap::empty(), false),
    }
}

/// postcondition of open / try_open / open_with_lock for the returned store `s`
pub open spec fn open_post(old_fs: VpFs, fin: VpFs, s: Store, key: Seq<char>) -> bool {
    &&& fs_same_files(fin, old_fs) && hist_same(fin, old_fs)
    &&& fin.last_manifest_read is Some ==> fin.last_manifest_read == old_fs.manifest
    &&& sv(s).next == IMap::<Seq<char>, EntryV>::empty()
    &&& sv(s).saved.schema == SCHEMA_VERSION
    &&& sv(s).saved.key == key
    &&& (sv(s).saved.files, sv(s).current) == open_spec(fin.last_manifest_read, key)
    &&& wf(s, fin)
}

// ---- blob header codec ---------------------------------------------------------------------------------------
/// the four magic bytes (Verus knows the length of the literal b"VFRG", not its content: the codec contract holds for any four bytes)
pub open spec fn magic() -> Seq<u8> { BLOB_MAGIC@ }
pub open spec fn le32(x: u32) -> Seq<u8> {
    seq![(x & 0xff) as u8, ((x >> 8) & 0xff) as u8, ((x >> 16) & 0xff) as u8, ((x >> 24) & 0xff) as u8]
}
pub open spec fn from_le32(b: Seq<u8>) -> u32 {
    (b[0] as u32) | ((b[1] as u32) << 8) | ((b[2] as u32) << 16) | ((b[3] as u32) << 24)
}
/// the bytes of a blob file holding `payload`
pub open spec fn blob_encode(payload: Seq<u8>) -> Seq<u8> { magic() + le32(SCHEMA_VERSION) + payload }
/// the payload of a well-formed blob file; None for every other byte string
pub open spec fn blob_decode(data: Seq<u8>) -> Option<Seq<u8>> {
    if data.len() >= 8 && data.subrange(0, 4) == magic() && data.subrange(4, 8) == le32(SCHEMA_VERSION) {
        Some(data.subrange(8, data.len() as int))
    } else {
        None
    }
}
pub open spec fn obv(o: Option<Vec<u8>>) -> Option<Seq<u8>> { match o { Some(v) => Some(v@), None => None } }

/// `r` (exec) is `e` (spec), byte for byte
pub open spec fn opt_bytes_eq(r: Option<Vec<u8>>, e: Option<Seq<u8>>) -> bool {
    match r { Some(v) => e is Some && v@ =~= e.unwrap(), None => e is None }
}

/// postcondition of a blob read at store-relative path `rel`: the files on disk are untouched; if the read delivered bytes
/// they are the bytes of that file and the result is their decoding, otherwise (io error / absent) the result is a miss
pub open spec fn read_post(old_fs: VpFs, fin: VpFs, r: Option<Vec<u8>>, rel: Seq<char>) -> bool {
    &&& fs_same_files(fin, old_fs) && fin.last_manifest_read == old_fs.last_manifest_read && hist_same(fin, old_fs)
    &&& opt_bytes_eq(r, match fin.last_blob_read { Some(d) => blob_decode(d), None => None })
    &&& fin.last_blob_read is Some ==> old_fs.blobs.contains_key(rel) && old_fs.blobs[rel] == fin.last_blob_read.unwrap()
}

proof fn lemma_le32_roundtrip(x: u32)
    ensures from_le32(le32(x)) == x, le32(x).len() == 4,
{
    let b0 = (x & 0xff) as u8; let b1 = ((x >> 8) & 0xff) as u8; let b2 = ((x >> 16) & 0xff) as u8; let b3 = ((x >> 24) & 0xff) as u8;
    assert(((b0 as u32) | ((b1 as u32) << 8) | ((b2 as u32) << 16) | ((b3 as u32) << 24)) == x) by (bit_vector)
        requires b0 == (x & 0xff) as u8, b1 == ((x >> 8) & 0xff) as u8, b2 == ((x >> 16) & 0xff) as u8, b3 == ((x >> 24) & 0xff) as u8;
}

proof fn lemma_from_le32_inj(b: Seq<u8>)
    requires b.len() == 4,
    ensures le32(from_le32(b)) =~= b,
{
    let b0 = b[0]; let b1 = b[1]; let b2 = b[2]; let b3 = b[3];
    let x = (b0 as u32) | ((b1 as u32) << 8) | ((b2 as u32) << 16) | ((b3 as u32) << 24);
    assert((x & 0xff) as u8 == b0 && ((x >> 8) & 0xff) as u8 == b1 && ((x >> 16) & 0xff) as u8 == b2 && ((x >> 24) & 0xff) as u8 == b3) by (bit_vector)
        requires x == (b0 as u32) | ((b1 as u32) << 8) | ((b2 as u32) << 16) | ((b3 as u32) << 24);
}

/// C29 (codec): decoding what write_blob builds returns the payload, for every payload of every length
proof fn lemma_blob_roundtrip(p: Seq<u8>)
    ensures blob_decode(blob_encode(p)) == Some(p),
{
    lemma_le32_roundtrip(SCHEMA_VERSION);
    let d = blob_encode(p);
    assert(d.subrange(0, 4) =~= magic());
    assert(d.subrange(4, 8) =~= le32(SCHEMA_VERSION));
    assert(d.subrange(8, d.len() as int) =~= p);
}

/// C29 (codec): a byte string decodes to Some(p) only if it is exactly header ++ p (so every other shape is a miss)
proof fn lemma_blob_decode_only_encoded(d: Seq<u8>)
    ensures blob_decode(d) is Some ==> d =~= blob_encode(blob_decode(d).unwrap()),
{
    if blob_decode(d) is Some {
        lemma_le32_roundtrip(SCHEMA_VERSION);
        let p = d.subrange(8, d.len() as int);
        let e = blob_encode(p);
        assert(e.len() == d.len());
        assert forall|i: int| 0 <= i < d.len() implies d[i] == e[i] by {
            if i < 4 { assert(d.subrange(0, 4)[i] == d[i]); }
            else if i < 8 { assert(d.subrange(4, 8)[i - 4] == d[i]); }
            else { assert(p[i - 8] == d[i]); }
        }
    }
}

/// the decoding as read_blob performs it (strip 4 magic bytes, split off 4 version bytes, compare the little-endian value)
pub open spec fn blob_decode_steps(data: Seq<u8>) -> Option<Seq<u8>> {
    if data.len() >= 4 && data.subrange(0, 4) == magic() {
        let p1 = data.subrange(4, data.len() as int);
        if p1.len() >= 4 {
            if from_le32(p1.subrange(0, 4)) == SCHEMA_VERSION { Some(p1.subrange(4, p1.len() as int)) } else { None }
        } else { None }
    } else { None }
}

/// ... is the specified decoding (used as a broadcast hint inside read_blob)
pub broadcast proof fn lemma_blob_decode_steps(data: Seq<u8>)
    ensures #[trigger] blob_decode(data) == blob_decode_steps(data),
{
    lemma_le32_roundtrip(SCHEMA_VERSION);
    if data.len() >= 8 {
        let p1 = data.subrange(4, data.len() as int);
        assert(p1.subrange(0, 4) =~= data.subrange(4, 8));
        assert(p1.subrange(4, p1.len() as int) =~= data.subrange(8, data.len() as int));
        lemma_from_le32_inj(data.subrange(4, 8));
    }
}

// ---- content addressing --------------------------------------------------------------------------------------
/// BLAKE3 hex digest (uninterpreted)
pub uninterp spec fn spec_hash(data: Seq<u8>) -> Seq<char>;
/// `fragments/<name[..2]>/<name>.frag` (uninterpreted: only its injectivity in `name` matters, axiom_blob_rel_inj)
pub uninterp spec fn blob_rel(name: Seq<char>) -> Seq<char>;
/// store-relative path modelled for a PathBuf produced by the outlined `root.join(rel)`
pub uninterp spec fn path_rel(p: PathBuf) -> Seq<char>;

/// every blob file on disk sits at the path derived from the hash of its bytes (what write_blob establishes; a
/// file corrupted from outside breaks it, then load degrades to whatever the header check makes of the bytes)
pub open spec fn blobs_addressed(fs: VpFs) -> bool {
    forall|name: Seq<char>| #[trigger] fs.blobs.contains_key(blob_rel(name)) ==> spec_hash(fs.blobs[blob_rel(name)]) == name
}

// ---- trusted axioms ------------------------------------------------------------------------------------------
/// A1: a String is determined by its characters
#[verifier::external_body]
pub broadcast proof fn axiom_string_ext(a: String, b: String)
    ensures (#[trigger] a@ == #[trigger] b@) ==> a == b,
{}
/// A0: every character sequence is the view of some String
#[verifier::external_body]
pub broadcast proof fn axiom_key_of(s: Seq<char>)
    ensures (#[trigger] key_of(s))@ == s,
{}
/// A2: `String: Borrow<str>` looks up by characters (the analogue of vstd's axiom_contains_deref_key for &str keys)
#[verifier::external_body]
pub broadcast proof fn axiom_str_contains<V>(m: Map<String, V>, k: &str)
    ensures #[trigger] vstd::std_specs::btree::contains_borrowed_key::<String, V, str>(m, k) <==> m.contains_key(key_of(k@)),
{}
#[verifier::external_body]
pub broadcast proof fn axiom_str_maps<V>(m: Map<String, V>, k: &str, v: V)
    ensures #[trigger] vstd::std_specs::btree::maps_borrowed_key_to_value::<String, V, str>(m, k, v) <==> (m.contains_key(key_of(k@)) && m[key_of(k@)] == v),
{}
#[verifier::external_body]
pub broadcast proof fn axiom_str_mutated<V>(om: Map<String, V>, nm: Map<String, V>, k: &str, ov: V, nv: V)
    ensures #[trigger] vstd::std_specs::btree::borrowed_key_mutated::<String, V, str>(om, nm, k, ov, nv)
        <==> (om.contains_key(key_of(k@)) && om[key_of(k@)] == ov && nm == om.insert(key_of(k@), nv)),
{}
#[verifier::external_body]
pub broadcast proof fn axiom_str_ordering()
    ensures #[trigger] vstd::std_specs::btree::borrowed_key_ordering_matches::<String, str>(),
{}
/// A3: BLAKE3 is collision free (cryptographic assumption; content addressing rests on it in the real code, too)
#[verifier::external_body]
pub broadcast proof fn axiom_hash_inj(a: Seq<u8>, b: Seq<u8>)
    ensures (#[trigger] spec_hash(a) == #[trigger] spec_hash(b)) ==> a == b,
{}
/// A4: the blob path determines the digest it was built from
#[verifier::external_body]
pub broadcast proof fn axiom_blob_rel_inj(a: Seq<char>, b: Seq<char>)
    ensures (#[trigger] blob_rel(a) == #[trigger] blob_rel(b)) ==> a == b,
{}

pub broadcast group group_store_axioms {
    axiom_string_ext, axiom_key_of, axiom_str_contains, axiom_str_maps, axiom_str_mutated, axiom_str_ordering,
    axiom_hash_inj, axiom_blob_rel_inj,
}

// ---- lemmas about the view -----------------------------------------------------------------------------------
pub proof fn lemma_fv_insert(m: Map<String, FileEntry>, k: String, e: FileEntry)
    ensures fv(m.insert(k, e)) =~= fv(m).insert(k@, ev(e)),
{
    assert forall|s: Seq<char>| #[trigger] fv(m.insert(k, e)).contains_key(s) <==> fv(m).insert(k@, ev(e)).contains_key(s) by {
        axiom_key_of(s);
        if s == k@ { axiom_string_ext(key_of(s), k); }
    }
    assert forall|s: Seq<char>| fv(m.insert(k, e)).contains_key(s) implies #[trigger] fv(m.insert(k, e))[s] == fv(m).insert(k@, ev(e))[s] by {
        axiom_key_of(s);
        if s == k@ { axiom_string_ext(key_of(s), k); }
    }
}

pub proof fn lemma_fv_empty()
    ensures fv(Map::<String, FileEntry>::empty()) =~= IMap::<Seq<char>, EntryV>::empty(),
{}

pub proof fn lemma_fv_contains(m: Map<String, FileEntry>, k: String)
    ensures m.contains_key(k) <==> fv(m).contains_key(k@), m.contains_key(k) ==> fv(m)[k@] == ev(m[k]),
{
    axiom_key_of(k@);
    axiom_string_ext(key_of(k@), k);
}

/// C29: reopening with the same key returns exactly the entries of the last saved build ...
pub proof fn lemma_reopen_same_key(s: Store, fs: VpFs)
    requires wf(s, fs), s.on_disk_current,
    ensures open_spec(fs.manifest, s.manifest.global_key@) == (fv(s.manifest.files@), true),
{}

/// ... and with a different key or schema returns no entries
pub proof fn lemma_reopen_other_key(t: Option<Seq<char>>, key: Seq<char>)
    ensures
        (parse_opt(t) is Some && (parse_opt(t).unwrap().key != key || parse_opt(t).unwrap().schema != SCHEMA_VERSION))
            ==> open_spec(t, key) == (IMap::<Seq<char>, EntryV>::empty(), false),
        parse_opt(t) is None ==> open_spec(t, key) == (IMap::<Seq<char>, EntryV>::empty(), false),
{}

/// REGRESSION F-C29-save-failed-write (fixed in /repo by dc216b9). On its failure path (serializer or atomic_write returned Err)
/// `save` has already replaced manifest.files and leaves the disk untouched. If the flag kept its old value `true` (the code before
/// the fix) the invariant is broken; with the flag reset to false it holds. `save` now ensures wf on every exit.
pub proof fn lemma_regression_save_failed_write(o: Store, n: Store, fs: VpFs)
    requires
        wf(o, fs), o.on_disk_current, !save_skips(sv(o)),
        sv(n).saved.files == sv(o).next, n.manifest.schema == o.manifest.schema,
    ensures
        n.on_disk_current ==> !wf(n, fs),
        !n.on_disk_current ==> wf(n, fs),
{}

// ---- trusted stand-ins for derives ---------------------------------------------------------------------------
impl Clone for FileEntry {
    /// stands for `#[derive(Clone)]`: a field-wise copy
    #[verifier::external_body]
    fn clone(&self) -> (r: Self)
        ensures ev(r) == ev(*self),
    { unimplemented!() }
}
impl Clone for Manifest {
    /// stands for `#[derive(Clone)]`
    #[verifier::external_body]
    fn clone(&self) -> (r: Self)
        ensures mv(r) == mv(*self),
    { unimplemented!() }
}
impl Default for Manifest {
    /// stands for `#[derive(Default)]`: schema 0, empty key, no files
    #[verifier::external_body]
    fn default() -> (r: Self)
        ensures mv(r) == default_mv(), r.files@ == Map::<String, FileEntry>::empty(),
    { unimplemented!() }
}

// ---- outlined std calls (assumed contracts = the documented behaviour of the std API) -----------------------------
pub assume_specification<T: Default> [std::mem::take] (a: &mut T) -> (r: T)
    ensures r == *old(a), call_ensures(T::default, (), *final(a));

/// O5 (as wrappers: the `[u8; size_of::<Self>()]` of the std signatures cannot be written in an assume_specification)
#[verifier::external_body]
fn vp_u32_to_le_bytes(x: u32) -> (r: [u8; 4])
    ensures r@ == le32(x),
{ x.to_le_bytes() }
#[verifier::external_body]
fn vp_u32_from_le_bytes(b: [u8; 4]) -> (r: u32)
    ensures r == from_le32(b@),
{ u32::from_le_bytes(b) }
#[verifier::external_body]
fn vp_u32_to_be_bytes(x: u32) -> (r: [u8; 4])
    ensures r@ == le32(x).reverse(),
{ x.to_be_bytes() }
#[verifier::external_body]
fn vp_u32_from_be_bytes(b: [u8; 4]) -> (r: u32)
    ensures r == from_le32(b@.reverse()),
{ u32::from_be_bytes(b) }

pub assume_specification<T, const N: usize> [<[T]>::split_first_chunk] (s: &[T]) -> (r: Option<(&[T; N], &[T])>)
    ensures
        s@.len() < N ==> r is None,
        s@.len() >= N ==> r is Some && r.unwrap().0@ == s@.subrange(0, N as int) && r.unwrap().1@ == s@.subrange(N as int, s@.len() as int);

pub assume_specification<T: Clone> [<[T]>::to_vec] (s: &[T]) -> (r: Vec<T>)
    ensures r@.len() == s@.len(), forall|i: int| 0 <= i < s@.len() ==> cloned(s@[i], #[trigger] r@[i]);

/// O12: `data.strip_prefix(p)` (the SlicePattern bound of the std signature is unstable, so the call is outlined)
#[verifier::external_body]
fn vp_strip_prefix<'a>(s: &'a [u8], p: &[u8]) -> (r: Option<&'a [u8]>)
    ensures
        (s@.len() >= p@.len() && s@.subrange(0, p@.len() as int) == p@) ==> r is Some && r.unwrap()@ == s@.subrange(p@.len() as int, s@.len() as int),
        !(s@.len() >= p@.len() && s@.subrange(0, p@.len() as int) == p@) ==> r is None,
{ unimplemented!() }

/// O11: std's definition of Option::is_none_or, verified here (its `impl const FnOnce` signature cannot be named)
fn vp_is_none_or<T, F: FnOnce(T) -> bool>(o: Option<T>, f: F) -> (r: bool)
    requires o is Some ==> call_requires(f, (o.unwrap(),)),
    ensures o is None ==> r, o is Some ==> call_ensures(f, (o.unwrap(),), r),
{
    match o { None => true, Some(x) => f(x) }
}

/// O13: `a == b` on `BTreeMap<String, FileEntry>` (std: same length and pairwise equal (key, value) in key order;
/// FileEntry's derived PartialEq is field-wise)
#[verifier::external_body]
fn vp_files_eq(a: &BTreeMap<String, FileEntry>, b: &BTreeMap<String, FileEntry>) -> (r: bool)
    ensures r == (fv(a@) == fv(b@)),
{ unimplemented!() }

/// O13: `String == &str` compares characters
#[verifier::external_body]
fn vp_str_eq(a: &String, b: &str) -> (r: bool)
    ensures r == (a@ == b@),
{ unimplemented!() }

// ---- outlined file system / serializer / hash calls -----------------------------------------------------------------
/// O14: `fs::create_dir_all(..)` results are ignored by the code; directories are not part of the model
#[verifier::external_body]
fn vp_create_dir_all_fragments(root: &Path) { unimplemented!() }
#[verifier::external_body]
fn vp_create_parent_dir(path: &PathBuf) { unimplemented!() }

/// O14: the lock file (fs4) — result unconstrained
#[verifier::external_body]
fn acquire_lock(root: &Path, blocking: bool) -> LockResult { unimplemented!() }

#[verifier::external_body]
fn vp_to_path_buf(root: &Path) -> PathBuf { unimplemented!() }

/// O14: `fs::read_to_string(root.join(MANIFEST)).ok().and_then(|x| toml::from_str::<Manifest>(&x).ok())`
/// may fail for any reason; if it delivers a text, that is the text on disk, and the result is its parse.
#[verifier::external_body]
fn vp_read_manifest(root: &Path, Tracked(fs): Tracked<&mut VpFs>) -> (r: Option<Manifest>)
    ensures
        fs_same_files(*final(fs), *old(fs)), final(fs).last_blob_read == old(fs).last_blob_read, hist_same(*final(fs), *old(fs)),
        final(fs).last_manifest_read is Some ==> final(fs).last_manifest_read == old(fs).manifest,
        omv(r) == parse_opt(final(fs).last_manifest_read),
{ unimplemented!() }

/// O14: `toml::to_string(&manifest)`. ASSUMED (listed): what serde/toml write, serde/toml read back: parse(serialize(m)) == m.
#[verifier::external_body]
fn vp_toml_to_string(m: &Manifest, Tracked(fs): Tracked<&mut VpFs>) -> (r: Result<String, VpErr>)
    ensures
        r matches Ok(t) ==> toml_parse(t@) == Some(mv(*m)),
        fs_same_files(*final(fs), *old(fs)), final(fs).last_manifest_read == old(fs).last_manifest_read, final(fs).last_blob_read == old(fs).last_blob_read,
        final(fs).manifest_writes == old(fs).manifest_writes,
        final(fs).io_failures == old(fs).io_failures + (if r is Err { 1nat } else { 0nat }),
{ unimplemented!() }

/// O14: `veryl_path::atomic_write(root.join(MANIFEST), text.as_bytes())`: temp file + rename, so either the file holds the
/// new text afterwards (Ok) or the disk is unchanged (Err)
#[verifier::external_body]
fn vp_atomic_write_manifest(root: &PathBuf, text: &String, Tracked(fs): Tracked<&mut VpFs>) -> (r: Result<(), VpErr>)
    ensures
        final(fs).blobs == old(fs).blobs, final(fs).last_manifest_read == old(fs).last_manifest_read, final(fs).last_blob_read == old(fs).last_blob_read,
        final(fs).manifest_writes == old(fs).manifest_writes + 1,
        final(fs).io_failures == old(fs).io_failures + (if r is Err { 1nat } else { 0nat }),
        r is Ok ==> final(fs).manifest == Some(text@),
        r is Err ==> final(fs).manifest == old(fs).manifest,
{ unimplemented!() }

/// O14: `content_hash(&data)` (blake3)
#[verifier::external_body]
fn vp_content_hash(data: &Vec<u8>) -> (r: String)
    ensures r@ == spec_hash(data@),
{ unimplemented!() }

/// O4: `format!("{FRAGMENT_DIR}/{}/{}.{FRAGMENT_EXT}", &name[..2], name)`
#[verifier::external_body]
fn vp_blob_rel(name: &String) -> (r: String)
    ensures r@ == blob_rel(name@),
{ unimplemented!() }

/// O14: `self.root.join(&rel)`
#[verifier::external_body]
fn vp_join(root: &PathBuf, rel: &str) -> (r: PathBuf)
    ensures path_rel(r) == rel@,
{ unimplemented!() }

/// O14: `path.exists()`
#[verifier::external_body]
fn vp_exists(path: &PathBuf, Tracked(fs): Tracked<&mut VpFs>) -> (r: bool)
    ensures *final(fs) == *old(fs), r == old(fs).blobs.contains_key(path_rel(*path)),
{ unimplemented!() }

/// O14: `veryl_path::atomic_write(&path, &data)` for a blob: all or nothing
#[verifier::external_body]
fn vp_atomic_write_blob(path: &PathBuf, data: &Vec<u8>, Tracked(fs): Tracked<&mut VpFs>) -> (r: Result<(), VpErr>)
    ensures
        final(fs).manifest == old(fs).manifest, final(fs).last_manifest_read == old(fs).last_manifest_read, final(fs).last_blob_read == old(fs).last_blob_read,
        hist_same(*final(fs), *old(fs)),
        r is Ok ==> final(fs).blobs == old(fs).blobs.insert(path_rel(*path), data@),
        r is Err ==> final(fs).blobs == old(fs).blobs,
{ unimplemented!() }

/// O14: `fs::read(self.root.join(rel)).ok()`: may fail for any reason; if it delivers bytes they are the file's bytes
#[verifier::external_body]
fn vp_fs_read(root: &PathBuf, rel: &str, Tracked(fs): Tracked<&mut VpFs>) -> (r: Option<Vec<u8>>)
    ensures
        fs_same_files(*final(fs), *old(fs)), final(fs).last_manifest_read == old(fs).last_manifest_read, hist_same(*final(fs), *old(fs)),
        obv(r) == final(fs).last_blob_read,
        r is Some ==> old(fs).blobs.contains_key(rel@) && old(fs).blobs[rel@] == r.unwrap()@,
{ unimplemented!() }

// ---- gc: outlined directory walk -------------------------------------------------------------------------------------
/// a blob path `p` is referenced by a manifest: some entry names it as its fragment or as its diagnostics blob
pub open spec fn is_referenced(files: IMap<Seq<char>, EntryV>, p: Seq<char>) -> bool {
    exists|k: Seq<char>| #[trigger] files.contains_key(k) && (files[k].fragment == Some(p) || files[k].diagnostics == Some(p))
}

/// O15: stands for `HashSet<PathBuf>` (opaque; its view is the set of store-relative paths it holds)
#[verifier::external_body]
pub struct VpPathSet { s: std::collections::HashSet<PathBuf> }
impl VpPathSet {
    pub uninterp spec fn view(&self) -> ISet<Seq<char>>;
}
/// O15: stands for `std::fs::DirEntry`
#[verifier::external_body]
pub struct VpDirEntry { e: fs::DirEntry }

/// O15: `self.manifest.files.values().flat_map(|x| x.fragment.iter().chain(x.diagnostics.iter())).map(|x| self.root.join(x)).collect()`
/// ASSUMED (the iterator chain is not ingestible by Verus): the set holds exactly root.join(x) for every fragment / diagnostics
/// path x of every entry. Not verified; the native differential run (replay.rs) exercises the real chain: after every save each referenced blob must still load.
#[verifier::external_body]
fn vp_referenced(files: &BTreeMap<String, FileEntry>, root: &PathBuf) -> (r: VpPathSet)
    ensures forall|p: Seq<char>| r@.contains(p) <==> is_referenced(fv(files@), p),
{ unimplemented!() }

/// O15: `fs::read_dir(self.root.join(FRAGMENT_DIR))` followed by `.flatten()`: the entries that could be read (any subset, any order)
#[verifier::external_body]
fn vp_read_fragment_dirs(root: &PathBuf) -> (r: Result<Vec<VpDirEntry>, VpErr>)
{ unimplemented!() }
/// O15: `fs::read_dir(dir.path())` followed by `.flatten()`
#[verifier::external_body]
fn vp_read_dir_files(dir: &VpDirEntry) -> (r: Result<Vec<VpDirEntry>, VpErr>)
{ unimplemented!() }
/// O15: `file.path()`
#[verifier::external_body]
fn vp_entry_path(file: &VpDirEntry) -> (r: PathBuf)
{ unimplemented!() }
/// O15: `path.extension().is_some_and(|x| x == FRAGMENT_EXT)` (result unconstrained)
#[verifier::external_body]
fn vp_has_fragment_ext(path: &PathBuf) -> (r: bool)
{ unimplemented!() }
/// O15: `referenced.contains(&path)`: PathBufs below the root are equal iff their store-relative paths are
#[verifier::external_body]
fn vp_set_contains(set: &VpPathSet, path: &PathBuf) -> (r: bool)
    ensures r == set@.contains(path_rel(*path)),
{ unimplemented!() }
/// O15: `fs::remove_file(&path)` (result ignored by the code): removes at most that one file
#[verifier::external_body]
fn vp_remove_file(path: &PathBuf, Tracked(fs): Tracked<&mut VpFs>)
    ensures
        final(fs).manifest == old(fs).manifest, final(fs).last_manifest_read == old(fs).last_manifest_read, final(fs).last_blob_read == old(fs).last_blob_read,
        hist_same(*final(fs), *old(fs)),
        final(fs).blobs == old(fs).blobs || final(fs).blobs == old(fs).blobs.remove(path_rel(*path)),
{ unimplemented!() }

/// gc's effect on the disk: files are only removed, never changed or created; nothing the manifest `files` references is removed
pub open spec fn gc_post(old_fs: VpFs, fin: VpFs, files: IMap<Seq<char>, EntryV>) -> bool {
    &&& fin.manifest == old_fs.manifest && fin.last_manifest_read == old_fs.last_manifest_read && fin.last_blob_read == old_fs.last_blob_read
    &&& hist_same(fin, old_fs)
    &&& forall|p: Seq<char>| #[trigger] fin.blobs.contains_key(p) ==> old_fs.blobs.contains_key(p) && fin.blobs[p] == old_fs.blobs[p]
    &&& forall|p: Seq<char>| #[trigger] old_fs.blobs.contains_key(p) && is_referenced(files, p) ==> fin.blobs.contains_key(p)
}

// ---- client proof: the contracts compose to C29 for open; put; save; reopen; entry; load ---------------------------
/// hand-written client of the contracts above (no real code inside): what is put and saved is what a reopen delivers,
/// entry and blob bytes alike, provided the io calls involved did not fail (each failure degrades to a miss).
fn vp_scenario_roundtrip(root: &Path, key: &str, src: String, src2: &str, hash: String, payload: &[u8], Tracked(fs): Tracked<&mut VpFs>)
    requires laws(), blobs_addressed(*old(fs)), src@ == src2@, payload@.len() + 8 <= usize::MAX,
{
    broadcast use group_store_axioms;
    let ghost h = hash@;
    let Some(mut s) = Store::open_with_lock(root, key, true, Tracked(fs)) else { return; };
    s.put(src, hash, Some(payload), Tracked(fs));
    let ghost e0 = sv(s).next[src2@];
    s.save(Tracked(fs));
    if !s.on_disk_current { return; }           // the manifest write failed (the flag tells, since the fix of F-C29-save-failed-write)
    proof { lemma_reopen_same_key(s, *fs); }
    let Some(s2) = Store::open_with_lock(root, key, true, Tracked(fs)) else { return; };
    if !s2.on_disk_current { return; }          // the manifest could not be read back: everything is a miss
    let entry = s2.entry(src2);
    assert(entry is Some);
    if entry.is_none() { return; }
    let entry = entry.unwrap();
    assert(ev(*entry) == e0);
    assert(entry.hash@ == h);
    if entry.fragment.is_some() {               // the blob write succeeded at put time
        let got = s2.load(entry, Tracked(fs));
        proof { lemma_blob_roundtrip(payload@); }
        assert(fs.last_blob_read is Some ==> got is Some && got.unwrap()@ == payload@);
    }
}
