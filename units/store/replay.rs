// Unit `store`, native differential run (replay + thorough tier): the REAL text of crates/cache/src/lib.rs (module `cache`,
// cut from the working tree on every run) is driven through its public API on a temp directory with seeded random operation
// sequences and compared, after every reopen and every save, with an executable form of the view contracts of unit.py:
//   keep / invalidate / set_dependents / set_tests / set_diagnostics / put: effect on exactly one entry of `next`;
//   save: skip iff current && next == saved, else saved := next; next := {}; reopen(same key) == saved entries and blob bytes;
//   reopen(other key) == nothing; every blob the saved manifest references is still loadable after save (gc).
// `FOUND {json}` = a concrete failing sequence.

use std::collections::BTreeMap;

#[derive(Clone, Debug, PartialEq, Eq, Default)]
struct ME { hash: String, blob: Option<Vec<u8>>, deps: Vec<String>, tests: Vec<String>, diag: Option<Vec<u8>> }

/// disk = (key, entries) of the manifest file, if one was ever written
struct Model { disk: Option<(String, BTreeMap<String, ME>)>, saved: BTreeMap<String, ME>, next: BTreeMap<String, ME>, current: bool, key: String }

fn fail(log: &[String], what: &str, got: String, want: String) -> ! {
    println!("FOUND {{\"ops\":{:?},\"check\":{:?},\"actual\":{:?},\"expected\":{:?}}}", log, what, got, want);
    std::process::exit(1);
}

fn check_view(st: &cache::Store, m: &Model, log: &[String], when: &str) {
    for src in ["a.veryl", "b.veryl", "c.veryl"] {
        let e = st.entry(src);
        let w = m.saved.get(src);
        match (e, w) {
            (None, None) => {}
            (Some(e), Some(w)) => {
                if e.hash != w.hash { fail(log, &format!("{when}: entry({src}).hash"), e.hash.clone(), w.hash.clone()); }
                if e.dependents != w.deps { fail(log, &format!("{when}: entry({src}).dependents"), format!("{:?}", e.dependents), format!("{:?}", w.deps)); }
                if e.tests != w.tests { fail(log, &format!("{when}: entry({src}).tests"), format!("{:?}", e.tests), format!("{:?}", w.tests)); }
                if e.fragment.is_some() != w.blob.is_some() { fail(log, &format!("{when}: entry({src}).fragment presence"), format!("{:?}", e.fragment), format!("{:?}", w.blob.is_some())); }
                let got = st.load(e);
                if got != w.blob { fail(log, &format!("{when}: load(entry({src})) blob bytes"), format!("{:?}", got), format!("{:?}", w.blob)); }
                if e.diagnostics.is_some() != w.diag.is_some() { fail(log, &format!("{when}: entry({src}).diagnostics presence"), format!("{:?}", e.diagnostics), format!("{:?}", w.diag.is_some())); }
                let got = st.load_diagnostics(e);
                if got != w.diag { fail(log, &format!("{when}: load_diagnostics(entry({src}))"), format!("{:?}", got), format!("{:?}", w.diag)); }
            }
            (e, w) => fail(log, &format!("{when}: entry({src}) presence"), format!("{:?}", e.map(|x| &x.hash)), format!("{:?}", w.map(|x| &x.hash))),
        }
    }
}

fn main() {
    let mut g = Rng(vp_seed());
    vp_hook();
    failed_write_regression();      // finding_witness.rs
    let base = std::env::temp_dir().join(format!("vp_store_replay_{}_{}", std::process::id(), vp_seed()));
    let _ = std::fs::remove_dir_all(&base);
    let srcs = ["a.veryl", "b.veryl", "c.veryl"];
    let names = ["a.veryl", "b.veryl", "c.veryl", "t1", "t2"];
    let mut total = 0u64;
    for round in 0..1500u64 {
        let root = base.join(format!("r{round}"));
        let mut log: Vec<String> = vec![];
        let mut m = Model { disk: None, saved: BTreeMap::new(), next: BTreeMap::new(), current: false, key: "k0".to_string() };
        log.push("open(k0)".to_string());
        let mut st = cache::Store::open(&root, "k0");
        // plan: (operation kind, source index). Every other round starts with a scripted build (put + set_* for some files, save, then a
        // warm re-scan: keep / invalidate, save, reopen) so that the interesting states are reached often; random operations follow.
        let mut plan: Vec<(u64, usize)> = vec![];
        if round % 2 == 0 {
            let files: Vec<usize> = (0..3).filter(|_| g.below(3) != 0).collect();
            for &f in &files { plan.push((0, f)); plan.push((6 + g.below(3), f)); if g.below(2) == 0 { plan.push((6 + g.below(3), f)); } }
            plan.push((9, 0));
            if g.below(3) == 0 { plan.push((11, 0)); }
            for &f in &files { plan.push((if g.below(4) == 0 { 0 } else { 3 }, f)); if g.below(4) == 0 { plan.push((5 + g.below(4), f)); } }
            if g.below(3) == 0 { plan.push((12, 0)); for &f in &files { if g.below(3) != 0 { plan.push((3, f)); } } }
            plan.push((9, 0));
            plan.push((if g.below(3) == 0 { 13 } else { 11 }, 0));
        }
        for _ in 0..(4 + g.below(14)) { plan.push((g.below(14), g.below(3) as usize)); }
        for (kind, si) in plan {
            total += 1;
            let src = srcs[si];
            vp_case(format!("{:?}", log));
            match kind {
                0 | 1 | 2 => {
                    let hash = format!("h{}", g.below(3));
                    let blob: Option<Vec<u8>> = match g.below(4) { 0 => None, 1 => Some(vec![]), _ => Some((0..g.below(5)).map(|_| g.below(4) as u8).collect()) };
                    log.push(format!("put({src},{hash},{:?})", blob));
                    st.put(src.to_string(), hash.clone(), blob.as_deref());
                    m.next.insert(src.to_string(), ME { hash, blob, deps: vec![], tests: vec![], diag: None });
                }
                3 | 4 => {
                    log.push(format!("keep({src})"));
                    st.keep(src);
                    if let Some(e) = m.saved.get(src) { m.next.insert(src.to_string(), e.clone()); }
                }
                5 => {
                    log.push(format!("invalidate({src})"));
                    st.invalidate(src);
                    if let Some(e) = m.next.get_mut(src) { e.blob = None; }
                }
                6 => {
                    let d: Vec<String> = (0..g.below(3)).map(|_| names[g.below(5) as usize].to_string()).collect();
                    log.push(format!("set_dependents({src},{:?})", d));
                    st.set_dependents(src, d.clone());
                    if let Some(e) = m.next.get_mut(src) { e.deps = d; }
                }
                7 => {
                    let d: Vec<String> = (0..g.below(3)).map(|_| names[g.below(5) as usize].to_string()).collect();
                    log.push(format!("set_tests({src},{:?})", d));
                    st.set_tests(src, d.clone());
                    if let Some(e) = m.next.get_mut(src) { e.tests = d; }
                }
                8 => {
                    let b: Vec<u8> = (0..g.below(4)).map(|_| 0x40 + g.below(4) as u8).collect();
                    log.push(format!("set_diagnostics({src},{:?})", b));
                    st.set_diagnostics(src, &b);
                    if let Some(e) = m.next.get_mut(src) { if e.blob.is_some() { e.diag = Some(b); } }
                }
                9 | 10 => {
                    let skip = m.current && m.next == m.saved;
                    log.push(format!("save() [contract: {}]", if skip { "skip the write" } else { "write" }));
                    let mf = root.join("manifest.toml");
                    let before = std::fs::read(&mf).ok();
                    if skip { let _ = std::fs::remove_file(&mf); }
                    st.save();
                    if skip {
                        if mf.exists() { fail(&log, "save(): unchanged re-scan must skip the manifest write", "manifest rewritten".into(), "no write".into()); }
                        if let Some(b) = before { std::fs::write(&mf, b).unwrap(); }
                    } else {
                        m.saved = std::mem::take(&mut m.next);
                        m.current = true;
                        m.disk = Some((m.key.clone(), m.saved.clone()));
                        if !mf.exists() { fail(&log, "save(): changed entries must be written", "no manifest on disk".into(), "manifest written".into()); }
                    }
                    m.next.clear();
                    // the store in memory shows the saved build, and gc left every referenced blob in place
                    check_view(&st, &m, &log, "after save");
                }
                12 => {
                    // a save whose manifest write fails (transient io error: the store directory is moved away for the call).
                    // Contract: an unchanged re-scan is skipped as usual; otherwise memory shows the new build, the disk keeps the old
                    // manifest, and the store is NOT current any more, so that the next save writes (F-C29-save-failed-write).
                    let skip = m.current && m.next == m.saved;
                    log.push(format!("save() with the manifest write failing [contract: {}]", if skip { "skip the write" } else { "memory updated, not current" }));
                    let away = base.join(format!("r{round}.away"));
                    std::fs::rename(&root, &away).unwrap();
                    st.save();
                    std::fs::rename(&away, &root).unwrap();
                    if !skip {
                        m.saved = std::mem::take(&mut m.next);
                        m.current = false;
                    }
                    m.next.clear();
                    check_view(&st, &m, &log, "after failed save");
                }
                13 => {
                    // the manifest on disk is for ANOTHER SCHEMA (same key), or unparsable: a reopen returns no entries and is not current,
                    // so that the next save rewrites the manifest and collects the stale blobs
                    let mf = root.join("manifest.toml");
                    let Ok(text) = std::fs::read_to_string(&mf) else { continue };
                    drop(st);
                    let how = g.below(3);
                    let new_text = match how {
                        0 => "schema = [this is not a manifest\n".to_string(),
                        _ => {
                            let lines: Vec<String> = text.lines().map(|l| if l.starts_with("schema = ") { format!("schema = {}", if how == 1 { 1 } else { 3 }) } else { l.to_string() }).collect();
                            if !text.lines().any(|l| l.starts_with("schema = ")) { fail(&log, "manifest.toml has a top-level `schema = N` line", text.clone(), "schema = N".into()); }
                            lines.join("\n") + "\n"
                        }
                    };
                    std::fs::write(&mf, new_text).unwrap();
                    log.push(format!("drop; manifest on disk {}; open({})", match how { 0 => "corrupted (unparsable)", 1 => "rewritten with schema = 1 (same key)", _ => "rewritten with schema = 3 (same key)" }, m.key));
                    st = cache::Store::open(&root, &m.key);
                    m.disk = None;
                    m.saved.clear();
                    m.current = false;
                    m.next.clear();
                    check_view(&st, &m, &log, "after reopen of a manifest with another schema / unparsable");
                }
                _ => {
                    let other = g.below(4) == 0;
                    drop(st);
                    if other { m.key = format!("k{}", g.below(3)); }
                    log.push(format!("drop; open({})", m.key));
                    st = cache::Store::open(&root, &m.key);
                    // exactly the entries of the manifest on disk if it was written under this key, else nothing; a build in progress is lost
                    match &m.disk {
                        Some((k, files)) if *k == m.key => { m.saved = files.clone(); m.current = true; }
                        _ => { m.saved.clear(); m.current = false; }
                    }
                    m.next.clear();
                    check_view(&st, &m, &log, "after reopen");
                }
            }
        }
        drop(st);
        let _ = std::fs::remove_dir_all(&root);
    }
    let _ = std::fs::remove_dir_all(&base);
    println!("NONE {}", total);
}
