// Unit `store`: witness of finding F-C29-save-failed-write on the REAL text of crates/cache/src/lib.rs (module `cache`, prepended
// by unit.py::finding_witness exactly as for replay.rs). A manifest write that fails while on_disk_current is true leaves the flag
// true although memory and disk now differ; the next unchanged re-scan then skips the write, so a reopen returns the entries of an
// older build than the one the last save() call "saved". Prints `FOUND {..}` when reproduced, `NONE 1` otherwise.

fn main() {
    let base = std::env::temp_dir().join(format!("vp_finding_{}", std::process::id()));
    let _ = std::fs::remove_dir_all(&base);
    let root = base.join("cache");
    // build 1: a.veryl with hash h1, saved
    let mut st = cache::Store::open(&root, "key");
    st.put("a.veryl".to_string(), "h1".to_string(), Some(b"blob-1"));
    st.save();
    drop(st);
    // build 2: the source changed (h2); the manifest write fails (transient io error, simulated by moving the directory away for the call)
    let mut st = cache::Store::open(&root, "key");
    assert_eq!(st.entry("a.veryl").unwrap().hash, "h1");
    st.put("a.veryl".to_string(), "h2".to_string(), Some(b"blob-2"));
    let away = base.join("cache.away");
    std::fs::rename(&root, &away).unwrap();
    st.save();                                   // atomic_write fails: NamedTempFile::new_in(root) -> ENOENT
    std::fs::rename(&away, &root).unwrap();
    println!("after the failed save: in memory entry(a).hash = {}", st.entry("a.veryl").unwrap().hash);
    // a warm re-scan in the same store object: nothing changed since the (failed) save
    st.keep("a.veryl");
    st.save();                                   // skipped: on_disk_current is still true and next == manifest.files
    println!("after the second save: in memory entry(a).hash = {}", st.entry("a.veryl").unwrap().hash);
    drop(st);
    let st = cache::Store::open(&root, "key");
    let on_disk = st.entry("a.veryl").unwrap().hash.clone();
    println!("after reopen        : on disk   entry(a).hash = {}  (last save() call saved h2)", on_disk);
    if on_disk == "h1" {
        println!("FOUND {{\"witness\":\"F-C29-save-failed-write reproduced\",\"ops\":[\"open(key)\",\"put(a,h2,blob-2)\",\"save() with the manifest write failing\",\"keep(a)\",\"save() [skipped]\",\"drop; open(key)\"],\"actual\":\"entry(a).hash == h1\",\"expected\":\"h2\"}}");
    } else {
        println!("NONE 1");
    }
    let _ = std::fs::remove_dir_all(&base);
}
