// Unit `store`: deterministic regression of F-C29-save-failed-write on the REAL text of crates/cache/src/lib.rs (module `cache`); this
// file is concatenated in front of replay.rs by unit.py::replay and `failed_write_regression()` is called first by replay.rs::main.
// Before the fix (/repo dc216b9) a manifest write that failed while on_disk_current was true left the flag true although memory and
// disk differed; the next unchanged re-scan then skipped the write, and a reopen returned the entries of an OLDER build than the one the
// last save() call (which looked successful: it skipped "because nothing changed") had in memory. Contract: after a failed write the
// store is not current, so the next save writes. `FOUND {..}` = the old behaviour is back.

fn failed_write_regression() {
    let base = std::env::temp_dir().join(format!("vp_store_regr_{}", std::process::id()));
    let _ = std::fs::remove_dir_all(&base);
    let root = base.join("cache");
    // build 1: a.veryl with hash h1, saved
    let mut st = cache::Store::open(&root, "key");
    st.put("a.veryl".to_string(), "h1".to_string(), Some(b"blob-1"));
    st.save();
    drop(st);
    // build 2: the source changed (h2); the manifest write fails (transient io error, simulated by moving the directory away for the call)
    let mut st = cache::Store::open(&root, "key");
    assert_eq!(st.entry("a.veryl").unwrap().hash, "h1");
    st.put("a.veryl".to_string(), "h2".to_string(), Some(b"blob-2"));
    let away = base.join("cache.away");
    std::fs::rename(&root, &away).unwrap();
    st.save();                                   // atomic_write fails: NamedTempFile::new_in(root) -> ENOENT
    std::fs::rename(&away, &root).unwrap();
    // a warm re-scan in the same store object: nothing changed since the (failed) save
    st.keep("a.veryl");
    st.save();                                   // must write: the failed save left the store not current (pre-fix: skipped)
    drop(st);
    let st = cache::Store::open(&root, "key");
    let on_disk = st.entry("a.veryl").unwrap().hash.clone();
    let _ = std::fs::remove_dir_all(&base);
    if on_disk != "h2" {
        println!("FOUND {{\"regression\":\"F-C29-save-failed-write\",\"ops\":[\"open(key) [current, a:h1]\",\"put(a,h2,blob-2)\",\"save() with the manifest write failing\",\"keep(a)\",\"save() [contract: write, the store is not current]\",\"drop; open(key)\"],\"check\":\"after reopen: entry(a).hash\",\"actual\":\"{}\",\"expected\":\"h2\"}}", on_disk);
        std::process::exit(1);
    }
}
