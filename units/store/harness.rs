    // Unit `store`, Kani job `codec`: the blob header codec of write_blob / read_blob on the REAL std slice functions
    // (extend_from_slice, to_le_bytes, strip_prefix, split_first_chunk, from_le_bytes, to_vec). This text is placed INSIDE
    // `pub mod cache { .. }` next to the extracted items, so private fields and methods are reachable without visibility rewrites.
    // The file system is a one-file disk held in a static: what atomic_write received is what fs::read delivers.

    pub mod env {
        use std::path::PathBuf;
        use std::sync::Mutex;
        // (statics behind a Mutex: kani-compiler 0.68 crashes on thread_local!)
        /// bytes of the single blob file on the stub disk (None = absent / unreadable)
        pub static DISK: Mutex<Option<Vec<u8>>> = Mutex::new(None);
        /// what Path::exists answers for the blob path
        pub static EXISTS: Mutex<bool> = Mutex::new(false);
        /// number of atomic_write calls seen
        pub static WRITES: Mutex<u32> = Mutex::new(0);
        pub fn set_disk(v: Option<Vec<u8>>) { *DISK.lock().unwrap() = v; }
        pub fn disk() -> Option<Vec<u8>> { DISK.lock().unwrap().clone() }
        pub fn set_exists(b: bool) { *EXISTS.lock().unwrap() = b; }
        pub fn set_writes(n: u32) { *WRITES.lock().unwrap() = n; }
        pub fn writes() -> u32 { *WRITES.lock().unwrap() }
        /// O14: content_hash (blake3) -> a fixed 64-digit name (the codec does not depend on it)
        pub fn vp_content_hash(_data: &[u8]) -> String { String::from("ab") }
        /// O4: format!("fragments/{}/{}.frag", &name[..2], name) -> a fixed relative path
        pub fn vp_blob_rel(_name: &str) -> String { String::from("f") }
        /// O14: root.join(rel)
        pub fn vp_join(_root: &PathBuf, _rel: &str) -> PathBuf { PathBuf::new() }
        /// O14: path.exists()
        pub fn vp_exists(_path: &PathBuf) -> bool { *EXISTS.lock().unwrap() }
        /// O14: create_dir_all(parent), result ignored by the code
        pub fn vp_create_parent_dir(_path: &PathBuf) {}
        /// O14: veryl_path::atomic_write(&path, &data): the stub disk now holds exactly `data`
        pub fn vp_atomic_write_blob(_path: &PathBuf, data: &[u8]) -> Result<(), ()> {
            set_disk(Some(data.to_vec()));
            set_writes(writes() + 1);
            Ok(())
        }
        /// O14: fs::read(root.join(rel)).ok()
        pub fn vp_fs_read(_root: &PathBuf, _rel: &str) -> Option<Vec<u8>> { disk() }
    }

    pub mod harness {
        use super::*;
        use super::env::*;

        const MAXP: usize = 16;
        const MAXD: usize = 24;

        fn store() -> Store {
            Store { root: PathBuf::new(), manifest: Manifest::default(), next_files: BTreeMap::new(), on_disk_current: false, _lock: None }
        }

        /// read_blob(what write_blob wrote) == Some(payload), and what it wrote is header ++ payload: every payload content of length N
        /// (bytes are compared at a symbolic index i, i.e. for all i)
        fn roundtrip_n<const N: usize>() {
            let buf: [u8; N] = kani::any();
            let i: usize = kani::any();
            if N > 0 { kani::assume(i < N); }    // (an unconditional assume(i < 0) would cut off the instantiations that follow)
            let payload = &buf[..];
            let s = store();
            set_disk(None);
            set_exists(false);
            let rel = s.write_blob(payload);
            assert!(rel.is_some(), "write_blob must succeed when atomic_write succeeds");
            let on_disk = disk().unwrap();
            assert!(on_disk.len() == N + 8, "blob file length is not 8 + payload length");
            assert!(on_disk[0] == b'V' && on_disk[1] == b'F' && on_disk[2] == b'R' && on_disk[3] == b'G', "blob file does not start with the magic bytes");
            assert!(on_disk[4] == 2 && on_disk[5] == 0 && on_disk[6] == 0 && on_disk[7] == 0, "schema version is not stored as 4 little-endian bytes");
            if N > 0 { assert!(on_disk[8 + i] == payload[i], "payload byte changed in the blob file"); }
            let got = s.read_blob(&rel.unwrap());
            assert!(got.is_some(), "read_blob(write_blob(p)) is a miss");
            let got = got.unwrap();
            assert!(got.len() == N, "read_blob(write_blob(p)) has another length than p");
            if N > 0 { assert!(got[i] == payload[i], "read_blob(write_blob(p)) != p"); }
        }

        // one instantiation per harness: several calls in one harness (or a symbolic length) did not finish in 15 min
        macro_rules! rt { ($name:ident, $n:expr) => {
            #[cfg_attr(kani, kani::proof)]
            #[cfg_attr(kani, kani::unwind(34))]
            pub fn $name() { roundtrip_n::<$n>(); }
        } }
        rt!(blob_roundtrip_len0, 0);
        rt!(blob_roundtrip_len1, 1);
        rt!(blob_roundtrip_len2, 2);
        rt!(blob_roundtrip_len3, 3);
        rt!(blob_roundtrip_len4, 4);
        rt!(blob_roundtrip_len5, 5);
        rt!(blob_roundtrip_len8, 8);
        rt!(blob_roundtrip_len16, 16);

        /// an identical existing blob is reused: no write, same relative path returned
        #[cfg_attr(kani, kani::proof)]
        #[cfg_attr(kani, kani::unwind(34))]
        pub fn blob_reuse_skips_write() {
            let buf: [u8; 4] = kani::any();
            let s = store();
            set_writes(0);
            set_exists(true);
            let rel = s.write_blob(&buf);
            assert!(rel.is_some());
            assert!(writes() == 0, "write_blob rewrote an existing blob");
        }

        /// read_blob returns Some(p) exactly for files of the shape header ++ p and None for every other byte string (length <= 24); never panics
        #[cfg_attr(kani, kani::proof)]
        #[cfg_attr(kani, kani::unwind(34))]
        pub fn blob_reject_other_shapes() {
            let buf: [u8; MAXD] = kani::any();
            let len: usize = kani::any();
            kani::assume(len <= MAXD);
            let data = &buf[..len];
            let s = store();
            set_disk(Some(data.to_vec()));
            let got = s.read_blob("f");
            let shaped = len >= 8 && data[0] == b'V' && data[1] == b'F' && data[2] == b'R' && data[3] == b'G'
                && data[4] == 2 && data[5] == 0 && data[6] == 0 && data[7] == 0;
            if shaped {
                assert!(got.as_deref() == Some(&data[8..]), "well-formed blob not decoded to its payload");
            } else {
                assert!(got.is_none(), "read_blob accepted a byte string that is not header ++ payload");
            }
        }

        /// an unreadable / absent file is a miss
        #[cfg_attr(kani, kani::proof)]
        pub fn blob_missing_is_miss() {
            let s = store();
            set_disk(None);
            assert!(s.read_blob("f").is_none());
        }

        /// the std functions behind the Verus wrappers vp_u32_to_le_bytes / vp_u32_from_le_bytes mean what their assumed contracts say (all u32, all [u8;4])
        #[cfg_attr(kani, kani::proof)]
        pub fn le_bytes_contract() {
            let x: u32 = kani::any();
            let b = x.to_le_bytes();
            assert!(b == [(x & 0xff) as u8, ((x >> 8) & 0xff) as u8, ((x >> 16) & 0xff) as u8, ((x >> 24) & 0xff) as u8]);
            let c: [u8; 4] = kani::any();
            assert!(u32::from_le_bytes(c) == (c[0] as u32) | ((c[1] as u32) << 8) | ((c[2] as u32) << 16) | ((c[3] as u32) << 24));
        }

        /// canary: the assumptions of blob_reject_other_shapes admit a well-formed file (must FAIL)
        #[cfg_attr(kani, kani::proof)]
        #[cfg_attr(kani, kani::unwind(34))]
        pub fn canary_blob_shapes() {
            let buf: [u8; MAXD] = kani::any();
            let len: usize = kani::any();
            kani::assume(len <= MAXD);
            let s = store();
            set_disk(Some(buf[..len].to_vec()));
            assert!(s.read_blob("f").is_none());
        }
    }
