// ---- native differential replay for unit `wide` -------------------------------------------------
// The ORIGINAL text of wide_ops.rs' helpers (unsafe raw-pointer code, cut from the repository on every run) is pasted
// above this file by unit.py::replay.  Every helper is compared with an independent reference that works bit by bit /
// with u128 columns on Vec<u64>.  Output: `FOUND {json}` for the first mismatch (or panic), else `NONE <cases>`.

const GUARD: u64 = 0xA5A5_5A5A_DEAD_BEEF;

fn gb(v: &[u64], j: usize) -> bool { j / 64 < v.len() && (v[j / 64] >> (j % 64)) & 1 == 1 }
fn sb(v: &mut [u64], j: usize, x: bool) { if j / 64 < v.len() { if x { v[j / 64] |= 1u64 << (j % 64) } else { v[j / 64] &= !(1u64 << (j % 64)) } } }
fn hex(v: &[u64]) -> String { format!("[{}]", v.iter().map(|w| format!("\"0x{:016x}\"", w)).collect::<Vec<_>>().join(",")) }

fn ref_add(a: &[u64], b: &[u64]) -> Vec<u64> {
    let mut c = 0u128; let mut o = vec![];
    for i in 0..a.len() { let s = a[i] as u128 + b[i] as u128 + c; o.push(s as u64); c = s >> 64; }
    o
}
fn ref_not(a: &[u64]) -> Vec<u64> { a.iter().map(|w| !w).collect() }
fn ref_neg(a: &[u64]) -> Vec<u64> { let mut one = vec![0u64; a.len()]; if !one.is_empty() { one[0] = 1; } ref_add(&ref_not(a), &one) }
fn ref_sub(a: &[u64], b: &[u64]) -> Vec<u64> { ref_add(a, &ref_neg(b)) }
/// column-wise product, truncated to n words
fn ref_mul(a: &[u64], b: &[u64]) -> Vec<u64> {
    let n = a.len(); let mut o = vec![0u64; n];
    let (mut lo, mut hi) = (0u128, 0u128); // running column sum = hi * 2^128 + lo
    for k in 0..n {
        for i in 0..=k { let p = a[i] as u128 * b[k - i] as u128; let (s, c) = lo.overflowing_add(p); lo = s; if c { hi += 1; } }
        o[k] = lo as u64;
        lo = (lo >> 64) | (hi << 64); hi >>= 64;
    }
    o
}
fn ref_cmp_u(a: &[u64], b: &[u64]) -> i64 {
    let m = a.len().max(b.len()) * 64;
    for j in (0..m).rev() { let (x, y) = (gb(a, j), gb(b, j)); if x != y { return if x { 1 } else { -1 }; } }
    0
}
/// sign extension of the w-bit value in a to m words (bit by bit)
fn ref_sext(a: &[u64], w: usize, signed: bool, m: usize) -> Vec<u64> {
    let mut o = vec![0u64; m];
    let s = signed && w >= 1 && gb(a, w - 1);
    for j in 0..m * 64 { sb(&mut o, j, if j < w { gb(a, j) } else { s }); }
    o
}
fn ref_cmp_s(a: &[u64], aw: usize, b: &[u64], bw: usize) -> i64 {
    let m = a.len().max(b.len()) + 1;
    let (x, y) = (ref_sext(a, aw, true, m), ref_sext(b, bw, true, m));
    let (sx, sy) = (gb(&x, m * 64 - 1), gb(&y, m * 64 - 1));
    if sx != sy { return if sx { -1 } else { 1 }; }
    ref_cmp_u(&x, &y)
}
fn ref_shl(a: &[u64], amt: u64) -> Vec<u64> {
    let n = a.len(); let mut o = vec![0u64; n];
    for j in 0..n * 64 { sb(&mut o, j, (j as u64) >= amt && gb(a, (j as u64 - amt) as usize)); }
    o
}
fn ref_lshr(a: &[u64], amt: u64) -> Vec<u64> {
    let n = a.len(); let mut o = vec![0u64; n];
    for j in 0..n * 64 { let s = j as u128 + amt as u128; sb(&mut o, j, s < (n * 64) as u128 && gb(a, s as usize)); }
    o
}
fn ref_ashr(a: &[u64], amt: u64, w: usize) -> Vec<u64> {
    let n = a.len(); let mut o = vec![0u64; n];
    for j in 0..w.min(n * 64) { let s = j as u128 + amt as u128; sb(&mut o, j, if s < w as u128 { gb(a, s as usize) } else { gb(a, w - 1) }); }
    o
}
fn ref_mask(a: &[u64], w: usize) -> Vec<u64> { let mut o = a.to_vec(); for j in w.min(a.len() * 64)..a.len() * 64 { sb(&mut o, j, false); } o }
fn ref_ones(n: usize, w: usize) -> Vec<u64> { let mut o = vec![0u64; n]; for j in 0..w.min(n * 64) { sb(&mut o, j, true); } o }

struct Gen { g: Rng }
impl Gen {
    fn word(&mut self) -> u64 { if self.g.below(3) == 0 { self.g.next() } else { self.g.edge() } }
    fn words(&mut self, n: usize) -> Vec<u64> {
        match self.g.below(8) {
            0 => vec![0; n],
            1 => vec![u64::MAX; n],
            2 => { let mut v = vec![0; n]; let j = self.g.below((n * 64) as u64) as usize; sb(&mut v, j, true); v }
            3 => { let mut v = vec![u64::MAX; n]; let j = self.g.below((n * 64) as u64) as usize; sb(&mut v, j, false); v }
            _ => (0..n).map(|_| self.word()).collect(),
        }
    }
    /// a width in 1..=64n, boundary heavy
    fn width(&mut self, n: usize) -> usize {
        let m = n * 64;
        let w = match self.g.below(6) { 0 => 1, 1 => m, 2 => 64 * (1 + self.g.below(n as u64) as usize), 3 => 64 * (self.g.below(n as u64) as usize) + 1, 4 => m - 1, _ => 1 + self.g.below(m as u64) as usize };
        w.clamp(1, m)
    }
    fn amount(&mut self, n: usize) -> u64 {
        let m = (n * 64) as u64;
        match self.g.below(8) { 0 => 0, 1 => 64 * self.g.below(n as u64 + 2), 2 => m, 3 => m - 1, 4 => self.g.edge(), 5 => 64 * self.g.below(n as u64 + 1) + 63, 6 => 1, _ => self.g.below(m + 70) }
    }
}

/// buffer with one guard word behind it (detects out-of-bounds stores)
fn buf(v: &[u64]) -> Vec<u64> { let mut b = v.to_vec(); b.push(GUARD); b }
fn pm(b: &mut Vec<u64>) -> *mut u8 { b.as_mut_ptr() as *mut u8 }
fn pc(b: &Vec<u64>) -> *const u8 { b.as_ptr() as *const u8 }

fn found(f: &str, input: String, actual: String, expected: String) -> ! {
    println!("FOUND {{\"fn\":\"{}\",\"input\":{},\"actual\":{},\"expected\":{}}}", f, input, actual, expected);
    std::process::exit(1);
}
fn chk_vec(f: &str, input: &str, d: &Vec<u64>, want: &[u64]) {
    let n = want.len();
    if d[..n] != want[..] { found(f, input.to_string(), hex(&d[..n]), hex(want)); }
    if d[n] != GUARD { found(f, input.to_string(), format!("\"store behind the buffer: guard word = 0x{:016x}\"", d[n]), hex(want)); }
}
fn chk_i(f: &str, input: &str, got: i64, want: i64) { if got != want { found(f, input.to_string(), got.to_string(), want.to_string()); } }

const ALL: [&str; 28] = ["wide_band", "wide_bor", "wide_bxor", "wide_bxor_not", "wide_band_not", "wide_bnot", "wide_copy", "wide_add", "wide_sub", "wide_negate",
    "wide_mul", "wide_eq", "wide_ne", "wide_ucmp", "wide_scmp", "wide_scmp_asym", "sext_word", "wide_resize", "wide_shl", "wide_lshr", "wide_ashr",
    "wide_is_nonzero", "wide_is_all_ones", "wide_popcnt_parity", "wide_apply_mask", "wide_fill_ones", "pack_nb_width", "unpack_nb_width"];

fn main() {
    let mut g = Gen { g: Rng(vp_seed()) };
    vp_hook();
    let only: Option<String> = std::env::args().nth(2).filter(|s| ALL.contains(&s.as_str()));
    let rounds: u64 = if only.is_some() { 400_000 } else { 60_000 };
    let mut cases = 0u64;
    for round in 0..rounds {
        let n = if round < 2000 { 1 + (round % 5) as usize } else { 1 + g.g.below(5) as usize };
        let nb = (n * 8) as u32;
        for f in ALL.iter() {
            if let Some(o) = &only { if o != f { continue; } }
            cases += 1;
            let a = g.words(n);
            let b = match g.g.below(6) { 0 => a.clone(), 1 => { let mut x = a.clone(); let j = g.g.below((n * 64) as u64) as usize; let v = gb(&x, j); sb(&mut x, j, !v); x } _ => g.words(n) };
            let junk = g.words(n);
            let (ba, bb) = (buf(&a), buf(&b));
            let mut d = buf(&junk);
            let inp2 = format!("{{\"nb\":{},\"a\":{},\"b\":{}}}", nb, hex(&a), hex(&b));
            let inp1 = format!("{{\"nb\":{},\"a\":{}}}", nb, hex(&a));
            match *f {
                "wide_band" | "wide_bor" | "wide_bxor" | "wide_bxor_not" | "wide_band_not" => {
                    vp_case(inp2.clone());
                    let want: Vec<u64> = (0..n).map(|i| match *f { "wide_band" => a[i] & b[i], "wide_bor" => a[i] | b[i], "wide_bxor" => a[i] ^ b[i], "wide_bxor_not" => !(a[i] ^ b[i]), _ => a[i] & !b[i] }).collect();
                    unsafe { match *f { "wide_band" => wide_band(pm(&mut d), pc(&ba), pc(&bb), nb), "wide_bor" => wide_bor(pm(&mut d), pc(&ba), pc(&bb), nb), "wide_bxor" => wide_bxor(pm(&mut d), pc(&ba), pc(&bb), nb),
                                     "wide_bxor_not" => wide_bxor_not(pm(&mut d), pc(&ba), pc(&bb), nb), _ => wide_band_not(pm(&mut d), pc(&ba), pc(&bb), nb) } }
                    chk_vec(f, &inp2, &d, &want);
                }
                "wide_bnot" => { vp_case(inp1.clone()); unsafe { wide_bnot(pm(&mut d), pc(&ba), nb) }; chk_vec(f, &inp1, &d, &ref_not(&a)); }
                "wide_copy" => { vp_case(inp1.clone()); unsafe { wide_copy(pm(&mut d), pc(&ba), nb) }; chk_vec(f, &inp1, &d, &a); }
                "wide_add" => { vp_case(inp2.clone()); unsafe { wide_add(pm(&mut d), pc(&ba), pc(&bb), nb) }; chk_vec(f, &inp2, &d, &ref_add(&a, &b)); }
                "wide_sub" => { vp_case(inp2.clone()); unsafe { wide_sub(pm(&mut d), pc(&ba), pc(&bb), nb) }; chk_vec(f, &inp2, &d, &ref_sub(&a, &b)); }
                "wide_negate" => { vp_case(inp1.clone()); unsafe { wide_negate(pm(&mut d), pc(&ba), nb) }; chk_vec(f, &inp1, &d, &ref_neg(&a)); }
                "wide_mul" => { vp_case(inp2.clone()); unsafe { wide_mul(pm(&mut d), pc(&ba), pc(&bb), nb) }; chk_vec(f, &inp2, &d, &ref_mul(&a, &b)); }
                "wide_eq" => { vp_case(inp2.clone()); chk_i(f, &inp2, unsafe { wide_eq(pc(&ba), pc(&bb), nb) }, (a == b) as i64); }
                "wide_ne" => { vp_case(inp2.clone()); chk_i(f, &inp2, unsafe { wide_ne(pc(&ba), pc(&bb), nb) }, (a != b) as i64); }
                "wide_ucmp" => { vp_case(inp2.clone()); chk_i(f, &inp2, unsafe { wide_ucmp(pc(&ba), pc(&bb), nb) }, ref_cmp_u(&a, &b)); }
                "wide_scmp" => {
                    let w = g.width(n);
                    let (a, b) = (ref_mask(&a, w), ref_mask(&b, w));
                    let (ba, bb) = (buf(&a), buf(&b));
                    let inp = format!("{{\"nb\":{},\"width\":{},\"a\":{},\"b\":{}}}", nb, w, hex(&a), hex(&b));
                    vp_case(inp.clone());
                    chk_i(f, &inp, unsafe { wide_scmp(pc(&ba), pc(&bb), pack_nb_width(nb as usize, w)) }, ref_cmp_s(&a, w, &b, w));
                }
                "wide_scmp_asym" => {
                    let nbw = if g.g.below(4) == 0 { 1 + g.g.below(5) as usize } else { n };
                    let (wa, wb) = (g.width(n), g.width(nbw));
                    let a = ref_mask(&a, wa);
                    let b = ref_mask(&g.words(nbw), wb);
                    let (ba, bb) = (buf(&a), buf(&b));
                    let inp = format!("{{\"a_nb\":{},\"a_width\":{},\"b_nb\":{},\"b_width\":{},\"a\":{},\"b\":{}}}", nb, wa, nbw * 8, wb, hex(&a), hex(&b));
                    vp_case(inp.clone());
                    chk_i(f, &inp, unsafe { wide_scmp_asym(pc(&ba), pc(&bb), pack_nb_width(nb as usize, wa), pack_nb_width(nbw * 8, wb)) }, ref_cmp_s(&a, wa, &b, wb));
                }
                "sext_word" => {
                    let w = g.width(n);
                    let i = g.g.below(n as u64 + 3) as usize;
                    let sign = g.g.below(2);
                    // only the words covering the width are allocated: ceil(w/64)
                    let cov = (w + 63) / 64;
                    let ba = buf(&a[..cov]);
                    let inp = format!("{{\"width\":{},\"i\":{},\"sign\":{},\"a\":{}}}", w, i, sign, hex(&a[..cov]));
                    vp_case(inp.clone());
                    let got = unsafe { sext_word(pc(&ba), i, w as u32, sign) };
                    let mut want = 0u64;
                    for bpos in 0..64 { let j = 64 * i + bpos; if if j < w { gb(&a, j) } else { sign == 1 } { want |= 1u64 << bpos; } }
                    if got != want { found(f, inp, format!("\"0x{:016x}\"", got), format!("\"0x{:016x}\"", want)); }
                }
                "wide_resize" => {
                    let sn = 1 + g.g.below(5) as usize;
                    let w = if g.g.below(10) == 0 { 0 } else { g.width(sn) };
                    let signed = g.g.below(2) == 1;
                    let s = g.words(sn);
                    let cov = (w + 63) / 64;
                    let bs = buf(&s[..cov]);
                    let info = pack_nb_width(sn * 8, w) as u64 | ((signed as u64) << 32) | (g.g.next() & !0x1_ffff_ffffu64);
                    let inp = format!("{{\"dst_nb\":{},\"src_info\":\"0x{:x}\",\"src_width\":{},\"signed\":{},\"src\":{}}}", nb, info, w, signed, hex(&s[..cov]));
                    vp_case(inp.clone());
                    unsafe { wide_resize(pm(&mut d), pc(&bs), info, nb) };
                    chk_vec(f, &inp, &d, &ref_sext(&s[..cov], w, signed, n));
                }
                "wide_shl" | "wide_lshr" => {
                    let amt = g.amount(n);
                    let inp = format!("{{\"nb\":{},\"amount\":{},\"a\":{}}}", nb, amt, hex(&a));
                    vp_case(inp.clone());
                    if *f == "wide_shl" { unsafe { wide_shl(pm(&mut d), pc(&ba), amt, nb) }; chk_vec(f, &inp, &d, &ref_shl(&a, amt)); }
                    else { unsafe { wide_lshr(pm(&mut d), pc(&ba), amt, nb) }; chk_vec(f, &inp, &d, &ref_lshr(&a, amt)); }
                }
                "wide_ashr" => {
                    let w = g.width(n);
                    let amt = g.amount(n);
                    let mut a = ref_mask(&a, w);
                    if g.g.below(2) == 0 { sb(&mut a, w - 1, true); }
                    let ba = buf(&a);
                    let inp = format!("{{\"nb\":{},\"width\":{},\"amount\":{},\"a\":{}}}", nb, w, amt, hex(&a));
                    vp_case(inp.clone());
                    unsafe { wide_ashr(pm(&mut d), pc(&ba), amt, pack_nb_width(nb as usize, w)) };
                    chk_vec(f, &inp, &d, &ref_ashr(&a, amt, w));
                }
                "wide_is_nonzero" => { vp_case(inp1.clone()); chk_i(f, &inp1, unsafe { wide_is_nonzero(pc(&ba), nb) }, a.iter().any(|w| *w != 0) as i64); }
                "wide_is_all_ones" => {
                    let w = if g.g.below(12) == 0 { 0 } else { g.width(n) };
                    let mut a = a.clone();
                    if g.g.below(2) == 0 { for j in 0..w { sb(&mut a, j, true); } if w > 0 && g.g.below(3) == 0 { let j = g.g.below(w as u64) as usize; sb(&mut a, j, false); } }
                    let ba = buf(&a);
                    let inp = format!("{{\"nb\":{},\"width\":{},\"a\":{}}}", nb, w, hex(&a));
                    vp_case(inp.clone());
                    chk_i(f, &inp, unsafe { wide_is_all_ones(pc(&ba), pack_nb_width(nb as usize, w)) }, (0..w).all(|j| gb(&a, j)) as i64);
                }
                "wide_popcnt_parity" => {
                    vp_case(inp1.clone());
                    let mut par = false; for j in 0..n * 64 { par ^= gb(&a, j); }
                    chk_i(f, &inp1, unsafe { wide_popcnt_parity(pc(&ba), nb) }, par as i64);
                }
                "wide_apply_mask" | "wide_fill_ones" => {
                    let w = match g.g.below(8) { 0 => 0, 1 => n * 64 + 1 + g.g.below(200) as usize, 2 => 65535, _ => g.width(n) };
                    let inp = format!("{{\"nb\":{},\"width\":{},\"dst\":{}}}", nb, w, hex(&junk));
                    vp_case(inp.clone());
                    if *f == "wide_apply_mask" {
                        unsafe { wide_apply_mask(pm(&mut d), std::ptr::null(), pack_nb_width(nb as usize, w)) };
                        // width 0 means "no clamp" at the call sites (aot_c/emit.rs)
                        chk_vec(f, &inp, &d, &(if w == 0 { junk.clone() } else { ref_mask(&junk, w) }));
                    } else {
                        unsafe { wide_fill_ones(pm(&mut d), std::ptr::null(), pack_nb_width(nb as usize, w)) };
                        chk_vec(f, &inp, &d, &ref_ones(n, w));
                    }
                }
                "pack_nb_width" | "unpack_nb_width" => {
                    let (x, y) = ((g.g.edge() % 65536) as usize, (g.g.edge() % 65536) as usize);
                    let inp = format!("{{\"nb\":{},\"width\":{}}}", x, y);
                    vp_case(inp.clone());
                    let p = pack_nb_width(x, y);
                    let u = unpack_nb_width(p);
                    if u != (x as u32, y as u32) || p as u64 != x as u64 + 65536 * y as u64 { found(f, inp, format!("\"packed=0x{:x} unpack={:?}\"", p, u), format!("\"({}, {})\"", x, y)); }
                }
                _ => unreachable!(),
            }
        }
    }
    println!("NONE {}", cases);
}
