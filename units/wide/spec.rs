// ---- spec side of unit `wide` (C18): what a multi-word buffer means ---------------------------
// A buffer of n = nb/8 little-endian 64-bit words is the natural number valp(s, n) = sum s[i] * 2^(64 i);
// its bit view is wbit(s, j) = bit (j % 64) of word j / 64.

pub open spec fn nws(nb: u32) -> int { nb as int / 8 }

pub open spec fn valp(s: Seq<u64>, k: int) -> nat
    decreases k
{
    if k <= 0 { 0 } else { valp(s, k - 1) + (s[k - 1] as nat) * pow2(64 * (k - 1) as nat) }
}

pub open spec fn bitw(x: u64, b: u64) -> bool { (x >> b) & 1 == 1 }

pub open spec fn wbit(s: Seq<u64>, j: int) -> bool { bitw(s[j / 64], (j % 64) as u64) }

/// the two halves of a `pack_nb_width` word
pub open spec fn p_nb(packed: u32) -> u32 { (packed % 0x1_0000) as u32 }
pub open spec fn p_w(packed: u32) -> u32 { (packed / 0x1_0000) as u32 }

pub open spec fn sign_of(d: int) -> int { if d < 0 { -1 } else if d > 0 { 1 } else { 0 } }

// ---- O5: std integer operations Verus has no spec for -----------------------------------------
pub assume_specification [u64::overflowing_add] (x: u64, y: u64) -> (r: (u64, bool))
    ensures r.0 as nat == (x as nat + y as nat) % 0x1_0000_0000_0000_0000nat, r.1 == (x as nat + y as nat >= 0x1_0000_0000_0000_0000nat);

pub assume_specification [u64::overflowing_sub] (x: u64, y: u64) -> (r: (u64, bool))
    ensures r.0 as int == (x as int - y as int) % 0x1_0000_0000_0000_0000int, r.1 == (x < y);

// ---- arithmetic lemmas --------------------------------------------------------------------------
proof fn lemma_pow2_64()
    ensures pow2(64) == 0x1_0000_0000_0000_0000nat, pow2(0) == 1
{
    lemma2_to64();
}

proof fn lemma_pow2_step(i: int)
    requires 0 <= i
    ensures pow2(64 * (i + 1) as nat) == pow2(64 * i as nat) * 0x1_0000_0000_0000_0000nat, pow2(64 * i as nat) > 0
{
    lemma_pow2_64();
    lemma_pow2_adds(64 * i as nat, 64);
    lemma_pow2_pos(64 * i as nat);
    assert(64 * (i + 1) as nat == 64 * i as nat + 64);
}

proof fn lemma_valp_update(s: Seq<u64>, k: int, i: int, v: u64)
    requires 0 <= k <= i < s.len()
    ensures valp(s.update(i, v), k) == valp(s, k)
    decreases k
{
    if k > 0 { lemma_valp_update(s, k - 1, i, v); }
}

/// writing word i on top of a prefix: the value of the first i+1 words
proof fn lemma_valp_wr(s: Seq<u64>, i: int, v: u64)
    requires 0 <= i < s.len()
    ensures valp(s.update(i, v), i + 1) == valp(s, i) + (v as nat) * pow2(64 * i as nat),
            valp(s.update(i, v), i) == valp(s, i),
{
    lemma_valp_update(s, i, i, v);
}

proof fn lemma_valp_bound(s: Seq<u64>, k: int)
    requires 0 <= k <= s.len()
    ensures valp(s, k) < pow2(64 * k as nat)
    decreases k
{
    if k > 0 {
        lemma_valp_bound(s, k - 1);
        lemma_pow2_step(k - 1);
        assert(valp(s, k) < pow2(64 * (k - 1) as nat) * 0x1_0000_0000_0000_0000nat) by (nonlinear_arith)
            requires valp(s, k) == valp(s, k - 1) + (s[k - 1] as nat) * pow2(64 * (k - 1) as nat),
                     valp(s, k - 1) < pow2(64 * (k - 1) as nat),
                     (s[k-1] as nat) < 0x1_0000_0000_0000_0000nat;
    } else {
        lemma_pow2_64();
    }
}

/// x + c * m == y with 0 <= x < m  ==>  x == y mod m
proof fn lemma_mod_unique(x: int, y: int, c: int, m: int)
    requires 0 <= x < m, x + c * m == y
    ensures x == y % m
{
    vstd::arithmetic::div_mod::lemma_mod_multiples_vanish(c, x, m);
    vstd::arithmetic::div_mod::lemma_small_mod(x as nat, m as nat);
    assert(m * c + x == x + c * m) by (nonlinear_arith);
}

proof fn lemma_not_u64(x: u64)
    ensures (!x) as int == 0xffff_ffff_ffff_ffff - x as int
{
    assert(!x == 0xffff_ffff_ffff_ffffu64 - x) by (bit_vector);
}

// ---- value vs. words ----------------------------------------------------------------------------
proof fn lemma_valp_ext(s: Seq<u64>, t: Seq<u64>, k: int)
    requires 0 <= k <= s.len(), k <= t.len(), forall|i: int| 0 <= i < k ==> s[i] == t[i]
    ensures valp(s, k) == valp(t, k)
    decreases k
{
    if k > 0 { lemma_valp_ext(s, t, k - 1); }
}

/// words m..n agree  ==>  the values differ by the difference of the low parts
proof fn lemma_valp_high_eq(s: Seq<u64>, t: Seq<u64>, m: int, n: int)
    requires 0 <= m <= n <= s.len(), n <= t.len(), forall|i: int| m <= i < n ==> s[i] == t[i]
    ensures valp(s, n) - valp(s, m) == valp(t, n) - valp(t, m)
    decreases n
{
    if n > m { lemma_valp_high_eq(s, t, m, n - 1); }
}

/// comparison is decided by the most significant differing word
proof fn lemma_cmp_msw(s: Seq<u64>, t: Seq<u64>, i: int, n: int)
    requires 0 <= i < n <= s.len(), n <= t.len(), forall|k: int| i < k < n ==> s[k] == t[k]
    ensures s[i] < t[i] ==> valp(s, n) < valp(t, n),
            s[i] > t[i] ==> valp(s, n) > valp(t, n),
{
    lemma_valp_high_eq(s, t, i + 1, n);
    lemma_valp_bound(s, i);
    lemma_valp_bound(t, i);
    let p = pow2(64 * i as nat);
    if s[i] < t[i] {
        assert(valp(s, i) + (s[i] as nat) * p < valp(t, i) + (t[i] as nat) * p) by (nonlinear_arith)
            requires valp(s, i) < p, (s[i] as nat) + 1 <= (t[i] as nat);
    }
    if s[i] > t[i] {
        assert(valp(s, i) + (s[i] as nat) * p > valp(t, i) + (t[i] as nat) * p) by (nonlinear_arith)
            requires valp(t, i) < p, (t[i] as nat) + 1 <= (s[i] as nat);
    }
}

proof fn lemma_valp_zero(s: Seq<u64>, k: int)
    requires 0 <= k <= s.len(), forall|i: int| 0 <= i < k ==> s[i] == 0
    ensures valp(s, k) == 0
    decreases k
{
    if k > 0 { lemma_valp_zero(s, k - 1); }
}

proof fn lemma_valp_nonzero(s: Seq<u64>, i: int, k: int)
    requires 0 <= i < k <= s.len(), s[i] != 0
    ensures valp(s, k) > 0
    decreases k
{
    if i == k - 1 {
        lemma_pow2_pos(64 * i as nat);
        assert((s[i] as nat) * pow2(64 * i as nat) > 0) by (nonlinear_arith)
            requires s[i] as nat > 0, pow2(64 * i as nat) > 0;
    } else {
        lemma_valp_nonzero(s, i, k - 1);
    }
}

/// x == y + c * m with 0 <= x < m  ==>  x == y mod m
proof fn lemma_mod_unique_sub(x: int, y: int, c: int, m: int)
    requires 0 <= x < m, x == y + c * m
    ensures x == y % m
{
    assert(x + (-c) * m == y) by (nonlinear_arith) requires x == y + c * m;
    lemma_mod_unique(x, y, -c, m);
}

// ---- bit-level toolkit (by(bit_vector) facts about one 64-bit word) -----------------------------
pub open spec fn lowmask(r: u64) -> u64 { if r >= 64 { 0xffff_ffff_ffff_ffffu64 } else { ((1u64 << r) - 1) as u64 } }

/// `(1u64 << r) - 1` in the source cannot underflow
proof fn lemma_shl1()
    ensures forall|r: u64| r < 64 ==> #[trigger] (1u64 << r) >= 1
{
    assert(forall|r: u64| r < 64 ==> #[trigger] (1u64 << r) >= 1) by (bit_vector);
}

proof fn lemma_const_bits(b: u64)
    requires b < 64
    ensures !bitw(0, b), bitw(0xffff_ffff_ffff_ffffu64, b)
{
    assert((0u64 >> b) & 1 == 0) by (bit_vector) requires b < 64;
    assert((0xffff_ffff_ffff_ffffu64 >> b) & 1 == 1) by (bit_vector) requires b < 64;
}

proof fn lemma_mask_bit(x: u64, r: u64, b: u64)
    requires 0 < r < 64, b < 64
    ensures bitw(x & lowmask(r), b) == (b < r && bitw(x, b)),
            bitw(lowmask(r), b) == (b < r),
            (1u64 << r) >= 1,
{
    assert(1u64 << r >= 1) by (bit_vector) requires r < 64;
    assert(((x & ((1u64 << r) - 1) as u64) >> b) & 1 == 1 <==> (b < r && (x >> b) & 1 == 1)) by (bit_vector)
        requires 0 < r < 64, b < 64;
    assert(((((1u64 << r) - 1) as u64) >> b) & 1 == 1 <==> (b < r)) by (bit_vector)
        requires 0 < r < 64, b < 64;
}

/// bits 0..k all set  ==>  x & lowmask(k) == lowmask(k)   (k == 64: x is all ones)
proof fn lemma_low_ones(x: u64, k: u64)
    requires k <= 64, forall|b: u64| b < k ==> bitw(x, b)
    ensures x & lowmask(k) == lowmask(k)
    decreases k
{
    if k == 0 {
        assert(x & (((1u64 << 0u64) - 1) as u64) == ((1u64 << 0u64) - 1) as u64) by (bit_vector);
    } else {
        let k1 = (k - 1) as u64;
        lemma_low_ones(x, k1);
        assert(bitw(x, k1));
        assert(1u64 << k1 >= 1) by (bit_vector) requires k1 < 64;
        if k < 64 {
            assert(1u64 << k >= 1) by (bit_vector) requires k < 64;
            assert(x & (((1u64 << k) - 1) as u64) == ((1u64 << k) - 1) as u64) by (bit_vector)
                requires 0 < k < 64, k1 == k - 1, x & (((1u64 << k1) - 1) as u64) == ((1u64 << k1) - 1) as u64, (x >> k1) & 1 == 1;
        } else {
            assert(x & 0xffff_ffff_ffff_ffffu64 == 0xffff_ffff_ffff_ffffu64) by (bit_vector)
                requires x & (((1u64 << 63u64) - 1) as u64) == ((1u64 << 63u64) - 1) as u64, (x >> 63u64) & 1 == 1;
        }
    }
}

proof fn lemma_low_ones_rev(x: u64, k: u64, b: u64)
    requires k <= 64, b < k, x & lowmask(k) == lowmask(k)
    ensures bitw(x, b)
{
    if k < 64 {
        assert(1u64 << k >= 1) by (bit_vector) requires k < 64;
        assert((x >> b) & 1 == 1) by (bit_vector)
            requires b < k < 64, x & (((1u64 << k) - 1) as u64) == ((1u64 << k) - 1) as u64;
    } else {
        assert((x >> b) & 1 == 1) by (bit_vector)
            requires b < 64, x & 0xffff_ffff_ffff_ffffu64 == 0xffff_ffff_ffff_ffffu64;
    }
}

/// position arithmetic: bit j of a buffer is bit j % 64 of word j / 64
proof fn lemma_bit_at(s: Seq<u64>, i: int, b: u64)
    requires 0 <= i, b < 64
    ensures wbit(s, 64 * i + b) == bitw(s[i], b)
{
    assert((64 * i + b) / 64 == i && (64 * i + b) % 64 == b);
}

// ---- pack_nb_width ------------------------------------------------------------------------------
proof fn lemma_unpack(packed: u32)
    ensures packed & 0xFFFF == p_nb(packed), packed >> 16 == p_w(packed)
{
    assert(packed & 0xFFFF == packed % 0x1_0000) by (bit_vector);
    assert(packed >> 16 == packed / 0x1_0000) by (bit_vector);
}

proof fn lemma_pack(nb: u32, width: u32)
    requires nb < 65536, width < 65536
    ensures p_nb(nb | (width << 16)) == nb, p_w(nb | (width << 16)) == width
{
    assert((nb | (width << 16)) % 0x1_0000 == nb && (nb | (width << 16)) / 0x1_0000 == width) by (bit_vector)
        requires nb < 65536, width < 65536;
}

// ---- all-ones test ------------------------------------------------------------------------------
pub open spec fn all_ones_below(s: Seq<u64>, w: int) -> bool { forall|j: int| 0 <= j < w ==> #[trigger] wbit(s, j) }

proof fn lemma_and_ones_r(x: u64)
    ensures x & 0xffff_ffff_ffff_ffffu64 == x
{
    assert(x & 0xffff_ffff_ffff_ffffu64 == x) by (bit_vector);
}

proof fn lemma_all_ones_word(s: Seq<u64>, i: int, w: int)
    requires 0 <= i < s.len(), 64 * (i + 1) <= w, all_ones_below(s, w)
    ensures s[i] == 0xffff_ffff_ffff_ffffu64
{
    assert forall|b: u64| b < 64 implies bitw(s[i], b) by {
        lemma_bit_at(s, i, b);
        assert(wbit(s, 64 * i + b));
    }
    lemma_low_ones(s[i], 64);
    lemma_and_ones_r(s[i]);
}

proof fn lemma_all_ones_part(s: Seq<u64>, w: int)
    requires 0 <= w / 64 < s.len(), w % 64 > 0, all_ones_below(s, w)
    ensures s[w / 64] & lowmask((w % 64) as u64) == lowmask((w % 64) as u64)
{
    let i = w / 64;
    let r = (w % 64) as u64;
    assert forall|b: u64| b < r implies bitw(s[i], b) by {
        lemma_bit_at(s, i, b);
        assert(wbit(s, 64 * i + b));
    }
    lemma_low_ones(s[i], r);
}

proof fn lemma_all_ones_intro(s: Seq<u64>, w: int)
    requires 0 <= w <= 64 * s.len(),
             forall|k: int| 0 <= k < w / 64 ==> s[k] == 0xffff_ffff_ffff_ffffu64,
             w % 64 > 0 ==> s[w / 64] & lowmask((w % 64) as u64) == lowmask((w % 64) as u64),
    ensures all_ones_below(s, w)
{
    assert forall|j: int| 0 <= j < w implies #[trigger] wbit(s, j) by {
        let k = j / 64;
        let b = (j % 64) as u64;
        if k < w / 64 {
            lemma_const_bits(b);
        } else {
            lemma_low_ones_rev(s[k], (w % 64) as u64, b);
        }
    }
}

// ---- masking / filling: the k-th word of (value mod 2^w) ----------------------------------------
pub open spec fn masked_word(x: u64, k: int, w: int) -> u64 {
    if 64 * (k + 1) <= w { x } else if 64 * k >= w { 0 } else { x & lowmask((w - 64 * k) as u64) }
}

proof fn lemma_masked_bits(s: Seq<u64>, t: Seq<u64>, w: int)
    requires s.len() == t.len(), 0 <= w, forall|k: int| 0 <= k < s.len() ==> t[k] == masked_word(s[k], k, w)
    ensures forall|j: int| 0 <= j < 64 * s.len() ==> #[trigger] wbit(t, j) == (j < w && wbit(s, j))
{
    assert forall|j: int| 0 <= j < 64 * s.len() implies #[trigger] wbit(t, j) == (j < w && wbit(s, j)) by {
        let k = j / 64;
        let b = (j % 64) as u64;
        lemma_const_bits(b);
        if 64 * (k + 1) <= w {
        } else if 64 * k >= w {
        } else {
            lemma_mask_bit(s[k], (w - 64 * k) as u64, b);
        }
    }
}

proof fn lemma_and_ones(m: u64)
    ensures 0xffff_ffff_ffff_ffffu64 & m == m
{
    assert(0xffff_ffff_ffff_ffffu64 & m == m) by (bit_vector);
}

proof fn lemma_ones_bits(t: Seq<u64>, w: int)
    requires 0 <= w, forall|k: int| 0 <= k < t.len() ==> t[k] == masked_word(0xffff_ffff_ffff_ffffu64, k, w)
    ensures forall|j: int| 0 <= j < 64 * t.len() ==> #[trigger] wbit(t, j) == (j < w)
{
    let s = Seq::new(t.len(), |k: int| 0xffff_ffff_ffff_ffffu64);
    lemma_masked_bits(s, t, w);
    assert forall|j: int| 0 <= j < 64 * t.len() implies #[trigger] wbit(s, j) by {
        lemma_const_bits((j % 64) as u64);
    }
}

// ---- shifts -------------------------------------------------------------------------------------
pub open spec fn shl_word(a: Seq<u64>, k: int, amount: u64) -> u64 {
    let ws = (amount / 64) as int;
    let bs = (amount % 64) as u64;
    let lo = if k - ws >= 0 { a[k - ws] } else { 0 };
    let hi = if k - ws > 0 { a[k - ws - 1] } else { 0 };
    if bs == 0 { lo } else { (lo << bs) | (hi >> ((64 - bs) as u64)) }
}

pub open spec fn lshr_word(a: Seq<u64>, k: int, amount: u64) -> u64 {
    let ws = (amount / 64) as int;
    let bs = (amount % 64) as u64;
    let lo = if k + ws < a.len() { a[k + ws] } else { 0 };
    let hi = if k + ws + 1 < a.len() { a[k + ws + 1] } else { 0 };
    if bs == 0 { lo } else { (lo >> bs) | (hi << ((64 - bs) as u64)) }
}

proof fn lemma_zero_shift(s: u64)
    requires s < 64
    ensures (0u64 << s) | (0u64 >> ((64 - s) as u64)) == 0, (0u64 >> s) | (0u64 << ((64 - s) as u64)) == 0
{
    assert((0u64 << s) | (0u64 >> ((64 - s) as u64)) == 0) by (bit_vector) requires s < 64;
    assert((0u64 >> s) | (0u64 << ((64 - s) as u64)) == 0) by (bit_vector) requires s < 64;
}

proof fn lemma_shl_or_bit(lo: u64, hi: u64, s: u64, b: u64)
    requires 0 < s < 64, b < 64
    ensures bitw((lo << s) | (hi >> ((64 - s) as u64)), b) == (if b >= s { bitw(lo, (b - s) as u64) } else { bitw(hi, (64 - s + b) as u64) })
{
    assert((((lo << s) | (hi >> ((64 - s) as u64))) >> b) & 1 == 1 <==> (if b >= s { (lo >> ((b - s) as u64)) & 1 == 1 } else { (hi >> ((64 - s + b) as u64)) & 1 == 1 })) by (bit_vector)
        requires 0 < s < 64, b < 64;
}

proof fn lemma_lshr_or_bit(lo: u64, hi: u64, s: u64, b: u64)
    requires 0 < s < 64, b < 64
    ensures bitw((lo >> s) | (hi << ((64 - s) as u64)), b) == (if b + s < 64 { bitw(lo, (b + s) as u64) } else { bitw(hi, (b + s - 64) as u64) })
{
    assert((((lo >> s) | (hi << ((64 - s) as u64))) >> b) & 1 == 1 <==> (if b + s < 64 { (lo >> ((b + s) as u64)) & 1 == 1 } else { (hi >> ((b + s - 64) as u64)) & 1 == 1 })) by (bit_vector)
        requires 0 < s < 64, b < 64;
}

proof fn lemma_shl_bits(a: Seq<u64>, t: Seq<u64>, amount: u64)
    requires a.len() == t.len(), forall|k: int| 0 <= k < t.len() ==> t[k] == shl_word(a, k, amount)
    ensures forall|j: int| 0 <= j < 64 * t.len() ==> #[trigger] wbit(t, j) == (j >= amount && wbit(a, j - amount))
{
    let ws = (amount / 64) as int;
    let bs = (amount % 64) as u64;
    assert forall|j: int| 0 <= j < 64 * t.len() implies #[trigger] wbit(t, j) == (j >= amount && wbit(a, j - amount)) by {
        let k = j / 64;
        let b = (j % 64) as u64;
        lemma_const_bits(b);
        let lo = if k - ws >= 0 { a[k - ws] } else { 0 };
        let hi = if k - ws > 0 { a[k - ws - 1] } else { 0 };
        if bs == 0 {
            if k - ws >= 0 { lemma_bit_at(a, k - ws, b); assert(j - amount == 64 * (k - ws) + b); }
        } else {
            lemma_shl_or_bit(lo, hi, bs, b);
            if b >= bs {
                lemma_const_bits((b - bs) as u64);
                if k - ws >= 0 { lemma_bit_at(a, k - ws, (b - bs) as u64); assert(j - amount == 64 * (k - ws) + (b - bs)); }
            } else {
                lemma_const_bits((64 - bs + b) as u64);
                if k - ws > 0 { lemma_bit_at(a, k - ws - 1, (64 - bs + b) as u64); assert(j - amount == 64 * (k - ws - 1) + (64 - bs + b)); }
            }
        }
    }
}

proof fn lemma_lshr_bits(a: Seq<u64>, t: Seq<u64>, amount: u64)
    requires a.len() == t.len(), forall|k: int| 0 <= k < t.len() ==> t[k] == lshr_word(a, k, amount)
    ensures forall|j: int| 0 <= j < 64 * t.len() ==> #[trigger] wbit(t, j) == (j + amount < 64 * t.len() && wbit(a, j + amount))
{
    let ws = (amount / 64) as int;
    let bs = (amount % 64) as u64;
    let n = a.len() as int;
    assert forall|j: int| 0 <= j < 64 * t.len() implies #[trigger] wbit(t, j) == (j + amount < 64 * t.len() && wbit(a, j + amount)) by {
        let k = j / 64;
        let b = (j % 64) as u64;
        lemma_const_bits(b);
        let lo = if k + ws < n { a[k + ws] } else { 0 };
        let hi = if k + ws + 1 < n { a[k + ws + 1] } else { 0 };
        if bs == 0 {
            if k + ws < n { lemma_bit_at(a, k + ws, b); assert(j + amount == 64 * (k + ws) + b); }
        } else {
            lemma_lshr_or_bit(lo, hi, bs, b);
            if b + bs < 64 {
                lemma_const_bits((b + bs) as u64);
                if k + ws < n { lemma_bit_at(a, k + ws, (b + bs) as u64); assert(j + amount == 64 * (k + ws) + (b + bs)); }
            } else {
                lemma_const_bits((b + bs - 64) as u64);
                if k + ws + 1 < n { lemma_bit_at(a, k + ws + 1, (b + bs - 64) as u64); assert(j + amount == 64 * (k + ws + 1) + (b + bs - 64)); }
            }
        }
    }
}

// ---- truncating casts in the source (`x as u32`, `prod as u64`, `prod >> 64`) -------------------
proof fn lemma_trunc()
    ensures forall|x: u64| #[trigger] (x as u32) == x % 0x1_0000_0000,
            forall|p: u128| #[trigger] (p as u64) == p % 0x1_0000_0000_0000_0000,
            forall|p: u128| #[trigger] (p >> 64) == p / 0x1_0000_0000_0000_0000,
            forall|x: u64| #[trigger] ((x >> 32) & 1) == (x / 0x1_0000_0000) % 2,
{
    assert(forall|x: u64| #[trigger] (x as u32) == x % 0x1_0000_0000) by (bit_vector);
    assert(forall|p: u128| #[trigger] (p as u64) == p % 0x1_0000_0000_0000_0000) by (bit_vector);
    assert(forall|p: u128| #[trigger] (p >> 64) == p / 0x1_0000_0000_0000_0000) by (bit_vector);
    assert(forall|x: u64| #[trigger] ((x >> 32) & 1) == (x / 0x1_0000_0000) % 2) by (bit_vector);
}

// ---- sign extension -----------------------------------------------------------------------------
/// `src_info` of wide_resize: (nb | width << 16) in the low 32 bits, signed flag in bit 32
pub open spec fn info_w(src_info: u64) -> int { p_w((src_info % 0x1_0000_0000) as u32) as int }
pub open spec fn info_signed(src_info: u64) -> bool { (src_info / 0x1_0000_0000) % 2 == 1 }

/// closed form of the i-th word of the sign/zero extension of the w-bit value in s (fill == extension bit)
pub open spec fn sext_word_spec(s: Seq<u64>, i: int, w: int, fill: bool) -> u64 {
    let top = w - 64 * i;
    if top <= 0 { if fill { 0xffff_ffff_ffff_ffffu64 } else { 0 } }
    else if top >= 64 { s[i] }
    else { (s[i] & lowmask(top as u64)) | (if fill { !lowmask(top as u64) } else { 0 }) }
}

proof fn lemma_sext_or_bit(x: u64, r: u64, b: u64)
    requires 0 < r < 64, b < 64
    ensures bitw((x & lowmask(r)) | !lowmask(r), b) == (if b < r { bitw(x, b) } else { true }),
            bitw((x & lowmask(r)) | 0, b) == (if b < r { bitw(x, b) } else { false }),
{
    assert(1u64 << r >= 1) by (bit_vector) requires r < 64;
    assert((((x & ((1u64 << r) - 1) as u64) | !(((1u64 << r) - 1) as u64)) >> b) & 1 == 1 <==> (if b < r { (x >> b) & 1 == 1 } else { true })) by (bit_vector)
        requires 0 < r < 64, b < 64;
    assert((((x & ((1u64 << r) - 1) as u64) | 0) >> b) & 1 == 1 <==> (if b < r { (x >> b) & 1 == 1 } else { false })) by (bit_vector)
        requires 0 < r < 64, b < 64;
}

/// the meaning of sext_word_spec: bit b of word i is bit 64i+b of the value below w, the fill bit at and above w
proof fn lemma_sext_word_bits(s: Seq<u64>, i: int, w: int, fill: bool, b: u64)
    requires 0 <= i, 0 <= w, b < 64
    ensures bitw(sext_word_spec(s, i, w, fill), b) == (if 64 * i + b < w { wbit(s, 64 * i + b) } else { fill })
{
    let top = w - 64 * i;
    lemma_const_bits(b);
    lemma_bit_at(s, i, b);
    if top <= 0 {
    } else if top >= 64 {
    } else {
        lemma_sext_or_bit(s[i], top as u64, b);
    }
}

proof fn lemma_resize_bits(s: Seq<u64>, t: Seq<u64>, w: int, fill: bool)
    requires 0 <= w, forall|k: int| 0 <= k < t.len() ==> t[k] == sext_word_spec(s, k, w, fill)
    ensures forall|j: int| 0 <= j < 64 * t.len() ==> #[trigger] wbit(t, j) == (if j < w { wbit(s, j) } else { fill })
{
    assert forall|j: int| 0 <= j < 64 * t.len() implies #[trigger] wbit(t, j) == (if j < w { wbit(s, j) } else { fill }) by {
        lemma_sext_word_bits(s, j / 64, w, fill, (j % 64) as u64);
    }
}

proof fn lemma_zero_bits(t: Seq<u64>)
    requires forall|k: int| 0 <= k < t.len() ==> t[k] == 0
    ensures forall|j: int| 0 <= j < 64 * t.len() ==> !#[trigger] wbit(t, j)
{
    assert forall|j: int| 0 <= j < 64 * t.len() implies !#[trigger] wbit(t, j) by {
        lemma_const_bits((j % 64) as u64);
    }
}

// ---- arithmetic shift right ---------------------------------------------------------------------
/// "stored zero-padded": no bit at or above the value width is set
pub open spec fn padded(s: Seq<u64>, w: int) -> bool { forall|j: int| w <= j < 64 * s.len() ==> !#[trigger] wbit(s, j) }

proof fn lemma_or_bit(x: u64, p: u64, b: u64)
    requires p < 64, b < 64
    ensures bitw(x | (1u64 << p), b) == (bitw(x, b) || b == p)
{
    assert(((x | (1u64 << p)) >> b) & 1 == 1 <==> ((x >> b) & 1 == 1 || b == p)) by (bit_vector)
        requires p < 64, b < 64;
}

proof fn lemma_set_bit(s: Seq<u64>, t: Seq<u64>, pos: int)
    requires 0 <= pos < 64 * s.len(), t == s.update(pos / 64, s[pos / 64] | (1u64 << ((pos % 64) as u64)))
    ensures forall|j: int| 0 <= j < 64 * s.len() ==> #[trigger] wbit(t, j) == (wbit(s, j) || j == pos)
{
    assert forall|j: int| 0 <= j < 64 * s.len() implies #[trigger] wbit(t, j) == (wbit(s, j) || j == pos) by {
        if j / 64 == pos / 64 {
            lemma_or_bit(s[pos / 64], (pos % 64) as u64, (j % 64) as u64);
        }
    }
}

// ---- population count ---------------------------------------------------------------------------
pub open spec fn popc(x: u64, k: nat) -> nat
    decreases k
{
    if k == 0 { 0 } else { popc(x, (k - 1) as nat) + (if bitw(x, (k - 1) as u64) { 1nat } else { 0nat }) }
}
/// number of set bits of a word
pub open spec fn popcount(x: u64) -> nat { popc(x, 64) }
/// number of set bits of the first k words
pub open spec fn total_pop(s: Seq<u64>, k: int) -> nat
    decreases k
{
    if k <= 0 { 0 } else { total_pop(s, k - 1) + popcount(s[k - 1]) }
}

pub assume_specification [u64::count_ones] (x: u64) -> (r: u32)
    ensures r == popcount(x);

proof fn lemma_xor_parity(t: u32, c: u32)
    ensures ((t ^ c) & 1) as int == ((t & 1) as int + c as int) % 2
{
    assert((t ^ c) & 1 == ((t & 1) ^ (c & 1))) by (bit_vector);
    assert(c & 1 == c % 2) by (bit_vector);
    assert(t & 1 == 0 || t & 1 == 1) by (bit_vector);
    assert((t & 1 == 0 && c & 1 == 0) ==> ((t & 1) ^ (c & 1)) == 0) by (bit_vector);
    assert((t & 1 == 1 && c & 1 == 0) ==> ((t & 1) ^ (c & 1)) == 1) by (bit_vector);
    assert((t & 1 == 0 && c & 1 == 1) ==> ((t & 1) ^ (c & 1)) == 1) by (bit_vector);
    assert((t & 1 == 1 && c & 1 == 1) ==> ((t & 1) ^ (c & 1)) == 0) by (bit_vector);
}

// ---- signed view --------------------------------------------------------------------------------
/// two's-complement value of the w-bit number stored zero-padded in the first n words
pub open spec fn sval(s: Seq<u64>, n: int, w: int) -> int {
    valp(s, n) as int - (if w >= 1 && wbit(s, w - 1) { pow2(w as nat) as int } else { 0 })
}

proof fn lemma_high_zero(x: u64, r: u64, k: u64)
    requires r <= k <= 64, forall|b: u64| r <= b < 64 ==> !bitw(x, b)
    ensures x & lowmask(k) == x
    decreases 64 - k
{
    if k == 64 {
        lemma_and_ones_r(x);
    } else {
        let k1 = (k + 1) as u64;
        lemma_high_zero(x, r, k1);
        assert(!bitw(x, k));
        assert(1u64 << k >= 1) by (bit_vector) requires k < 64;
        if k1 < 64 {
            assert(1u64 << k1 >= 1) by (bit_vector) requires k1 < 64;
            assert(x & (((1u64 << k) - 1) as u64) == x) by (bit_vector)
                requires k1 < 64, k1 == k + 1, x & (((1u64 << k1) - 1) as u64) == x, (x >> k) & 1 != 1;
        } else {
            assert(x & (((1u64 << 63u64) - 1) as u64) == x) by (bit_vector)
                requires (x >> 63u64) & 1 != 1;
        }
    }
}

proof fn lemma_lowmask_val(r: u64)
    requires r < 64
    ensures lowmask(r) as int == pow2(r as nat) - 1, pow2(r as nat) <= 0x8000_0000_0000_0000
{
    lemma_pow2_strictly_increases(r as nat, 64);
    lemma2_to64();
    lemma2_to64_rest();
    assert(1 * pow2(r as nat) <= u64::MAX);
    vstd::bits::lemma_u64_shl_is_mul(1, r);
    assert(1 * pow2(r as nat) == pow2(r as nat));
    lemma_pow2_pos(r as nat);
    if r < 63 { lemma_pow2_strictly_increases(r as nat, 63); }
}

/// `(x >> s) & 1` in the source is 0 or 1
proof fn lemma_and1()
    ensures forall|x: u64| #[trigger] (x & 1) <= 1
{
    assert(forall|x: u64| #[trigger] (x & 1) <= 1) by (bit_vector);
}

proof fn lemma_word_lt_pow2(x: u64, r: u64)
    requires r < 64, forall|b: u64| r <= b < 64 ==> !bitw(x, b)
    ensures (x as nat) < pow2(r as nat), x & lowmask(r) == x
{
    lemma_high_zero(x, r, r);
    lemma_lowmask_val(r);
    let m = lowmask(r);
    assert(x & m <= m) by (bit_vector);
}

proof fn lemma_valp_high_zero(s: Seq<u64>, m: int, n: int)
    requires 0 <= m <= n <= s.len(), forall|k: int| m <= k < n ==> s[k] == 0
    ensures valp(s, n) == valp(s, m)
    decreases n
{
    if n > m { lemma_valp_high_zero(s, m, n - 1); }
}

/// words at and above ceil(w/64) of a zero-padded buffer are zero
proof fn lemma_padded_words(s: Seq<u64>, w: int, k: int)
    requires 0 <= w, padded(s, w), 0 <= k < s.len(), 64 * k >= w
    ensures s[k] == 0
{
    assert forall|b: u64| 0 <= b < 64 implies !bitw(s[k], b) by {
        lemma_bit_at(s, k, b);
        assert(!wbit(s, 64 * k + b));
    }
    lemma_high_zero(s[k], 0, 0);
    let x = s[k];
    assert(x & (((1u64 << 0u64) - 1) as u64) == 0) by (bit_vector);
}

/// zero-padded above w  ==>  the value is below 2^w
proof fn lemma_padded_bound(s: Seq<u64>, w: int)
    requires 0 <= w <= 64 * s.len(), padded(s, w)
    ensures valp(s, s.len() as int) < pow2(w as nat)
{
    let n = s.len() as int;
    let q = w / 64;
    let r = (w % 64) as u64;
    let c = if r > 0 { q + 1 } else { q };
    assert forall|k: int| c <= k < n implies s[k] == 0 by { lemma_padded_words(s, w, k); }
    lemma_valp_high_zero(s, c, n);
    lemma_valp_bound(s, q);
    if r > 0 {
        assert forall|b: u64| r <= b < 64 implies !bitw(s[q], b) by {
            lemma_bit_at(s, q, b);
            assert(!wbit(s, 64 * q + b));
        }
        lemma_word_lt_pow2(s[q], r);
        lemma_pow2_adds(64 * q as nat, r as nat);
        assert(64 * q as nat + r as nat == w as nat);
        assert(valp(s, q) + (s[q] as nat) * pow2(64 * q as nat) < pow2(64 * q as nat) * pow2(r as nat)) by (nonlinear_arith)
            requires valp(s, q) < pow2(64 * q as nat), (s[q] as nat) + 1 <= pow2(r as nat);
    } else {
        assert(64 * q as nat == w as nat);
    }
}

// ---- value of the sign extension (scmp_asym) ----------------------------------------------------
pub open spec fn sext_seq(s: Seq<u64>, w: int, fill: bool, m: int) -> Seq<u64> {
    Seq::new(m as nat, |k: int| sext_word_spec(s, k, w, fill))
}

proof fn lemma_or_disjoint(x: u64, y: u64)
    requires x & y == 0
    ensures (x | y) as int == x as int + y as int
{
    assert(x | y == x + y && x <= 0xffff_ffff_ffff_ffffu64 - y) by (bit_vector) requires x & y == 0;
}

proof fn lemma_sext_or_val(x: u64, r: u64, fill: bool)
    requires 0 < r < 64, x & lowmask(r) == x
    ensures ((x & lowmask(r)) | (if fill { !lowmask(r) } else { 0 })) as int == x as int + (if fill { 0x1_0000_0000_0000_0000 - pow2(r as nat) } else { 0int })
{
    let m = lowmask(r);
    lemma_lowmask_val(r);
    lemma_not_u64(m);
    let nm = !m;
    assert(x & nm == 0) by (bit_vector) requires x & m == x, nm == !m;
    lemma_or_disjoint(x, nm);
    assert(x | 0 == x) by (bit_vector);
}

pub open spec fn cwords(w: int) -> int { if w % 64 > 0 { w / 64 + 1 } else { w / 64 } }

proof fn lemma_sext_value_k(s: Seq<u64>, w: int, fill: bool, m: int, k: int)
    requires 1 <= w <= 64 * s.len(), padded(s, w), cwords(w) <= k <= m
    ensures valp(sext_seq(s, w, fill, m), k) as int == valp(s, cwords(w)) + (if fill { pow2(64 * k as nat) - pow2(w as nat) } else { 0int })
    decreases k
{
    let e = sext_seq(s, w, fill, m);
    let q = w / 64;
    let r = (w % 64) as u64;
    let c = cwords(w);
    if k == c {
        assert forall|i: int| 0 <= i < q implies e[i] == s[i] by {}
        lemma_valp_ext(e, s, q);
        if r > 0 {
            assert forall|b: u64| r <= b < 64 implies !bitw(s[q], b) by {
                lemma_bit_at(s, q, b);
                assert(!wbit(s, 64 * q + b));
            }
            lemma_word_lt_pow2(s[q], r);
            lemma_sext_or_val(s[q], r, fill);
            lemma_pow2_adds(64 * q as nat, r as nat);
            assert(64 * q as nat + r as nat == w as nat);
            lemma_pow2_step(q);
            let pq = pow2(64 * q as nat) as int;
            let pr = pow2(r as nat) as int;
            assert(e[q] as int == s[q] as int + (if fill { 0x1_0000_0000_0000_0000 - pr } else { 0int }));
            assert((e[q] as int) * pq == (s[q] as int) * pq + (if fill { 0x1_0000_0000_0000_0000 * pq - pq * pr } else { 0int })) by (nonlinear_arith)
                requires e[q] as int == s[q] as int + (if fill { 0x1_0000_0000_0000_0000 - pr } else { 0int });
            assert(pq * 0x1_0000_0000_0000_0000 == 0x1_0000_0000_0000_0000 * pq) by (nonlinear_arith);
        } else {
            assert(64 * q as nat == w as nat);
        }
    } else {
        lemma_sext_value_k(s, w, fill, m, k - 1);
        lemma_pow2_step(k - 1);
        let p = pow2(64 * (k - 1) as nat) as int;
        assert(e[k - 1] == (if fill { 0xffff_ffff_ffff_ffffu64 } else { 0u64 }));
        assert((e[k - 1] as int) * p == (if fill { p * 0x1_0000_0000_0000_0000 - p } else { 0int })) by (nonlinear_arith)
            requires e[k - 1] as int == (if fill { 0xffff_ffff_ffff_ffffint } else { 0int });
    }
}

/// the m-word sign extension of a zero-padded w-bit value s is  s + fill * (2^(64m) - 2^w)
proof fn lemma_sext_value(s: Seq<u64>, w: int, fill: bool, m: int)
    requires 1 <= w <= 64 * s.len(), padded(s, w), s.len() <= m
    ensures valp(sext_seq(s, w, fill, m), m) as int == valp(s, s.len() as int) + (if fill { pow2(64 * m as nat) - pow2(w as nat) } else { 0int })
{
    lemma_sext_value_k(s, w, fill, m, m);
    assert forall|k: int| cwords(w) <= k < s.len() implies s[k] == 0 by { lemma_padded_words(s, w, k); }
    lemma_valp_high_zero(s, cwords(w), s.len() as int);
}

// ---- multiplication -----------------------------------------------------------------------------
proof fn lemma_valp_update_n(s: Seq<u64>, k: int, v: u64, n: int)
    requires 0 <= k < n <= s.len()
    ensures valp(s.update(k, v), n) as int == valp(s, n) - (s[k] as int) * pow2(64 * k as nat) + (v as int) * pow2(64 * k as nat)
    decreases n
{
    if n == k + 1 {
        lemma_valp_update(s, k, k, v);
    } else {
        lemma_valp_update_n(s, k, v, n - 1);
    }
}

/// value of words m..n, scaled down by 2^(64m)
pub open spec fn vhi(s: Seq<u64>, m: int, n: int) -> nat
    decreases n - m
{
    if n <= m { 0 } else { vhi(s, m, n - 1) + (s[n - 1] as nat) * pow2(64 * (n - 1 - m) as nat) }
}

proof fn lemma_valp_split(s: Seq<u64>, m: int, n: int)
    requires 0 <= m <= n <= s.len()
    ensures valp(s, n) == valp(s, m) + pow2(64 * m as nat) * vhi(s, m, n)
    decreases n - m
{
    if n > m {
        lemma_valp_split(s, m, n - 1);
        lemma_pow2_adds(64 * m as nat, 64 * (n - 1 - m) as nat);
        assert(64 * m as nat + 64 * (n - 1 - m) as nat == 64 * (n - 1) as nat);
        let pm = pow2(64 * m as nat) as int;
        let pd = pow2(64 * (n - 1 - m) as nat) as int;
        let x = s[n - 1] as int;
        let h = vhi(s, m, n - 1) as int;
        assert(pm * (h + x * pd) == pm * h + x * (pm * pd)) by (nonlinear_arith);
    } else {
        assert(pow2(64 * m as nat) * 0 == 0) by (nonlinear_arith);
    }
}

/// one inner-loop step of the schoolbook product
proof fn lemma_mul_step(b: Seq<u64>, d0: Seq<u64>, dcur: Seq<u64>, dnew: Seq<u64>, ai: int, i: int, j: int, n: int, c0: int, c1: int)
    requires 0 <= i, 0 <= j, i + j < n, n == b.len(), n == d0.len(), n == dcur.len(),
             dnew =~= dcur.update(i + j, dnew[i + j]),
             valp(dcur, n) + c0 * pow2(64 * (i + j) as nat) == valp(d0, n) + ai * valp(b, j) * pow2(64 * i as nat),
             dnew[i + j] as int + c1 * 0x1_0000_0000_0000_0000 == ai * (b[j] as int) + dcur[i + j] as int + c0,
    ensures valp(dnew, n) + c1 * pow2(64 * (i + j + 1) as nat) == valp(d0, n) + ai * valp(b, j + 1) * pow2(64 * i as nat)
{
    lemma_valp_update_n(dcur, i + j, dnew[i + j], n);
    lemma_pow2_step(i + j);
    lemma_pow2_adds(64 * i as nat, 64 * j as nat);
    assert(64 * i as nat + 64 * j as nat == 64 * (i + j) as nat);
    let pi = pow2(64 * i as nat) as int;
    let pj = pow2(64 * j as nat) as int;
    let pij = pow2(64 * (i + j) as nat) as int;
    let lo = dnew[i + j] as int;
    let dij = dcur[i + j] as int;
    let bj = b[j] as int;
    let vb = valp(b, j) as int;
    let w = 0x1_0000_0000_0000_0000int;
    assert(valp(b, j + 1) == vb + bj * pj);
    // valp(dnew) + c1*2^64*pij == valp(dcur) + (lo + c1*2^64 - dij) * pij
    assert(lo * pij - dij * pij + c1 * (pij * w) == (lo + c1 * w - dij) * pij) by (nonlinear_arith);
    assert((ai * bj + c0) * pij == ai * bj * pij + c0 * pij) by (nonlinear_arith);
    assert(ai * bj * pij == ai * (bj * pj) * pi) by (nonlinear_arith) requires pij == pi * pj;
    assert(ai * (vb + bj * pj) * pi == ai * vb * pi + ai * (bj * pj) * pi) by (nonlinear_arith);
}

/// one outer-loop row: adding a[i] * b * 2^(64 i), truncated to n words, keeps  dst == a[0..i+1] * b  (mod 2^(64n))
proof fn lemma_mul_row(a: Seq<u64>, b: Seq<u64>, d0: Seq<u64>, d1: Seq<u64>, i: int, n: int, carry: int)
    requires 0 <= i < n, n == a.len(), n == b.len(), n == d0.len(), n == d1.len(),
             valp(d0, n) == (valp(a, i) * valp(b, n)) % pow2(64 * n as nat),
             valp(d1, n) + carry * pow2(64 * n as nat) == valp(d0, n) + (a[i] as int) * valp(b, n - i) * pow2(64 * i as nat),
    ensures valp(d1, n) == (valp(a, i + 1) * valp(b, n)) % pow2(64 * n as nat)
{
    let m = pow2(64 * n as nat) as int;
    let pi = pow2(64 * i as nat) as int;
    let pni = pow2(64 * (n - i) as nat) as int;
    let ai = a[i] as int;
    let va = valp(a, i) as int;
    let vb = valp(b, n) as int;
    let bl = valp(b, n - i) as int;
    let t = vhi(b, n - i, n) as int;
    let x0 = valp(d0, n) as int;
    let x1 = valp(d1, n) as int;
    lemma_pow2_pos(64 * n as nat);
    lemma_pow2_adds(64 * i as nat, 64 * (n - i) as nat);
    assert(64 * i as nat + 64 * (n - i) as nat == 64 * n as nat);
    lemma_valp_split(b, n - i, n);
    lemma_valp_bound(d1, n);
    vstd::arithmetic::div_mod::lemma_fundamental_div_mod(va * vb, m);
    let c0 = (va * vb) / m;
    assert(va * vb == m * c0 + x0);
    assert(vb == bl + pni * t);
    assert(valp(a, i + 1) == va + ai * pi);
    // (va + ai*pi) * vb == va*vb + ai*bl*pi + ai*t*m
    assert((va + ai * pi) * vb == va * vb + ai * pi * vb) by (nonlinear_arith);
    assert(ai * pi * vb == ai * bl * pi + (ai * t) * m) by (nonlinear_arith)
        requires vb == bl + pni * t, m == pi * pni;
    assert(m * c0 == c0 * m) by (nonlinear_arith);
    let c = -(c0 + carry + ai * t);
    assert(c * m == -(c0 * m) - carry * m - (ai * t) * m) by (nonlinear_arith)
        requires c == -(c0 + carry + ai * t);
    lemma_mod_unique_sub(x1, (va + ai * pi) * vb, c, m);
}

proof fn lemma_u128_mac(x: u64, y: u64, z: u64, c: u128)
    requires c <= 0xffff_ffff_ffff_ffff
    ensures (x as int) * (y as int) + z as int + c as int <= 0xffff_ffff_ffff_ffff_ffff_ffff_ffff_ffff,
            (x as int) * (y as int) <= 0xffff_ffff_ffff_ffff * 0xffff_ffff_ffff_ffff,
            0 <= (x as int) * (y as int),
{
    assert((x as int) * (y as int) <= 0xffff_ffff_ffff_ffff * 0xffff_ffff_ffff_ffff && 0 <= (x as int) * (y as int)) by (nonlinear_arith)
        requires 0 <= x as int <= 0xffff_ffff_ffff_ffff, 0 <= y as int <= 0xffff_ffff_ffff_ffff;
}

proof fn lemma_mul_init(a: Seq<u64>, b: Seq<u64>, n: int)
    requires 0 <= n
    ensures (valp(a, 0) * valp(b, n)) % pow2(64 * n as nat) == 0
{
    assert(valp(a, 0) == 0);
    assert(valp(a, 0) * valp(b, n) == 0) by (nonlinear_arith) requires valp(a, 0) == 0;
    lemma_pow2_pos(64 * n as nat);
    vstd::arithmetic::div_mod::lemma_small_mod(0, pow2(64 * n as nat));
}

// ---- value-level reading of the masking helpers -------------------------------------------------
proof fn lemma_word_split(x: u64, r: u64)
    requires r < 64
    ensures x as int == (x & lowmask(r)) as int + ((x >> r) as int) * pow2(r as nat),
            ((x & lowmask(r)) as int) < pow2(r as nat),
{
    lemma_lowmask_val(r);
    let m = lowmask(r);
    let p = 1u64 << r;
    assert(1u64 << r >= 1) by (bit_vector) requires r < 64;
    assert(x == (x & (((1u64 << r) - 1) as u64)) + (x >> r) * (1u64 << r)) by (bit_vector) requires r < 64;
    assert(x & m <= m) by (bit_vector);
}

/// t == s with everything at and above bit w cleared (word by word)  ==>  value(t) == value(s) mod 2^w
proof fn lemma_masked_value(s: Seq<u64>, t: Seq<u64>, w: int)
    requires s.len() == t.len(), 0 <= w, forall|k: int| 0 <= k < s.len() ==> t[k] == masked_word(s[k], k, w)
    ensures w >= 64 * s.len() ==> valp(t, s.len() as int) == valp(s, s.len() as int),
            w < 64 * s.len() ==> valp(t, s.len() as int) as int == (valp(s, s.len() as int) as int) % (pow2(w as nat) as int),
{
    let n = s.len() as int;
    if w >= 64 * n {
        lemma_valp_ext(t, s, n);
    } else {
        let q = w / 64;
        let r = (w % 64) as u64;
        lemma_valp_ext(t, s, q);
        lemma_valp_high_zero(t, q + 1, n);
        lemma_valp_split(s, q + 1, n);
        lemma_word_split(s[q], r);
        lemma_valp_bound(s, q);
        lemma_pow2_step(q);
        lemma_pow2_adds(64 * q as nat, r as nat);
        assert(64 * q as nat + r as nat == w as nat);
        lemma_lowmask_val(r);
        let x = s[q];
        let lo = (x & lowmask(r)) as int;
        let hi = (x >> r) as int;
        assert(t[q] as int == lo) by {
            if r == 0 { assert(x & (((1u64 << 0u64) - 1) as u64) == 0) by (bit_vector); }
        }
        let pq = pow2(64 * q as nat) as int;
        let pr = pow2(r as nat) as int;
        let pw = pow2(w as nat) as int;
        let h = vhi(s, q + 1, n) as int;
        let xv = valp(t, n) as int;
        assert(xv == valp(s, q) + lo * pq);
        assert(valp(s, n) == valp(s, q) + (x as int) * pq + (pq * 0x1_0000_0000_0000_0000) * h);
        // 2^64 == 2^r * 2^(64-r)
        lemma_pow2_adds(r as nat, (64 - r) as nat);
        lemma_pow2_64();
        let ps = pow2((64 - r) as nat) as int;
        assert(pr * ps == 0x1_0000_0000_0000_0000);
        let c = hi + ps * h;
        assert(xv + c * pw == valp(s, n)) by (nonlinear_arith)
            requires xv == valp(s, q) + lo * pq, valp(s, n) == valp(s, q) + (x as int) * pq + (pq * 0x1_0000_0000_0000_0000) * h,
                     x as int == lo + hi * pr, pw == pq * pr, pr * ps == 0x1_0000_0000_0000_0000, c == hi + ps * h;
        assert(xv < pw) by (nonlinear_arith)
            requires xv == valp(s, q) + lo * pq, valp(s, q) < pq, lo + 1 <= pr, pw == pq * pr, 0 <= valp(s, q);
        lemma_mod_unique(xv, valp(s, n) as int, c, pw);
    }
}

proof fn lemma_valp_all_ones(s: Seq<u64>, k: int)
    requires 0 <= k <= s.len(), forall|i: int| 0 <= i < k ==> s[i] == 0xffff_ffff_ffff_ffffu64
    ensures valp(s, k) + 1 == pow2(64 * k as nat)
    decreases k
{
    if k > 0 {
        lemma_valp_all_ones(s, k - 1);
        lemma_pow2_step(k - 1);
        assert(0xffff_ffff_ffff_ffffnat * pow2(64 * (k - 1) as nat) + pow2(64 * (k - 1) as nat) == pow2(64 * (k - 1) as nat) * 0x1_0000_0000_0000_0000nat) by (nonlinear_arith);
    } else {
        lemma_pow2_64();
    }
}

/// the all-ones pattern below w:  value == 2^min(w, 64n) - 1
proof fn lemma_ones_value(t: Seq<u64>, w: int)
    requires 0 <= w, forall|k: int| 0 <= k < t.len() ==> t[k] == masked_word(0xffff_ffff_ffff_ffffu64, k, w)
    ensures valp(t, t.len() as int) + 1 == pow2((if w < 64 * t.len() { w } else { 64 * t.len() as int }) as nat)
{
    let n = t.len() as int;
    let s = Seq::new(t.len(), |k: int| 0xffff_ffff_ffff_ffffu64);
    lemma_masked_value(s, t, w);
    lemma_valp_all_ones(s, n);
    if w < 64 * n {
        // (2^(64n) - 1) mod 2^w == 2^w - 1
        let pw = pow2(w as nat) as int;
        let d = pow2((64 * n - w) as nat) as int;
        lemma_pow2_adds(w as nat, (64 * n - w) as nat);
        assert(w as nat + (64 * n - w) as nat == 64 * n as nat);
        lemma_pow2_pos(w as nat);
        lemma_pow2_pos((64 * n - w) as nat);
        assert((pw - 1) + (d - 1) * pw == pw * d - 1) by (nonlinear_arith);
        lemma_mod_unique(pw - 1, valp(s, n) as int, d - 1, pw);
    }
}
