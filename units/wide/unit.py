"""U2 wide — multi-word run-time arithmetic helpers (C18). Back end: Verus (unbounded in the word count n = nb/8)."""
import re
from vp.core import VerusJob
from vp.verus_run import VerusFile
from vp.extract import ExtractError

W = "crates/simulator/src/wide_ops.rs"

HEADER = "use vstd::prelude::*;\nuse vstd::arithmetic::power2::*;\nverus! {\nglobal size_of usize == 8;\n"

TRUSTED = {
    r"fn rd\(": "E5: rd(ptr,i) = the 64-bit word at byte offset 8*i of the buffer, modelled as element i of a Vec<u64> "
                "(external_body accessor, requires i < len: every access is proved in bounds); unaligned access, pointer validity and aliasing are not modelled",
    r"fn wr\(": "E5: wr(ptr,i,v) = store of the 64-bit word at byte offset 8*i, modelled as Vec<u64> update (external_body accessor, requires i < len)",
    r"\[u64::overflowing_add\]": "O5: u64::overflowing_add = ((x+y) mod 2^64, x+y >= 2^64)",
    r"\[u64::overflowing_sub\]": "O5: u64::overflowing_sub = ((x-y) mod 2^64, x < y)",
    r"\[u64::count_ones\]": "O5: u64::count_ones = number of set bits (popcount64)",
}

LEN3 = "old(dst).len() == nws(nb), a.len() == nws(nb), b.len() == nws(nb),"
INV3 = "dst.len() == nws(nb), a.len() == nws(nb), b.len() == nws(nb),"
LEN2 = "old(dst).len() == nws(nb), a.len() == nws(nb),"
INV2 = "dst.len() == nws(nb), a.len() == nws(nb),"


def binop(expr):
    return {
        "spec": "    requires %s\n    ensures final(dst).len() == old(dst).len(),\n"
                "        forall|k: int| 0 <= k < nws(nb) ==> final(dst)@[k] == (%s),\n" % (LEN3, expr),
        "loops": {0: "        invariant %s\n            forall|k: int| 0 <= k < i ==> dst@[k] == (%s),\n" % (INV3, expr)},
        "clause": "requires all three buffers have nb/8 words; ensures dst.len unchanged, forall k < n: dst[k] == %s" % expr,
    }


C = {}
C["wide_band"] = binop("a@[k] & b@[k]")
C["wide_bor"] = binop("a@[k] | b@[k]")
C["wide_bxor"] = binop("a@[k] ^ b@[k]")
C["wide_bxor_not"] = binop("!(a@[k] ^ b@[k])")
C["wide_band_not"] = binop("a@[k] & !b@[k]")
C["wide_bnot"] = {
    "spec": "    requires %s\n    ensures final(dst).len() == old(dst).len(),\n"
            "        forall|k: int| 0 <= k < nws(nb) ==> final(dst)@[k] == !a@[k],\n" % LEN2,
    "loops": {0: "        invariant %s\n            forall|k: int| 0 <= k < i ==> dst@[k] == !a@[k],\n" % INV2},
    "clause": "ensures forall k < n: dst[k] == !a[k]",
}
C["wide_copy"] = {
    "spec": "    requires old(dst).len() == nws(nb), src.len() == nws(nb),\n    ensures final(dst)@ =~= src@,\n",
    "loops": {0: "        invariant dst.len() == nws(nb), src.len() == nws(nb),\n            forall|k: int| 0 <= k < i ==> dst@[k] == src@[k],\n"},
    "clause": "ensures dst == src (as word sequences)",
}
C["wide_add"] = {
    "spec": "    requires %s\n    ensures final(dst).len() == old(dst).len(),\n"
            "        valp(final(dst)@, nws(nb)) == (valp(a@, nws(nb)) + valp(b@, nws(nb))) %% pow2(64 * nws(nb) as nat),\n" % LEN3,
    "loops": {0: "        invariant %s\n            carry <= 1,\n"
                 "            valp(dst@, i as int) + (carry as nat) * pow2(64 * i as nat) == valp(a@, i as int) + valp(b@, i as int),\n" % INV3},
    "body_start": {0: "        let ghost vp_d0 = dst@; let ghost vp_c0 = carry;"},
    "body_end": {0: """        proof {
            let k = i as int;
            lemma_valp_wr(vp_d0, k, dst@[k]);
            assert(dst@ =~= vp_d0.update(k, dst@[k]));
            lemma_pow2_step(k);
            assert(dst@[k] as nat + (carry as nat) * 0x1_0000_0000_0000_0000nat == a@[k] as nat + b@[k] as nat + vp_c0 as nat);
            assert(valp(dst@, k + 1) + (carry as nat) * pow2(64 * (k + 1) as nat) == valp(a@, k + 1) + valp(b@, k + 1)) by (nonlinear_arith)
                requires
                    valp(dst@, k + 1) == valp(vp_d0, k) + (dst@[k] as nat) * pow2(64 * k as nat),
                    valp(a@, k + 1) == valp(a@, k) + (a@[k] as nat) * pow2(64 * k as nat),
                    valp(b@, k + 1) == valp(b@, k) + (b@[k] as nat) * pow2(64 * k as nat),
                    valp(vp_d0, k) + (vp_c0 as nat) * pow2(64 * k as nat) == valp(a@, k) + valp(b@, k),
                    pow2(64 * (k + 1) as nat) == pow2(64 * k as nat) * 0x1_0000_0000_0000_0000nat,
                    dst@[k] as nat + (carry as nat) * 0x1_0000_0000_0000_0000nat == a@[k] as nat + b@[k] as nat + vp_c0 as nat;
        }"""},
    "after": {0: """        proof {
            let n = nws(nb);
            lemma_valp_bound(dst@, n);
            lemma_mod_unique(valp(dst@, n) as int, (valp(a@, n) + valp(b@, n)) as int, carry as int, pow2(64 * n as nat) as int);
        }"""},
    "clause": "ensures valp(dst,n) == (valp(a,n) + valp(b,n)) mod 2^(64n), dst.len unchanged",
}

C["wide_sub"] = {
    "spec": "    requires %s\n    ensures final(dst).len() == old(dst).len(),\n"
            "        valp(final(dst)@, nws(nb)) as int == (valp(a@, nws(nb)) as int - valp(b@, nws(nb)) as int) %% (pow2(64 * nws(nb) as nat) as int),\n" % LEN3,
    "loops": {0: "        invariant %s\n"
                 "            valp(dst@, i as int) + valp(b@, i as int) == valp(a@, i as int) + (borrow as nat) * pow2(64 * i as nat),\n" % INV3},
    "body_start": {0: "        let ghost vp_d0 = dst@; let ghost vp_c0 = borrow;"},
    "body_end": {0: """        proof {
            let k = i as int;
            lemma_valp_wr(vp_d0, k, dst@[k]);
            assert(dst@ =~= vp_d0.update(k, dst@[k]));
            lemma_pow2_step(k);
            assert(dst@[k] as int + b@[k] as int + vp_c0 as int == a@[k] as int + (borrow as int) * 0x1_0000_0000_0000_0000int);
            assert(valp(dst@, k + 1) + valp(b@, k + 1) == valp(a@, k + 1) + (borrow as nat) * pow2(64 * (k + 1) as nat)) by (nonlinear_arith)
                requires
                    valp(dst@, k + 1) == valp(vp_d0, k) + (dst@[k] as nat) * pow2(64 * k as nat),
                    valp(a@, k + 1) == valp(a@, k) + (a@[k] as nat) * pow2(64 * k as nat),
                    valp(b@, k + 1) == valp(b@, k) + (b@[k] as nat) * pow2(64 * k as nat),
                    valp(vp_d0, k) + valp(b@, k) == valp(a@, k) + (vp_c0 as nat) * pow2(64 * k as nat),
                    pow2(64 * (k + 1) as nat) == pow2(64 * k as nat) * 0x1_0000_0000_0000_0000nat,
                    dst@[k] as int + b@[k] as int + vp_c0 as int == a@[k] as int + (borrow as int) * 0x1_0000_0000_0000_0000int;
        }"""},
    "after": {0: """        proof {
            let n = nws(nb);
            lemma_valp_bound(dst@, n);
            lemma_mod_unique_sub(valp(dst@, n) as int, valp(a@, n) as int - valp(b@, n) as int, borrow as int, pow2(64 * n as nat) as int);
        }"""},
    "clause": "ensures valp(dst,n) == (valp(a,n) - valp(b,n)) mod 2^(64n), dst.len unchanged",
}
C["wide_negate"] = {
    "spec": "    requires %s\n    ensures final(dst).len() == old(dst).len(),\n"
            "        valp(final(dst)@, nws(nb)) as int == (pow2(64 * nws(nb) as nat) as int - valp(a@, nws(nb)) as int) %% (pow2(64 * nws(nb) as nat) as int),\n" % LEN2,
    "loops": {0: "        invariant %s\n            carry <= 1,\n"
                 "            valp(dst@, i as int) + valp(a@, i as int) + (carry as nat) * pow2(64 * i as nat) == pow2(64 * i as nat) + 0,\n" % INV2},
    "before": {0: "        proof { lemma_pow2_64(); }"},
    "body_start": {0: "        let ghost vp_d0 = dst@; let ghost vp_c0 = carry;"},
    "body_end": {0: """        proof {
            let k = i as int;
            lemma_valp_wr(vp_d0, k, dst@[k]);
            assert(dst@ =~= vp_d0.update(k, dst@[k]));
            lemma_pow2_step(k);
            lemma_not_u64(a@[k]);
            assert(dst@[k] as int + (carry as int) * 0x1_0000_0000_0000_0000int + a@[k] as int + 1 == 0x1_0000_0000_0000_0000int + vp_c0 as int);
            assert(valp(dst@, k + 1) + valp(a@, k + 1) + (carry as nat) * pow2(64 * (k + 1) as nat) == pow2(64 * (k + 1) as nat)) by (nonlinear_arith)
                requires
                    valp(dst@, k + 1) == valp(vp_d0, k) + (dst@[k] as nat) * pow2(64 * k as nat),
                    valp(a@, k + 1) == valp(a@, k) + (a@[k] as nat) * pow2(64 * k as nat),
                    valp(vp_d0, k) + valp(a@, k) + (vp_c0 as nat) * pow2(64 * k as nat) == pow2(64 * k as nat),
                    pow2(64 * (k + 1) as nat) == pow2(64 * k as nat) * 0x1_0000_0000_0000_0000nat,
                    dst@[k] as int + (carry as int) * 0x1_0000_0000_0000_0000int + a@[k] as int + 1 == 0x1_0000_0000_0000_0000int + vp_c0 as int;
        }"""},
    "after": {0: """        proof {
            let n = nws(nb);
            lemma_valp_bound(dst@, n);
            lemma_mod_unique(valp(dst@, n) as int, pow2(64 * n as nat) as int - valp(a@, n) as int, carry as int, pow2(64 * n as nat) as int);
        }"""},
    "clause": "ensures valp(dst,n) == (2^(64n) - valp(a,n)) mod 2^(64n) (two's complement), dst.len unchanged",
}
LENC = "a.len() == nws(nb), b.len() == nws(nb),"
C["wide_eq"] = {
    "ret": "r",
    "spec": "    requires %s\n    ensures r == 0 || r == 1, (r == 1) == (a@ =~= b@),\n" % LENC,
    "loops": {0: "        invariant %s\n            forall|k: int| 0 <= k < i ==> a@[k] == b@[k],\n" % LENC},
    "clause": "ensures r in {0,1}, r == 1 <==> a == b (as word sequences, hence as values)",
}
C["wide_ne"] = {
    "ret": "r",
    "spec": "    requires %s\n    ensures r == 0 || r == 1, (r == 1) == !(a@ =~= b@),\n" % LENC,
    "loops": {0: "        invariant %s\n            forall|k: int| 0 <= k < i ==> a@[k] == b@[k],\n" % LENC},
    "clause": "ensures r in {0,1}, r == 1 <==> a != b",
}
REV_IT = ("vp_it.seq().len() == nws(nb), forall|k: int| 0 <= k < nws(nb) ==> vp_it.seq()[k] == nws(nb) - 1 - k,")
C["wide_ucmp"] = {
    "ret": "r",
    "spec": "    requires %s\n    ensures r == sign_of(valp(a@, nws(nb)) as int - valp(b@, nws(nb)) as int),\n" % LENC,
    "loops": {0: "        invariant %s\n            %s\n"
                 "            forall|k: int| nws(nb) - vp_it.index@ <= k < nws(nb) ==> a@[k] == b@[k],\n" % (LENC, REV_IT)},
    "body_start": {0: "        proof { lemma_cmp_msw(a@, b@, i as int, nws(nb)); }"},
    "after": {0: "        proof { lemma_valp_ext(a@, b@, nws(nb)); }"},
    "clause": "ensures r == sign(valp(a,n) - valp(b,n)) in {-1,0,1} (encoding from the doc comment; call sites compare r with 0)",
}
C["wide_is_nonzero"] = {
    "ret": "r",
    "spec": "    requires a.len() == nws(nb),\n    ensures r == 0 || r == 1, (r == 1) == (valp(a@, nws(nb)) != 0),\n",
    "loops": {0: "        invariant a.len() == nws(nb),\n            forall|k: int| 0 <= k < i ==> a@[k] == 0,\n"},
    "body_start": {0: "        proof { if a@[i as int] != 0 { lemma_valp_nonzero(a@, i as int, nws(nb)); } }"},
    "after": {0: "        proof { lemma_valp_zero(a@, nws(nb)); }"},
    "clause": "ensures r in {0,1}, r == 1 <==> valp(a,n) != 0",
}

ISO = "#[verifier::loop_isolation(false)]"
PW = "p_w(packed_nb_width)"
PN = "nws(p_nb(packed_nb_width))"
ZS = "(%s / 64 + (if %s %% 64 > 0 { 1int } else { 0int }))" % (PW, PW)
C["pack_nb_width"] = {
    "ret": "r",
    "spec": "    requires nb < 65536, width < 65536,\n    ensures p_nb(r) == nb, p_w(r) == width,\n",
    "start": "    proof { lemma_pack(nb as u32, width as u32); }",
    "clause": "requires nb, width < 65536 (the function's debug_assert); ensures unpack(r) == (nb, width)",
}
C["unpack_nb_width"] = {
    "ret": "r",
    "spec": "    ensures r.0 == p_nb(packed), r.1 == p_w(packed),\n",
    "start": "    proof { lemma_unpack(packed); }",
    "clause": "ensures r == (packed mod 2^16, packed div 2^16)",
}
C["wide_is_all_ones"] = {
    "ret": "r", "attrs": ISO,
    "spec": "    requires a.len() == %s, %s <= 64 * a.len(),\n"
            "    ensures r == 0 || r == 1, (r == 1) == all_ones_below(a@, %s as int),\n" % (PN, PW, PW),
    "loops": {0: "        invariant forall|k: int| 0 <= k < i ==> a@[k] == 0xffff_ffff_ffff_ffffu64,\n"},
    "body_start": {0: "        proof { if all_ones_below(a@, %s as int) { lemma_all_ones_word(a@, i as int, %s as int); } }" % (PW, PW)},
    "after": {0: """        proof {
            lemma_shl1();
            let w = %s as int;
            if w %% 64 > 0 && all_ones_below(a@, w) { lemma_all_ones_part(a@, w); }
            if w %% 64 > 0 ==> a@[w / 64] & lowmask((w %% 64) as u64) == lowmask((w %% 64) as u64) { lemma_all_ones_intro(a@, w); }
        }""" % PW},
    "clause": "requires a has nb/8 words and width <= 64n; ensures r in {0,1}, r == 1 <==> forall j < width: wbit(a,j)",
}
C["wide_apply_mask"] = {
    "attrs": ISO,
    "spec": "    requires old(dst).len() == %s,\n"
            "    ensures final(dst).len() == old(dst).len(),\n"
            "        %s == 0 ==> final(dst)@ == old(dst)@,\n"
            "        %s >= 1 ==> forall|j: int| 0 <= j < 64 * %s ==> #[trigger] wbit(final(dst)@, j) == (j < %s && wbit(old(dst)@, j)),\n"
            "        1 <= %s < 64 * %s ==> valp(final(dst)@, %s) as int == (valp(old(dst)@, %s) as int) %% (pow2(%s as nat) as int),\n"
            "        %s >= 64 * %s ==> valp(final(dst)@, %s) == valp(old(dst)@, %s),\n" % (PN, PW, PW, PN, PW, PW, PN, PN, PN, PW, PW, PN, PN, PN),
    "start": "    let ghost vp_old = dst@;\n    proof { lemma_shl1(); }",
    "loops": {0: "        invariant dst.len() == vp_old.len(),\n"
                 "            forall|k: int| 0 <= k < dst.len() ==> dst@[k] == (if k < i || k < %s { masked_word(vp_old[k], k, %s as int) } else { vp_old[k] }),\n" % (ZS, PW)},
    "after": {0: "        proof { lemma_masked_bits(vp_old, dst@, %s as int); lemma_masked_value(vp_old, dst@, %s as int); }" % (PW, PW)},
    "clause": "requires dst has nb/8 words; ensures for width >= 1: forall j < 64n: wbit(dst',j) == (j < width && wbit(dst,j)); width == 0: unchanged "
              "(the callers' convention `width 0 = no clamp`, aot_c/emit.rs); dst.len unchanged",
}
C["wide_fill_ones"] = {
    "attrs": ISO,
    "spec": "    requires old(dst).len() == %s,\n"
            "    ensures final(dst).len() == old(dst).len(),\n"
            "        forall|j: int| 0 <= j < 64 * %s ==> #[trigger] wbit(final(dst)@, j) == (j < %s),\n"
            "        valp(final(dst)@, %s) + 1 == pow2((if %s < 64 * %s { %s as int } else { 64 * %s }) as nat),\n" % (PN, PN, PW, PN, PW, PN, PW, PN),
    "start": "    let ghost vp_old = dst@;\n    proof { lemma_shl1(); lemma_pow2_64(); }",
    "loops": {0: "        invariant dst.len() == vp_old.len(),\n"
                 "            forall|k: int| 0 <= k < i ==> dst@[k] == 0xffff_ffff_ffff_ffffu64,\n",
              1: "        invariant dst.len() == vp_old.len(),\n"
                 "            forall|k: int| 0 <= k < dst.len() && (k < i || k < %s) ==> dst@[k] == masked_word(0xffff_ffff_ffff_ffffu64, k, %s as int),\n" % (ZS, PW)},
    "before": {1: "        proof { if %s %% 64 > 0 { lemma_and_ones(lowmask((%s %% 64) as u64)); } }" % (PW, PW)},
    "after": {1: "        proof { lemma_ones_bits(dst@, %s as int); lemma_ones_value(dst@, %s as int); }" % (PW, PW)},
    "clause": "ensures forall j < 64n: wbit(dst',j) == (j < width) (i.e. dst' == 2^min(width,64n) - 1), dst.len unchanged",
}
SH_LEN = "old(dst).len() == nws(nb), a.len() == nws(nb),"
C["wide_shl"] = {
    "attrs": ISO,
    "spec": "    requires %s\n    ensures final(dst).len() == old(dst).len(),\n"
            "        forall|j: int| 0 <= j < 64 * nws(nb) ==> #[trigger] wbit(final(dst)@, j) == (j >= amount && wbit(a@, j - amount)),\n" % SH_LEN,
    "loops": {0: "        invariant dst.len() == nws(nb),\n            forall|k: int| 0 <= k < i ==> dst@[k] == 0,\n",
              1: "        invariant dst.len() == nws(nb), %s\n"
                 "            forall|k: int| nws(nb) - vp_it.index@ <= k < nws(nb) ==> dst@[k] == shl_word(a@, k, amount),\n" % REV_IT},
    "after": {0: "        proof { lemma_zero_shift((amount % 64) as u64); lemma_shl_bits(a@, dst@, amount); }", 1: "        proof { lemma_shl_bits(a@, dst@, amount); }"},
    "clause": "ensures forall j < 64n: wbit(dst',j) == (j >= amount && wbit(a, j - amount)), all amount: u64; dst.len unchanged",
}
C["wide_lshr"] = {
    "attrs": ISO,
    "spec": "    requires %s\n    ensures final(dst).len() == old(dst).len(),\n"
            "        forall|j: int| 0 <= j < 64 * nws(nb) ==> #[trigger] wbit(final(dst)@, j) == (j + amount < 64 * nws(nb) && wbit(a@, j + amount)),\n" % SH_LEN,
    "loops": {0: "        invariant dst.len() == nws(nb),\n            forall|k: int| 0 <= k < i ==> dst@[k] == 0,\n",
              1: "        invariant dst.len() == nws(nb),\n"
                 "            forall|k: int| 0 <= k < i ==> dst@[k] == lshr_word(a@, k, amount),\n"},
    "after": {0: "        proof { lemma_zero_shift((amount % 64) as u64); lemma_lshr_bits(a@, dst@, amount); }", 1: "        proof { lemma_lshr_bits(a@, dst@, amount); }"},
    "clause": "ensures forall j < 64n: wbit(dst',j) == (j + amount < 64n && wbit(a, j + amount)), all amount: u64; dst.len unchanged",
}

ORDER_A = ["pack_nb_width", "unpack_nb_width", "wide_band", "wide_bor", "wide_bxor", "wide_bxor_not", "wide_band_not", "wide_bnot", "wide_add", "wide_sub", "wide_negate", "wide_copy",
           "wide_eq", "wide_ne", "wide_ucmp", "wide_is_nonzero", "wide_is_all_ones", "wide_apply_mask", "wide_fill_ones", "wide_shl", "wide_lshr"]

C["sext_word"] = {
    "ret": "r",
    "spec": "    requires i <= 0xFFFF_FFFF, i * 64 < width ==> i < ptr.len(),\n"
            "    ensures r == sext_word_spec(ptr@, i as int, width as int, sign == 1),\n",
    "start": "    proof { lemma_shl1(); }",
    "clause": "requires the word is inside the buffer when it is below width (OOB-safe claim); ensures r == closed form sext_word_spec, "
              "whose meaning is lemma_sext_word_bits: bit b of r == (64i+b < width ? wbit(ptr,64i+b) : sign==1)",
}
IW = "info_w(src_info)"
C["wide_resize"] = {
    "attrs": ISO,
    "spec": "    requires old(dst).len() == nws(dst_nb), %s <= 64 * src.len(),\n"
            "    ensures final(dst).len() == old(dst).len(),\n"
            "        forall|j: int| 0 <= j < 64 * nws(dst_nb) ==> #[trigger] wbit(final(dst)@, j) == (if j < %s { wbit(src@, j) } else { info_signed(src_info) && %s >= 1 && wbit(src@, %s - 1) }),\n" % (IW, IW, IW, IW),
    "start": "    proof { lemma_trunc(); }",
    "loops": {0: "        invariant dst.len() == nws(dst_nb),\n            forall|k: int| 0 <= k < i ==> dst@[k] == 0,\n",
              1: "        invariant dst.len() == nws(dst_nb),\n"
                 "            forall|k: int| 0 <= k < i ==> dst@[k] == sext_word_spec(src@, k, %s, sign == 1),\n" % IW},
    "after": {0: "        proof { lemma_zero_bits(dst@); }",
              1: "        proof { lemma_resize_bits(src@, dst@, %s, sign == 1); }" % IW},
    "clause": "requires dst has dst_nb/8 words, src covers its width (width <= 64*src.len); ensures forall j < 64n: wbit(dst',j) == (j < width ? wbit(src,j) : signed && wbit(src,width-1)); width 0 gives 0",
}
C["wide_ashr"] = {
    "attrs": ISO,
    "spec": "    requires old(dst).len() == %s, a.len() == %s, 1 <= %s <= 64 * a.len(), padded(a@, %s as int),\n"
            "    ensures final(dst).len() == old(dst).len(),\n"
            "        forall|j: int| 0 <= j < 64 * %s ==> #[trigger] wbit(final(dst)@, j) == (j < %s && (if j + amount < %s { wbit(a@, j + amount) } else { wbit(a@, %s - 1) })),\n"
            % (PN, PN, PW, PW, PN, PW, PW, PW),
    "before": {0: "        let ghost vp_l = dst@;"},
    "loops": {0: "        invariant dst.len() == vp_l.len(),\n"
                 "            forall|j: int| 0 <= j < 64 * dst.len() ==> #[trigger] wbit(dst@, j) == (wbit(vp_l, j) || (%s - amount <= j < bit_pos)),\n" % PW},
    "body_start": {0: "        let ghost vp_d0 = dst@;"},
    "body_end": {0: "        proof { lemma_set_bit(vp_d0, dst@, bit_pos as int); }"},
    "clause": "requires both buffers have nb/8 words, 1 <= width <= 64n, a zero-padded above width; ensures forall j < 64n: "
              "wbit(dst',j) == (j < width && (j+amount < width ? wbit(a,j+amount) : wbit(a,width-1))); dst.len unchanged",
}
C["wide_popcnt_parity"] = {
    "ret": "r",
    "spec": "    requires a.len() == nws(nb),\n    ensures r == total_pop(a@, nws(nb)) % 2,\n",
    "loops": {0: "        invariant a.len() == nws(nb),\n            (total & 1) as int == total_pop(a@, i as int) % 2,\n"},
    "before": {0: "        proof { assert(0u32 & 1 == 0) by (bit_vector); }"},
    "body_start": {0: "        let ghost vp_t0 = total;"},
    "body_end": {0: "        proof { lemma_xor_parity(vp_t0, popcount(a@[i as int]) as u32); }"},
    "after": {0: "        proof { assert(total & 1 == 0 || total & 1 == 1) by (bit_vector); }"},
    "clause": "ensures r == (number of set bits in the n words) mod 2  (reduction XOR)",
}

AW, BW = "p_w(a_packed) as int", "p_w(b_packed) as int"
C["wide_scmp"] = {
    "ret": "r",
    "spec": "    requires a.len() == %s, b.len() == %s, %s <= 64 * a.len(), padded(a@, %s as int), padded(b@, %s as int),\n"
            "    ensures r == sign_of(sval(a@, %s, %s as int) - sval(b@, %s, %s as int)),\n" % (PN, PN, PW, PW, PW, PN, PW, PN, PW),
    "start": "    proof { lemma_and1(); lemma_pow2_64(); lemma_padded_bound(a@, %s as int); lemma_padded_bound(b@, %s as int); }" % (PW, PW),
    "clause": "requires both buffers have nb/8 words, width <= 64n, both zero-padded above width; ensures r == sign(sval(a,width) - sval(b,width)), "
              "sval = valp - 2^width * bit(width-1)",
}
C["wide_scmp_asym"] = {
    "ret": "r", "attrs": ISO,
    "spec": "    requires a.len() == nws(p_nb(a_packed)), b.len() == nws(p_nb(b_packed)), 1 <= %s <= 64 * a.len(), 1 <= %s <= 64 * b.len(),\n"
            "        padded(a@, %s), padded(b@, %s),\n"
            "    ensures r == sign_of(sval(a@, a.len() as int, %s) - sval(b@, b.len() as int, %s)),\n" % (AW, BW, AW, BW, AW, BW),
    "start": """    let ghost vp_m = if a.len() >= b.len() { a.len() as int } else { b.len() as int };
    let ghost vp_ea = sext_seq(a@, %s, wbit(a@, %s - 1), vp_m);
    let ghost vp_eb = sext_seq(b@, %s, wbit(b@, %s - 1), vp_m);
    proof {
        lemma_and1(); lemma_pow2_64(); lemma_padded_bound(a@, %s); lemma_padded_bound(b@, %s);
        lemma_sext_value(a@, %s, wbit(a@, %s - 1), vp_m); lemma_sext_value(b@, %s, wbit(b@, %s - 1), vp_m);
    }""" % (AW, AW, BW, BW, AW, BW, AW, AW, BW, BW),
    "loops": {0: "        invariant vp_it.seq().len() == vp_m, forall|k: int| 0 <= k < vp_m ==> vp_it.seq()[k] == vp_m - 1 - k,\n"
                 "            forall|k: int| vp_m - vp_it.index@ <= k < vp_m ==> vp_ea[k] == vp_eb[k],\n"},
    "body_start": {0: "        proof { lemma_cmp_msw(vp_ea, vp_eb, i as int, vp_m); }"},
    "after": {0: "        proof { lemma_valp_ext(vp_ea, vp_eb, vp_m); }"},
    "clause": "requires each buffer has its own nb/8 words, 1 <= width <= 64n and is zero-padded above its own width; "
              "ensures r == sign(sval(a,a_w) - sval(b,b_w)) (each operand sign-extended from its own width)",
}

NB = "nws(nb)"
MUL_E = ("valp(dst@, %s) + carry * pow2(64 * (i + vp_j) as nat) == valp(vp_D0, %s) + (a@[i as int] as int) * valp(b@, vp_j) * pow2(64 * i as nat)" % (NB, NB))
C["wide_mul"] = {
    "attrs": ISO,
    "spec": "    requires %s\n    ensures final(dst).len() == old(dst).len(),\n"
            "        valp(final(dst)@, %s) == (valp(a@, %s) * valp(b@, %s)) %% pow2(64 * %s as nat),\n" % (LEN3, NB, NB, NB, NB),
    "start": "    proof { lemma_trunc(); lemma_pow2_64(); }",
    "loops": {0: "        invariant dst.len() == %s,\n            forall|k: int| 0 <= k < i ==> dst@[k] == 0,\n" % NB,
              1: "        invariant dst.len() == %s,\n"
                 "            valp(dst@, %s) == (valp(a@, i as int) * valp(b@, %s)) %% pow2(64 * %s as nat),\n" % (NB, NB, NB, NB),
              2: "        invariant_except_break dst.len() == %s, vp_j == j, i + vp_j <= %s, carry <= 0xffff_ffff_ffff_ffff,\n"
                 "            %s,\n"
                 "        ensures dst.len() == %s, i + vp_j == %s,\n"
                 "            %s,\n" % (NB, NB, MUL_E, NB, NB, MUL_E)},
    "after": {0: "        proof { lemma_valp_zero(dst@, %s); lemma_mul_init(a@, b@, %s); }" % (NB, NB),
              2: "        proof { lemma_mul_row(a@, b@, vp_D0, dst@, i as int, %s, carry as int); }" % NB},
    "body_start": {1: "        let ghost vp_D0 = dst@; let ghost mut vp_j = 0int;\n        proof { lemma_pow2_64(); }",
                   2: "        let ghost vp_d0 = dst@; let ghost vp_c0 = carry as int;\n"
                      "        proof { if i + j < %s { lemma_u128_mac(a@[i as int], b@[j as int], dst@[i + j], carry); } }" % NB},
    "body_end": {1: """        proof {
            if a@[i as int] == 0 {
                assert((a@[i as int] as nat) * pow2(64 * i as nat) == 0) by (nonlinear_arith) requires a@[i as int] == 0;
                assert(valp(a@, i + 1) == valp(a@, i as int));
            }
        }""",
                 2: """        proof {
            assert(dst@ =~= vp_d0.update(i + j, dst@[i + j]));
            lemma_mul_step(b@, vp_D0, vp_d0, dst@, a@[i as int] as int, i as int, j as int, %s, vp_c0, carry as int);
            vp_j = j + 1;
        }""" % NB},
    "e7c": 1,
    "clause": "ensures valp(dst,n) == (valp(a,n) * valp(b,n)) mod 2^(64n) (schoolbook product truncated to n words), dst.len unchanged",
}

ORDER_B = ["sext_word", "wide_resize", "wide_ashr", "wide_popcnt_parity", "wide_scmp", "wide_scmp_asym", "wide_mul"]


def e_rules(f, record=1):
    """generic, stated rewrite rules E4 (unsafe removal), E5 (pointer re-typing), E6 (profiling/debug statements)"""
    if record:
        f.sub(r"[ \t]*record\(ProfOp::\w+\);\n", "", count=record, rule="E6")
    if re.search(r"#\[cfg\(debug_assertions\)\]", f.orig):
        f.sub(r"[ \t]*#\[cfg\(debug_assertions\)\]\n[ \t]*debug_assert!\([^;]*\);\n", "", rule="E6")
    else:
        f.drop_stmt_macro("debug_assert")
    f.sub_opt(r'\bunsafe\s+extern\s+"C"\s+fn\b', "fn", rule="E4")
    f.sub_opt(r"\bunsafe\s+fn\b", "fn", rule="E4")
    f.sub_opt(r"\bunsafe\s*\{", "{", rule="E4")
    f.sub_opt(r":\s*\*mut u8\b", ": &mut Vec<u64>", rule="E5")
    f.sub_opt(r":\s*\*const u8\b", ": &Vec<u64>", rule="E5")
    f.sub_opt(r"\b(\w+) as \*const u8\b", r"&*\1", rule="E5")
    f.sub_opt(r"\bfor (\w+) in \((.*?)\)\.rev\(\)", r"for \1 in vp_it: (\2).rev()", rule="S-iter")
    out = f.render()
    for bad in ("unsafe", "*mut", "*const", "record(", "debug_assert"):
        if bad in re.sub(r"//[^\n]*", "", out):
            raise ExtractError("%s: `%s` survives rules E4-E6" % (f.name, bad))


def splice(f, c):
    if c.get("ret"):
        f.name_return(c["ret"])
    f.spec(c["spec"])
    if c.get("attrs"):
        f.prepend(c["attrs"])
    if c.get("start"):
        f.at_start(c["start"])
    for k, t in c.get("before", {}).items():
        f.before_loop(k, t)
    for k, t in c.get("loops", {}).items():
        f.loop_spec(k, t)
    for k, t in c.get("body_start", {}).items():
        f.loop_body_start(k, t)
    if c.get("e7c") is not None:
        # E7c: Verus for-loops do not support `continue`: a guard `if C { continue; }` directly in a loop body becomes
        # `if !(C) { <rest of the body> }` (same control flow; the closing brace goes to the end of that loop's body)
        f.sub(r"if (\w+ == 0) \{\s*continue;\s*\}", r"if !(\1) {", count=1, rule="E7c")
        f.loop_body_end(c["e7c"], "        } // E7c")
    if c.get("end"):
        f.at_end(c["end"])
    for k, t in c.get("body_end", {}).items():
        f.loop_body_end(k, t)
    for k, t in c.get("after", {}).items():
        f.after_loop(k, t)


def accessors(src):
    """E5: the two places the file dereferences a pointer, cut from the source and re-typed; the dereference expression
    itself is replaced by Vec indexing (exact text match, so a changed stride or access width is exit 2, not a silent pass)"""
    rd = src.item("fn", "rd")
    rd.replace("(ptr.add(i * 8) as *const u64).read_unaligned()", "ptr[i]", rule="E5")
    e_rules(rd, record=0)
    rd.name_return("r")
    rd.spec("    requires i < ptr.len(),\n    ensures r == ptr[i as int],")
    rd.prepend("#[verifier::external_body]")
    wr = src.item("fn", "wr")
    wr.replace("(ptr.add(i * 8) as *mut u64).write_unaligned(v)", "ptr[i] = v", rule="E5")
    e_rules(wr, record=0)
    wr.spec("    requires i < old(ptr).len(),\n    ensures final(ptr)@ == old(ptr)@.update(i as int, v),")
    wr.prepend("#[verifier::external_body]")
    return [rd, wr]


def build(ctx, res):
    src = ctx.src(W)
    vf = VerusFile(HEADER)
    items = []

    def add(it, label=None):
        items.append(it)
        vf.item(it, label)

    vf.raw(ctx.unit_file("wide", "spec.rs"), "spec")
    for it in accessors(src):
        add(it)
    f = src.item("fn", "nw")
    f.name_return("r")
    f.spec("    ensures r == nws(nb),")
    add(f)

    expect = ["nw"]
    for name in ORDER_A + ORDER_B:
        f = src.item("fn", name)
        e_rules(f, record=1 if name.startswith("wide_") else 0)
        splice(f, C[name])
        add(f)
        expect.append(name)
        res.clauses[name] = C[name]["clause"]
    text = vf.finish()
    lemmas = re.findall(r"^proof fn (lemma_\w+)", text, re.M)
    res.clauses["lemmas"] = "%d lemmas: valp/bit toolkit (bit_vector facts per word), value of sign extension, carry-chain steps; all proved, none assumed" % len(lemmas)
    res.samples.append({"obligation": "verus:wide:wide_add", "contract": C["wide_add"]["spec"]})
    res.samples.append({"obligation": "verus:wide:wide_shl", "contract": C["wide_shl"]["spec"]})
    res.notes.append("wide: E5 re-typing makes dst disjoint from a/b (aliased calls such as the in-place sign extension in marshal_wide_operand are not covered); "
                     "loop-invariant text mentions locals carry/borrow/total/bit_pos/sign (renaming them fails the proof: residual false-alarm risk)")
    return [VerusJob("wide", text, vf, expect + lemmas, canaries=CANARIES, items=items, trusted=TRUSTED, rlimit=30)]


CANARIES = [
    ("vp_canary_len3", "proof fn vp_canary_len3(dst: Vec<u64>, a: Vec<u64>, b: Vec<u64>, nb: u32) requires dst.len() == nws(nb), a.len() == nws(nb), b.len() == nws(nb), nb >= 16 ensures false {}"),
    ("vp_canary_packed", "proof fn vp_canary_packed(a: Vec<u64>, packed: u32) requires a.len() == nws(p_nb(packed)), 65 <= p_w(packed) <= 64 * a.len() ensures false {}"),
    ("vp_canary_ashr", "proof fn vp_canary_ashr(dst: Vec<u64>, a: Vec<u64>, packed: u32) requires dst.len() == nws(p_nb(packed)), a.len() == nws(p_nb(packed)), "
                       "1 <= p_w(packed) <= 64 * a.len(), padded(a@, p_w(packed) as int), wbit(a@, p_w(packed) - 1), p_w(packed) < 64 * a.len() ensures false {}"),
    ("vp_canary_scmp", "proof fn vp_canary_scmp(a: Vec<u64>, b: Vec<u64>, packed: u32) requires a.len() == nws(p_nb(packed)), b.len() == nws(p_nb(packed)), "
                       "1 <= p_w(packed) <= 64 * a.len(), padded(a@, p_w(packed) as int), padded(b@, p_w(packed) as int), wbit(a@, p_w(packed) - 1), !wbit(b@, p_w(packed) - 1) ensures false {}"),
    ("vp_canary_scmp_asym", "proof fn vp_canary_scmp_asym(a: Vec<u64>, b: Vec<u64>, a_packed: u32, b_packed: u32) requires a.len() == nws(p_nb(a_packed)), b.len() == nws(p_nb(b_packed)), "
                            "1 <= p_w(a_packed) <= 64 * a.len(), 1 <= p_w(b_packed) <= 64 * b.len(), padded(a@, p_w(a_packed) as int), padded(b@, p_w(b_packed) as int), "
                            "p_w(a_packed) != p_w(b_packed), a.len() != b.len() ensures false {}"),
    ("vp_canary_resize", "proof fn vp_canary_resize(dst: Vec<u64>, src: Vec<u64>, src_info: u64, dst_nb: u32) requires dst.len() == nws(dst_nb), info_w(src_info) <= 64 * src.len(), "
                         "info_signed(src_info), info_w(src_info) >= 1, nws(dst_nb) > src.len() ensures false {}"),
    ("vp_canary_sext_word", "proof fn vp_canary_sext_word(ptr: Vec<u64>, i: usize, width: u32) requires i <= 0xFFFF_FFFF, i * 64 < width ==> i < ptr.len(), i * 64 < width, width % 64 != 0 ensures false {}"),
    ("vp_canary_pack", "proof fn vp_canary_pack(nb: usize, width: usize) requires nb < 65536, width < 65536, nb > 0, width > 0 ensures false {}"),
]


def replay(ctx, res, f):
    """seeded native differential run: the ORIGINAL text of every helper (raw pointers, unsafe and all) against bit-by-bit / u128 references"""
    from vp.core import native_search, NATIVE_RNG
    src = ctx.src(W)
    names = ["pack_nb_width", "unpack_nb_width", "nw", "rd", "wr", "record", "sext_word"] + [n for n in ORDER_A + ORDER_B if n.startswith("wide_")]
    body = "#![allow(unused, unexpected_cfgs, unsafe_op_in_unsafe_fn)]\n" + NATIVE_RNG + src.item("enum", "ProfOp").orig + "\n" + \
        "\n".join(src.item("fn", n).orig for n in names) + "\n" + ctx.unit_file("wide", "replay.rs")
    fn = getattr(f.get("obl"), "fn", None) or ""
    return native_search(ctx, "wide", "wide", body, args=[ctx.seed, fn if fn in names else "all"])
