
// Native input search for unit `cdc`, used only when an obligation failed and CBMC's concrete playback gave no input in time.
// Above this text: the kani shim, the extracted items and units/cdc/harness.rs, exactly as in the harness crate. The failing harness
// function itself is run on small-value-biased pseudo-random draws (every kani::any() pops one entry); the first draw sequence on which it
// panics (other than by a rejected assumption) is printed.
fn main() {
    let a: Vec<String> = std::env::args().collect();
    let name = a.get(1).cloned().unwrap_or_default();
    let f = match vp_harness(&name) {
        Some(f) => f,
        None => {
            println!("NONE unknown harness {}", name);
            return;
        }
    };
    let mut s: u64 = a.get(2).and_then(|x| x.parse::<u64>().ok()).unwrap_or(1).wrapping_mul(0x9E3779B97F4A7C15) | 1;
    let mut next = move || {
        s ^= s << 13;
        s ^= s >> 7;
        s ^= s << 17;
        s
    };
    std::panic::set_hook(Box::new(|_| {}));
    const DRAWS: usize = 96;
    for it in 0..3_000_000u64 {
        let mut vals: Vec<Vec<u8>> = Vec::with_capacity(DRAWS);
        for _ in 0..DRAWS {
            let r = next();
            let v = match r % 10 {
                0 | 1 => vec![0u8],
                2 | 3 => vec![1u8],
                4 => vec![2u8],
                5 => vec![3u8],
                6 => vec![5u8],
                7 => vec![255u8; 8],
                8 => vec![(r >> 8) as u8 & 7],
                _ => vec![(r >> 8) as u8, (r >> 16) as u8 & 1],
            };
            vals.push(v);
        }
        kani::load(vals.clone());
        match std::panic::catch_unwind(f) {
            Ok(()) => {}
            Err(e) => {
                if e.downcast_ref::<kani::Rejected>().is_some() {
                    continue;
                }
                let msg = e.downcast_ref::<String>().cloned().or_else(|| e.downcast_ref::<&str>().map(|s| s.to_string())).unwrap_or_default();
                let left = kani::VALS.with(|q| q.borrow().len());
                let used = &vals[..DRAWS - left.min(DRAWS)];
                let hex: Vec<String> = used.iter().map(|v| v.iter().map(|b| format!("{:02x}", b)).collect::<String>()).collect();
                println!(
                    "FOUND {{\"harness\":\"{}\",\"draws_hex\":\"{}\",\"violated\":\"{}\",\"tries\":{},\"replay\":\"vp_replay {} {}\"}}",
                    name,
                    hex.join(","),
                    msg.replace('"', "'").replace('\n', " "),
                    it + 1,
                    name,
                    hex.join(",")
                );
                std::process::exit(1);
            }
        }
    }
    println!("NONE 3000000");
}
