"""U9 cdc - clock-domain decision kernel (C16). Back end: Kani/CBMC, complete (loop-free, symbolic usize ids / u32 positions);
bounded stand-ins (labelled) for the number of enclosing statement conditions and for the length of the unsafe-block table."""
import re
from vp.core import KaniJob
from vp.kani_run import Harness

SYM = "crates/analyzer/src/symbol.rs"
CHK = "crates/analyzer/src/conv/checker/clock_domain.rs"
UTL = "crates/analyzer/src/conv/utils.rs"
UNS = "crates/analyzer/src/unsafe.rs"
RTB = "crates/analyzer/src/range_table.rs"
PRT = "crates/parser/src/resource_table.rs"
PTX = "crates/parser/src/text_table.rs"
PTK = "crates/parser/src/veryl_token.rs"
PTR = "crates/parser/src/token_range.rs"

# E1: the `use` lines of the real files are dropped; these fixed preludes bind the same names to the extracted items
# and to the harness stand-ins (units/cdc/harness.rs::standin).
CHECKER_USE = """use crate::parser_types::{Token, TokenRange};
use crate::standin::{self as ir, unsafe_table, AnalyzerError, Comptime, Context};
use crate::symbol::{Affiliation, ClockDomain};
use crate::unsafe_kind::Unsafe;
"""
RANGE_TABLE_USE = """use crate::HashMap;
use crate::parser_types::{PathId, Token, TokenRange, TokenSource};
use std::fmt;
"""

TRUSTED = {
    r"kani::assume\(": "harness preconditions only: variant tag < 4 when drawing a symbolic ClockDomain; the hypothesis of each stated implication "
                       "(operands passed the check / domains differ / not inside the cdc block / destination annotated); ranges well-formed (beg <= end) - see contract_clauses",
}

# not pattern-scanned (no assume/stub involved) but part of the trusted base: stated in evidence via res.trusted
STANDINS = [
    "harness stand-in: records calls only: standin::Context (insert_error keeps an ordered log; is_affiliated compares with ONE innermost affiliation (real: affiliation.last()); "
    "current_clock as in the real struct; condition_domains is standin::CondList (<= 2 entries, no heap; real: Vec<Comptime>); real insert_error also merges MultipleAssignment errors)",
    "harness stand-in: records calls only: standin::VarPaths for Context::var_paths (real: HashMap<VarPath,(VarId,Comptime)>; one entry, get_mut counted)",
    "harness stand-in: records calls only: standin::AnalyzerError::{mismatch_clock_domain, invalid_clock_assignment} (remember their arguments; real: build miette diagnostics)",
    "harness stand-in: records calls only: standin::Comptime (fields type, clock_domain, token), standin::Type (is_clock/is_reset answer two symbolic bools; to_string), "
    "standin::AssignDestination (path, comptime, token), standin::VarPath/VarId (opaque ids)",
    "harness stand-in: records calls only: standin::unsafe_table::contains in the decision harnesses (an independent symbolic bool per token identity, calls counted, "
    "asking about a token other than the statement token is recorded); the real lookup RangeTable::{insert,begin,get,contains} + TokenRange::include is under contract separately; "
    "not covered: the thread_local/RefCell wrapper of unsafe_table.rs and that unsafe_table::begin/end are called with the block's first/last token",
    "harness stand-in: vpmap::HashMap for the analyzer's HashMap alias (fxhash::FxHashMap) inside the extracted RangeTable: finite-map semantics assumed "
    "(entry/and_modify/or_insert/get as an association list); hashbrown itself does not finish in CBMC",
    "harness stand-in: records calls only: ClockDomain::to_string -> standin::DomText (real: Display impl doing a symbol_table lookup; only feeds the message text)",
    "module crate::r#unsafe is emitted as crate::unsafe_kind; parser items are emitted in crate::parser_types (names only; the items are the extracted text)",
    "not covered: that every assignment/connection site calls check_clock_domain / check_assign_clock_domain, domain propagation through conv/ir expression code",
]


def expand(text):
    text = re.sub(r"#\[vp_bounded\]", "#[cfg_attr(kani, kani::proof)]\n    #[cfg_attr(kani, kani::unwind(10))]", text)
    return text.replace("#[vp_proof]", "#[cfg_attr(kani, kani::proof)]")


BOUNDS = {
    "assign_contract_one_condition": "condition_domains.len() == 1",
    "assign_contract_two_conditions": "condition_domains.len() == 2",
    "range_table_contains_iff_inside_some_range_0": "0 recorded ranges, <= 1 open block; HashMap replaced by an association-list stand-in",
    "range_table_contains_iff_inside_some_range_1": "1 recorded range, <= 1 open block; HashMap replaced by an association-list stand-in",
}


def build(ctx, res):
    sym, chk, utl, uns, rtb = ctx.src(SYM), ctx.src(CHK), ctx.src(UTL), ctx.src(UNS), ctx.src(RTB)
    prt, ptx, ptk, ptr = ctx.src(PRT), ctx.src(PTX), ctx.src(PTK), ctx.src(PTR)
    items = []

    def take(it, strip=True):
        if strip and it.kind in ("struct", "enum"):
            it.strip_derive("Serialize", "Deserialize")
        items.append(it)
        return it.render()

    def no_default(it):
        # Token's Default impl goes through the thread-local token-id counter (not extracted); nothing here needs TokenRange::default()
        it.strip_derive("Serialize", "Deserialize", "Default")
        return it

    parser_types = ["pub mod parser_types {",
                    take(prt.item("struct", "PathId")), take(prt.item("struct", "StrId")), take(prt.item("struct", "TokenId")),
                    take(ptx.item("struct", "TextId")),
                    take(ptk.item("enum", "TokenSource")), take(ptk.item("impl", "PartialEq<PathId> for TokenSource")),
                    take(ptk.item("struct", "Token")),
                    take(no_default(ptr.item("struct", "TokenRange")), strip=False), "impl TokenRange {", take(ptr.item("fn", "include", impl="TokenRange")), "}",
                    "}"]
    symbol = ["pub mod symbol {", take(sym.item("struct", "SymbolId")), take(sym.item("enum", "ClockDomain")), "impl ClockDomain {"] + \
             [take(sym.item("fn", f, impl="ClockDomain")) for f in ("domain_id", "compatible", "merge")] + ["}", take(sym.item("enum", "Affiliation")), "}"]
    unsafe_kind = ["pub mod unsafe_kind {", "use std::fmt;", take(uns.item("enum", "Unsafe")), take(uns.item("impl", "fmt::Display for Unsafe")), "}"]
    range_table = ["pub mod range_table {", RANGE_TABLE_USE, take(rtb.item("struct", "RangeTable")), take(rtb.item("impl", "Default for RangeTable<T>")),
                   "impl<T> RangeTable<T>\nwhere\n    T: Clone + Eq + std::fmt::Display,\n{"] + \
                  [take(rtb.item("fn", f, impl="RangeTable<T>")) for f in ("insert", "begin", "end", "get", "contains")] + ["}", "}"]
    checker = ["pub mod checker {", CHECKER_USE, take(chk.item("fn", "check_clock_domain")), take(utl.item("fn", "check_assign_clock_domain")), "}"]

    raw = ctx.unit_file("cdc", "harness.rs")
    lib = "\n".join(["pub use crate::vpmap::HashMap;"] + parser_types + symbol + unsafe_kind + range_table + checker + [expand(raw)]) + "\n"

    hs = []
    for kind, n in re.findall(r"#\[vp_(proof|bounded)\]\s*pub fn (\w+)", raw):
        fn = "check_assign_clock_domain" if "assign" in n else \
             "check_clock_domain" if n.startswith(("check_", "canary_check", "explicit_inferred_alike_in_check")) else \
             "TokenRange::include" if "include" in n else "RangeTable::contains" if "range_table" in n else \
             "ClockDomain::merge" if "merge" in n else "ClockDomain::compatible"
        k = "canary" if n.startswith("canary_") else ("bounded" if kind == "bounded" else "proof")
        hs.append(Harness("harness::" + n, kind=k, fn=fn, bound=BOUNDS.get(n)))
    for t in STANDINS:
        ent = "cdc: " + t
        if ent not in res.trusted:
            res.trusted.append(ent)
    res.clauses.update({
        "model": "Dom = Less (ClockDomain::None) | Anon (Implicit, the unnamed default domain) | Named(id) (Explicit(id) and Inferred(id) alike); "
                 "may_move(a,b) := a==Less || b==Less || a==b; pos_le = lexicographic (line, column) order",
        "ClockDomain::compatible": "ensures r == may_move(model(self), model(x)); == (None on a side || both ids equal || neither has an id); symmetric; reflexive; "
                                   "Explicit(i)/Inferred(i) interchangeable on either side",
        "ClockDomain::domain_id": "ensures r == Some(id) for Named(id), None otherwise",
        "ClockDomain::merge": "ensures None is a two-sided identity; result is one of the operands; result has an id <=> some operand has one, and it is an operand's id; "
                              "result domain-less <=> both operands domain-less; Explicit/Inferred interchangeable w.r.t. domain_id and compatible of the result; "
                              "compatible(a,b) ==> merge(a,b) compatible with a and b, and any c incompatible with a or b is incompatible with merge(a,b)",
        "check_clock_domain": "ensures exactly one insert_error(mismatch_clock_domain(lhs.domain, rhs.domain, lhs.token, rhs.token)) <=> !may_move(lhs,rhs) && "
                              "!unsafe_table::contains(token, Cdc); zero errors otherwise; the unsafe table is asked exactly once and about `token`",
        "check_assign_clock_domain": "ensures dst.comptime.clock_domain and the var_paths entry of dst.path become Inferred(id) iff the destination was Implicit and id exists "
                                     "(always_ff: the current clock's id, else the source's id); nothing else of dst / var_paths changes; Explicit/Inferred/None destinations are never modified; "
                                     "error log == [invalid_clock_assignment if clock/reset typed in always_ff] ++ [mismatch(dst', x) for x in rhs, always_ff clock, each condition "
                                     "if !may_move(dst', x) && !cdc-block(token.beg)] in that order, lhs token = dst.token; one table lookup per check, about token.beg",
        "TokenRange::include": "requires (beg.line,beg.column) <= (end.line,end.column); ensures r == (beg.source is File/Generated of `path` && beg <= (line,column) <= end lexicographically)",
        "RangeTable::contains": "bounded (<= 1 range inserted with the real insert, <= 1 open block; two ranges do not finish in CBMC): contains(token, v) <=> token is a File token lying in some recorded range "
                                "of its file (closed interval) || an open block carries v",
    })
    res.samples.append({"obligation": "kani:cdc:check_error_iff_crossing_outside_unsafe_cdc",
                        "contract": "n_errors == (if !may_move(model(lhs), model(rhs)) && !token.in_unsafe_cdc {1} else {0}); last error == (lhs, rhs)"})
    res.samples.append({"obligation": "kani:cdc:include_is_closed_interval_in_file",
                        "contract": "include(path,line,column) == (in_file(beg.source,path) && pos_le(beg,(line,column)) && pos_le((line,column),end)) for beg <= end"})
    return [KaniJob("cdc", lib, hs, deps={}, items=items, trusted=TRUSTED, jobs=4, timeout=2400, per_harness_timeout=900)]


def replay(ctx, res, failure):
    """called when CBMC's concrete playback produced no input (it is slow: ~5 min per harness and has a fixed 600 s limit): run the SAME
    harness function natively on small-value-biased pseudo-random draws until it panics; prints FOUND {json}"""
    from vp.core import native_search
    from vp import kani_run
    if not isinstance(failure, dict) or "job" not in failure or "harness" not in failure:
        return None   # fallback / thorough call without a failed harness: nothing to search for
    job = failure["job"]
    names = [h.name for h in job.harnesses]
    table = "pub fn vp_harness(n: &str) -> Option<fn()> {\n    match n {\n" + "".join(
        '        "%s" => Some(%s as fn()),\n' % (h.split("::")[-1], h) for h in names) + "        _ => None,\n    }\n}\n"
    lib = re.sub(r"(?m)^(\s*(?:pub(?:\([a-z]+\))? )?mod (?!kani\b)\w+ \{[ \t]*)$", r"\1\n#[allow(unused_imports)] use crate::kani;", job.lib_rs)
    body = ("#![allow(dead_code, unused_imports, unused_variables, unused_mut, unused_parens, unused_macros, unreachable_code, unexpected_cfgs)]\n"
            + kani_run.SHIM + lib + "\n" + table + ctx.unit_file("cdc", "search.rs"))
    return native_search(ctx, "cdc", "cdc_" + failure["harness"].name.split("::")[-1][:40], body,
                         args=[failure["harness"].name.split("::")[-1], ctx.seed], timeout=600)
