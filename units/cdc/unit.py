"""U9 cdc - clock-domain decision kernel (C16). Back end: Kani/CBMC, complete (loop-free, symbolic usize ids)."""
import re
from vp.core import KaniJob
from vp.kani_run import Harness

SYM = "crates/analyzer/src/symbol.rs"
CHK = "crates/analyzer/src/conv/checker/clock_domain.rs"
UNS = "crates/analyzer/src/unsafe.rs"

# E1: the `use` lines of the real files are dropped; these fixed preludes bind the same names to the extracted items
# and to the harness stand-ins (units/cdc/harness.rs::standin).
SYMBOL_USE = ""
CHECKER_USE = """use crate::standin::{unsafe_table, AnalyzerError, Comptime, Context, Token};
use crate::unsafe_kind::Unsafe;
"""

TRUSTED = {
    r"kani::assume\(": "harness preconditions only: variant tag < 4 when drawing a symbolic ClockDomain; the hypothesis of each stated implication "
                       "(operands passed the check / domains differ / not inside the cdc block) - see contract_clauses",
}

# not pattern-scanned (no assume/stub involved) but part of the trusted base: stated in evidence via res.trusted
STANDINS = [
    "harness stand-in: records calls only: standin::Context (insert_error counts calls and keeps the last error; real: conv::Context::insert_error, which also merges MultipleAssignment errors)",
    "harness stand-in: records calls only: standin::AnalyzerError::mismatch_clock_domain (remembers its four arguments; real: builds a miette diagnostic)",
    "harness stand-in: records calls only: standin::Comptime (fields clock_domain, token - the only two check_clock_domain reads)",
    "harness stand-in: records calls only: standin::Token / standin::TokenRange (identity + the unsafe-table answer for that token)",
    "harness stand-in: records calls only: standin::unsafe_table::contains (returns the symbolic bool carried by the token asked about, counts calls; real: thread-local RangeTable<Unsafe> lookup)",
    "harness stand-in: records calls only: ClockDomain::to_string -> standin::DomText (real: Display impl doing a symbol_table lookup; only feeds the message text)",
    "module crate::r#unsafe is emitted as crate::unsafe_kind (name only; enum Unsafe is the extracted text)",
    "not covered: that every assignment/connection site calls check_clock_domain, domain propagation through conv/ir expression code, what RangeTable::contains answers",
]


def expand(text):
    return text.replace("#[vp_proof]", "#[cfg_attr(kani, kani::proof)]")


def build(ctx, res):
    sym, chk, uns = ctx.src(SYM), ctx.src(CHK), ctx.src(UNS)
    items = []

    def take(it):
        items.append(it)
        return it.render()

    sid = sym.item("struct", "SymbolId")
    sid.strip_derive("Serialize", "Deserialize")
    cd = sym.item("enum", "ClockDomain")
    cd.strip_derive("Serialize", "Deserialize")
    un = uns.item("enum", "Unsafe")
    un.strip_derive("Serialize", "Deserialize")
    fns = [sym.item("fn", f, impl="ClockDomain") for f in ("domain_id", "compatible", "merge")]
    chkf = chk.item("fn", "check_clock_domain")

    lib = "\n".join([
        "pub mod symbol {", SYMBOL_USE, take(sid), take(cd), "impl ClockDomain {"] + [take(f) for f in fns] + ["}", "}",
        "pub mod unsafe_kind {", take(un), "}",
        "pub mod checker {", CHECKER_USE, take(chkf), "}",
        expand(ctx.unit_file("cdc", "harness.rs")),
    ]) + "\n"

    raw = ctx.unit_file("cdc", "harness.rs")
    hs = []
    for n in re.findall(r"#\[vp_proof\]\s*pub fn (\w+)", raw):
        fn = "check_clock_domain" if n.startswith(("check_", "canary_check", "explicit_inferred_alike_in_check")) else \
             "ClockDomain::merge" if "merge" in n else "ClockDomain::compatible"
        hs.append(Harness("harness::" + n, kind="canary" if n.startswith("canary_") else "proof", fn=fn))
    for t in STANDINS:
        ent = "cdc: " + t
        if ent not in res.trusted:
            res.trusted.append(ent)
    res.clauses.update({
        "model": "Dom = Less (ClockDomain::None) | Anon (Implicit, the unnamed default domain) | Named(id) (Explicit(id) and Inferred(id) alike); "
                 "may_move(a,b) := a==Less || b==Less || a==b",
        "ClockDomain::compatible": "ensures r == may_move(model(self), model(x)); == (None on a side || both ids equal || neither has an id); symmetric; reflexive; "
                                   "Explicit(i)/Inferred(i) interchangeable on either side",
        "ClockDomain::domain_id": "ensures r == Some(id) for Named(id), None otherwise",
        "ClockDomain::merge": "ensures None is a two-sided identity; result is one of the operands; result has an id <=> some operand has one, and it is an operand's id; "
                              "result domain-less <=> both operands domain-less; Explicit/Inferred interchangeable w.r.t. domain_id and compatible of the result; "
                              "compatible(a,b) ==> merge(a,b) compatible with a and b, and any c incompatible with a or b is incompatible with merge(a,b)",
        "check_clock_domain": "ensures exactly one insert_error(mismatch_clock_domain(lhs.domain, rhs.domain, lhs.token, rhs.token)) <=> !may_move(lhs,rhs) && "
                              "!unsafe_table::contains(token, Cdc); zero errors otherwise; the unsafe table is asked exactly once and about `token`",
    })
    res.samples.append({"obligation": "kani:cdc:check_error_iff_crossing_outside_unsafe_cdc",
                        "contract": "n_errors == (if !may_move(model(lhs), model(rhs)) && !token.in_unsafe_cdc {1} else {0}); last error == (lhs, rhs)"})
    return [KaniJob("cdc", lib, hs, deps={}, items=items, trusted=TRUSTED, jobs=4, timeout=900, per_harness_timeout=300)]
