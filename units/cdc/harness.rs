// Unit `cdc`: clock-domain decision kernel (C16).
//
// Everything above this file in the generated crate is cut from /repo:
//   crate::symbol       SymbolId, ClockDomain, ClockDomain::{domain_id, compatible, merge}   (symbol.rs)
//   crate::unsafe_kind  enum Unsafe                                                          (unsafe.rs)
//   crate::checker      check_clock_domain                                                   (conv/checker/clock_domain.rs)
// This file supplies (a) the stand-ins `check_clock_domain` needs to compile with its body text unchanged,
// (b) an independent model of "clock domain" written from the property statement, (c) the harnesses.

// ---------------------------------------------------------------------------------------------------------
// (a) harness stand-ins: record calls only. Only the fields / methods the body of check_clock_domain touches.
// ---------------------------------------------------------------------------------------------------------
pub mod standin {
    use crate::symbol::ClockDomain;
    use crate::unsafe_kind::Unsafe;
    use std::sync::atomic::{AtomicUsize, Ordering};

    /// stand-in for veryl_parser::veryl_token::Token: an identity plus the answer the unsafe table would give
    /// for this very token (an independent symbolic bool per token, so asking about the wrong token is visible).
    #[derive(Clone, Copy, Debug, PartialEq, Eq)]
    pub struct Token {
        pub id: u32,
        pub vp_in_unsafe_cdc: bool,
    }
    /// stand-in for veryl_parser::token_range::TokenRange
    #[derive(Clone, Copy, Debug, PartialEq, Eq)]
    pub struct TokenRange {
        pub beg: Token,
        pub end: Token,
    }
    /// stand-in for crate::ir::Comptime: the two fields check_clock_domain reads
    #[derive(Clone, Copy, Debug)]
    pub struct Comptime {
        pub clock_domain: ClockDomain,
        pub token: TokenRange,
    }
    /// stand-in for the message text `ClockDomain::to_string()` (real: Display through a symbol-table lookup)
    #[derive(Clone, Copy, Debug, PartialEq, Eq)]
    pub struct DomText(pub ClockDomain);
    impl ClockDomain {
        pub fn to_string(&self) -> DomText {
            DomText(*self)
        }
    }
    /// stand-in for crate::analyzer_error::AnalyzerError: remembers what the constructor was given
    #[derive(Clone, Copy, Debug, PartialEq, Eq)]
    pub enum AnalyzerError {
        MismatchClockDomain { clock_domain: DomText, other_domain: DomText, token: TokenRange, other_token: TokenRange },
    }
    pub static MISMATCH_CTOR_CALLS: AtomicUsize = AtomicUsize::new(0);
    impl AnalyzerError {
        pub fn mismatch_clock_domain(clock_domain: &DomText, other_domain: &DomText, token: &TokenRange, other_token: &TokenRange) -> Self {
            MISMATCH_CTOR_CALLS.fetch_add(1, Ordering::Relaxed);
            AnalyzerError::MismatchClockDomain { clock_domain: *clock_domain, other_domain: *other_domain, token: *token, other_token: *other_token }
        }
    }
    /// stand-in for crate::conv::Context: counts insert_error calls and keeps the last error
    #[derive(Debug, Default)]
    pub struct Context {
        pub n_errors: usize,
        pub last: Option<AnalyzerError>,
    }
    impl Context {
        pub fn insert_error(&mut self, error: AnalyzerError) {
            self.n_errors += 1;
            self.last = Some(error);
        }
    }
    /// stand-in for crate::unsafe_table (thread-local RangeTable<Unsafe>): the answer is carried by the token asked about
    pub mod unsafe_table {
        use super::{Ordering, Token, Unsafe};
        pub static CONTAINS_CALLS: super::AtomicUsize = super::AtomicUsize::new(0);
        pub fn contains(token: &Token, value: Unsafe) -> bool {
            CONTAINS_CALLS.fetch_add(1, Ordering::Relaxed);
            match value {
                Unsafe::Cdc => token.vp_in_unsafe_cdc,
            }
        }
    }
}

// ---------------------------------------------------------------------------------------------------------
// (b) model, from the property statement: a signal is either domain-less (constants, parameters) or lives in
// exactly one clock domain; domains are the module's unnamed default domain `'_` or a named one; how a named
// domain was attached (written by the user / inferred) is not part of the model.
// "Data may move between a and b without error iff they are the same domain or at least one is domain-less."
// ---------------------------------------------------------------------------------------------------------
pub mod spec {
    use crate::symbol::{ClockDomain, SymbolId};

    #[derive(Clone, Copy, Debug, PartialEq, Eq)]
    pub enum Dom {
        Less,
        Anon,
        Named(usize),
    }
    pub fn model(c: &ClockDomain) -> Dom {
        match c {
            ClockDomain::Explicit(SymbolId(i)) => Dom::Named(*i),
            ClockDomain::Inferred(SymbolId(i)) => Dom::Named(*i),
            ClockDomain::Implicit => Dom::Anon,
            ClockDomain::None => Dom::Less,
        }
    }
    pub fn may_move(a: Dom, b: Dom) -> bool {
        a == Dom::Less || b == Dom::Less || a == b
    }
    pub fn id_of(d: Dom) -> Option<usize> {
        match d {
            Dom::Named(i) => Some(i),
            _ => None,
        }
    }

    /// tag 0..3 selects the variant, id is the symbol id (only primitives are drawn, so native replay works)
    pub fn mk(tag: u8, id: usize) -> ClockDomain {
        match tag {
            0 => ClockDomain::Explicit(SymbolId(id)),
            1 => ClockDomain::Inferred(SymbolId(id)),
            2 => ClockDomain::Implicit,
            _ => ClockDomain::None,
        }
    }
    pub fn any_cd() -> ClockDomain {
        let tag: u8 = kani::any();
        let id: usize = kani::any();
        kani::assume(tag < 4);
        mk(tag, id)
    }
}

// ---------------------------------------------------------------------------------------------------------
// (c) harnesses (loop-free, symbolic usize ids => complete)
// ---------------------------------------------------------------------------------------------------------
pub mod harness {
    use crate::checker::check_clock_domain;
    use crate::spec::*;
    use crate::standin::{AnalyzerError, Comptime, Context, DomText, Token, TokenRange};
    use crate::symbol::{ClockDomain, SymbolId};

    fn idv(c: &ClockDomain) -> Option<usize> {
        c.domain_id().map(|s| s.0)
    }

    /// symbolic call of the REAL check_clock_domain; three distinct tokens, each with its own unsafe(cdc) answer
    struct Call {
        lhs: Comptime,
        rhs: Comptime,
        tok: Token,
        ctx: Context,
        ctor_calls: usize,
        contains_calls: usize,
    }
    fn run_check(a: ClockDomain, b: ClockDomain) -> Call {
        let u: [bool; 5] = kani::any();
        let tok = Token { id: 0, vp_in_unsafe_cdc: u[0] };
        let lt = TokenRange { beg: Token { id: 1, vp_in_unsafe_cdc: u[1] }, end: Token { id: 2, vp_in_unsafe_cdc: u[2] } };
        let rt = TokenRange { beg: Token { id: 3, vp_in_unsafe_cdc: u[3] }, end: Token { id: 4, vp_in_unsafe_cdc: u[4] } };
        let lhs = Comptime { clock_domain: a, token: lt };
        let rhs = Comptime { clock_domain: b, token: rt };
        let mut ctx = Context::default();
        let c0 = crate::standin::MISMATCH_CTOR_CALLS.load(std::sync::atomic::Ordering::Relaxed);
        let k0 = crate::standin::unsafe_table::CONTAINS_CALLS.load(std::sync::atomic::Ordering::Relaxed);
        check_clock_domain(&mut ctx, &lhs, &rhs, &tok);
        let c1 = crate::standin::MISMATCH_CTOR_CALLS.load(std::sync::atomic::Ordering::Relaxed);
        let k1 = crate::standin::unsafe_table::CONTAINS_CALLS.load(std::sync::atomic::Ordering::Relaxed);
        Call { lhs, rhs, tok, ctx, ctor_calls: c1 - c0, contains_calls: k1 - k0 }
    }

    /// compatible(a,b) <=> same domain or one side domain-less; also in the DESIGN.md wording
    #[vp_proof]
    pub fn compatible_iff_same_domain_or_domainless() {
        let (a, b) = (any_cd(), any_cd());
        let r = a.compatible(&b);
        assert!(r == may_move(model(&a), model(&b)), "compatible differs from: same domain or at least one side domain-less");
        let a_none = matches!(a, ClockDomain::None);
        let b_none = matches!(b, ClockDomain::None);
        let design = a_none || b_none
            || (idv(&a).is_some() && idv(&b).is_some() && idv(&a) == idv(&b))
            || (idv(&a).is_none() && idv(&b).is_none());
        assert!(r == design, "compatible differs from: None || equal ids || neither carries an id");
    }
    /// domain_id: Some(id) exactly for the id-bearing variants, with that id
    #[vp_proof]
    pub fn domain_id_is_the_named_domain() {
        let a = any_cd();
        assert!(idv(&a) == id_of(model(&a)));
    }
    #[vp_proof]
    pub fn compatible_symmetric() {
        let (a, b) = (any_cd(), any_cd());
        assert!(a.compatible(&b) == b.compatible(&a));
    }
    #[vp_proof]
    pub fn compatible_reflexive() {
        let a = any_cd();
        assert!(a.compatible(&a));
    }
    /// two different named domains are never compatible, whatever the annotation kind; named vs unnamed neither
    #[vp_proof]
    pub fn different_domains_incompatible() {
        let (ta, tb): (u8, u8) = (kani::any(), kani::any());
        let (i, j): (usize, usize) = (kani::any(), kani::any());
        kani::assume(ta < 2 && tb < 2 && i != j);
        assert!(!mk(ta, i).compatible(&mk(tb, j)));
        assert!(!mk(ta, i).compatible(&ClockDomain::Implicit) && !ClockDomain::Implicit.compatible(&mk(ta, i)));
    }
    /// Explicit(i) and Inferred(i) are indistinguishable to compatible, merge(..).domain_id() and check_clock_domain
    #[vp_proof]
    pub fn explicit_inferred_alike() {
        let i: usize = kani::any();
        let c = any_cd();
        let (e, f) = (ClockDomain::Explicit(SymbolId(i)), ClockDomain::Inferred(SymbolId(i)));
        assert!(e.compatible(&c) == f.compatible(&c));
        assert!(c.compatible(&e) == c.compatible(&f));
        assert!(e.compatible(&f) && f.compatible(&e));
        assert!(e.domain_id() == f.domain_id());
        assert!(e.merge(&c).domain_id() == f.merge(&c).domain_id());
        assert!(c.merge(&e).domain_id() == c.merge(&f).domain_id());
        // a third party cannot tell the merged results apart either
        let d = any_cd();
        assert!(e.merge(&c).compatible(&d) == f.merge(&c).compatible(&d));
        assert!(c.merge(&e).compatible(&d) == c.merge(&f).compatible(&d));
    }
    #[vp_proof]
    pub fn explicit_inferred_alike_in_check() {
        let i: usize = kani::any();
        let c = any_cd();
        let (e, f) = (ClockDomain::Explicit(SymbolId(i)), ClockDomain::Inferred(SymbolId(i)));
        let unsafe_cdc: bool = kani::any();
        let tok = Token { id: 0, vp_in_unsafe_cdc: unsafe_cdc };
        let tr = TokenRange { beg: Token { id: 1, vp_in_unsafe_cdc: kani::any() }, end: Token { id: 2, vp_in_unsafe_cdc: kani::any() } };
        let n = |l: ClockDomain, r: ClockDomain| {
            let mut ctx = Context::default();
            check_clock_domain(&mut ctx, &Comptime { clock_domain: l, token: tr }, &Comptime { clock_domain: r, token: tr }, &tok);
            ctx.n_errors
        };
        assert!(n(e, c) == n(f, c));
        assert!(n(c, e) == n(c, f));
        assert!(n(e, f) == 0 && n(f, e) == 0);
    }
    /// merge: None is the identity (both sides)
    #[vp_proof]
    pub fn merge_none_is_identity() {
        let a = any_cd();
        assert!(ClockDomain::None.merge(&a) == a);
        assert!(a.merge(&ClockDomain::None) == a);
    }
    /// merge never loses an id-bearing side, invents no id, and returns one of its operands
    #[vp_proof]
    pub fn merge_keeps_a_named_domain() {
        let (a, b) = (any_cd(), any_cd());
        let m = a.merge(&b);
        assert!(m.domain_id().is_some() == (a.domain_id().is_some() || b.domain_id().is_some()), "an id-bearing side was lost (or an id invented)");
        if let Some(k) = idv(&m) {
            assert!(idv(&a) == Some(k) || idv(&b) == Some(k), "merged id is not one of the inputs' ids");
        }
        assert!(m == a || m == b);
        // a domain-less result only from two domain-less operands
        assert!((model(&m) == Dom::Less) == (model(&a) == Dom::Less && model(&b) == Dom::Less), "merge preferred None over a domain");
    }
    /// after a merge of operands that passed the check, every crossing either operand would have caused is still seen
    #[vp_proof]
    pub fn merge_keeps_later_crossings_visible() {
        let (a, b, c) = (any_cd(), any_cd(), any_cd());
        kani::assume(a.compatible(&b));
        let m = a.merge(&b);
        assert!(m.compatible(&a) && m.compatible(&b));
        if !a.compatible(&c) || !b.compatible(&c) {
            assert!(!m.compatible(&c), "a crossing became invisible after merge");
        }
    }
    /// check_clock_domain records exactly one mismatch error <=> the domains differ and the statement's token is not
    /// inside unsafe(cdc); none otherwise. The error names lhs/rhs in that order. The unsafe table is asked once,
    /// about the statement token (not about an operand token).
    #[vp_proof]
    pub fn check_error_iff_crossing_outside_unsafe_cdc() {
        let (a, b) = (any_cd(), any_cd());
        let r = run_check(a, b);
        let crossing = !may_move(model(&a), model(&b));
        let want = crossing && !r.tok.vp_in_unsafe_cdc;
        assert!(r.ctx.n_errors == if want { 1 } else { 0 }, "error count differs from: crossing && !in_unsafe_cdc");
        assert!(r.ctor_calls == r.ctx.n_errors);
        assert!(r.contains_calls == 1);
        assert!((!a.compatible(&b) && !r.tok.vp_in_unsafe_cdc) == want);
        if want {
            let e = AnalyzerError::MismatchClockDomain { clock_domain: DomText(a), other_domain: DomText(b), token: r.lhs.token, other_token: r.rhs.token };
            assert!(r.ctx.last == Some(e), "the recorded error does not describe lhs/rhs");
        } else {
            assert!(r.ctx.last.is_none());
        }
    }
    /// clause 1: every crossing between two different domains outside unsafe(cdc) is rejected
    #[vp_proof]
    pub fn check_rejects_every_unguarded_crossing() {
        let (a, b) = (any_cd(), any_cd());
        kani::assume(model(&a) != Dom::Less && model(&b) != Dom::Less && model(&a) != model(&b));
        let r = run_check(a, b);
        kani::assume(!r.tok.vp_in_unsafe_cdc);
        assert!(r.ctx.n_errors == 1);
    }
    /// clause 2: same domain (or a domain-less side), or inside unsafe(cdc) => no clock-domain error
    #[vp_proof]
    pub fn check_accepts_same_domain_and_guarded_crossings() {
        let (a, b) = (any_cd(), any_cd());
        let r = run_check(a, b);
        kani::assume(model(&a) == model(&b) || model(&a) == Dom::Less || model(&b) == Dom::Less || r.tok.vp_in_unsafe_cdc);
        assert!(r.ctx.n_errors == 0);
    }
    /// canary: the error case of the check is reachable (must FAIL)
    #[vp_proof]
    pub fn canary_check_error_reachable() {
        let (a, b) = (any_cd(), any_cd());
        let r = run_check(a, b);
        assert!(r.ctx.n_errors == 0);
    }
    /// canary: the assumption of merge_keeps_later_crossings_visible leaves a real crossing (must FAIL)
    #[vp_proof]
    pub fn canary_merge_crossing_reachable() {
        let (a, b, c) = (any_cd(), any_cd(), any_cd());
        kani::assume(a.compatible(&b));
        kani::assume(a.domain_id().is_some() && b.domain_id().is_some());
        assert!(a.merge(&b).compatible(&c));
    }
}
