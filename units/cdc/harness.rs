// Unit `cdc`: clock-domain decision kernel (C16).
//
// Everything above this file in the generated crate is cut from /repo:
//   crate::parser_types PathId, StrId, TokenId (resource_table.rs), TextId (text_table.rs), TokenSource + its PartialEq<PathId>,
//                       Token (veryl_token.rs), TokenRange + TokenRange::include (token_range.rs)
//   crate::symbol       SymbolId, ClockDomain, ClockDomain::{domain_id, compatible, merge}, Affiliation   (symbol.rs)
//   crate::unsafe_kind  enum Unsafe                                                                       (unsafe.rs)
//   crate::range_table  RangeTable<T> + insert / begin / end / get / contains                             (range_table.rs)
//   crate::checker      check_clock_domain (conv/checker/clock_domain.rs), check_assign_clock_domain (conv/utils.rs)
// This file supplies (a) the stand-ins the two check functions need to compile with their body text unchanged,
// (b) an independent model of "clock domain" and of "position inside a range" written from the property statement, (c) the harnesses.

// ---------------------------------------------------------------------------------------------------------
// (a) harness stand-ins: record calls only. Only the fields / methods the extracted bodies touch.
// ---------------------------------------------------------------------------------------------------------
pub mod standin {
    use crate::parser_types::{StrId, Token, TokenId, TokenRange, TokenSource};
    use crate::symbol::{Affiliation, ClockDomain};
    use crate::unsafe_kind::Unsafe;
    use std::sync::atomic::{AtomicBool, AtomicUsize, Ordering};

    /// a real `Token` with a concrete identity; line/column irrelevant for the decision harnesses
    pub fn mk_token(id: usize) -> Token {
        Token { id: TokenId(id), text: StrId(0), line: 1, column: 1, length: 1, pos: 0, source: TokenSource::Builtin }
    }
    pub fn mk_range(id: usize) -> TokenRange {
        TokenRange { beg: mk_token(id), end: mk_token(id + 1) }
    }

    /// stand-in for crate::ir::Type: the two predicates and the text check_assign_clock_domain asks for
    #[derive(Clone, Copy, Debug, PartialEq, Eq)]
    pub struct Type {
        pub vp_clock: bool,
        pub vp_reset: bool,
    }
    #[derive(Clone, Copy, Debug, PartialEq, Eq)]
    pub struct TypeText(pub Type);
    impl Type {
        pub fn is_clock(&self) -> bool {
            self.vp_clock
        }
        pub fn is_reset(&self) -> bool {
            self.vp_reset
        }
        pub fn to_string(&self) -> TypeText {
            TypeText(*self)
        }
    }
    /// stand-in for crate::ir::Comptime: the three fields the check functions read / write
    #[derive(Clone, Copy, Debug, PartialEq, Eq)]
    pub struct Comptime {
        pub r#type: Type,
        pub clock_domain: ClockDomain,
        pub token: TokenRange,
    }
    #[derive(Clone, Copy, Debug, PartialEq, Eq)]
    pub struct VarPath(pub u32);
    #[derive(Clone, Copy, Debug, PartialEq, Eq)]
    pub struct VarId(pub u32);
    /// stand-in for crate::ir::AssignDestination: comptime, path, token
    #[derive(Clone, Copy, Debug, PartialEq, Eq)]
    pub struct AssignDestination {
        pub path: VarPath,
        pub comptime: Comptime,
        pub token: TokenRange,
    }
    /// stand-in for the message text `ClockDomain::to_string()` (real: Display through a symbol-table lookup)
    #[derive(Clone, Copy, Debug, PartialEq, Eq)]
    pub struct DomText(pub ClockDomain);
    impl ClockDomain {
        pub fn to_string(&self) -> DomText {
            DomText(*self)
        }
    }
    /// stand-in for crate::analyzer_error::AnalyzerError: remembers what the constructors were given
    #[derive(Clone, Copy, Debug, PartialEq, Eq)]
    pub enum AnalyzerError {
        MismatchClockDomain { clock_domain: DomText, other_domain: DomText, token: TokenRange, other_token: TokenRange },
        InvalidClockAssignment { kind: TypeText, token: TokenRange },
    }
    pub static MISMATCH_CTOR_CALLS: AtomicUsize = AtomicUsize::new(0);
    impl AnalyzerError {
        pub fn mismatch_clock_domain(clock_domain: &DomText, other_domain: &DomText, token: &TokenRange, other_token: &TokenRange) -> Self {
            MISMATCH_CTOR_CALLS.fetch_add(1, Ordering::Relaxed);
            AnalyzerError::MismatchClockDomain { clock_domain: *clock_domain, other_domain: *other_domain, token: *token, other_token: *other_token }
        }
        pub fn invalid_clock_assignment(kind: &TypeText, token: &TokenRange) -> Self {
            AnalyzerError::InvalidClockAssignment { kind: *kind, token: *token }
        }
    }
    /// stand-in for Context::var_paths (real: HashMap<VarPath, (VarId, Comptime)>): one entry, lookups counted
    #[derive(Debug, Default)]
    pub struct VarPaths {
        pub slot: Option<(VarPath, (VarId, Comptime))>,
        pub get_mut_calls: usize,
    }
    impl VarPaths {
        pub fn get_mut(&mut self, k: &VarPath) -> Option<&mut (VarId, Comptime)> {
            self.get_mut_calls += 1;
            match &mut self.slot {
                Some((p, v)) if p == k => Some(v),
                _ => None,
            }
        }
    }
    /// stand-in for Context::condition_domains (real: Vec<Comptime>): at most two entries, no heap; `clone()` + by-value iteration is all the body uses
    #[derive(Clone, Copy, Debug, Default)]
    pub struct CondList {
        pub items: [Option<Comptime>; 2],
        pub len: usize,
    }
    impl CondList {
        pub fn push(&mut self, c: Comptime) {
            self.items[self.len] = Some(c);
            self.len += 1;
        }
    }
    pub struct CondIter {
        list: CondList,
        next: usize,
    }
    impl Iterator for CondIter {
        type Item = Comptime;
        fn next(&mut self) -> Option<Comptime> {
            if self.next < self.list.len {
                self.next += 1;
                self.list.items[self.next - 1]
            } else {
                None
            }
        }
    }
    impl IntoIterator for CondList {
        type Item = Comptime;
        type IntoIter = CondIter;
        fn into_iter(self) -> CondIter {
            CondIter { list: self, next: 0 }
        }
    }
    /// stand-in for crate::conv::Context: error log (in order), innermost affiliation, current clock, condition domains, var_paths
    #[derive(Debug, Default)]
    pub struct Context {
        pub n_errors: usize,
        pub last: Option<AnalyzerError>,
        pub log: [Option<AnalyzerError>; 6],
        pub vp_affiliation: Option<Affiliation>,
        pub current_clock: Option<Comptime>,
        pub condition_domains: CondList,
        pub var_paths: VarPaths,
    }
    impl Context {
        pub fn insert_error(&mut self, error: AnalyzerError) {
            if self.n_errors < 6 {
                self.log[self.n_errors] = Some(error);
            }
            self.n_errors += 1;
            self.last = Some(error);
        }
        /// real: `self.affiliation.last() == Some(&value)`
        pub fn is_affiliated(&self, value: Affiliation) -> bool {
            self.vp_affiliation == Some(value)
        }
    }
    /// stand-in for crate::unsafe_table (thread-local RangeTable<Unsafe>) in the decision harnesses: the answer for a token is an
    /// independent symbolic bool per token identity (so asking about the wrong token is visible); calls and the last token asked are recorded.
    /// The real lookup (RangeTable::get / TokenRange::include) is under contract separately below.
    pub mod unsafe_table {
        use super::{AtomicBool, AtomicUsize, Ordering, Token, Unsafe};
        pub static CONTAINS_CALLS: AtomicUsize = AtomicUsize::new(0);
        pub static ASKED_OTHER_TOKEN: AtomicUsize = AtomicUsize::new(0);
        pub static ORACLE: [AtomicBool; 8] = [const { AtomicBool::new(false) }; 8];
        pub fn set_oracle(u: [bool; 8]) {
            let mut i = 0;
            while i < 8 {
                ORACLE[i].store(u[i], Ordering::Relaxed);
                i += 1;
            }
        }
        pub fn contains(token: &Token, value: Unsafe) -> bool {
            CONTAINS_CALLS.fetch_add(1, Ordering::Relaxed);
            if token.id.0 != 0 {
                ASKED_OTHER_TOKEN.fetch_add(1, Ordering::Relaxed);
            }
            match value {
                Unsafe::Cdc => ORACLE[token.id.0 & 7].load(Ordering::Relaxed),
            }
        }
    }
}

/// stand-in for the analyzer's `HashMap` alias (fxhash::FxHashMap) inside the extracted RangeTable: a finite map as an association list;
/// only `entry(k).and_modify(f).or_insert(v)`, `get(&k)` and Default/Clone/Debug are needed. (hashbrown itself does not finish in CBMC.)
pub mod vpmap {
    #[derive(Clone, Debug)]
    pub struct HashMap<K, V> {
        pub slots: Vec<(K, V)>,
    }
    impl<K, V> Default for HashMap<K, V> {
        fn default() -> Self {
            Self { slots: Vec::new() }
        }
    }
    pub enum Entry<'a, K, V> {
        Occupied(&'a mut V),
        Vacant(&'a mut Vec<(K, V)>, K),
    }
    impl<K: PartialEq, V> HashMap<K, V> {
        fn find(&self, k: &K) -> Option<usize> {
            let mut i = 0;
            while i < self.slots.len() {
                if self.slots[i].0 == *k {
                    return Some(i);
                }
                i += 1;
            }
            None
        }
        pub fn entry(&mut self, k: K) -> Entry<'_, K, V> {
            match self.find(&k) {
                Some(i) => Entry::Occupied(&mut self.slots[i].1),
                None => Entry::Vacant(&mut self.slots, k),
            }
        }
        pub fn get(&self, k: &K) -> Option<&V> {
            match self.find(k) {
                Some(i) => Some(&self.slots[i].1),
                None => None,
            }
        }
    }
    impl<'a, K, V> Entry<'a, K, V> {
        pub fn and_modify<F: FnOnce(&mut V)>(self, f: F) -> Self {
            match self {
                Entry::Occupied(v) => {
                    f(v);
                    Entry::Occupied(v)
                }
                e => e,
            }
        }
        pub fn or_insert(self, default: V) -> &'a mut V {
            match self {
                Entry::Occupied(v) => v,
                Entry::Vacant(slots, k) => {
                    slots.push((k, default));
                    let n = slots.len() - 1;
                    &mut slots[n].1
                }
            }
        }
    }
}

// ---------------------------------------------------------------------------------------------------------
// (b) model, from the property statement: a signal is either domain-less (constants, parameters) or lives in
// exactly one clock domain; domains are the module's unnamed default domain `'_` or a named one; how a named
// domain was attached (written by the user / inferred) is not part of the model.
// "Data may move between a and b without error iff they are the same domain or at least one is domain-less."
// A position lies inside an `unsafe (cdc) { .. }` block iff it is in the block's file and lies in the closed
// interval [first token, last token] in lexicographic (line, column) order.
// ---------------------------------------------------------------------------------------------------------
pub mod spec {
    use crate::parser_types::{PathId, TokenSource};
    use crate::symbol::{ClockDomain, SymbolId};

    #[derive(Clone, Copy, Debug, PartialEq, Eq)]
    pub enum Dom {
        Less,
        Anon,
        Named(usize),
    }
    pub fn model(c: &ClockDomain) -> Dom {
        match c {
            ClockDomain::Explicit(SymbolId(i)) => Dom::Named(*i),
            ClockDomain::Inferred(SymbolId(i)) => Dom::Named(*i),
            ClockDomain::Implicit => Dom::Anon,
            ClockDomain::None => Dom::Less,
        }
    }
    pub fn may_move(a: Dom, b: Dom) -> bool {
        a == Dom::Less || b == Dom::Less || a == b
    }
    pub fn id_of(d: Dom) -> Option<usize> {
        match d {
            Dom::Named(i) => Some(i),
            _ => None,
        }
    }

    /// tag 0..3 selects the variant, id is the symbol id (only primitives are drawn, so native replay works)
    pub fn mk(tag: u8, id: usize) -> ClockDomain {
        match tag {
            0 => ClockDomain::Explicit(SymbolId(id)),
            1 => ClockDomain::Inferred(SymbolId(id)),
            2 => ClockDomain::Implicit,
            _ => ClockDomain::None,
        }
    }
    pub fn any_cd() -> ClockDomain {
        let tag: u8 = kani::any();
        let id: usize = kani::any();
        kani::assume(tag < 4);
        mk(tag, id)
    }

    /// lexicographic (line, column) order
    pub fn pos_le(l1: u32, c1: u32, l2: u32, c2: u32) -> bool {
        l1 < l2 || (l1 == l2 && c1 <= c2)
    }
    /// the file a token source belongs to, if any
    pub fn file_of(s: &TokenSource) -> Option<usize> {
        match s {
            TokenSource::File { path, .. } => Some(path.0),
            TokenSource::Generated(p) => Some(p.0),
            TokenSource::Builtin => None,
            TokenSource::External => None,
        }
    }
    pub fn in_file(s: &TokenSource, path: PathId) -> bool {
        file_of(s) == Some(path.0)
    }
}

// ---------------------------------------------------------------------------------------------------------
// (c) harnesses (loop-free, symbolic usize ids / u32 positions => complete, except where labelled bounded)
// ---------------------------------------------------------------------------------------------------------
pub mod harness {
    use crate::checker::{check_assign_clock_domain, check_clock_domain};
    use crate::parser_types::{PathId, StrId, TextId, Token, TokenId, TokenRange, TokenSource};
    use crate::range_table::RangeTable;
    use crate::spec::*;
    use crate::standin::unsafe_table::{set_oracle, ASKED_OTHER_TOKEN, CONTAINS_CALLS};
    use crate::standin::{mk_range, mk_token, AnalyzerError, AssignDestination, Comptime, Context, DomText, Type, TypeText, VarId, VarPath, MISMATCH_CTOR_CALLS};
    use crate::symbol::{Affiliation, ClockDomain, SymbolId};
    use crate::unsafe_kind::Unsafe;
    use std::sync::atomic::Ordering::Relaxed;

    fn idv(c: &ClockDomain) -> Option<usize> {
        c.domain_id().map(|s| s.0)
    }
    const PLAIN: Type = Type { vp_clock: false, vp_reset: false };
    fn comptime(d: ClockDomain, tok: usize) -> Comptime {
        Comptime { r#type: PLAIN, clock_domain: d, token: mk_range(tok) }
    }
    fn mismatch(l: &Comptime, r: &Comptime) -> AnalyzerError {
        AnalyzerError::MismatchClockDomain { clock_domain: DomText(l.clock_domain), other_domain: DomText(r.clock_domain), token: l.token, other_token: r.token }
    }

    /// symbolic call of the REAL check_clock_domain; the statement token has id 0, operand tokens ids 1..4, each id its own unsafe(cdc) answer
    struct Call {
        lhs: Comptime,
        rhs: Comptime,
        in_cdc_block: bool,
        ctx: Context,
        ctor_calls: usize,
        contains_calls: usize,
        asked_other: usize,
    }
    fn run_check(a: ClockDomain, b: ClockDomain) -> Call {
        let u: [bool; 8] = kani::any();
        set_oracle(u);
        let tok = mk_token(0);
        let lhs = comptime(a, 1);
        let rhs = comptime(b, 3);
        let mut ctx = Context::default();
        let (c0, k0, o0) = (MISMATCH_CTOR_CALLS.load(Relaxed), CONTAINS_CALLS.load(Relaxed), ASKED_OTHER_TOKEN.load(Relaxed));
        check_clock_domain(&mut ctx, &lhs, &rhs, &tok);
        let (c1, k1, o1) = (MISMATCH_CTOR_CALLS.load(Relaxed), CONTAINS_CALLS.load(Relaxed), ASKED_OTHER_TOKEN.load(Relaxed));
        Call { lhs, rhs, in_cdc_block: u[0], ctx, ctor_calls: c1 - c0, contains_calls: k1 - k0, asked_other: o1 - o0 }
    }

    // ---- ClockDomain -------------------------------------------------------------------------------------
    /// compatible(a,b) <=> same domain or one side domain-less; also in the DESIGN.md wording
    #[vp_proof]
    pub fn compatible_iff_same_domain_or_domainless() {
        let (a, b) = (any_cd(), any_cd());
        let r = a.compatible(&b);
        assert!(r == may_move(model(&a), model(&b)), "compatible differs from: same domain or at least one side domain-less");
        let a_none = matches!(a, ClockDomain::None);
        let b_none = matches!(b, ClockDomain::None);
        let design = a_none || b_none
            || (idv(&a).is_some() && idv(&b).is_some() && idv(&a) == idv(&b))
            || (idv(&a).is_none() && idv(&b).is_none());
        assert!(r == design, "compatible differs from: None || equal ids || neither carries an id");
    }
    /// domain_id: Some(id) exactly for the id-bearing variants, with that id
    #[vp_proof]
    pub fn domain_id_is_the_named_domain() {
        let a = any_cd();
        assert!(idv(&a) == id_of(model(&a)));
    }
    #[vp_proof]
    pub fn compatible_symmetric() {
        let (a, b) = (any_cd(), any_cd());
        assert!(a.compatible(&b) == b.compatible(&a));
    }
    #[vp_proof]
    pub fn compatible_reflexive() {
        let a = any_cd();
        assert!(a.compatible(&a));
    }
    /// two different named domains are never compatible, whatever the annotation kind; named vs unnamed neither
    #[vp_proof]
    pub fn different_domains_incompatible() {
        let (ta, tb): (u8, u8) = (kani::any(), kani::any());
        let (i, j): (usize, usize) = (kani::any(), kani::any());
        kani::assume(ta < 2 && tb < 2 && i != j);
        assert!(!mk(ta, i).compatible(&mk(tb, j)));
        assert!(!mk(ta, i).compatible(&ClockDomain::Implicit) && !ClockDomain::Implicit.compatible(&mk(ta, i)));
    }
    /// Explicit(i) and Inferred(i) are indistinguishable to compatible, merge(..).domain_id() and check_clock_domain
    #[vp_proof]
    pub fn explicit_inferred_alike() {
        let i: usize = kani::any();
        let c = any_cd();
        let (e, f) = (ClockDomain::Explicit(SymbolId(i)), ClockDomain::Inferred(SymbolId(i)));
        assert!(e.compatible(&c) == f.compatible(&c));
        assert!(c.compatible(&e) == c.compatible(&f));
        assert!(e.compatible(&f) && f.compatible(&e));
        assert!(e.domain_id() == f.domain_id());
        assert!(e.merge(&c).domain_id() == f.merge(&c).domain_id());
        assert!(c.merge(&e).domain_id() == c.merge(&f).domain_id());
        // a third party cannot tell the merged results apart either
        let d = any_cd();
        assert!(e.merge(&c).compatible(&d) == f.merge(&c).compatible(&d));
        assert!(c.merge(&e).compatible(&d) == c.merge(&f).compatible(&d));
    }
    #[vp_proof]
    pub fn explicit_inferred_alike_in_check() {
        let i: usize = kani::any();
        let c = any_cd();
        let (e, f) = (ClockDomain::Explicit(SymbolId(i)), ClockDomain::Inferred(SymbolId(i)));
        let u: [bool; 8] = kani::any();
        set_oracle(u);
        let tok = mk_token(0);
        let n = |l: ClockDomain, r: ClockDomain| {
            let mut ctx = Context::default();
            check_clock_domain(&mut ctx, &comptime(l, 1), &comptime(r, 3), &tok);
            ctx.n_errors
        };
        assert!(n(e, c) == n(f, c));
        assert!(n(c, e) == n(c, f));
        assert!(n(e, f) == 0 && n(f, e) == 0);
    }
    /// merge: None is the identity (both sides)
    #[vp_proof]
    pub fn merge_none_is_identity() {
        let a = any_cd();
        assert!(ClockDomain::None.merge(&a) == a);
        assert!(a.merge(&ClockDomain::None) == a);
    }
    /// merge never loses an id-bearing side, invents no id, and returns one of its operands
    #[vp_proof]
    pub fn merge_keeps_a_named_domain() {
        let (a, b) = (any_cd(), any_cd());
        let m = a.merge(&b);
        assert!(m.domain_id().is_some() == (a.domain_id().is_some() || b.domain_id().is_some()), "an id-bearing side was lost (or an id invented)");
        if let Some(k) = idv(&m) {
            assert!(idv(&a) == Some(k) || idv(&b) == Some(k), "merged id is not one of the inputs' ids");
        }
        assert!(m == a || m == b);
        // a domain-less result only from two domain-less operands
        assert!((model(&m) == Dom::Less) == (model(&a) == Dom::Less && model(&b) == Dom::Less), "merge preferred None over a domain");
    }
    /// after a merge of operands that passed the check, every crossing either operand would have caused is still seen
    #[vp_proof]
    pub fn merge_keeps_later_crossings_visible() {
        let (a, b, c) = (any_cd(), any_cd(), any_cd());
        kani::assume(a.compatible(&b));
        let m = a.merge(&b);
        assert!(m.compatible(&a) && m.compatible(&b));
        if !a.compatible(&c) || !b.compatible(&c) {
            assert!(!m.compatible(&c), "a crossing became invisible after merge");
        }
    }

    // ---- check_clock_domain --------------------------------------------------------------------------------
    /// check_clock_domain records exactly one mismatch error <=> the domains differ and the statement's token is not
    /// inside unsafe(cdc); none otherwise. The error names lhs/rhs in that order. The unsafe table is asked once,
    /// about the statement token (not about an operand token).
    #[vp_proof]
    pub fn check_error_iff_crossing_outside_unsafe_cdc() {
        let (a, b) = (any_cd(), any_cd());
        let r = run_check(a, b);
        let crossing = !may_move(model(&a), model(&b));
        let want = crossing && !r.in_cdc_block;
        assert!(r.ctx.n_errors == if want { 1 } else { 0 }, "error count differs from: crossing && !in_unsafe_cdc");
        assert!(r.ctor_calls == r.ctx.n_errors);
        assert!(r.contains_calls == 1 && r.asked_other == 0, "the cdc block table is not asked exactly once about the statement token");
        assert!((!a.compatible(&b) && !r.in_cdc_block) == want);
        if want {
            assert!(r.ctx.last == Some(mismatch(&r.lhs, &r.rhs)), "the recorded error does not describe lhs/rhs");
        } else {
            assert!(r.ctx.last.is_none());
        }
    }
    /// clause 1: every crossing between two different domains outside unsafe(cdc) is rejected
    #[vp_proof]
    pub fn check_rejects_every_unguarded_crossing() {
        let (a, b) = (any_cd(), any_cd());
        kani::assume(model(&a) != Dom::Less && model(&b) != Dom::Less && model(&a) != model(&b));
        let r = run_check(a, b);
        kani::assume(!r.in_cdc_block);
        assert!(r.ctx.n_errors == 1);
    }
    /// clause 2: same domain (or a domain-less side), or inside unsafe(cdc) => no clock-domain error
    #[vp_proof]
    pub fn check_accepts_same_domain_and_guarded_crossings() {
        let (a, b) = (any_cd(), any_cd());
        let r = run_check(a, b);
        kani::assume(model(&a) == model(&b) || model(&a) == Dom::Less || model(&b) == Dom::Less || r.in_cdc_block);
        assert!(r.ctx.n_errors == 0);
    }

    // ---- check_assign_clock_domain ---------------------------------------------------------------------------
    /// one symbolic call of the REAL check_assign_clock_domain with `nc` (concrete, 0..=2) enclosing statement conditions
    struct Assign {
        d0: ClockDomain,
        dst0: AssignDestination,
        dst: AssignDestination,
        rhs: Comptime,
        ff: bool,
        clock: Option<Comptime>,
        conds: [Comptime; 2],
        slot0: Option<(VarPath, (VarId, Comptime))>,
        in_cdc_block: bool,
        ctx: Context,
        contains_calls: usize,
        asked_other: usize,
    }
    fn run_assign(d: ClockDomain, nc: usize) -> Assign {
        let u: [bool; 8] = kani::any();
        set_oracle(u);
        let ty = Type { vp_clock: kani::any(), vp_reset: kani::any() };
        let dst0 = AssignDestination { path: VarPath(7), comptime: Comptime { r#type: ty, clock_domain: d, token: mk_range(5) }, token: mk_range(1) };
        let rhs = comptime(any_cd(), 3);
        let aff: u8 = kani::any();
        let affiliation = match aff & 3 {
            0 => Some(Affiliation::AlwaysFf),
            1 => Some(Affiliation::AlwaysComb),
            2 => Some(Affiliation::Module),
            _ => None,
        };
        let ff = aff & 3 == 0;
        let has_clock: bool = kani::any();
        let clock_cd = any_cd();
        let clock = if has_clock { Some(Comptime { r#type: Type { vp_clock: true, vp_reset: false }, clock_domain: clock_cd, token: mk_range(6) }) } else { None };
        let conds = [comptime(any_cd(), 2), comptime(any_cd(), 4)];
        let slot_kind: u8 = kani::any();
        let slot_cd = any_cd();
        let slot0 = match slot_kind & 3 {
            0 => None,
            1 => Some((VarPath(8), (VarId(1), comptime(slot_cd, 5)))),
            _ => Some((VarPath(7), (VarId(2), comptime(slot_cd, 5)))),
        };
        let mut ctx = Context::default();
        ctx.vp_affiliation = affiliation;
        ctx.current_clock = clock;
        ctx.var_paths.slot = slot0;
        let mut k = 0;
        while k < nc {
            ctx.condition_domains.push(conds[k]);
            k += 1;
        }
        let mut dst = dst0;
        let stmt = TokenRange { beg: mk_token(0), end: mk_token(7) };
        let (k0, o0) = (CONTAINS_CALLS.load(Relaxed), ASKED_OTHER_TOKEN.load(Relaxed));
        check_assign_clock_domain(&mut ctx, &mut dst, &rhs, &stmt);
        let (k1, o1) = (CONTAINS_CALLS.load(Relaxed), ASKED_OTHER_TOKEN.load(Relaxed));
        Assign { d0: d, dst0, dst, rhs, ff, clock, conds, slot0, in_cdc_block: u[0], ctx, contains_calls: k1 - k0, asked_other: o1 - o0 }
    }
    /// the id the destination may be inferred to, per the source comments: in always_ff the clock's domain, otherwise the source's
    fn inference_source(a: &Assign) -> Option<usize> {
        if a.ff {
            match &a.clock {
                Some(c) => id_of(model(&c.clock_domain)),
                None => None,
            }
        } else {
            id_of(model(&a.rhs.clock_domain))
        }
    }
    /// full contract for nc conditions: (i) the destination domain is rewritten only when it is Implicit and an id exists, then to
    /// Inferred(id) in dst.comptime and in the var_paths entry of dst.path (no other entry, nothing else of dst); (ii) the error log is exactly:
    /// [invalid clock assignment if clock/reset typed && always_ff], then one mismatch per crossing outside unsafe(cdc) of the (possibly
    /// inferred) destination against rhs, then against the always_ff clock, then against each enclosing condition, in that order;
    /// (iii) the cdc block table is asked once per check, always about the statement's first token.
    fn assign_contract(nc: usize) {
        let d = any_cd();
        let a = run_assign(d, nc);
        let infer = if model(&d) == Dom::Anon { inference_source(&a) } else { None };
        let d1 = match infer {
            Some(id) => ClockDomain::Inferred(SymbolId(id)),
            None => d,
        };
        // (i)
        assert!(a.dst.comptime.clock_domain == d1, "destination domain after the call");
        assert!(a.dst.path == a.dst0.path && a.dst.token == a.dst0.token && a.dst.comptime.r#type == a.dst0.comptime.r#type && a.dst.comptime.token == a.dst0.comptime.token);
        match (a.slot0, a.ctx.var_paths.slot) {
            (None, None) => {}
            (Some((p0, (v0, c0))), Some((p1, (v1, c1)))) => {
                assert!(p0 == p1 && v0 == v1 && c0.r#type == c1.r#type && c0.token == c1.token);
                let want = if p0 == a.dst0.path && infer.is_some() { d1 } else { c0.clock_domain };
                assert!(c1.clock_domain == want, "var_paths entry after the call");
            }
            _ => assert!(false, "var_paths entry appeared or disappeared"),
        }
        assert!(a.ctx.var_paths.get_mut_calls == if infer.is_some() { 1 } else { 0 });
        // (ii)
        let lhs = Comptime { r#type: a.dst0.comptime.r#type, clock_domain: d1, token: a.dst0.token };
        let mut want: [Option<AnalyzerError>; 6] = [None; 6];
        let mut n = 0;
        if (a.dst0.comptime.r#type.vp_clock || a.dst0.comptime.r#type.vp_reset) && a.ff {
            want[n] = Some(AnalyzerError::InvalidClockAssignment { kind: TypeText(a.dst0.comptime.r#type), token: TokenRange { beg: mk_token(0), end: mk_token(7) } });
            n += 1;
        }
        let crossing = |x: &Comptime| !may_move(model(&d1), model(&x.clock_domain)) && !a.in_cdc_block;
        if crossing(&a.rhs) {
            want[n] = Some(mismatch(&lhs, &a.rhs));
            n += 1;
        }
        let mut checks = 1;
        if a.ff {
            if let Some(c) = &a.clock {
                checks += 1;
                if crossing(c) {
                    want[n] = Some(mismatch(&lhs, c));
                    n += 1;
                }
            }
        }
        let mut k = 0;
        while k < nc {
            checks += 1;
            if crossing(&a.conds[k]) {
                want[n] = Some(mismatch(&lhs, &a.conds[k]));
                n += 1;
            }
            k += 1;
        }
        assert!(a.ctx.n_errors == n, "number of recorded errors");
        assert!(a.ctx.log == want, "recorded errors (kind, operands, order)");
        // (iii)
        assert!(a.contains_calls == checks && a.asked_other == 0, "cdc block table consulted with another token or another number of times");
    }
    #[vp_proof]
    pub fn assign_contract_no_condition() {
        assign_contract(0);
    }
    #[vp_bounded]
    pub fn assign_contract_one_condition() {
        assign_contract(1);
    }
    #[vp_bounded]
    pub fn assign_contract_two_conditions() {
        assign_contract(2);
    }
    /// a destination whose domain is Explicit(i), Inferred(i) or None is never modified, nor is any var_paths entry (stated directly)
    #[vp_proof]
    pub fn assign_never_rewrites_an_annotated_destination() {
        let d = any_cd();
        kani::assume(model(&d) != Dom::Anon);
        let a = run_assign(d, 0);
        assert!(a.dst == a.dst0, "an Explicit/Inferred/None destination was modified");
        assert!(a.ctx.var_paths.slot == a.slot0 && a.ctx.var_paths.get_mut_calls == 0, "var_paths was touched for an annotated destination");
    }
    /// an Explicit(i) or Inferred(i) destination fed from a different named domain outside unsafe(cdc): the mismatch (dst, rhs) is recorded
    #[vp_proof]
    pub fn assign_reports_crossing_into_annotated_destination() {
        let (t, i): (u8, usize) = (kani::any(), kani::any());
        kani::assume(t < 2);
        let d = mk(t, i);
        let a = run_assign(d, 0);
        kani::assume(!a.in_cdc_block);
        kani::assume(!(a.dst0.comptime.r#type.vp_clock || a.dst0.comptime.r#type.vp_reset));
        if let Dom::Named(j) = model(&a.rhs.clock_domain) {
            if j != i {
                let lhs = Comptime { r#type: a.dst0.comptime.r#type, clock_domain: d, token: a.dst0.token };
                assert!(a.ctx.n_errors >= 1 && a.ctx.log[0] == Some(mismatch(&lhs, &a.rhs)), "crossing into an annotated destination not reported");
            }
        }
    }
    /// Explicit(i) and Inferred(i) destinations behave alike: same number of errors for the same surroundings, same domain id afterwards
    #[vp_proof]
    pub fn assign_explicit_inferred_destinations_alike() {
        let i: usize = kani::any();
        let u: [bool; 8] = kani::any();
        set_oracle(u);
        let rhs = comptime(any_cd(), 3);
        let ff: bool = kani::any();
        let clock = if kani::any() { Some(comptime(any_cd(), 6)) } else { None };
        let run = |d: ClockDomain| {
            let mut ctx = Context::default();
            ctx.vp_affiliation = if ff { Some(Affiliation::AlwaysFf) } else { Some(Affiliation::AlwaysComb) };
            ctx.current_clock = clock;
            let mut dst = AssignDestination { path: VarPath(7), comptime: comptime(d, 5), token: mk_range(1) };
            check_assign_clock_domain(&mut ctx, &mut dst, &rhs, &TokenRange { beg: mk_token(0), end: mk_token(7) });
            (ctx.n_errors, idv(&dst.comptime.clock_domain), dst.comptime.clock_domain)
        };
        let e = run(ClockDomain::Explicit(SymbolId(i)));
        let f = run(ClockDomain::Inferred(SymbolId(i)));
        assert!(e.0 == f.0, "Explicit and Inferred destinations produce different error counts");
        assert!(e.1 == Some(i) && f.1 == Some(i), "an annotated destination changed its domain");
        assert!(e.2 == ClockDomain::Explicit(SymbolId(i)) && f.2 == ClockDomain::Inferred(SymbolId(i)));
    }

    // ---- TokenRange::include / RangeTable ------------------------------------------------------------------------
    fn any_source() -> TokenSource {
        let (k, p, t): (u8, usize, usize) = (kani::any(), kani::any(), kani::any());
        match k & 3 {
            0 => TokenSource::File { path: PathId(p), text: TextId(t) },
            1 => TokenSource::Generated(PathId(p)),
            2 => TokenSource::Builtin,
            _ => TokenSource::External,
        }
    }
    fn any_token() -> Token {
        Token { id: TokenId(kani::any()), text: StrId(kani::any()), line: kani::any(), column: kani::any(), length: kani::any(), pos: kani::any(), source: any_source() }
    }
    /// include(path, line, column) <=> the range is in that file and beg <= (line, column) <= end in lexicographic (line, column) order,
    /// for every well-formed range (beg <= end); symbolic u32 lines and columns
    #[vp_proof]
    pub fn include_is_closed_interval_in_file() {
        let r = TokenRange { beg: any_token(), end: any_token() };
        let (path, line, column): (usize, u32, u32) = (kani::any(), kani::any(), kani::any());
        kani::assume(pos_le(r.beg.line, r.beg.column, r.end.line, r.end.column));
        let want = in_file(&r.beg.source, PathId(path)) && pos_le(r.beg.line, r.beg.column, line, column) && pos_le(line, column, r.end.line, r.end.column);
        assert!(r.include(PathId(path), line, column) == want, "include differs from: same file && beg <= (line, column) <= end");
    }
    /// the case behind one-line `unsafe (cdc) { .. }` blocks, stated directly: a position to the right of a one-line range is outside
    #[vp_proof]
    pub fn include_one_line_range_ends_at_its_last_column() {
        let r = TokenRange { beg: any_token(), end: any_token() };
        let (path, column): (usize, u32) = (kani::any(), kani::any());
        kani::assume(r.beg.line == r.end.line && r.beg.column <= r.end.column);
        if column > r.end.column || column < r.beg.column {
            assert!(!r.include(PathId(path), r.beg.line, column), "a one-line range covers positions outside its columns");
        }
    }
    /// unsafe_table::contains is RangeTable::contains on a thread-local table. For a table built with the REAL insert (n <= 2 closed ranges,
    /// bounded) and at most one open block (begin without end): contains(token, v) <=> token is a File token inside some inserted range of
    /// its file carrying v, or an open block carries v. n and the open-block shape are concrete per case; all 9 cases are run.
    fn range_table_case(n: u8, open: u8, same_file: bool) {
        let mut t: RangeTable<Unsafe> = RangeTable::default();
        // same_file: both ranges in one (symbolic) file; otherwise files 3 and 5 (whether the second insert extends an entry or adds one
        // has to be concrete: a symbolic number of map entries does not finish in CBMC)
        let p: usize = kani::any();
        let (p1, p2): (usize, usize) = if same_file { (p, p) } else { (3, 5) };
        let mk = |p: usize, l: u32, c: u32| Token { id: TokenId(0), text: StrId(0), line: l, column: c, length: 1, pos: 0, source: TokenSource::File { path: PathId(p), text: TextId(0) } };
        let pos: [u32; 8] = kani::any();
        let r1 = TokenRange { beg: mk(p1, pos[0], pos[1]), end: mk(p1, pos[2], pos[3]) };
        let r2 = TokenRange { beg: mk(p2, pos[4], pos[5]), end: mk(p2, pos[6], pos[7]) };
        kani::assume(pos_le(pos[0], pos[1], pos[2], pos[3]) && pos_le(pos[4], pos[5], pos[6], pos[7]));
        if n >= 1 {
            t.insert(r1, Unsafe::Cdc);
        }
        if n >= 2 {
            // recorded the way the walker does it: begin at the first token, end at the last
            t.begin(r2.beg, Some(Unsafe::Cdc));
            t.end(r2.end);
        }
        match open {
            0 => {}
            1 => t.begin(mk(p1, 0, 0), None),
            _ => t.begin(mk(p1, 0, 0), Some(Unsafe::Cdc)),
        }
        let qp: usize = kani::any();
        let qk: u8 = kani::any();
        let qsrc = match qk & 3 {
            0 => TokenSource::File { path: PathId(qp), text: TextId(1) },
            1 => TokenSource::Generated(PathId(qp)),
            2 => TokenSource::Builtin,
            _ => TokenSource::External,
        };
        let q = Token { id: TokenId(9), text: StrId(0), line: kani::any(), column: kani::any(), length: 1, pos: 0, source: qsrc };
        let inside = |r: &TokenRange| match q.source {
            TokenSource::File { path, .. } => in_file(&r.beg.source, path) && pos_le(r.beg.line, r.beg.column, q.line, q.column) && pos_le(q.line, q.column, r.end.line, r.end.column),
            _ => false,
        };
        // `contains` is `self.get(token).contains(value)`; `get` returns one entry per enclosing recorded block plus one per open block
        let count = (n >= 1 && inside(&r1)) as usize + (n >= 2 && inside(&r2)) as usize + (open >= 2) as usize;
        assert!(t.contains(&q, &Unsafe::Cdc) == (count > 0), "contains differs from: inside some recorded block (or a block is still open)");
    }
    fn range_table_cases(n: u8, same_file: bool) {
        range_table_case(n, 0, same_file);
        range_table_case(n, 1, same_file);
        range_table_case(n, 2, same_file);
    }
    #[vp_bounded]
    pub fn range_table_contains_iff_inside_some_range_0() {
        range_table_cases(0, true);
    }
    #[vp_bounded]
    pub fn range_table_contains_iff_inside_some_range_1() {
        range_table_cases(1, true);
    }
    // two recorded ranges (range_table_cases(2, ..)) do not finish within 5 minutes of CBMC time: not part of the unit

    // ---- canaries (must FAIL) ---------------------------------------------------------------------------------
    /// the error case of the check is reachable
    #[vp_proof]
    pub fn canary_check_error_reachable() {
        let (a, b) = (any_cd(), any_cd());
        let r = run_check(a, b);
        assert!(r.ctx.n_errors == 0);
    }
    /// the assumption of merge_keeps_later_crossings_visible leaves a real crossing
    #[vp_proof]
    pub fn canary_merge_crossing_reachable() {
        let (a, b, c) = (any_cd(), any_cd(), any_cd());
        kani::assume(a.compatible(&b));
        kani::assume(a.domain_id().is_some() && b.domain_id().is_some());
        assert!(a.merge(&b).compatible(&c));
    }
    /// check_assign_clock_domain does infer and does report in some case
    #[vp_proof]
    pub fn canary_assign_infers_and_reports() {
        let a = run_assign(ClockDomain::Implicit, 0);
        assert!(a.dst.comptime.clock_domain == ClockDomain::Implicit || a.ctx.n_errors == 0);
    }
    /// well-formed ranges that contain the position exist
    #[vp_proof]
    pub fn canary_include_reachable() {
        let r = TokenRange { beg: any_token(), end: any_token() };
        let (path, line, column): (usize, u32, u32) = (kani::any(), kani::any(), kani::any());
        kani::assume(pos_le(r.beg.line, r.beg.column, r.end.line, r.end.column));
        assert!(!r.include(PathId(path), line, column));
    }
}
