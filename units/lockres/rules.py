"""Token-level rewrite rules of unit `lockres` (built on vp.extract / vp.rustlex; nothing is re-typed, every edit is a positional
insert or a replacement of a token span of the extracted item and is logged in Item.rules).

  drop_all_attrs(item)        E3a  every attribute `#[..]` inside the item is dropped (thiserror / miette / serde annotations)
  unchain_let(item)           LC   `if let P = E && A && B { S }` (no `else`) -> `if let P = E { if A && B { S } }`
                                   (the Rust reference defines a let chain as exactly this nesting; Verus has no let chains)
  index_loop(item, k, ..)     E7m  `for x in V {`, `for x in V.iter_mut() {`, `for x in V.iter_mut().rev() {` over a `&mut Vec<T>` ->
                                   an index loop handing out `&mut V[i]` in the same order (what `slice::IterMut` / `Rev<IterMut>` yield)
  stmt_span(fn_item, ..)      EB   a run of statements of a function body, cut out and re-presented as a function item
"""
import re

from vp.extract import Item, ExtractError
from vp.rustlex import match_close, OPEN


def drop_all_attrs(item, rule="E3a"):
    toks = item._toks
    n = 0
    i = 0
    while i < len(toks) - 1:
        t = toks[i]
        if t.kind == "punct" and t.text == "#" and toks[i + 1].text == "[" and toks[i + 1].start == t.end:
            e = match_close(toks, i + 1)
            a, b = t.start, toks[e].end
            # swallow the rest of the line if the attribute stands alone on it
            ls = item.orig.rfind("\n", 0, a) + 1
            le = item.orig.find("\n", b)
            if item.orig[ls:a].strip() == "" and le >= 0 and item.orig[b:le].strip() == "":
                a, b = ls, le + 1
            item._repl.append((a, b, ""))
            n += 1
            i = e + 1
            continue
        i += 1
    if n:
        item.rules.append("%s: %d attribute(s) `#[..]` dropped" % (rule, n))
    return n


def _is_andand(toks, j):
    return toks[j].kind == "punct" and toks[j].text == "&" and j + 1 < len(toks) and toks[j + 1].text == "&" and toks[j + 1].start == toks[j].end


def unchain_let(item, rule="LC"):
    """every `if let P = E && REST { S }` without `else` becomes `if let P = E { if REST { S } }`"""
    toks = item._toks
    n = 0
    for i in range(len(toks) - 1):
        if not (toks[i].kind == "ident" and toks[i].text == "if" and toks[i + 1].kind == "ident" and toks[i + 1].text == "let"):
            continue
        j = i + 2
        first_and = None
        while j < len(toks):
            u = toks[j]
            if u.kind == "punct" and u.text in ("(", "["):
                j = match_close(toks, j) + 1
                continue
            if u.kind == "punct" and u.text == "{":
                break
            if first_and is None and _is_andand(toks, j):
                first_and = j
            j += 1
        if j >= len(toks):
            raise ExtractError("%s: rule %s: `if let` without block" % (item.name, rule))
        if first_and is None:
            continue
        cb = match_close(toks, j)
        k = cb + 1
        while k < len(toks) and toks[k].kind == "comment":
            k += 1
        if k < len(toks) and toks[k].kind == "ident" and toks[k].text == "else":
            raise ExtractError("%s: rule %s does not apply to a let chain with `else`" % (item.name, rule))
        item._repl.append((toks[first_and].start, toks[first_and + 1].end, "{ if"))
        item._ins.append((toks[cb].end, len(item._ins), " }"))
        n += 1
    if n:
        item.rules.append("%s: %d let chain(s) `if let P = E && C { S }` -> `if let P = E { if C { S } }`" % (rule, n))
    return n


_LOOP_HDR = re.compile(r"for (\w+) in (\w+)(\.iter_mut\(\))?(\.rev\(\))? \{$")


def index_loop(item, k, inv_fwd, inv_rev, snapshot, body_ghost):
    """rule E7m on loop #k of the item. `snapshot(V)` = ghost statement placed before the loop, `inv_fwd(V)` / `inv_rev(V)` = invariant text.
    `body_ghost(x, V, direction)` = ghost code placed right after the element has been taken. Returns (direction, x, V).
    Any other loop header -> ExtractError."""
    kw, ob, cb = item._loop(k)
    toks = item._toks
    hdr = item.orig[toks[kw].start:toks[ob].end]
    m = _LOOP_HDR.match(re.sub(r"\s+", " ", hdr))
    if not m:
        raise ExtractError("%s: rule E7m does not recognise the loop header `%s`" % (item.name, hdr))
    x, v, _, rev = m.groups()
    if rev:
        new = ("%s\n            let mut vp_k: usize = %s.len();\n            while vp_k > 0\n%s\n                decreases vp_k,\n            {\n"
               "                vp_k -= 1;\n                let %s = &mut %s[vp_k];\n%s" % (snapshot(v), v, inv_rev(v), x, v, body_ghost(x, v, "rev")))
    else:
        new = ("%s\n            let mut vp_k: usize = 0;\n            while vp_k < %s.len()\n%s\n                decreases %s.len() - vp_k,\n            {\n"
               "                let %s = &mut %s[vp_k];\n                vp_k += 1;\n%s" % (snapshot(v), v, inv_fwd(v), v, x, v, body_ghost(x, v, "fwd")))
    item._repl.append((toks[kw].start, toks[ob].end, new))
    item.rules.append("E7m: `%s` -> index loop over `&mut %s[vp_k]`, %s (the order in which %s yields the elements); "
                      "ghost snapshot + invariant spliced on the new header" % (hdr, v, "last to first" if rev else "first to last",
                                                                                 "Rev<slice::IterMut>" if rev else "slice::IterMut"))
    return ("rev" if rev else "fwd"), x, v


def before_returns_in_loop(item, k, text):
    """S-ghost: ghost code in front of every `return` inside loop #k of the item"""
    kw, ob, cb = item._loop(k)
    toks = item._toks
    n = 0
    for i in range(ob + 1, cb):
        if toks[i].kind == "ident" and toks[i].text == "return":
            item._ins.append((toks[i].start, len(item._ins), text.rstrip() + "\n                    "))
            n += 1
    item.rules.append("S-ghost: ghost code before the %d `return`(s) inside loop #%d" % (n, k))
    return n


def _scan_loops(toks, lo, hi):
    loops = []
    j = lo
    while j < hi:
        t = toks[j]
        if t.kind == "ident" and t.text in ("for", "while", "loop"):
            if t.text == "for" and toks[j + 1].text == "<":
                j += 1
                continue
            m = j + 1
            while True:
                u = toks[m]
                if u.kind == "punct" and u.text in ("(", "["):
                    m = match_close(toks, m) + 1
                    continue
                if u.kind == "punct" and u.text == "{":
                    break
                m += 1
            loops.append((j, m, match_close(toks, m)))
        j += 1
    return loops


def _span_analyse(self):
    toks = self._toks
    self.arrow = None
    self.where_kw = None
    self.body_open = self.body_close = None
    self.loops = _scan_loops(toks, 0, len(toks))
    # the span has no braces of its own: the header (signature, contract, `{`, prelude statements) goes in front, tail + `}` behind
    self._ins.append((0, len(self._ins), self._header.rstrip() + "\n            "))
    self._ins.append((len(self.orig), len(self._ins), "\n" + self._tail.rstrip() + "\n}"))
    self.rules.append("EB: %s of fn %s cut out and wrapped as a function (header and tail expression supplied by the unit; "
                      "the statements themselves are byte-for-byte)" % (self._what, self._parent))


def _span_describe(self):
    return {"file": self.src.rel, "item": "%s of fn %s" % (self._what, self._parent), "line": self.line, "sha256": self.sha256}


class SpanItem(Item):
    """statements toks[a..b] of a function body, presented as the body of a function with the given header and tail (rule EB)."""

    def __init__(self, src, name, text, line, header, tail, parent, what):
        self._header, self._tail, self._parent, self._what = header, tail, parent, what
        Item.__init__(self, src, "fn", name, text, 0, line)

    def _analyse(self):
        _span_analyse(self)

    def describe(self):
        return _span_describe(self)

    def spec(self, text):
        raise ExtractError("SpanItem: put the contract into the header")


def stmt_span(fn_item, first_re, last_stmt, name, header, tail, what):
    """the statements of fn_item's body from the unique statement starting with /first_re/ up to and including the next exact statement
    text `last_stmt` (e.g. `name_table.insert(name.clone());`), as a SpanItem"""
    text = fn_item.orig
    ms = list(re.finditer(first_re, text))
    if len(ms) != 1:
        raise ExtractError("%s: rule EB: start anchor /%s/ found %d times" % (fn_item.name, first_re, len(ms)))
    a = ms[0].start()
    e = text.find(last_stmt, a)
    if e < 0:
        raise ExtractError("%s: rule EB: end anchor `%s` not found after the start anchor" % (fn_item.name, last_stmt))
    b = e + len(last_stmt)
    span = text[a:b]
    # the span must be brace-balanced and made of whole tokens
    depth = 0
    for t in fn_item._toks:
        if t.start < a or t.end > b:
            if t.start < b and t.end > a:
                raise ExtractError("%s: rule EB: span cuts a token" % fn_item.name)
            continue
        if t.kind == "punct" and t.text in "([{":
            depth += 1
        elif t.kind == "punct" and t.text in ")]}":
            depth -= 1
            if depth < 0:
                raise ExtractError("%s: rule EB: span is not balanced" % fn_item.name)
    if depth != 0:
        raise ExtractError("%s: rule EB: span is not balanced" % fn_item.name)
    return SpanItem(fn_item.src, name, span, fn_item.line + text.count("\n", 0, a), header, tail, fn_item.name, what)
