"""U16 lockres — selection kernel of dependency resolution (C31). Back end: Verus (unbounded in the number of locks / releases).

Real bodies of `Lockfile::{resolve_version, resolve_version_from_lockfile, resolve_version_from_latest}` and the name-suffixing
statements of `Lockfile::gen_locks` (crates/metadata/src/lockfile.rs); the types `Lockfile, Lock, LockSource, LockSourceRepository,
LockDependency` (same file), `Pubfile, Release` (pubfile.rs), `MetadataError` (metadata_error.rs) are extracted, not re-typed.
`semver::{Version, VersionReq}` are opaque with an uninterpreted order `ver_le` and requirement test `sat` (units/lockres/spec.rs).

Rewrite rules (each is logged per item in the evidence file):
  E3a    every attribute inside an extracted type is dropped (derive / serde / thiserror / miette); Clone for Release is restated (E3')
  P1     MetadataError: `toml::de::Error`, `toml::ser::Error`, `spdx::ParseError`, `Box<dyn std::error::Error + Sync + Send>` ->
         opaque stand-ins (single-file verification: the crates are not there; Verus has no multi-trait dyn)
  G1     resolve_version / resolve_version_from_latest get one more, last, parameter `vp_w: &mut Ghost<World>` (erased at run time);
         calls of resolve_version_from_latest pass it on
  O-map  `self.lock_table.get_mut(url)` -> `vp_table_get_mut(&mut self.lock_table, url)` (finite-map contract)
  E7m    `for lock in locks {` (slice::IterMut; vstd has no rule for un-yielded elements when the loop is left early) -> index loop over
         `&mut locks[vp_k]` in the same order; `.iter_mut().rev()` -> the same, last to first (units/lockres/rules.py)
  LC     let chain `if let P = E && C { S }` -> `if let P = E { if C { S } }`
  O13    `<String> == project` -> `vp_str_eq(&<String>, project)`
  G2     resolve_version_from_latest, the part up to `Pubfile::load(toml)?`: every call that leaves the function becomes a wrapper over the
         ghost world: `veryl_path::lock_dir(` -> `vp_lock_dir(vp_w, `, `veryl_path::unlock_dir(` -> `vp_unlock_dir(vp_w, `,
         `self.git_clone(` -> `vp_git_clone(vp_w, &*self, `, `<g>.fetch()` -> `vp_git_fetch(vp_w, &<g>)`, `<g>.checkout(` -> `vp_git_checkout(vp_w, &<g>, `,
         `Self::search_project(` -> `vp_search_project(vp_w, `, `Pubfile::load(` -> `vp_pubfile_load(vp_w, `
  O14    the same part, calls without effect on the world: `veryl_path::cache_path().join("..")` -> `vp_cache_subdir("..")`, `<p>.exists()` ->
         `vp_path_exists(&<p>)`, `ignore_already_exists(fs::create_dir_all(&<p>)).map_err(..)` -> `vp_create_dir_all(&<p>)`,
         `Self::resolve_path(url)` -> `vp_resolve_path(url)`, `path.join(&prj_path).join("Veryl.pub")` -> `vp_pub_path(&path, &prj_path)`
         (the `?` conversions PathError -> MetadataError are part of the wrappers)
  O-sort `<v>.sort_by(|a, b| X.version.cmp(&Y.version))` -> `let vp_cmp = |a: &Release, b: &Release| -> (o: Ordering) ensures o == ver_cmp(X.version, Y.version)
         { X.version.cmp(&Y.version) }; vp_sort_by(&mut <v>, vp_cmp)`: the closure body is kept and CHECKED against the contract derived from it (O8);
         only `Vec::sort_by` itself is assumed, and its contract is stated through the comparator, so an ascending comparator yields an ascending list
  V2     `#[verifier::loop_isolation(false)]` on resolve_version_from_lockfile / resolve_version_from_latest (loop bodies see the facts established before the loop)
  S-ret  ghost assertion in front of every `return` inside the lock scan: the vector handed out by get_mut ends with the value it had
  G2'    `for release in &<v> {` gets a ghost iterator name (`for release in vp_it: &<v> {`)
  EB     gen_locks: the statements from `if name_table.contains(&name) {` to `name_table.insert(name.clone());` are cut out and wrapped as
         `vp_gen_locks_naming(name_table, name0, root)` (header and tail `Ok(name)` supplied by the unit)
  O-set  there: `name_table.contains(&X)` -> `vp_set_contains(name_table, &X)`, `name_table.insert(` -> `vp_set_insert(name_table, `;
  O4     `format!("{name}_{suffix}")` -> `vp_format_suffix(&name, suffix)`
"""
import importlib.util
import os
import re

from vp.core import VerusJob
from vp.verus_run import VerusFile
from vp.extract import ExtractError

_spec = importlib.util.spec_from_file_location("vp_lockres_rules", os.path.join(os.path.dirname(os.path.abspath(__file__)), "rules.py"))
rules = importlib.util.module_from_spec(_spec)
_spec.loader.exec_module(rules)

L = "crates/metadata/src/lockfile.rs"
P = "crates/metadata/src/pubfile.rs"
E = "crates/metadata/src/metadata_error.rs"

HEADER = ("use vstd::prelude::*;\nuse std::cmp::Ordering;\nuse std::collections::{BTreeMap, HashMap, HashSet};\nuse std::path::{Path, PathBuf};\n"
          "verus! {\nglobal size_of usize == 8;\n")

NOT_VNF = "; an error it returns is never VersionNotFound (they are FileIO / Path / Git / Deserialize errors)"

TRUSTED = {
    r"pub struct Ex(PathBuf|Path|IoError|File)": "std::path::{PathBuf, Path}, std::io::Error, std::fs::File are opaque external types",
    r"pub struct (Version|VersionReq) ": "semver::Version / semver::VersionReq are opaque; their order and requirement test are the uninterpreted ver_le / sat",
    r"pub struct (UrlPath|Url|Uuid|ProjectProperty|PathError|Git|VpTomlDeError|VpTomlSerError|VpSpdxParseError|VpDynError) ":
        "UrlPath, url::Url, uuid::Uuid, ProjectProperty, veryl_path::PathError, git::Git, toml / spdx errors, Box<dyn Error + Sync + Send> are opaque (carried, never inspected)",
    r"uninterp spec fn": "uninterpreted models: ver_le (semver precedence), sat (VersionReq::matches), suffixed (format!(\"{name}_{suffix}\")), names_of (view of HashSet<String>)",
    r"proof fn axiom_ver_total": "ASSUMED: semver precedence is total: ver_le(a, b) || ver_le(b, a) (hence reflexive)",
    r"proof fn axiom_ver_trans": "ASSUMED: semver precedence is transitive",
    r"proof fn axiom_ver_antisym": "ASSUMED: ver_le(a, b) && ver_le(b, a) ==> a == b (semver::Version derives Eq and Ord over the same fields)",
    r"pub fn matches": "VersionReq::matches(req, v) returns sat(req, v)",
    r"pub fn to_string": "VersionReq's ToString (result opaque; only used for the error message)",
    r"pub fn cmp": "<Version as Ord>::cmp(a, b) returns ver_cmp(a, b) = Equal if both ver_le, Less if only ver_le(a, b), else Greater",
    r"impl Clone for (Version|UrlPath)|fn clone\(&self\)": "Clone of Version / UrlPath returns an equal value",
    r"\[<PathBuf as Clone>::clone\]": "PathBuf::clone returns an equal value",
    r"fn vp_table_get_mut": "O-map: HashMap<UrlPath, Vec<Lock>>::get_mut(url) outlined; assumed finite-map contract: None iff url is not a key (table untouched); Some(v): v is the value stored "
                            "under url and the table afterwards is the old table with url -> final value of v (nothing else changes)",
    r"fn vp_str_eq": "O13: `String == &str` outlined: true iff the characters are equal",
    r"fn vp_sort_by": "O-sort: Vec::<Release>::sort_by(cmp) outlined; assumed: the result is a permutation of the input (equal multisets) and for i < j the comparator, applied to "
                      "(result[i], result[j]), answers Less or Equal - stated through the closure's own, verified, contract, so the direction of the order is NOT assumed. "
                      "Not assumed: stability. Not checked: sort_by's demand that the comparator is a total order (it is ver_cmp, total by the order axioms)",
    r"fn vp_cache_subdir": "O14: veryl_path::cache_path().join(name) outlined (result opaque)",
    r"fn vp_path_exists": "O14: Path::exists outlined (result arbitrary)",
    r"fn vp_create_dir_all": "O14: ignore_already_exists(fs::create_dir_all(p)).map_err(file_io) outlined (may fail)" + NOT_VNF,
    r"fn vp_resolve_path": "O14: Lockfile::resolve_path(url) (cache dir + uuid of the url) outlined (result opaque)" + NOT_VNF,
    r"fn vp_pub_path": "O14: path.join(prj_path).join(\"Veryl.pub\") outlined (result opaque)",
    r"fn vp_lock_dir": "G2: veryl_path::lock_dir(name)? outlined: Ok(file) => the world's resolve_locked becomes true, Err => world unchanged" + NOT_VNF,
    r"fn vp_unlock_dir": "G2: veryl_path::unlock_dir(file)? outlined: obligation on the caller: the lock is held; the lock is released either way (the File is consumed)" + NOT_VNF,
    r"fn vp_git_clone": "G2: self.git_clone(url, path) (reads self.metadata_path only) outlined: obligation on the caller: directory lock held; counts one entry into the network side (world.clones + 1); may fail" + NOT_VNF,
    r"fn vp_git_fetch|fn vp_git_checkout": "G2: Git::fetch / Git::checkout outlined: obligation on the caller: directory lock held; world.git_ops + 1; may fail" + NOT_VNF,
    r"fn vp_search_project": "G2: Lockfile::search_project(path, project) (WalkDir + Metadata::load) outlined: result arbitrary, recorded in world.prj_path",
    r"fn vp_pubfile_load": "G2: Pubfile::load(toml) outlined: may fail (world unchanged" + NOT_VNF[1:] + "); a delivered Pubfile's releases are recorded, in file order, as world.published and world.pub_loads + 1. "
                           "That the file read IS the dependency's Veryl.pub at the fetched head is outside this unit",
    r"fn vp_set_contains|fn vp_set_insert": "O-set: HashSet<String>::contains / insert outlined; assumed finite-set contract over the strings' characters (names_of)",
    r"fn vp_format_suffix": "O4: format!(\"{name}_{suffix}\") outlined to the uninterpreted suffixed(name, suffix) (no injectivity assumed)",
}

CANARIES = [
    ("vp_canary_consistent", "proof fn vp_canary_consistent(a: Version, b: Version, req: VersionReq) ensures false { broadcast use group_ver_order; assert(ver_le(a, b) || ver_le(b, a)); }"),
    ("vp_canary_order", "proof fn vp_canary_order(a: Version, b: Version, c: Version) requires ver_le(a, b), !ver_le(b, a), ver_le(b, c) ensures false { broadcast use group_ver_order; }"),
    ("vp_canary_first_match", "proof fn vp_canary_first_match(ls: Seq<Lock>, p: Seq<char>, req: VersionReq) requires first_match_at(ls, 1, p, req), ls.len() >= 3, lock_matches(ls[2], p, req) ensures false {}"),
    ("vp_canary_highest", "proof fn vp_canary_highest(rs: Seq<Release>, req: VersionReq, r: Release) requires highest_sat(rs, req, r), rs.len() >= 2, sat(req, rs[0].version), sat(req, rs[1].version), rs[0].version != rs[1].version "
                          "ensures false { broadcast use group_ver_order; }"),
    ("vp_canary_latest_post", "proof fn vp_canary_latest_post(w0: World, w1: World, req: VersionReq, r: Result<(Release, PathBuf), MetadataError>) requires latest_post(w0, w1, req, r), r is Ok, w1.published.len() >= 2 ensures false {}"),
    ("vp_canary_latest_err", "proof fn vp_canary_latest_err(w0: World, w1: World, req: VersionReq, r: Result<(Release, PathBuf), MetadataError>) requires latest_post(w0, w1, req, r), r is Err, r->Err_0 is VersionNotFound, w1.published.len() >= 1 ensures false {}"),
    ("vp_canary_naming", "proof fn vp_canary_naming(t: Set<Seq<char>>, n: Seq<char>) requires t.contains(n), t.contains(suffixed(n, 0)), exists|k: int| 0 <= k < i32::MAX && !t.contains(suffixed(n, k)) ensures false {}"),
]

FROM_LOCKFILE_SPEC = """
    ensures
        // the frame: `&mut self` / get_mut notwithstanding, nothing observable of the lockfile changes
        same_lockfile(*final(self), *old(self)),
        // never fails
        r is Ok,
        ({
            let ls = locks_of(tv(old(self).lock_table), *url);
            match r->Ok_0 {
                // Some: built from the FIRST lock of that url which is a repository lock of `project` whose version satisfies the requirement
                Some(p) => exists|k: int| first_match_at(ls, k, project@, *version_req) && built_from(p.0, p.1, ls[k]),
                // None iff there is no such lock
                None => no_match(ls, project@, *version_req),
            }
        }),
"""

RESOLVE_SPEC = """
    ensures
        same_lockfile(*final(self), *old(self)),
        ({
            let ls = locks_of(tv(old(self).lock_table), *url);
            let locked = exists|k: int| first_match_at(ls, k, project@, *version_req);
            // a satisfying lock exists and no forced update: exactly that locked release, and the network side is not entered
            // (the ghost world - clone / fetch / Veryl.pub counters - is untouched)
            &&& (locked && !old(self).force_update) ==> {
                &&& *final(vp_w) == *old(vp_w)
                &&& r is Ok
                &&& forall|k: int| first_match_at(ls, k, project@, *version_req) ==> built_from(r->Ok_0.0, r->Ok_0.1, ls[k])
            }
            // otherwise (no satisfying lock, or `veryl update`): whatever resolve_version_from_latest delivers, errors included
            &&& !(locked && !old(self).force_update) ==> latest_post(old(vp_w)@, final(vp_w)@, *version_req, r)
        }),
"""

LATEST_SPEC = """
    ensures
        same_lockfile(*final(self), *old(self)),
        latest_post(old(vp_w)@, final(vp_w)@, *version_req, r),
"""

NAMING_HEADER = """fn vp_gen_locks_naming(name_table: &mut HashSet<String>, name0: String, root: bool) -> (r: Result<String, MetadataError>)
    requires
        // fewer than 2^31 - 1 consecutive suffixed names are taken (`suffix` is an i32; `suffix += 1` must not overflow)
        exists|k: int| 0 <= k < i32::MAX && !names_of(*old(name_table)).contains(suffixed(name0@, k)),
    ensures
        // the name handed out was free and is now taken; nothing else changes in the table
        r is Ok ==> !names_of(*old(name_table)).contains(r->Ok_0@) && names_of(*final(name_table)) == names_of(*old(name_table)).insert(r->Ok_0@),
        // a free name is kept as it is
        !names_of(*old(name_table)).contains(name0@) ==> r is Ok && r->Ok_0@ == name0@,
        // a taken name: error for a root dependency, else name_<suffix> with the least free suffix
        names_of(*old(name_table)).contains(name0@) && root ==> r is Err,
        names_of(*old(name_table)).contains(name0@) && !root ==> r is Ok && exists|s: int| 0 <= s && r->Ok_0@ == suffixed(name0@, s)
            && forall|j: int| 0 <= j < s ==> names_of(*old(name_table)).contains(#[trigger] suffixed(name0@, j)),
        r is Err ==> r->Err_0 is NameConflict && names_of(*final(name_table)) == names_of(*old(name_table)),
{
        let mut name = name0;
"""

NAMING_LOOP = """
                    invariant_except_break
                        name@ == name0@,
                        0 <= suffix <= vp_kw < i32::MAX,
                        !names_of(*name_table).contains(suffixed(name0@, vp_kw)),
                        forall|j: int| 0 <= j < suffix ==> names_of(*name_table).contains(#[trigger] suffixed(name0@, j)),
                    invariant
                        names_of(*name_table) == names_of(*old(name_table)),
                    ensures
                        !names_of(*name_table).contains(name@),
                        exists|s: int| 0 <= s && name@ == suffixed(name0@, s) && forall|j: int| 0 <= j < s ==> names_of(*name_table).contains(#[trigger] suffixed(name0@, j)),
                    decreases vp_kw - suffix,
"""


def strip_type(it):
    rules.drop_all_attrs(it)
    return it


def build(ctx, res):
    l, p, e = ctx.src(L), ctx.src(P), ctx.src(E)
    vf = VerusFile(HEADER)
    items = []

    def add(it, label=None):
        items.append(it)
        vf.item(it, label)

    # ---- types ---------------------------------------------------------------------------------------------------------
    it = strip_type(e.item("enum", "MetadataError"))
    it.replace("toml::de::Error", "VpTomlDeError", rule="P1")
    it.replace("toml::ser::Error", "VpTomlSerError", rule="P1")
    it.replace("spdx::ParseError", "VpSpdxParseError", rule="P1")
    it.replace("Box<dyn std::error::Error + Sync + Send>", "VpDynError", rule="P1")
    add(it)
    for src, kind, name in [(p, "struct", "Release"), (p, "struct", "Pubfile"), (l, "struct", "LockSourceRepository"), (l, "enum", "LockSource"),
                            (l, "struct", "LockDependency"), (l, "struct", "Lock"), (l, "struct", "Lockfile")]:
        add(strip_type(src.item(kind, name)))

    vf.raw(ctx.unit_file("lockres", "spec.rs"), "spec")
    vf.raw("impl Lockfile {", "impl")

    # ---- resolve_version_from_lockfile -------------------------------------------------------------------------------------
    f = l.item("fn", "resolve_version_from_lockfile", impl="Lockfile")
    f.name_return("r")
    f.replace("self.lock_table.get_mut(url)", "vp_table_get_mut(&mut self.lock_table, url)", rule="O-map")
    if len(f.loops) != 1:
        raise ExtractError("resolve_version_from_lockfile: expected exactly one loop, found %d" % len(f.loops))
    f.prepend("#[verifier::loop_isolation(false)]")
    _, _, vp_v = rules.index_loop(
        f, 0,
        inv_fwd=lambda v: ("                invariant\n                    vp_k <= %s@.len(), %s@ == vp_l0,\n"
                           "                    forall|j: int| 0 <= j < vp_k ==> !lock_matches(#[trigger] vp_l0[j], project@, *version_req)," % (v, v)),
        inv_rev=lambda v: ("                invariant\n                    vp_k <= %s@.len(), %s@ == vp_l0,\n"
                           "                    forall|j: int| vp_k <= j < vp_l0.len() ==> !lock_matches(#[trigger] vp_l0[j], project@, *version_req)," % (v, v)),
        snapshot=lambda v: "let ghost vp_l0 = %s@;\n            proof { assert(locks_of(tv(old(self).lock_table), *url) == vp_l0); }" % v,
        # scanning first to last, the element in hand is the first match iff it matches; scanning last to first nothing of the kind holds
        # (the contract then fails where it should: at the `return`, against "FIRST lock")
        body_ghost=lambda x, v, d: ("                proof {\n                    let vp_i = %s;\n                    assert(*%s == vp_l0[vp_i]);\n%s                }"
                                    % ("vp_k - 1" if d == "fwd" else "vp_k as int", x,
                                       "                    assert(first_match_at(vp_l0, vp_i, project@, *version_req) == lock_matches(*%s, project@, *version_req));\n" % x if d == "fwd" else "")))
    # an early exit leaves the vector as it was (the borrow handed out by get_mut ends with its value unchanged)
    rules.before_returns_in_loop(f, 0, "proof { assert(final(%s)@ =~= vp_l0); }" % vp_v)
    rules.unchain_let(f)
    f.sub_opt(r"\b([\w\.]+) == project\b", r"vp_str_eq(&\1, project)", rule="O13")
    f.spec(FROM_LOCKFILE_SPEC)
    add(f, "Lockfile::resolve_version_from_lockfile")

    # ---- resolve_version ---------------------------------------------------------------------------------------------------
    G1_SIG = (r"version_req: &VersionReq,\s*\)", "version_req: &VersionReq,\n        vp_w: &mut Ghost<World>,\n    )")
    f = l.item("fn", "resolve_version", impl="Lockfile")
    f.name_return("r")
    f.sub(G1_SIG[0], G1_SIG[1], count=1, rule="G1")
    f.sub_opt(r"self\.resolve_version_from_latest\(([^()]*)\)", r"self.resolve_version_from_latest(\1, vp_w)", rule="G1")
    f.spec(RESOLVE_SPEC)
    add(f, "Lockfile::resolve_version")

    # ---- resolve_version_from_latest ---------------------------------------------------------------------------------------
    f = l.item("fn", "resolve_version_from_latest", impl="Lockfile")
    f.name_return("r")
    f.prepend("#[verifier::loop_isolation(false)]")
    f.sub(G1_SIG[0], G1_SIG[1], count=1, rule="G1")
    f.sub(r"veryl_path::cache_path\(\)\.join\((\"[^\"]*\")\)", r"vp_cache_subdir(\1)", count=1, rule="O14")
    f.sub(r"\b(\w+)\.exists\(\)", r"vp_path_exists(&\1)", count=2, rule="O14")
    f.sub(r"ignore_already_exists\(fs::create_dir_all\(&(\w+)\)\)\s*\.map_err\(\|x\| MetadataError::file_io\(x, &\1\)\)", r"vp_create_dir_all(&\1)", count=1, rule="O14")
    f.replace("Self::resolve_path(url)", "vp_resolve_path(url)", rule="O14")
    f.replace("veryl_path::lock_dir(", "vp_lock_dir(vp_w, ", rule="G2")
    f.replace("veryl_path::unlock_dir(", "vp_unlock_dir(vp_w, ", rule="G2")
    f.replace("self.git_clone(", "vp_git_clone(vp_w, &*self, ", rule="G2")
    f.sub(r"\b(\w+)\.fetch\(\)", r"vp_git_fetch(vp_w, &\1)", count=1, rule="G2")
    f.sub(r"\b(\w+)\.checkout\(", r"vp_git_checkout(vp_w, &\1, ", count=1, rule="G2")
    f.replace("Self::search_project(", "vp_search_project(vp_w, ", rule="G2")
    f.replace('path.join(&prj_path).join("Veryl.pub")', "vp_pub_path(&path, &prj_path)", rule="O14")
    f.replace("Pubfile::load(", "vp_pubfile_load(vp_w, ", rule="G2")
    f.sub(r"\b([\w\.]+)\.sort_by\(\|a, b\| (\w+)\.version\.cmp\(&(\w+)\.version\)\)",
          r"let vp_cmp = |a: &Release, b: &Release| -> (o: Ordering) ensures o == ver_cmp(\2.version, \3.version) { \2.version.cmp(&\3.version) };\n        vp_sort_by(&mut \1, vp_cmp)",
          count=1, rule="O-sort+O8")
    if len(f.loops) != 1:
        raise ExtractError("resolve_version_from_latest: expected exactly one loop, found %d" % len(f.loops))
    m = re.search(r"for (\w+) in &([\w\.]+)(?= \{)", f.orig)
    if not m:
        raise ExtractError("resolve_version_from_latest: rule G2' does not recognise the selection loop header")
    x, v = m.group(1), m.group(2)
    f.replace(m.group(0), "for %s in vp_it: &%s" % (x, v), rule="G2'")
    f.spec(LATEST_SPEC)
    f.before_loop(0, """        let ghost vp_rs = vp_w@.published;
        proof {
            // the comparator's verified contract turns `sort_by`'s promise into: no later element is above an earlier one
            assert forall|a: int, b: int| 0 <= a < b < %(v)s@.len() implies ver_le((#[trigger] %(v)s@[b]).version, (#[trigger] %(v)s@[a]).version) by {
                let x = &%(v)s@[a];
                let y = &%(v)s@[b];
                assert(vp_cmp.ensures((x, y), Ordering::Less) || vp_cmp.ensures((x, y), Ordering::Equal));
            }
        }""" % {"v": v})
    f.loop_spec(0, """            invariant
                vp_it.seq().len() == %(v)s@.len(),
                forall|i: int| 0 <= i < %(v)s@.len() ==> *vp_it.seq()[i] == %(v)s@[i],
                forall|j: int| 0 <= j < vp_it.index@ ==> !sat(*version_req, (#[trigger] %(v)s@[j]).version),""" % {"v": v})
    f.loop_body_start(0, """            proof {
                assert(*%(x)s == %(v)s@[vp_it.index@]);
                if sat(*version_req, %(x)s.version) {
                    lemma_first_sat_of_sorted_is_highest(vp_rs, %(v)s@, *version_req, vp_it.index@);
                }
            }""" % {"x": x, "v": v})
    f.after_loop(0, "        proof { lemma_none_sat_perm(vp_rs, %s@, *version_req); }" % v)
    add(f, "Lockfile::resolve_version_from_latest")
    vf.raw("}", "impl")

    # ---- gen_locks: the naming statements (an independent sub-claim: a lost anchor here leaves the three resolve functions decided) -----------
    naming = True
    try:
        g = l.item("fn", "gen_locks", impl="Lockfile")
        f = rules.stmt_span(g, r"if name_table\.contains\(&name\) \{", "name_table.insert(name.clone());", "vp_gen_locks_naming",
                            NAMING_HEADER, "        Ok(name)", "the name-suffixing statements")
        f.sub(r"name_table\.contains\(&(\w+)\)", r"vp_set_contains(name_table, &\1)", rule="O-set")
        f.replace("name_table.insert(", "vp_set_insert(name_table, ", rule="O-set")
        f.replace('format!("{name}_{suffix}")', "vp_format_suffix(&name, suffix)", rule="O4")
        if len(f.loops) != 1:
            raise ExtractError("gen_locks naming statements: expected exactly one loop, found %d" % len(f.loops))
        f.before_loop(0, "                let ghost vp_kw = choose|k: int| 0 <= k < i32::MAX && !names_of(*name_table).contains(suffixed(name0@, k));")
        f.loop_spec(0, NAMING_LOOP)
        f.render()
        add(f, "vp_gen_locks_naming")
    except ExtractError as ex:
        naming = False
        res.undecided.append("extraction (gen_locks naming statements): %s" % ex)

    text = vf.finish()
    res.clauses.update({
        "model": "semver::Version opaque with an uninterpreted total, transitive, antisymmetric order ver_le; VersionReq::matches = uninterpreted sat(req, v); "
                 "Release { version, revision }; the lock table is viewed as a finite map url -> sequence of locks",
        "Lockfile::resolve_version_from_lockfile": "ensures Ok always; Some((release, path)) is built (version, revision, path) from the FIRST lock under `url` that is a Repository lock with "
                 "x.project == project && sat(req, x.version); None iff no lock under `url` is such a lock (or `url` has no entry); the lockfile (table view, force_update, version, projects, metadata_path) is unchanged",
        "Lockfile::resolve_version": "ensures lockfile unchanged; if a satisfying lock exists and !force_update: Ok(exactly the first such lock's release and path) and the ghost world is untouched "
                 "(no clone / fetch / Veryl.pub read); otherwise the postcondition of resolve_version_from_latest (errors included)",
        "Lockfile::resolve_version_from_latest": "ensures lockfile unchanged; git clone / fetch / checkout only under the directory lock, lock released before the project search; "
                 "Ok((rel, path)): a Veryl.pub was read in this call, rel is one of ITS releases, sat(req, rel.version), every release r of it with sat(req, r.version) has ver_le(r.version, rel.version), "
                 "path is what search_project returned; Err(VersionNotFound) iff a Veryl.pub was read and none of its releases satisfies; at most one clone and one Veryl.pub read per call",
        "vp_gen_locks_naming (statements of gen_locks)": "requires some suffix below 2^31-1 is free; ensures Ok(n): n was not in name_table, name_table afterwards == name_table + {n}; a free name is kept; "
                 "a taken name: Err(NameConflict) iff root, else n == name_<s> with s the least suffix whose name is free; the loop terminates and `suffix += 1` cannot overflow",
        "lemmas": "first matching lock unique; first satisfying element of a descending permutation is a highest satisfying release of the original list; nothing satisfies in a permutation iff nothing satisfies in the list; "
                  "two highest satisfying releases carry the same version, also across reorderings of Veryl.pub; successively fresh names are pairwise distinct",
    })
    res.samples.append({"obligation": "verus:lockres:Lockfile::resolve_version", "contract": RESOLVE_SPEC.strip()})
    expect = ["Lockfile::resolve_version_from_lockfile", "Lockfile::resolve_version", "Lockfile::resolve_version_from_latest", "vp_gen_locks_naming",
              "lemma_first_match_unique", "lemma_perm_contains", "lemma_first_sat_of_sorted_is_highest", "lemma_none_sat_perm",
              "lemma_highest_version_unique", "lemma_highest_order_independent", "lemma_fresh_names_distinct", "lemma_tables_grow", "Release::clone"]
    if not naming:
        expect.remove("vp_gen_locks_naming")
    return [VerusJob("lockres", text, vf, expect, canaries=CANARIES, items=items, trusted=TRUSTED, rlimit=30, extra=["--edition", "2024"])]


def replay(ctx, res, failure):
    """no native replay: the functions are private methods of veryl-metadata that reach git, the cache directory and the network; a stand-alone copy with
    stand-ins would no longer be the original text. A failed obligation is reported with the verifier's diagnostic only."""
    return None
