// ---- unit `lockres` (C31): selection kernel of dependency resolution ---------------------------------------------
// Real bodies: Lockfile::{resolve_version, resolve_version_from_lockfile, resolve_version_from_latest} and the
// name-suffixing statements of Lockfile::gen_locks (crates/metadata/src/lockfile.rs). Everything they call outside
// themselves is an `external_body` wrapper below with an ASSUMED contract; each is listed in unit.py::TRUSTED.

// ---- opaque external types (carried, never inspected) ---------------------------------------------------------------
#[verifier::external_type_specification]
#[verifier::external_body]
pub struct ExPathBuf(PathBuf);
#[verifier::external_type_specification]
#[verifier::external_body]
pub struct ExPath(Path);
#[verifier::external_type_specification]
#[verifier::external_body]
pub struct ExIoError(std::io::Error);
#[verifier::external_type_specification]
#[verifier::external_body]
pub struct ExFile(std::fs::File);

/// semver::Version / semver::VersionReq: opaque. The order and the requirement test are uninterpreted (see the model below).
#[verifier::external_body] pub struct Version { _p: () }
#[verifier::external_body] pub struct VersionReq { _p: () }
/// crate::metadata::UrlPath, url::Url, uuid::Uuid, crate::ProjectProperty, veryl_path::PathError, crate::git::Git,
/// toml::de::Error, toml::ser::Error, spdx::ParseError, Box<dyn Error + Sync + Send>: opaque
#[verifier::external_body] pub struct UrlPath { _p: () }
#[verifier::external_body] pub struct Url { _p: () }
#[verifier::external_body] pub struct Uuid { _p: () }
#[verifier::external_body] pub struct ProjectProperty { _p: () }
#[verifier::external_body] pub struct PathError { _p: () }
#[verifier::external_body] pub struct Git { _p: () }
#[verifier::external_body] pub struct VpTomlDeError { _p: () }
#[verifier::external_body] pub struct VpTomlSerError { _p: () }
#[verifier::external_body] pub struct VpSpdxParseError { _p: () }
#[verifier::external_body] pub struct VpDynError { _p: () }

// ---- model of semver (item 1 of the unit's brief) -------------------------------------------------------------------
/// `a <= b` in semver precedence (`<Version as Ord>::cmp(a, b) != Greater`): uninterpreted
pub uninterp spec fn ver_le(a: Version, b: Version) -> bool;
/// `VersionReq::matches(req, v)`: uninterpreted
pub uninterp spec fn sat(req: VersionReq, v: Version) -> bool;

pub open spec fn ver_cmp(a: Version, b: Version) -> Ordering {
    if ver_le(a, b) && ver_le(b, a) { Ordering::Equal } else if ver_le(a, b) { Ordering::Less } else { Ordering::Greater }
}

/// ASSUMED: the order is total (so reflexive) ...
#[verifier::external_body]
pub broadcast proof fn axiom_ver_total(a: Version, b: Version)
    ensures #[trigger] ver_le(a, b) || ver_le(b, a),
{}
/// ... transitive ...
#[verifier::external_body]
pub broadcast proof fn axiom_ver_trans(a: Version, b: Version, c: Version)
    requires #[trigger] ver_le(a, b), #[trigger] ver_le(b, c),
    ensures ver_le(a, c),
{}
/// ... and antisymmetric up to `==` (semver derives Eq and Ord over the same five fields)
#[verifier::external_body]
pub broadcast proof fn axiom_ver_antisym(a: Version, b: Version)
    requires #[trigger] ver_le(a, b), #[trigger] ver_le(b, a),
    ensures a == b,
{}
pub broadcast group group_ver_order { axiom_ver_total, axiom_ver_trans, axiom_ver_antisym }

impl VersionReq {
    #[verifier::external_body]
    pub fn matches(&self, v: &Version) -> (r: bool)
        ensures r == sat(*self, *v),
    { unimplemented!() }
    /// `ToString::to_string` via Display: result opaque
    #[verifier::external_body]
    pub fn to_string(&self) -> (r: String) { unimplemented!() }
}
impl Version {
    /// `<Version as Ord>::cmp`
    #[verifier::external_body]
    pub fn cmp(&self, other: &Version) -> (r: Ordering)
        ensures r == ver_cmp(*self, *other),
    { unimplemented!() }
}
impl Clone for Version {
    #[verifier::external_body]
    fn clone(&self) -> (r: Self)
        ensures r == *self,
    { unimplemented!() }
}
impl Clone for UrlPath {
    #[verifier::external_body]
    fn clone(&self) -> (r: Self)
        ensures r == *self,
    { unimplemented!() }
}
pub assume_specification [<PathBuf as Clone>::clone] (p: &PathBuf) -> (r: PathBuf)
    ensures r == *p;

/// E3': `#[derive(Clone)]` on Release, written out as what the derive expands to (field-wise clone) and VERIFIED against `r == *self`
impl Clone for Release {
    fn clone(&self) -> (r: Self)
        ensures r == *self,
    {
        Release { version: self.version.clone(), revision: self.revision.clone() }
    }
}

// ---- what the contracts talk about ------------------------------------------------------------------------------------
/// a lock that may serve (project, req): a repository lock of that project whose locked version satisfies the requirement
spec fn lock_matches(l: Lock, project: Seq<char>, req: VersionReq) -> bool {
    match l.source {
        LockSource::Repository(x) => x.project@ == project && sat(req, x.version),
        LockSource::Path(_) => false,
    }
}
/// the lock table as a finite map url -> sequence of locks (vstd's view of HashMap, vectors replaced by their views)
spec fn tv(t: HashMap<UrlPath, Vec<Lock>>) -> Map<UrlPath, Seq<Lock>> {
    Map::new(t@.dom(), |u: UrlPath| t@[u]@)
}
/// the locks recorded for `url`, in table order (empty if the url has no entry)
spec fn locks_of(t: Map<UrlPath, Seq<Lock>>, url: UrlPath) -> Seq<Lock> {
    if t.contains_key(url) { t[url] } else { Seq::<Lock>::empty() }
}
/// `k` is the index of the FIRST lock of `ls` that may serve (project, req)
spec fn first_match_at(ls: Seq<Lock>, k: int, project: Seq<char>, req: VersionReq) -> bool {
    &&& 0 <= k < ls.len()
    &&& lock_matches(ls[k], project, req)
    &&& forall|j: int| 0 <= j < k ==> !lock_matches(#[trigger] ls[j], project, req)
}
spec fn no_match(ls: Seq<Lock>, project: Seq<char>, req: VersionReq) -> bool {
    forall|j: int| 0 <= j < ls.len() ==> !lock_matches(#[trigger] ls[j], project, req)
}
/// (release, path) is built from lock `l`: version, revision and path are the lock's
spec fn built_from(rel: Release, path: PathBuf, l: Lock) -> bool {
    match l.source {
        LockSource::Repository(x) => rel.version == x.version && rel.revision@ == x.revision@ && path == x.path,
        LockSource::Path(_) => false,
    }
}
/// everything of a Lockfile that the three functions could touch is as before (the table as the map url -> sequence of locks)
spec fn same_lockfile(a: Lockfile, b: Lockfile) -> bool {
    &&& tv(a.lock_table) =~= tv(b.lock_table)
    &&& a.force_update == b.force_update
    &&& a.version == b.version
    &&& a.projects == b.projects
    &&& a.metadata_path == b.metadata_path
}

/// `rel` is A HIGHEST published release satisfying `req`: it is published, it satisfies, and every published release that satisfies is <= it
pub open spec fn highest_sat(rs: Seq<Release>, req: VersionReq, rel: Release) -> bool {
    &&& rs.contains(rel)
    &&& sat(req, rel.version)
    &&& forall|k: int| 0 <= k < rs.len() && sat(req, (#[trigger] rs[k]).version) ==> ver_le(rs[k].version, rel.version)
}
pub open spec fn none_sat(rs: Seq<Release>, req: VersionReq) -> bool {
    forall|k: int| 0 <= k < rs.len() ==> !sat(req, (#[trigger] rs[k]).version)
}

// ---- ghost world: what the outlined (network / file system) side did ---------------------------------------------------
/// `Ghost<World>` is threaded through resolve_version / resolve_version_from_latest (rule G1). Erased at run time.
pub struct World {
    /// number of `git clone/open` of a dependency repository (entries into the network side)
    pub clones: nat,
    /// number of git fetch / checkout operations
    pub git_ops: nat,
    /// the cache directory lock "resolve" is held
    pub resolve_locked: bool,
    /// result of the most recent `search_project`
    pub prj_path: Option<PathBuf>,
    /// number of successful `Pubfile::load`
    pub pub_loads: nat,
    /// releases of the most recently loaded Veryl.pub, in file order
    pub published: Seq<Release>,
}

/// postcondition of resolve_version_from_latest, also what resolve_version promises whenever it goes to the network side
pub open spec fn latest_post(w0: World, w1: World, req: VersionReq, r: Result<(Release, PathBuf), MetadataError>) -> bool {
    // the network side was entered at most once, and exactly once if a Veryl.pub was read
    &&& w1.clones <= w0.clones + 1
    &&& w1.pub_loads <= w0.pub_loads + 1
    &&& w1.pub_loads == w0.pub_loads + 1 ==> w1.clones == w0.clones + 1 && !w1.resolve_locked
    // Ok: a highest satisfying release of the Veryl.pub just read, and the project path just found
    &&& r is Ok ==> {
        &&& w1.pub_loads == w0.pub_loads + 1
        &&& highest_sat(w1.published, req, r->Ok_0.0)
        &&& w1.prj_path == Some(r->Ok_0.1)
    }
    // VersionNotFound iff a Veryl.pub was read and none of its releases satisfies
    &&& (r is Err && r->Err_0 is VersionNotFound) <==> (w1.pub_loads == w0.pub_loads + 1 && none_sat(w1.published, req))
}

// ---- outlined calls (assumed contracts) -----------------------------------------------------------------------------------
/// O-map: HashMap::get_mut on the lock table (finite-map contract; `t@` is vstd's view of HashMap)
#[verifier::external_body]
fn vp_table_get_mut<'a>(t: &'a mut HashMap<UrlPath, Vec<Lock>>, url: &UrlPath) -> (r: Option<&'a mut Vec<Lock>>)
    ensures
        match r {
            Some(x) => old(t)@.contains_key(*url) && *x == old(t)@[*url] && final(t)@ == old(t)@.insert(*url, *final(x)),
            None => !old(t)@.contains_key(*url) && final(t)@ == old(t)@,
        },
{ unimplemented!() }

/// O13: `String == &str`
#[verifier::external_body]
fn vp_str_eq(a: &String, b: &str) -> (r: bool)
    ensures r == (a@ == b@),
{ a == b }

/// O-sort: `Vec::sort_by(cmp)`: a permutation of the input in which no earlier element compares Greater than a later one
/// (precondition of the real function, not checked: `cmp` is a total order)
#[verifier::external_body]
fn vp_sort_by<F: Fn(&Release, &Release) -> Ordering>(v: &mut Vec<Release>, cmp: F)
    requires forall|a: &Release, b: &Release| cmp.requires((a, b)),
    ensures
        final(v)@.to_multiset() == old(v)@.to_multiset(),
        forall|i: int, j: int| 0 <= i < j < final(v)@.len() ==>
            cmp.ensures((&#[trigger] final(v)@[i], &#[trigger] final(v)@[j]), Ordering::Less) || cmp.ensures((&final(v)@[i], &final(v)@[j]), Ordering::Equal),
{ v.sort_by(cmp) }

// file system / cache directory (no effect on the ghost world; results arbitrary; errors are never VersionNotFound)
#[verifier::external_body]
fn vp_cache_subdir(name: &str) -> (r: PathBuf) { unimplemented!() }
#[verifier::external_body]
fn vp_path_exists(p: &PathBuf) -> (r: bool) { unimplemented!() }
#[verifier::external_body]
fn vp_create_dir_all(p: &PathBuf) -> (r: Result<(), MetadataError>)
    ensures r is Err ==> !(r->Err_0 is VersionNotFound),
{ unimplemented!() }
#[verifier::external_body]
fn vp_resolve_path(url: &UrlPath) -> (r: Result<PathBuf, MetadataError>)
    ensures r is Err ==> !(r->Err_0 is VersionNotFound),
{ unimplemented!() }
#[verifier::external_body]
fn vp_pub_path(path: &PathBuf, prj_path: &PathBuf) -> (r: PathBuf) { unimplemented!() }

// directory lock protocol
#[verifier::external_body]
fn vp_lock_dir(vp_w: &mut Ghost<World>, name: &str) -> (r: Result<std::fs::File, MetadataError>)
    ensures
        r is Ok ==> final(vp_w)@ == (World { resolve_locked: true, ..old(vp_w)@ }),
        r is Err ==> *final(vp_w) == *old(vp_w) && !(r->Err_0 is VersionNotFound),
{ unimplemented!() }
#[verifier::external_body]
fn vp_unlock_dir(vp_w: &mut Ghost<World>, lock: std::fs::File) -> (r: Result<(), MetadataError>)
    requires old(vp_w)@.resolve_locked,
    ensures
        // the File is consumed either way (dropping it releases the lock)
        final(vp_w)@ == (World { resolve_locked: false, ..old(vp_w)@ }),
        r is Err ==> !(r->Err_0 is VersionNotFound),
{ unimplemented!() }

// git: only under the directory lock
#[verifier::external_body]
fn vp_git_clone(vp_w: &mut Ghost<World>, lf: &Lockfile, url: &UrlPath, path: &PathBuf) -> (r: Result<Git, MetadataError>)
    requires old(vp_w)@.resolve_locked,
    ensures
        final(vp_w)@ == (World { clones: old(vp_w)@.clones + 1, ..old(vp_w)@ }),
        r is Err ==> !(r->Err_0 is VersionNotFound),
{ unimplemented!() }
#[verifier::external_body]
fn vp_git_fetch(vp_w: &mut Ghost<World>, git: &Git) -> (r: Result<(), MetadataError>)
    requires old(vp_w)@.resolve_locked,
    ensures
        final(vp_w)@ == (World { git_ops: old(vp_w)@.git_ops + 1, ..old(vp_w)@ }),
        r is Err ==> !(r->Err_0 is VersionNotFound),
{ unimplemented!() }
#[verifier::external_body]
fn vp_git_checkout(vp_w: &mut Ghost<World>, git: &Git, rev: Option<&str>) -> (r: Result<(), MetadataError>)
    requires old(vp_w)@.resolve_locked,
    ensures
        final(vp_w)@ == (World { git_ops: old(vp_w)@.git_ops + 1, ..old(vp_w)@ }),
        r is Err ==> !(r->Err_0 is VersionNotFound),
{ unimplemented!() }

#[verifier::external_body]
fn vp_search_project(vp_w: &mut Ghost<World>, path: &PathBuf, project: &str) -> (r: Option<PathBuf>)
    ensures final(vp_w)@ == (World { prj_path: r, ..old(vp_w)@ }),
{ unimplemented!() }

/// `Pubfile::load`: may fail; a delivered Pubfile is recorded, in file order, as the published releases
#[verifier::external_body]
fn vp_pubfile_load(vp_w: &mut Ghost<World>, toml: PathBuf) -> (r: Result<Pubfile, MetadataError>)
    ensures
        r is Ok ==> final(vp_w)@ == (World { pub_loads: old(vp_w)@.pub_loads + 1, published: r->Ok_0.releases@, ..old(vp_w)@ }),
        r is Err ==> *final(vp_w) == *old(vp_w) && !(r->Err_0 is VersionNotFound),
{ unimplemented!() }

// ---- lemmas ---------------------------------------------------------------------------------------------------------------
/// the first matching lock is unique
proof fn lemma_first_match_unique(ls: Seq<Lock>, k1: int, k2: int, project: Seq<char>, req: VersionReq)
    requires first_match_at(ls, k1, project, req), first_match_at(ls, k2, project, req),
    ensures k1 == k2,
{
    if k1 < k2 { assert(!lock_matches(ls[k1], project, req)); }
    if k2 < k1 { assert(!lock_matches(ls[k2], project, req)); }
}

/// a permutation has the same members
proof fn lemma_perm_contains(a: Seq<Release>, b: Seq<Release>)
    requires a.to_multiset() == b.to_multiset(),
    ensures forall|x: Release| a.contains(x) <==> b.contains(x),
{
    a.to_multiset_ensures();
    b.to_multiset_ensures();
    assert forall|x: Release| a.contains(x) <==> b.contains(x) by {
        assert(a.contains(x) <==> a.to_multiset().count(x) > 0);
        assert(b.contains(x) <==> b.to_multiset().count(x) > 0);
    }
}

/// selection from a list sorted in descending order: the first satisfying element of the sorted list is a highest satisfying
/// release of the published list (this is the whole argument of resolve_version_from_latest's loop, stated on sequences)
proof fn lemma_first_sat_of_sorted_is_highest(rs: Seq<Release>, sorted: Seq<Release>, req: VersionReq, i: int)
    requires
        sorted.to_multiset() == rs.to_multiset(),
        forall|a: int, b: int| 0 <= a < b < sorted.len() ==> ver_le((#[trigger] sorted[b]).version, (#[trigger] sorted[a]).version),
        0 <= i < sorted.len(),
        sat(req, sorted[i].version),
        forall|j: int| 0 <= j < i ==> !sat(req, (#[trigger] sorted[j]).version),
    ensures highest_sat(rs, req, sorted[i]),
{
    broadcast use group_ver_order;
    lemma_perm_contains(sorted, rs);
    assert(sorted.contains(sorted[i]));
    assert forall|k: int| 0 <= k < rs.len() && sat(req, (#[trigger] rs[k]).version) implies ver_le(rs[k].version, sorted[i].version) by {
        assert(rs.contains(rs[k]));
        assert(sorted.contains(rs[k]));
        let m = choose|m: int| 0 <= m < sorted.len() && sorted[m] == rs[k];
        if m < i { assert(!sat(req, sorted[m].version)); }
        if m == i { assert(ver_le(sorted[i].version, sorted[i].version)); }
    }
}

/// if nothing in the sorted list satisfies, nothing published does
proof fn lemma_none_sat_perm(rs: Seq<Release>, sorted: Seq<Release>, req: VersionReq)
    requires sorted.to_multiset() == rs.to_multiset(), none_sat(sorted, req),
    ensures none_sat(rs, req),
{
    lemma_perm_contains(sorted, rs);
    assert forall|k: int| 0 <= k < rs.len() implies !sat(req, (#[trigger] rs[k]).version) by {
        assert(rs.contains(rs[k]));
        let m = choose|m: int| 0 <= m < sorted.len() && sorted[m] == rs[k];
        assert(!sat(req, sorted[m].version));
    }
}

/// "the highest published release that satisfies" is well defined as a VERSION: two highest satisfying releases of the same
/// published list carry the same version (they may differ in revision only if the Veryl.pub lists one version twice)
proof fn lemma_highest_version_unique(rs: Seq<Release>, req: VersionReq, r1: Release, r2: Release)
    requires highest_sat(rs, req, r1), highest_sat(rs, req, r2),
    ensures r1.version == r2.version,
{
    broadcast use group_ver_order;
    let k1 = choose|k: int| 0 <= k < rs.len() && rs[k] == r1;
    let k2 = choose|k: int| 0 <= k < rs.len() && rs[k] == r2;
    assert(ver_le(rs[k1].version, r2.version));
    assert(ver_le(rs[k2].version, r1.version));
}

/// ... and it does not depend on the order in which Veryl.pub lists the releases
proof fn lemma_highest_order_independent(rs1: Seq<Release>, rs2: Seq<Release>, req: VersionReq, r1: Release, r2: Release)
    requires rs1.to_multiset() == rs2.to_multiset(), highest_sat(rs1, req, r1), highest_sat(rs2, req, r2),
    ensures r1.version == r2.version,
{
    broadcast use group_ver_order;
    lemma_perm_contains(rs1, rs2);
    assert(rs2.contains(r1));
    assert(rs1.contains(r2));
    let k1 = choose|k: int| 0 <= k < rs2.len() && rs2[k] == r1;
    let k2 = choose|k: int| 0 <= k < rs1.len() && rs1[k] == r2;
    assert(ver_le(rs2[k1].version, r2.version));
    assert(ver_le(rs1[k2].version, r1.version));
}

// ---- gen_locks: name suffixing ------------------------------------------------------------------------------------------------
/// `format!("{name}_{suffix}")`: uninterpreted
pub uninterp spec fn suffixed(name: Seq<char>, suffix: int) -> Seq<char>;

/// O-set: HashSet<String>::contains / insert (finite-set contract over the strings' characters; `vp_names` is the set's view)
pub uninterp spec fn names_of(t: HashSet<String>) -> Set<Seq<char>>;
#[verifier::external_body]
fn vp_set_contains(t: &HashSet<String>, x: &String) -> (r: bool)
    ensures r == names_of(*t).contains(x@),
{ t.contains(x) }
#[verifier::external_body]
fn vp_set_insert(t: &mut HashSet<String>, x: String) -> (r: bool)
    ensures names_of(*final(t)) == names_of(*old(t)).insert(x@), r == !names_of(*old(t)).contains(x@),
{ t.insert(x) }
/// O4: `format!("{name}_{suffix}")`
#[verifier::external_body]
fn vp_format_suffix(name: &String, suffix: i32) -> (r: String)
    ensures r@ == suffixed(name@, suffix as int),
{ format!("{name}_{suffix}") }

/// names handed out one after the other, each fresh with respect to a table that already holds all earlier ones (whatever else was
/// inserted in between, e.g. by the recursive calls of gen_locks), are pairwise distinct
proof fn lemma_fresh_names_distinct(tables: Seq<Set<Seq<char>>>, names: Seq<Seq<char>>, i: int, j: int)
    requires
        tables.len() == names.len() + 1,
        // step k: names[k] is not in tables[k]; tables[k + 1] holds tables[k] and names[k]
        forall|k: int| 0 <= k < names.len() ==> !(#[trigger] tables[k]).contains(names[k]),
        forall|k: int| 0 <= k < names.len() ==> (#[trigger] tables[k]).insert(names[k]).subset_of(tables[k + 1]),
        0 <= i < j < names.len(),
    ensures names[i] != names[j],
{
    lemma_tables_grow(tables, names, i + 1, j);
    assert(tables[i].insert(names[i]).contains(names[i]));
    assert(tables[i + 1].contains(names[i]));
}
proof fn lemma_tables_grow(tables: Seq<Set<Seq<char>>>, names: Seq<Seq<char>>, a: int, b: int)
    requires
        tables.len() == names.len() + 1,
        forall|k: int| 0 <= k < names.len() ==> (#[trigger] tables[k]).insert(names[k]).subset_of(tables[k + 1]),
        0 <= a <= b <= names.len(),
    ensures tables[a].subset_of(tables[b]),
    decreases b - a,
{
    if a < b {
        lemma_tables_grow(tables, names, a, b - 1);
        assert(tables[b - 1].insert(names[b - 1]).subset_of(tables[b]));
        assert forall|x: Seq<char>| tables[a].contains(x) implies tables[b].contains(x) by {
            assert(tables[b - 1].contains(x));
            assert(tables[b - 1].insert(names[b - 1]).contains(x));
        }
    }
}
