"""Mechanical extraction of crates/analyzer/src/value.rs (+ ir/op.rs) into a stand-alone module text
shared by the Kani units value64 / opeval / svlogic / range."""
V = "crates/analyzer/src/value.rs"
OP = "crates/analyzer/src/ir/op.rs"

U64_FNS = ["new", "new_x", "new_z", "new_bit_1x", "new_bit_0x", "new_bit_x1", "new_bit_x0", "is_xz", "gen_mask",
           "gen_mask_range", "trunc", "select", "assign", "to_usize", "to_u32", "to_u64", "to_i64"]
BIG_FNS = ["new", "new_biguint", "new_bigint", "new_x", "new_z", "is_xz", "payload", "mask_xz", "gen_mask",
           "gen_mask_range", "trunc", "select", "assign", "to_usize", "to_u32", "to_bigint", "to_value_u64"]
VALUE_FNS = ["new", "new_biguint", "new_x", "new_z", "is_xz", "payload", "mask_xz", "select", "trunc", "concat", "expand",
             "assign", "set_value", "clear_xz", "width", "signed", "set_signed", "to_usize", "to_shift_amount", "to_u32", "to_u64"]

PRELUDE = """pub type HashMap<K, V> = fxhash::FxHashMap<K, V>;
pub type BigInt = num_bigint::BigInt;
pub type BigUint = num_bigint::BigUint;
pub type Sign = num_bigint::Sign;
"""

DEPS = {"num-bigint": '"0.5"', "num-traits": '"0.2.19"', "fxhash": '"0.2.1"'}

VALUE_USE = """use crate::{BigInt, BigUint, HashMap, Sign};
use num_traits::{Num, One, ToPrimitive, Zero, one, zero};
use std::borrow::Cow;
use std::{fmt, str};
"""


def value_module(ctx, contracts=None, extra_value_fns=(), extra_items=(), u64_fns=None, value_fns=None):
    """-> (text of `pub mod value {..}`, items). contracts: {("ValueU64","select"): attribute text}"""
    src = ctx.src(V)
    contracts = contracts or {}
    items = []
    out = ["pub mod value {", VALUE_USE]

    def add(it, key=None):
        if key in contracts:
            it.prepend(contracts[key])
        items.append(it)
        out.append(it.render())

    s = src.item("struct", "ValueU64"); s.strip_derive("Serialize", "Deserialize"); add(s)
    out.append("impl ValueU64 {")
    for f in (u64_fns or U64_FNS):
        add(src.item("fn", f, impl="ValueU64"), ("ValueU64", f))
    out.append("}")
    s = src.item("struct", "ValueBigUint"); s.strip_derive("Serialize", "Deserialize"); add(s)
    out.append("impl ValueBigUint {")
    for f in BIG_FNS:
        add(src.item("fn", f, impl="ValueBigUint"), ("ValueBigUint", f))
    out.append("}")
    s = src.item("enum", "Value"); s.strip_derive("Serialize", "Deserialize"); add(s)
    out.append("impl Value {")
    for f in list(value_fns or VALUE_FNS) + list(extra_value_fns):
        add(src.item("fn", f, impl="Value"), ("Value", f))
    out.append("}")
    add(src.item("struct", "MaskCache"))
    out.append("impl MaskCache {")
    add(src.item("fn", "get", impl="MaskCache"), ("MaskCache", "get"))
    out.append("}")
    for kind, name, impl in extra_items:
        if kind == "impl":
            add(src.item("impl", name))
        else:
            add(src.item(kind, name, impl=impl))
    out.append("}")
    return "\n".join(out) + "\n", items


OP_USE = """use crate::value::{MaskCache, Value, ValueBigUint, ValueU64};
use crate::{BigUint, Sign};
use num_traits::{One, ToPrimitive, Zero};
"""


UF_RULES = [
    # E10: machine multiply/divide on 64-bit words are taken as primitives: in the job `opeval_uf` they are replaced, in the
    # code AND in the reference, by the same uninterpreted function (Ackermann encoding), so the proof holds for every binary
    # function in their place - in particular for the real operations. Natively (replay) crate::uf calls the real operations.
    ("x.payload.wrapping_mul(y.payload)", "crate::uf::mul(x.payload, y.payload)", 1),
    ("x.payload / y.payload", "crate::uf::udiv(x.payload, y.payload)", 1),
    ("x.payload % y.payload", "crate::uf::urem(x.payload, y.payload)", 1),
    ("xs.checked_div(ys)", "crate::uf::checked_div(xs, ys)", 1),
    ("xs.checked_rem(ys)", "crate::uf::checked_rem(xs, ys)", 1),
]

UF_MODULE = r"""
pub mod uf {
    // 64-bit multiply / divide / remainder as uninterpreted functions (see rule E10).
    #[cfg(kani)]
    static mut MEMO: [(bool, u64, u64, u64); 5] = [(false, 0, 0, 0); 5];
    /// Ackermann encoding for at most two applications per function symbol: the first application is remembered,
    /// a second application to the same arguments returns the same value, to different arguments an arbitrary one.
    #[cfg(kani)]
    fn app(slot: usize, a: u64, b: u64) -> u64 {
        unsafe {
            let (set, pa, pb, pr) = MEMO[slot];
            if set && pa == a && pb == b { return pr; }
            let r: u64 = kani::any();
            if !set { MEMO[slot] = (true, a, b, r); }
            r
        }
    }
    #[cfg(kani)] pub fn mul(a: u64, b: u64) -> u64 { app(0, a, b) }
    #[cfg(kani)] pub fn udiv(a: u64, b: u64) -> u64 { assert!(b != 0); app(1, a, b) }
    #[cfg(kani)] pub fn urem(a: u64, b: u64) -> u64 { assert!(b != 0); app(2, a, b) }
    #[cfg(kani)] pub fn sdiv(a: i64, b: i64) -> i64 { app(3, a as u64, b as u64) as i64 }
    #[cfg(kani)] pub fn srem(a: i64, b: i64) -> i64 { app(4, a as u64, b as u64) as i64 }
    #[cfg(not(kani))] pub fn mul(a: u64, b: u64) -> u64 { a.wrapping_mul(b) }
    #[cfg(not(kani))] pub fn udiv(a: u64, b: u64) -> u64 { a / b }
    #[cfg(not(kani))] pub fn urem(a: u64, b: u64) -> u64 { a % b }
    #[cfg(not(kani))] pub fn sdiv(a: i64, b: i64) -> i64 { a.wrapping_div(b) }
    #[cfg(not(kani))] pub fn srem(a: i64, b: i64) -> i64 { a.wrapping_rem(b) }
    /// i64::checked_div / checked_rem: None exactly on a zero divisor or MIN / -1, else the primitive
    pub fn checked_div(a: i64, b: i64) -> Option<i64> { if b == 0 || (a == i64::MIN && b == -1) { None } else { Some(sdiv(a, b)) } }
    pub fn checked_rem(a: i64, b: i64) -> Option<i64> { if b == 0 || (a == i64::MIN && b == -1) { None } else { Some(srem(a, b)) } }
}
"""

UF_TRUST = {
    r"unsafe \{": "E10: static memo table of the Ackermann-encoded uninterpreted functions (harness code, not extracted code)",
    r"static mut MEMO": "E10: static memo table of the Ackermann-encoded uninterpreted functions (harness code, not extracted code)",
}


def op_module(ctx, uf=False):
    src = ctx.src(OP)
    items = []
    out = ["pub mod op {", OP_USE]
    for kind, name, impl in [("enum", "Op", None), ("fn", "b0", None), ("fn", "b1", None), ("fn", "pow_mod_width", None)]:
        it = src.item(kind, name, impl=impl)
        items.append(it)
        out.append(it.render())
    out.append("impl Op {")
    for f in ["eval_value_unary", "eval_value_binary"]:
        it = src.item("fn", f, impl="Op")
        if uf and f == "eval_value_binary":
            for old, new, n in UF_RULES:
                it.replace(old, new, count=n, rule="E10")
        items.append(it)
        out.append(it.render())
    out.append("}\n}")
    return "\n".join(out) + "\n", items


BIG_STUBS = """
// E9: for the <=64-bit proofs every constructor of the big-integer representation is stubbed with panic!:
// if any <=64-bit input could reach big-integer code, the harness fails (so unreachability is proved, not assumed).
#[cfg(kani)]
pub mod bigstub {
    use crate::value::{MaskCache, ValueBigUint};
    use crate::{BigInt, BigUint};
    pub fn st_get<'a>(_c: &'a mut MaskCache, _w: usize) -> &'a BigUint { panic!("big-integer path reached from a <=64-bit input") }
    pub fn st_gen_mask(_w: usize) -> BigUint { panic!("big-integer path reached from a <=64-bit input") }
    pub fn st_new_x(_w: usize, _s: bool) -> ValueBigUint { panic!("big-integer path reached from a <=64-bit input") }
    pub fn st_new_z(_w: usize, _s: bool) -> ValueBigUint { panic!("big-integer path reached from a <=64-bit input") }
    pub fn st_new(_p: u64, _w: usize, _s: bool) -> ValueBigUint { panic!("big-integer path reached from a <=64-bit input") }
    pub fn st_new_biguint(_p: BigUint, _w: usize, _s: bool) -> ValueBigUint { panic!("big-integer path reached from a <=64-bit input") }
    pub fn st_new_bigint(_p: BigInt, _w: usize, _s: bool) -> ValueBigUint { panic!("big-integer path reached from a <=64-bit input") }
    pub fn st_from_u64(_v: u64) -> BigUint { panic!("big-integer path reached from a <=64-bit input") }
    pub fn st_from_u32(_v: u32) -> BigUint { panic!("big-integer path reached from a <=64-bit input") }
    pub fn st_zero() -> BigUint { panic!("big-integer path reached from a <=64-bit input") }
    pub fn st_payload<'a>(_s: &'a ValueBigUint) -> &'a BigUint { panic!("big-integer path reached from a <=64-bit input") }
    pub fn st_is_xz(_s: &ValueBigUint) -> bool { panic!("big-integer path reached from a <=64-bit input") }
    pub fn st_to_bigint(_s: &ValueBigUint) -> Option<BigInt> { panic!("big-integer path reached from a <=64-bit input") }
    pub fn st_clone(_s: &ValueBigUint) -> ValueBigUint { panic!("big-integer path reached from a <=64-bit input") }
}
"""

STUB_ATTRS = "\n".join("#[cfg_attr(kani, kani::stub(crate::value::%s, crate::bigstub::%s))]" % (a, b) for a, b in [
    ("MaskCache::get", "st_get"), ("ValueBigUint::gen_mask", "st_gen_mask"), ("ValueBigUint::new_x", "st_new_x"),
    ("ValueBigUint::new_z", "st_new_z"), ("ValueBigUint::new", "st_new"), ("ValueBigUint::new_biguint", "st_new_biguint"),
    ("ValueBigUint::new_bigint", "st_new_bigint"), ("ValueBigUint::payload", "st_payload"), ("ValueBigUint::mask_xz", "st_payload"),
    ("ValueBigUint::is_xz", "st_is_xz"), ("ValueBigUint::to_bigint", "st_to_bigint")]) + """
#[cfg_attr(kani, kani::stub(<num_bigint::BigUint as core::convert::From<u64>>::from, crate::bigstub::st_from_u64))]
#[cfg_attr(kani, kani::stub(<num_bigint::BigUint as core::convert::From<u32>>::from, crate::bigstub::st_from_u32))]
#[cfg_attr(kani, kani::stub(<num_bigint::BigUint as num_traits::Zero>::zero, crate::bigstub::st_zero))]
#[cfg_attr(kani, kani::stub(<crate::value::ValueBigUint as core::clone::Clone>::clone, crate::bigstub::st_clone))]"""

STUB_TRUST = {
    r"kani::stub\(<crate::value::ValueBigUint as": "E9: ValueBigUint::clone stubbed with panic! in <=64-bit harnesses (reaching big-integer code fails the harness)",
    r"kani::stub\(<num_bigint::BigUint as": "E9: BigUint::from(u64/u32) / BigUint::zero() stubbed with panic! in <=64-bit harnesses (reaching big-integer code fails the harness)",
    r"kani::stub\(crate::value::": "E9: ValueBigUint constructors / MaskCache::get stubbed with panic! in <=64-bit harnesses (reaching them fails the harness)",
}


def expand_harness_attrs(text, unwind=2):
    """`#[vp_proof]` / `#[vp_proof_big]` markers in harness files -> attribute blocks"""
    text = text.replace("#[vp_proof]", "#[cfg_attr(kani, kani::proof)]\n#[cfg_attr(kani, kani::unwind(%d))]\n%s" % (unwind, STUB_ATTRS))
    return text
