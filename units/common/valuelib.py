"""Mechanical extraction of crates/analyzer/src/value.rs (+ ir/op.rs) into a stand-alone module text
shared by the Kani units value64 / opeval / svlogic / range."""
V = "crates/analyzer/src/value.rs"
OP = "crates/analyzer/src/ir/op.rs"

U64_FNS = ["new", "new_x", "new_z", "new_bit_1x", "new_bit_0x", "new_bit_x1", "new_bit_x0", "is_xz", "gen_mask",
           "gen_mask_range", "trunc", "select", "assign", "to_usize", "to_u32", "to_u64", "to_i64"]
BIG_FNS = ["new", "new_biguint", "new_bigint", "new_x", "new_z", "is_xz", "payload", "mask_xz", "gen_mask",
           "gen_mask_range", "trunc", "select", "assign", "to_usize", "to_u32", "to_bigint", "to_value_u64"]
VALUE_FNS = ["new", "new_biguint", "new_x", "new_z", "is_xz", "payload", "mask_xz", "select", "trunc", "concat", "expand",
             "assign", "set_value", "clear_xz", "width", "signed", "set_signed", "to_usize", "to_shift_amount", "to_u32", "to_u64"]

PRELUDE = """pub type HashMap<K, V> = fxhash::FxHashMap<K, V>;
pub type BigInt = num_bigint::BigInt;
pub type BigUint = num_bigint::BigUint;
pub type Sign = num_bigint::Sign;
"""

DEPS = {"num-bigint": '"0.5"', "num-traits": '"0.2.19"', "fxhash": '"0.2.1"'}

VALUE_USE = """use crate::{BigInt, BigUint, HashMap, Sign};
use num_traits::{Num, One, ToPrimitive, Zero, one, zero};
use std::borrow::Cow;
use std::{fmt, str};
"""


def value_module(ctx, contracts=None, extra_value_fns=(), extra_items=(), u64_fns=None, value_fns=None):
    """-> (text of `pub mod value {..}`, items). contracts: {("ValueU64","select"): attribute text}"""
    src = ctx.src(V)
    contracts = contracts or {}
    items = []
    out = ["pub mod value {", VALUE_USE]

    def add(it, key=None):
        if key in contracts:
            it.prepend(contracts[key])
        items.append(it)
        out.append(it.render())

    s = src.item("struct", "ValueU64"); s.strip_derive("Serialize", "Deserialize"); add(s)
    out.append("impl ValueU64 {")
    for f in (u64_fns or U64_FNS):
        add(src.item("fn", f, impl="ValueU64"), ("ValueU64", f))
    out.append("}")
    s = src.item("struct", "ValueBigUint"); s.strip_derive("Serialize", "Deserialize"); add(s)
    out.append("impl ValueBigUint {")
    for f in BIG_FNS:
        add(src.item("fn", f, impl="ValueBigUint"), ("ValueBigUint", f))
    out.append("}")
    s = src.item("enum", "Value"); s.strip_derive("Serialize", "Deserialize"); add(s)
    out.append("impl Value {")
    for f in list(value_fns or VALUE_FNS) + list(extra_value_fns):
        add(src.item("fn", f, impl="Value"), ("Value", f))
    out.append("}")
    add(src.item("struct", "MaskCache"))
    out.append("impl MaskCache {")
    add(src.item("fn", "get", impl="MaskCache"), ("MaskCache", "get"))
    out.append("}")
    for kind, name, impl in extra_items:
        if kind == "impl":
            add(src.item("impl", name))
        else:
            add(src.item(kind, name, impl=impl))
    out.append("}")
    return "\n".join(out) + "\n", items


OP_USE = """use crate::value::{MaskCache, Value, ValueBigUint, ValueU64};
use crate::{BigUint, Sign};
use num_traits::{One, ToPrimitive, Zero};
"""


def op_module(ctx):
    src = ctx.src(OP)
    items = []
    out = ["pub mod op {", OP_USE]
    for kind, name, impl in [("enum", "Op", None), ("fn", "b0", None), ("fn", "b1", None), ("fn", "pow_mod_width", None)]:
        it = src.item(kind, name, impl=impl)
        items.append(it)
        out.append(it.render())
    out.append("impl Op {")
    for f in ["eval_value_unary", "eval_value_binary"]:
        it = src.item("fn", f, impl="Op")
        items.append(it)
        out.append(it.render())
    out.append("}\n}")
    return "\n".join(out) + "\n", items


BIG_STUBS = """
// E9: for the <=64-bit proofs every constructor of the big-integer representation is stubbed with panic!:
// if any <=64-bit input could reach big-integer code, the harness fails (so unreachability is proved, not assumed).
#[cfg(kani)]
pub mod bigstub {
    use crate::value::{MaskCache, ValueBigUint};
    use crate::{BigInt, BigUint};
    pub fn st_get<'a>(_c: &'a mut MaskCache, _w: usize) -> &'a BigUint { panic!("big-integer path reached from a <=64-bit input") }
    pub fn st_gen_mask(_w: usize) -> BigUint { panic!("big-integer path reached from a <=64-bit input") }
    pub fn st_new_x(_w: usize, _s: bool) -> ValueBigUint { panic!("big-integer path reached from a <=64-bit input") }
    pub fn st_new_z(_w: usize, _s: bool) -> ValueBigUint { panic!("big-integer path reached from a <=64-bit input") }
    pub fn st_new(_p: u64, _w: usize, _s: bool) -> ValueBigUint { panic!("big-integer path reached from a <=64-bit input") }
    pub fn st_new_biguint(_p: BigUint, _w: usize, _s: bool) -> ValueBigUint { panic!("big-integer path reached from a <=64-bit input") }
    pub fn st_new_bigint(_p: BigInt, _w: usize, _s: bool) -> ValueBigUint { panic!("big-integer path reached from a <=64-bit input") }
    pub fn st_from_u64(_v: u64) -> BigUint { panic!("big-integer path reached from a <=64-bit input") }
    pub fn st_from_u32(_v: u32) -> BigUint { panic!("big-integer path reached from a <=64-bit input") }
    pub fn st_zero() -> BigUint { panic!("big-integer path reached from a <=64-bit input") }
}
"""

STUB_ATTRS = "\n".join("#[cfg_attr(kani, kani::stub(crate::value::%s, crate::bigstub::%s))]" % (a, b) for a, b in [
    ("MaskCache::get", "st_get"), ("ValueBigUint::gen_mask", "st_gen_mask"), ("ValueBigUint::new_x", "st_new_x"),
    ("ValueBigUint::new_z", "st_new_z"), ("ValueBigUint::new", "st_new"), ("ValueBigUint::new_biguint", "st_new_biguint"),
    ("ValueBigUint::new_bigint", "st_new_bigint")]) + """
#[cfg_attr(kani, kani::stub(<num_bigint::BigUint as core::convert::From<u64>>::from, crate::bigstub::st_from_u64))]
#[cfg_attr(kani, kani::stub(<num_bigint::BigUint as core::convert::From<u32>>::from, crate::bigstub::st_from_u32))]
#[cfg_attr(kani, kani::stub(<num_bigint::BigUint as num_traits::Zero>::zero, crate::bigstub::st_zero))]"""

STUB_TRUST = {
    r"kani::stub\(<num_bigint::BigUint as": "E9: BigUint::from(u64/u32) / BigUint::zero() stubbed with panic! in <=64-bit harnesses (reaching big-integer code fails the harness)",
    r"kani::stub\(crate::value::": "E9: ValueBigUint constructors / MaskCache::get stubbed with panic! in <=64-bit harnesses (reaching them fails the harness)",
}


def expand_harness_attrs(text, unwind=2):
    """`#[vp_proof]` / `#[vp_proof_big]` markers in harness files -> attribute blocks"""
    text = text.replace("#[vp_proof]", "#[cfg_attr(kani, kani::proof)]\n#[cfg_attr(kani, kani::unwind(%d))]\n%s" % (unwind, STUB_ATTRS))
    return text
